#!/usr/bin/env python3
"""Generates the LocalNetwork problems of the C04 history explorer (committed
output: net2d.gkf, levfree.gkf, net2dfree.gkf, bridge2d.gkf, net3dh.gkf)."""
import sys, os
sys.path.insert(0, os.path.join(os.path.dirname(os.path.abspath(__file__)), "..", "..", "lib"))
from gnet import *
here = os.path.dirname(os.path.abspath(__file__))
def noise(k): return (((k * 7 + 3) % 5) - 2)
# 1. regular 2-D network
net = Net(**{'sigma-apr': 10, 'conf-pr': 0.95, 'tol-abs': 1000, 'sigma-act': 'aposteriori'})
net.points = [Pt('A', 0, 0, xy='fix'), Pt('B', 200, 0, xy='fix'), Pt('C', 0, 200, xy='fix'), Pt('P', 100, 100, xy='adj'), Pt('Q', 200, 100, xy='adj')]
cl = []; k = 0
for st in ['A', 'B', 'P']:
    obs = []
    for t in ['A', 'B', 'C', 'P', 'Q']:
        if t != st: k += 1; obs.append(Obs('direction', st, t, stdev=10, err=noise(k) * 0.0010))
    for t in ['P', 'Q']:
        if t != st: k += 1; obs.append(Obs('distance', st, t, stdev=5, err=noise(k) * 0.002))
    cl.append(Cluster('obs', obs, frm=st, zero=37.5))
net.clusters = cl; fill_values(net)
open(os.path.join(here, 'net2d.gkf'), 'w').write(to_gkf(net))
# 2. free levelling loop, constrained heights
net = Net(**{'sigma-apr': 2, 'conf-pr': 0.95, 'tol-abs': 1000, 'sigma-act': 'aposteriori'})
net.points = [Pt('A', z=10, zs='con'), Pt('B', z=12.5, zs='adj'), Pt('C', z=15.25, zs='con'), Pt('D', z=11.75, zs='adj')]
obs = [Obs('dh', a, b, stdev=2 + (i % 2), err=0.001 * noise(i + 1)) for i, (a, b) in enumerate([('A', 'B'), ('B', 'C'), ('C', 'D'), ('D', 'A'), ('A', 'C')])]
net.clusters = [Cluster('height-differences', obs)]; fill_values(net)
open(os.path.join(here, 'levfree.gkf'), 'w').write(to_gkf(net))
# 3. free 2-D network (defect 3), three constrained points
net = Net(**{'sigma-apr': 10, 'conf-pr': 0.95, 'tol-abs': 1000, 'sigma-act': 'apriori'})
net.points = [Pt('A', 0, 0, xy='con'), Pt('B', 200, 0, xy='con'), Pt('C', 0, 200, xy='con'), Pt('P', 100, 100, xy='adj')]
cl = []; k = 0
for st in ['A', 'B', 'C']:
    obs = []
    for t in ['A', 'B', 'C', 'P']:
        if t != st: k += 1; obs.append(Obs('direction', st, t, stdev=10, err=noise(k) * 0.0010))
    for t in ['A', 'B', 'C', 'P']:
        if t > st: k += 1; obs.append(Obs('distance', st, t, stdev=5, err=noise(k) * 0.002))
    cl.append(Cluster('obs', obs, frm=st, zero=0.0))
net.clusters = cl; fill_values(net)
open(os.path.join(here, 'net2dfree.gkf'), 'w').write(to_gkf(net))
# 4. bridge: P and Q are each determined from the fixed points by distances; the only observation that joins
#    them in the design-matrix graph is the first one (a cluster of its own): switching it off splits the graph
net = Net(**{'sigma-apr': 10, 'conf-pr': 0.95, 'tol-abs': 1000, 'sigma-act': 'aposteriori'})
net.points = [Pt('A', 0, 0, xy='fix'), Pt('B', 200, 0, xy='fix'), Pt('C', 0, 200, xy='fix'), Pt('P', 100, 60, xy='adj'), Pt('Q', 130, 150, xy='adj')]
k = 0
c1 = Cluster('obs', [Obs('distance', 'P', 'Q', stdev=5, err=0.003)])
obs = []
for t in ['P', 'Q']:
    for st in ['A', 'B', 'C']:
        k += 1; obs.append(Obs('distance', st, t, stdev=5, err=noise(k) * 0.002))
c2 = Cluster('obs', obs)
net.clusters = [c1, c2]; fill_values(net)
open(os.path.join(here, 'bridge2d.gkf'), 'w').write(to_gkf(net))
# 5. 3-D polar network with instrument and target heights (dh reductions are cached inside the observations)
net = Net(**{'sigma-apr': 10, 'conf-pr': 0.95, 'tol-abs': 1000, 'sigma-act': 'aposteriori'})
net.points = [Pt('A', 0, 0, 10, xy='fix', zs='fix'), Pt('B', 200, 0, 14, xy='fix', zs='fix'), Pt('C', 0, 200, 8, xy='fix', zs='fix'),
              Pt('P', 100, 100, 20, xy='adj', zs='adj', ax=(0.02, -0.015), az=0.01)]
cl = []; k = 0
for st, (fd, td) in zip(['A', 'B', 'C'], [(1.5, 1.8), (1.4, 0.0), (0.0, 1.7)]):
    obs = []
    k += 1; obs.append(Obs('s-distance', st, 'P', stdev=5, from_dh=fd, to_dh=td, err=noise(k) * 0.002))
    k += 1; obs.append(Obs('z-angle', st, 'P', stdev=10, from_dh=fd, to_dh=td, err=noise(k) * 0.0010))
    for t in ['A', 'B', 'C', 'P']:
        if t != st: k += 1; obs.append(Obs('direction', st, t, stdev=10, err=noise(k) * 0.0010))
    cl.append(Cluster('obs', obs, frm=st, zero=12.5))
net.clusters = cl; fill_values(net)
open(os.path.join(here, 'net3dh.gkf'), 'w').write(to_gkf(net))
