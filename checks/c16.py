#!/usr/bin/env python3
"""C16 -- sparse kernels (lib/gnu_gama/sparse, adj/envelope.h, adj/homogenization.h) equal their dense definitions.

Engine libmc (harness/libmc16.cpp, asan variant): bounded exhaustive exploration
  * all 0/1 sparsity patterns up to 4x4 (thorough: 5x4): SparseMatrix built
    sequentially in two insertion orders with position coded values,
    transpose, transpose twice, replicate, append after replicate;
  * SparseMatrixGraph adjacency vs the reference column graph, connected() vs
    union-find, ReverseCuthillMcKee perm / invp;
  * Envelope set / copy / cholDec / lowerSolve / diagonalSolve / upperSolve /
    solve / inverse (also in place) vs a dense long double LDL' of the
    permuted normal matrix A'A for three small integer value families x four
    scales of the coefficients (1, 1e3, 1e-2, 1e-5; cholDec() with the default
    tolerance at scale 1, cholDec(sqrt(eps) * scale^2) otherwise); zero
    pivots exactly at the columns that exact integer elimination finds
    dependent on their predecessors; defect() = exact nullity; inverse entries
    inside the envelope = dense g-inverse;
  * Envelope::operator= between all ordered pairs of envelope profiles (all
    n! row-width profiles of every dimension 0..5, thorough 0..6) x 3 states
    of the target x 3 states of the source, and self assignment: equality
    with the source element by element, no shared storage, independence;
  * all block layouts (compositions of n<=5) x all band widths x 2 value
    families x choice of non positive definite blocks: BlockDiagonal::cholDec
    return value and factor, replicate, UpperBlockDiagonal, Envelope(BlockDiagonal);
    the positive definite layouts also as Envelope at four scales of the
    matrix (1, 1e6, 1e-4, 1e-10) with the scaled tolerance: factor, defect,
    solve, inverse against the dense results;
  * Homogenization of all 0/1 patterns of an m x 2 design matrix for all
    layouts of dimension m<=4 (thorough 5): inv(U')A, inv(U')b.
"""
import json, os, subprocess, sys
sys.path.insert(0, os.path.join(os.path.dirname(os.path.abspath(__file__)), "..", "lib"))
import vlib

PID = "C16"
HARNESS = "libmc16"
# nonnull-attribute (memcpy with a null pointer and size 0) is made recoverable so that the
# exploration continues past it; it is still reported (sig C16|ub|...).  All other UB stays fatal.
EXTRA = ("-fsanitize-recover=nonnull-attribute",)
ENV = dict(vlib.ASAN_ENV, UBSAN_OPTIONS="print_stacktrace=0:halt_on_error=0:exitcode=98")

RULE = ("every unit enumerates its finite family completely: all 0/1 patterns of every shape r x c (sparse build / transpose / "
        "replicate, column graph, connectivity, ordering, envelope kernels for 3 value families x 4 coefficient scales {1, 1e3, 1e-2, 1e-5} "
        "with the pivot tolerance of cholDec scaled by the caller (default argument at scale 1, sqrt(eps)*scale^2 otherwise): set, copies, "
        "factor, zero pivots, defect, all partial solve ranges, solve and inverse (also in place) judged at unit scale against the dense "
        "long double LDL' / g-inverse of the same permuted integer normal matrix), "
        "Envelope::operator= on every ordered pair (target profile, source profile) of the complete profile family (every row a of a dimension-n "
        "envelope has width 0..a-1: all n! profiles for n = 0..%d; pairs of equal profile, equal total size with different profiles, different "
        "size, different dimension, to / from the empty object) x target state x source state {position coded, factored, factored with defect} "
        "+ self assignment, judged by dim / row widths / diagonal / envelope / defect equal to the source, no shared storage, target unchanged when "
        "the source is overwritten and destroyed, all block layouts x band widths x "
        "value families x non-positive-definite block choices (positive definite layouts: Envelope cholDec / solve / inverse at the 4 scales as well), all (layout, m x 2 pattern) pairs for the homogenization; a state = one "
        "enumerated pattern or layout, a transition = one library operation executed and compared with the dense reference; "
        "non-trivial = every configuration")


def replay(ck, exe):
    rp = json.load(open(ck.args.replay))
    case, sig = rp["case"], rp["sig"]
    r = subprocess.run([exe, "--tier", "thorough", "--case", case], stdout=subprocess.PIPE, stderr=subprocess.PIPE, text=True, env=ENV, errors="replace")
    print(r.stdout[-4000:])
    hit = [l for l in r.stdout.splitlines() if l.startswith("V\t" + sig)]
    crashed = r.returncode != 0
    if crashed:
        print(r.stderr[-3000:])
    ubhit = "runtime error:" in r.stderr and "|ub|" in sig
    if hit or ubhit or (crashed and ("memory-safety" in sig or "crash" in sig)):
        print("REPRODUCED %s" % sig)
        sys.exit(1)
    print("no violation %s on replay" % sig)
    sys.exit(0)


def main():
    ck = vlib.Check(PID)
    if ck.tier == "thorough" and not ck.args.deadline and not os.environ.get("VERIF_DEADLINE_S"):
        ck.deadline = ck.t0 + 840
    exe = vlib.hbuild(HARNESS, "asan", extra=EXTRA)
    if ck.args.replay:
        replay(ck, exe)
    viols = ck.run_shards(exe, ["--tier", ck.tier], nshards=vlib.NCPU * 4, env=ENV)
    for (sig, case, detail) in viols:
        ck.violation(sig, detail, replay=case)
    ck.counters["distinct_nontrivial"] = ck.counters.get("states", 0)
    th = ck.tier == "thorough"
    ck.finish(RULE % (6 if th else 5), assumptions=[
        "of the sparse classes only Envelope has a usable assignment operator (SparseMatrix, BlockDiagonal, SparseVector, IntegerList declare theirs private and never define it); chains of assignments longer than one are not enumerated",
        "patterns up to %s; values 1, +-1 by parity, 1..3 by position, times the scale (exact integer normal matrices at unit scale: pivots >= 1e-5 * scale^2 or 0 up to rounding, far from the pivot tolerance 1.5e-8 * scale^2 on both sides; at scale 1e-5 every regular pivot lies between the given tolerance and the default one)" % ("5x4" if th else "4x4"),
        "cholDec tolerances other than the default and sqrt(eps)*scale^2, and pivots within a factor 1e3 of the tolerance, are outside the family",
        "block layouts: dimension <= 5, diagonally dominant value families; non positive definite blocks by a zero first pivot, a negative last pivot, a dominant off-diagonal element",
        "upperSolve is compared for ranges 1..stop only (the only use in gama; with start > 1 it writes before the caller's buffer by construction)",
        "SparseMatrix::replicate into a matrix with more rows/columns is not covered; network level <connected-network/> belongs to the netmc engine",
        "the harness is compiled with -fsanitize-recover=nonnull-attribute (see C15)",
    ])


if __name__ == "__main__":
    main()
