#!/usr/bin/env python3
"""C07 -- equivalent descriptions of the same survey give the same adjustment.

Explicit exploration on the real `gama-local` executable: states are pairs
(base network, transformation word); a transition applies one more equivalence
generator to the input text; every state is executed and its results are
compared with the prescribed transformation of the results of the base state
(lib/n07_model.py).
"""
import fnmatch, json, os, sys, time
sys.path.insert(0, os.path.join(os.path.dirname(os.path.abspath(__file__)), "..", "lib"))
import vlib, gnet
import n07_model as M

PERM_KINDS = ("pp", "pc", "po")
QUICK_ALL_BASES = ("tr", "turn", "turn0", "swf", "ax")          # kinds run on every base in the quick tier
_words_cache = {}


def words_for(tmpl, wset):
    key = (tmpl, wset)
    if key not in _words_cache:
        W = M.single_words(tmpl)
        if wset == "all":
            ws = [w for k in W for w in W[k]]
        elif wset == "core":
            ws = [w for k in W if k in QUICK_ALL_BASES for w in W[k]]
        elif wset == "rest":
            ws = [w for k in W if k not in QUICK_ALL_BASES for w in W[k]]
        elif wset == "pairs":
            ws = M.pair_words(tmpl)
        else:
            raise ValueError(wset)
        _words_cache[key] = ws
    return _words_cache[key]


def run_one(exe, text, tmp, name, alg):
    for attempt in range(40):
        try:
            r = gnet.run_gama(exe, text, tmp, name, args=["--algorithm", alg], want=("xml",), timeout=60)
            break
        except OSError:         # the executable is being re-linked by a concurrent vbuild of another check
            if attempt == 39: raise
            time.sleep(0.5)
    if not r.xml:
        R = gnet.Result(); R.error = "no xml output rc=%s %s" % (r.rc, ((r.stderr or "") + (r.stdout or ""))[-300:].replace("\n", " "))
        return R
    return gnet.parse_result(r.xml)


def safe_compare(Rb, Rt, E, tmpl):
    try:
        return M.compare(Rb, Rt, E, tmpl)
    except Exception as e:      # results so malformed that the oracle cannot be evaluated: a violation, not a crash
        return [("results-not-comparable", "%s: %r" % (type(e).__name__, e))], set()


def job(a):
    """one base network x one algorithm x one word set"""
    exe, tmp, tmpl, bits, alg, wset, deadline, known = a
    tag = "%s-%02x-%s-%s-%d" % (tmpl, bits, alg, wset, os.getpid())
    out = {"states": 0, "runs": 0, "evals": 0, "nontrivial": 0, "outcomes": {}, "viol": {}, "samples": [], "done": True}
    def oc(k): out["outcomes"][k] = out["outcomes"].get(k, 0) + 1
    bnet, bE = M.build(tmpl, bits, ())
    btext = M.to_text(bnet)
    Rb = run_one(exe, btext, tmp, tag + "-b", alg); out["runs"] += 1
    if Rb.error:
        out["viol"]["C07|base-run|%s|%s" % (alg, tmpl)] = [1, [("base network refused: %s" % Rb.error,
                   {"tmpl": tmpl, "bits": bits, "alg": alg, "word": [], "base_gkf": btext, "trans_gkf": btext})]]
        return out
    for word in words_for(tmpl, wset):
        if time.time() > deadline:
            out["done"] = False; break
        net, E = M.build(tmpl, bits, word)
        text = M.to_text(net)
        Rt = run_one(exe, text, tmp, tag + "-t", alg); out["runs"] += 1
        bad, feat = safe_compare(Rb, Rt, E, tmpl)
        out["states"] += 1; out["evals"] += 1
        if text != btext: out["nontrivial"] += 1
        kind = M.kind_of(word)
        def listed(clause):
            sig = "C07|%s|%s|%s" % (clause, kind, tmpl)
            return any(p == sig or fnmatch.fnmatchcase(sig, p) for p in known)
        if bad and not all(listed(c) for c, _ in bad):   # confirm by re-running both inputs before reporting (recorded findings are not re-run)
            Rb2 = run_one(exe, btext, tmp, tag + "-b2", alg); Rt2 = run_one(exe, text, tmp, tag + "-t2", alg); out["runs"] += 2
            bad2, _ = safe_compare(Rb2, Rt2, E, tmpl)
            if sorted(c for c, _ in bad2) != sorted(c for c, _ in bad):
                bad = [("nondeterministic", "first %s, second %s" % (bad, bad2))]
        for f in feat: oc("feature:" + f)
        oc("%s|%s|%s" % (tmpl, kind, "equivalent" if not bad else "differs:" + ",".join(sorted({c for c, _ in bad}))))
        seen = set()
        for clause, msg in bad:
            if clause in seen: continue
            seen.add(clause)
            sig = "C07|%s|%s|%s" % (clause, kind, tmpl)
            v = out["viol"].setdefault(sig, [0, []])
            v[0] += 1
            if len(v[1]) < 2:
                v[1].append(("%s [%s 0x%02x %s word=%s]" % (msg, tmpl, bits, alg, json.dumps(M.word_json(word))),
                             {"tmpl": tmpl, "bits": bits, "alg": alg, "word": M.word_json(word), "base_gkf": btext, "trans_gkf": text}))
        if len(out["samples"]) < 1 and len(word) and word[0][0] in ("turn", "ax", "deg"):
            out["samples"].append("%s 0x%02x %s %s: %s; adjusted %s -> %s" % (
                tmpl, bits, alg, kind, "equivalent" if not bad else [c for c, _ in bad],
                {k: tuple(round(v, 7) for kk, v in sorted(d.items()) if kk != "id") for k, d in Rb.adjusted.items()},
                {k: tuple(round(v, 7) for kk, v in sorted(d.items()) if kk != "id") for k, d in (Rt.adjusted.items() if not Rt.error else [])}))
    return out


def replay(ck, exe):
    case = json.load(open(ck.args.replay))
    want = case.get("sig", "")
    c = case["case"]
    word = M.word_from_json(c["word"])
    net, E = M.build(c["tmpl"], c["bits"], word)
    Rb = run_one(exe, c["base_gkf"], ck.tmp, "rb", c["alg"]); Rt = run_one(exe, c["trans_gkf"], ck.tmp, "rt", c["alg"])
    bad, feat = M.compare(Rb, Rt, E, c["tmpl"])
    kind = M.kind_of(word)
    hit = False
    for clause, msg in bad:
        sig = "C07|%s|%s|%s" % (clause, kind, c["tmpl"])
        print("V\t%s\t%s" % (sig, msg))
        hit = hit or sig == want or not want
    if not bad: print("no violation of C07 on replay (%s 0x%02x %s %s)" % (c["tmpl"], c["bits"], c["alg"], kind))
    sys.exit(1 if hit else 0)


def main():
    ck = vlib.Check("C07")
    exe = vlib.exe("rel", "gama-local")
    if ck.args.replay:
        replay(ck, exe)
    thorough = ck.tier == "thorough"
    # the enumeration needs ~15 s (quick) / ~6 min (thorough) on 16 idle cores; on a loaded machine it may use what
    # the global deadline of the run allows (vlib: 600 s quick, 3000 s thorough, or --deadline S), minus the time to report
    deadline = max(ck.t0 + 20.0, ck.deadline - 30.0)
    jobs = []
    known = [pat for (p, pat, _t) in ck.known.findings if p == ck.pid]
    def add(tmpl, bits, alg, wset): jobs.append((exe, ck.tmp, tmpl, bits, alg, wset, deadline, known))
    if thorough:
        algs = gnet.ALGS
        for tmpl in M.TEMPLATES:
            for bits in range(M.NPAT[tmpl]):
                for alg in algs: add(tmpl, bits, alg, "all")
        for tmpl in M.TEMPLATES:
            if not words_for(tmpl, "pairs"): continue
            for bits in range(M.NPAT[tmpl]):
                add(tmpl, bits, gnet.ALGS[bits % 4], "pairs")
    else:
        algs = ["envelope", "gso"]
        for tmpl in M.TEMPLATES:
            n = M.NPAT[tmpl]; step = 16 if tmpl == "net2d" else 8
            for bits in range(n):
                for alg in algs:
                    sub = bits % step == (5 if tmpl == "net2d" else 3)
                    if alg != algs[0] and not (sub or bits % 4 == 1): continue     # second algorithm: every 4th pattern
                    add(tmpl, bits, alg, "core")
                    # the transitions whose effect does not depend on the signs of the errors run on every
                    # step-th pattern (a fixed sub-family: 0x05, 0x15, ... / 0x03, 0x0b, ...)
                    if bits % step == (5 if tmpl == "net2d" else 3) and words_for(tmpl, "rest"): add(tmpl, bits, alg, "rest")
    # longest jobs first (deterministic order; results are merged order-independently)
    # order (deterministic; results are merged order-independently): the long jobs first -- these are the ones with the
    # id, permutation, degree and swap transitions -- then the short ones, small templates before net2d, so that a cut
    # by the deadline never removes a whole transition kind or template
    prio = {"netw": 0, "netc": 0, "netcy": 1, "net3d": 2, "lev": 3, "net2d": 4}
    def order(j):
        n = len(words_for(j[2], j[5]))
        return (0 if n > 60 else 1, prio[j[2]] if n <= 60 else 0, -n, j[2], j[3], j[4], j[5])
    jobs.sort(key=order)
    viol = {}
    cut = 0
    import concurrent.futures as cf
    with cf.ProcessPoolExecutor(max_workers=vlib.NCPU) as ex:
        for j, r in zip(jobs, ex.map(job, jobs, chunksize=1)):
            ck.count("transitions", r["runs"]); ck.count("evaluations", r["evals"])
            if j[4] == algs[0] or j[5] == "pairs":     # the same inputs are run with several algorithms: count inputs once
                ck.count("states", r["states"]); ck.count("distinct_nontrivial", r["nontrivial"])
                if j[5] in ("all", "core"): ck.count("states", 1)       # the base input itself
            if not r["done"]: cut += 1
            for k, n in r["outcomes"].items(): ck.outcome(k, n)
            for s in r["samples"]: ck.sample(s)
            if not r["done"]: ck.exhaustive = False
            for sig, (n, exs) in r["viol"].items():
                v = viol.setdefault(sig, [0, []]); v[0] += n
                for e in exs:
                    if len(v[1]) < 3: v[1].append(e)
    for sig in sorted(viol):            # first the written-out examples of every signature ...
        for (msg, payload) in viol[sig][1]:
            ck.violation(sig, msg, replay=payload)
    for sig in sorted(viol):            # ... then the remaining occurrences are only counted
        n, exs = viol[sig]
        k = ck.known.match(ck.pid, sig)
        rest = n - len(exs)
        if rest > 0:
            if k: ck.nknown[k[0]] = ck.nknown.get(k[0], 0) + rest
            else:
                ck.nviol += rest; ck.viol_sigs[sig] = ck.viol_sigs.get(sig, 0) + rest
    if not ck.exhaustive:
        ck.notes.append("deadline reached: %d of %d jobs were cut; counts are those of the completed part" % (cut, len(jobs)))
    menu = {t: {k: len(v) for k, v in M.single_words(t).items()} for t in M.TEMPLATES}
    rule = ("bases: net2d (3 fixed + 2 new points on {0,100,200}^2; 14 directions in 4 sets, 6 distances, 1 angle, 1 azimuth; 2 of the 5 clusters with band "
            "covariance matrices) x all 2^8 sign patterns of +-sigma on 8 observations; net3d (7 slope distances, 8 zenith angles) x 2^6; lev (7 height differences) x 2^6; "
            "netc (3 slope distances, observed coordinates of 2 points and 2 coordinate differences with full covariance matrices that couple only x,z rows and y rows among themselves) x 2^6; "
            "netcy (the same with x-y and y-z covariances; translation and axes transitions only) x 2^6; "
            "netw (12 directions in 3 sets, 5 distances; bearings A->B = +2.5 cc and C->Q = 400 gon - 2.5 cc; translation, turn, turn0 and axes transitions) x 2^6. "
            "transitions (menu sizes %s): translation {(1e3,-2e3),(1e6,5e6)} (+500 m heights); zero of each direction set turned by {1e-4,100,199.9999,200,200.0001,399.9999} gon; turn0: for every set and every one of its targets the zero turned so that "
            "the reading of that target becomes eps above/below 0=400 gon (netw: eps in +-1, +-3, +-6 cc; net2d: +-1 cc), which together with the +-5 cc errors, the +-2.5 cc bearings of netw "
            "and the mirrored frames puts reading, set orientation and bearing on either side of 0/400 (see the wrap(...) outcome classes); "
            "all permutations of point records, of clusters and of the observations of each cluster (<=5 items: all n!-1; 6 items: 5 cyclic shifts + reversal + 5 adjacent "
            "transpositions), covariance matrices permuted; 46 id maps (order reversing numeric; 10 numeric-looking families: 1, 9, 10, 18, 19, 20, 25 digits around 2^31, 2^32, 2^63-1, 2^64-1 with ids differing in the last digit, leading zeros, signed-looking, mixed; mixed 2-/3-/4-byte UTF-8; 40 characters; inner single blanks and no-break spaces; two generated families u2-0..15 / u3-0..15 of 2- and 3-byte UTF-8 ids whose continuation bytes between them take every value 0x80..0xBF in every position, with ids that differ in one continuation byte only and ids with an inner blank); gon -> d-m-s with stdev/covariances in arc seconds "
            "for every non-empty subset of clusters + alternating observations; ends swapped for every non-empty subset of the distances; swf: every distance of a station cluster that also holds directions written with swapped ends AND moved to the first position of its cluster; 8 axes-xy x 2 angles. "
            % json.dumps(menu).replace('"', ""))
    if thorough:
        rule += ("thorough: every single transition on every base x 4 algorithms, plus all ordered pairs of distinct letters of the reduced menu "
                 "(net2d 26, net3d 20, lev 10, netc 18, netw 15 letters; net2d also: all distances swapped x every observation order of every cluster) on every base with algorithm = ALGS[pattern mod 4]. ")
    else:
        rule += ("quick: translation/turn/axes transitions on every base with envelope and on every 4th pattern also with gso; all other single transitions on every 16th (net2d) / 8th (other templates) pattern (envelope and gso). ")
    rule += ("a state = one distinct (base network, word) input text, a transition = one gama-local execution; oracle per state: adjusted/fixed/approximate coordinates = affine image, "
             "residuals (adj-obs) equal (horizontal angular ones times the sense), echoed observation = written value, [pvv], dof, counts, m0, confidence scale, stdev/qrr/f/std-residual "
             "of every observation, ellipse axes equal; ellipse bearing, orientation shifts and the covariance matrix of the unknowns transformed as prescribed; non-trivial = input text differs from the base text")
    wrap = {k[len("feature:"):]: v for k, v in sorted(ck.outcomes.items()) if k.startswith("feature:wrap(")}
    ck.finish(rule, extra={"wrap_classes_of_direction_rhs": wrap}, assumptions=[
        "equivalence is defined by doc/gama-local-input.texi: axes-xy='ab' means x points to a and y to b; angles='left-handed' = clockwise readings; azimuths from North in the sense of angles; "
        "d-m-s values carry standard deviations and covariances in arc seconds, ss = cc*0.324 (the harness multiplies stdev by 0.324 and row+column of the covariance matrix by 0.324 per sexagesimal observation)",
        "transformations act on the input text only: angular values have 8 decimals (exact in the 10 printed), d-m-s strings are exact (integer arithmetic, 7 decimals of a second); coordinates are integers; "
        "approximate coordinates of the new points are the exact true ones and the errors are +-sigma (5-8 cc, 1.5-2 mm), so gama's linearisation test (0.0005 mm) never iterates and base and transformed run solve the same linear problem",
        "coordinate tolerance 1e-8 m + 64 ulp of the coordinate (XML prints 16 decimals; after the (1e6,5e6) translation one ulp of the input/outputs is 9e-10 m, so 6e-8 m there); measured deviations on the unchanged tree are below 1e-12 m resp. 1 ulp",
        "residual tolerance 2e-9 m / 2e-9 gon (differences of two numbers printed with 16 decimals; same argument as for coordinates); statistics, standard deviations, ellipse axes 1e-5 relative; "
        "covariances 1e-5 relative to sqrt(c_ii c_jj) (<flt> has 8 significant digits); quantities printed with 3 or 6 decimals: 1.2 units of the last printed digit; ellipse bearing 1e-5 gon * a/(a-b), compared only when (a-b)/a > 1e-3 (true for both new points of both templates)",
        "conventions where the manual is silent (systems whose coordinate handedness differs from the sense of the angles): the printed orientation shift is taken as the bearing of the circle zero reckoned from x towards y of the printed frame "
        "(what gama prints: y_sign * internal value) and the ellipse bearing as reckoned from x in the sense of the angles (gama-local-adj.texi: 'clockwise from X axis' for the default); both coincide with the documented relation direction + shift = bearing in consistent systems. "
        "The covariance matrix is required to be that of the printed unknowns (x, y, shift)",
        "the printed approximate orientation shift (median of bearing - reading) is required to transform like the adjusted one: it is a function of the multiset of readings, not of their order or of the position of the circle zero",
        "one direction set per station in the templates (orientation shifts are matched by station id); observations are matched by their position in the transformed input; instrument heights and dh swaps are outside this check",
        "observed coordinates and coordinate differences: translated / mapped through the same affine map as the given coordinates, their covariance matrix by the signed permutation of its rows (netc, netcy)",
    ])


if __name__ == "__main__":
    main()
