#!/usr/bin/env python3
"""C15 -- dense matrix library (lib/matvec) obeys its algebra.

Engine libmc (harness/libmc15.cpp, asan variant): bounded exhaustive
exploration of the real headers
  * all matrices over {-1,0,1,2} up to 3x3 (thorough: 4 rows/cols with the
    alphabets {-1,0,1} / {0,1}) x every operator variant against a
    std::vector reference, exact equality;
  * inv / Singular decided by the exact determinant; Cholesky of SymMat,
    CovMat, BandMat for exactly the positive definite members (exact minors)
    for all symmetric matrices and all band widths; SVD, pinv, GSO;
    Hilbert(n<=8) and power-of-two scaled families;
  * BandMat::invBand of every strictly diagonally dominant band matrix over
    {-1,0,1} (dim<=5, all band widths; larger dims while the band has <= 10
    cells) and of structured fillings up to dim 9 band 5 x the requested
    result band b..b+3 and the default call, against the dense inverse;
  * every binary operator on all shapes in {0..3}^4: exception iff the shapes
    do not conform, never an out-of-bounds access (ASan);
  * copy/assign/move/reset histories of three objects per class: explicit
    state BFS to a fixpoint on the private fields.
"""
import json, os, subprocess, sys
sys.path.insert(0, os.path.join(os.path.dirname(os.path.abspath(__file__)), "..", "lib"))
import vlib

PID = "C15"
HARNESS = "libmc15"
# nonnull-attribute (memcpy with a null pointer and size 0) is made recoverable so that the
# exploration continues past it; it is still reported (sig C15|ub|...).  All other UB stays fatal.
EXTRA = ("-fsanitize-recover=nonnull-attribute",)
ENV = dict(vlib.ASAN_ENV, UBSAN_OPTIONS="print_stacktrace=0:halt_on_error=0:exitcode=98")

RULE = ("every unit enumerates its finite family completely: all r x c matrices over the alphabet for every shape "
        "(unary/scalar/inverse, products and sums against a basis + one mixed matrix of every conforming shape, "
        "matrix-vector products), all pairs of vectors, all symmetric matrices x all band widths (storage, algebra, "
        "Cholesky/solve/inverse), BandMat::invBand on the diagonally dominant band family (every dim x band x filling) x "
        "{default call, requested result band b, b+1, b+2, b+3} x {empty, pre-sized, differently sized result object} against the "
        "dense long double inverse, SVD/pinv/GSO on all matrices, conditioning families, every binary operator x all "
        "shape quadruples, BFS over copy/assign/move/reset/write histories to a fixpoint; a state = one enumerated "
        "operand configuration or one canonical (private field) state of the object tuple, a transition = one "
        "library operation executed and compared; non-trivial = every configuration")


def replay(ck, exe):
    rp = json.load(open(ck.args.replay))
    case, sig = rp["case"], rp["sig"]
    r = subprocess.run([exe, "--tier", "thorough", "--case", case], stdout=subprocess.PIPE, stderr=subprocess.PIPE, text=True, env=ENV, errors="replace")
    print(r.stdout[-4000:])
    hit = [l for l in r.stdout.splitlines() if l.startswith("V\t" + sig)]
    crashed = r.returncode != 0
    if crashed:
        print(r.stderr[-3000:])
    ubhit = "runtime error:" in r.stderr and "|ub|" in sig
    if hit or ubhit or (crashed and ("memory-safety" in sig or "crash" in sig)):
        print("REPRODUCED %s" % sig)
        sys.exit(1)
    print("no violation %s on replay" % sig)
    sys.exit(0)


def main():
    ck = vlib.Check(PID)
    if ck.tier == "thorough" and not ck.args.deadline and not os.environ.get("VERIF_DEADLINE_S"):
        ck.deadline = ck.t0 + 840
    # the harness is built in four parts in parallel (libmc15a..d) plus the dispatcher libmc15
    vlib.vbuild("asan")
    import concurrent.futures as cf
    with cf.ThreadPoolExecutor(max_workers=4) as ex:
        list(ex.map(lambda p: vlib.hbuild(HARNESS + p, "asan", extra=EXTRA), "abcd"))
    exe = vlib.hbuild(HARNESS, "asan", extra=EXTRA)
    if ck.args.replay:
        replay(ck, exe)
    viols = ck.run_shards(exe, ["--tier", ck.tier], nshards=128, env=ENV)
    for (sig, case, detail) in viols:
        ck.violation(sig, detail, replay=case)
    ck.counters["distinct_nontrivial"] = ck.counters.get("states", 0)
    th = ck.tier == "thorough"
    ck.finish(RULE, assumptions=[
        "small integer entries: {-1,0,1,2} up to 9 cells%s; symmetric: dim<=3 {-1,0,1,2}, dim 4 %s%s" % (
            ", {-1,0,1} up to 12 cells, {0,1} for 4x4" if th else "", "{-1,0,1,2}" if th else "{-1,0,1}", ", dim 5 {0,1}" if th else ""),
        "invBand family: off-diagonal band cells over {-1,0,1}, diagonal 2b+1+(i mod 2), complete for dim<=5 (all bands 0..dim-1) and for "
        "every (dim<=%d, band) with at most %d band cells; other (dim<=%d, band<=5) by three structured fillings over {-2..2}; every positive "
        "definite member of the all-symmetric family (alg.sym) x every admissible band as well" % ((10, 12, 10) if th else (9, 10, 9)),
        "arbitrary reals are outside the family: conditioning is covered only by Hilbert(n<=8) and power-of-two scalings 2^-10..2^10 of four integer matrices",
        "numeric tolerances: exact equality for + - * trans; 1e-12 for inverses / factor products of integer matrices; kappa*1e-12 for the conditioning families",
        "BandMat::triDiag/eigenVal, stream I/O and jacobian.h are not covered; TransMat*scalar cannot be instantiated (compile error in transmat.h) and is therefore not executed",
        "the harness is compiled with -fsanitize-recover=nonnull-attribute so that memcpy(null,null,0) in MemRep is reported (C15|ub|...) without ending the exploration",
    ])


if __name__ == "__main__":
    main()
