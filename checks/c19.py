#!/usr/bin/env python3
"""C19 -- gama-g3 reproduces consistent global networks, independent of the
algorithm and of the order of the input records (engine g3mc).

Enumerated completely (see FAMILIES below): small geocentric networks at
places on the WGS84 ellipsoid x observation-type subsets x every n/e/u status
combination from a status alphabet x approximate-coordinate modes x the four
algorithms of the real `gama-g3` executable; for a sub-family every
permutation of the <point> and of the <obs> records and every grouping of the
records into multi-piece <obs> clusters.  Families dh*: every assignment of
<from-dh>/<to-dh> (absent / present) to the records of small record sets, also
inside the clusters of the grouping layer.  Families wrap*: a second layout
with angles of +-2..3 cc around 0 / 400 gon whose computed value falls on the
other side of the wrap (lib/g3gen.py RAY_OFFSETS).  Each executed network
also has its --project-equations dump read back by GNU_gama::DataParser and
solved by GNU_gama::Adj (harness/g3mc.cpp).  Oracles: lib/g3net.py.
"""
import itertools, json, os, shutil, sys, time
sys.path.insert(0, os.path.join(os.path.dirname(os.path.abspath(__file__)), "..", "lib"))
import vlib
import g3gen as G
import g3net as N

ALL9 = [a + b for a in "xfc" for b in "xfc"]
ST5 = ["xx", "ff", "cc", "fc", "xf"]
ST4 = ["xx", "ff", "cc", "fc"]


def subsets(types, sizes):
    out = []
    for k in sizes:
        out += [tuple(c) for c in itertools.combinations(types, k)]
    return out


# ---- instrument / target heights: nets with few enough records for every dh mask
# (types, record selection = indices into the canonical record list of the type set, both ends only?, status tuples)
# canonical records: vector AB BC CA; distance AB AC BC; zenith AB BC CA BA CB AC; angle A;BC B;CA C;AB A;CB
DH_NETS = [
    # 3 vectors: {-,f,t,b}^3
    (("vector",), None, False, [("xx", "ff", "cf"), ("ff", "xx", "fx"), ("cc", "cc", "cc"), ("xx", "ff", "ff")]),
    # total station only, d AB AC BC + z AB BC CA: {-,b}^6 (two positions fixed: distances and zenith angles leave the azimuth free)
    (("distance", "zenith"), (0, 1, 2, 3, 4, 5), True, [("xx", "xf", "ff"), ("xf", "xx", "cf"), ("xx", "fx", "xf")]),
    # v AB BC, d AC, z CA AC, a A;BC B;CA: {-,b}^5 x {-,f}^2
    (("vector", "distance", "zenith", "angle"), (0, 1, 4, 8, 11, 12, 13), True, [("xx", "fc", "ff"), ("xx", "ff", "ff"), ("ff", "xx", "fx")]),
    # v AB BC, d AC, z CA, a A;BC: {-,b}^4 x {-,f} (the first status tuple also in the order layer, as for the 3 vectors)
    (("vector", "distance", "zenith", "angle"), (0, 1, 4, 8, 12), True, [("xx", "fc", "ff"), ("fc", "xx", "cf")]),
]
DH_ORDER_BIG = (("vector", "distance", "zenith", "angle"), (0, 1, 4, 5, 6, 8, 12), True, [("xx", "fc", "ff")])   # v AB BC, d AC BC, z AB CA, a A;BC (thorough order layer)


def dh_masks(types, recs, both_only):
    """every assignment absent / present (per end, or both ends together) to the records that can carry heights"""
    sp = {"place": 0, "npts": 3, "types": types, "status": ("xx",) * 3, "mode": "true"}
    if recs is not None:
        sp["recs"] = recs
    alph = [N.dh_alphabet(o, both_only) for o, _ in N.records(sp)]
    return ["".join(m) for m in itertools.product(*alph)]


def families(tier):
    """list of dicts: name, places, npts, nets [(types, record selection or None, dh masks or None)], statuses, modes, lay;
    each family is the complete product of its dimensions"""
    T = N.TYPES
    lin = [("vector",), ("xyz",), ("vector", "xyz")]
    STA = ["xx", "fx", "cx", "ff", "fc"]          # with points of free / constrained n,e and fixed u

    def fam(name, places, npts, tsets, alphabet, modes, lay=0):
        return {"name": name, "places": places, "npts": npts, "nets": [(tuple(t), None, None, None) for t in tsets],
                "statuses": list(itertools.product(alphabet, repeat=npts)), "alphabet": alphabet, "modes": modes, "lay": lay}

    def tolfam(name, places, variants):
        # rejection tolerance of the absolute terms (linear types): displacements just inside tol-abs in every component
        # (length beyond it) under sign patterns SG, and just outside in one component OC of one point
        f = fam(name, places, 3, lin, ST4, tuple(sorted(set(v["mode"] for v in variants))))
        f["variants"] = variants
        return f

    def dhfam(name, places, nets, modes):
        return {"name": name, "places": places, "npts": 3, "nets": [(t, r, dh_masks(t, r, bo), sts) for (t, r, bo, sts) in nets],
                "statuses": None, "alphabet": None, "modes": modes, "lay": 0}

    if tier == "quick":
        P = [1, 2, 5]
        tsets = subsets(T, [1]) + [("vector", t) for t in T if t != "vector"] + [T]
        return [
            fam("azimuth3", P, 3, [("azimuth",)], ST4, ("true",)),
            fam("linear3", P, 3, lin, ST4, ("far", "omit", "noisy")),
            tolfam("tolin3", [1, 5], [{"mode": "tolin", "sg": sg} for sg in ("+++", "+-+")]),
            tolfam("tolout3", [1], [{"mode": "tolout", "sg": sg, "oc": oc} for sg, oc in (("+-+", 0), ("-+-", 1), ("++-", 2))]),
            dhfam("dhlinear3", [1], [n[:3] + (n[3][:2],) for n in DH_NETS[:1]], ("omit", "noisy")),
            dhfam("dh3", [1], [n[:3] + (n[3][:2],) for n in DH_NETS], ("pert",)),
            # places midlat, south60, near180: at south60 a station displaced alone sees B and C in line to 2e-9 rad (known finding: acos)
            fam("wrap3", [1, 3, 5], 3, [("vector", "angle"), ("distance", "angle"), ("xyz", "angle")], STA, ("pert",), lay=1),
            fam("anglefx3", P, 3, [("vector", "angle"), ("distance", "angle"), T], STA, ("true", "pert")),
            fam("mix3", P, 3, tsets, ST5, ("true", "pert")),
        ]
    P = list(range(len(G.PLACES)))
    withangle = [t for t in subsets(T, [2, 3, 7]) if "angle" in t]
    # small families first: a deadline cuts the largest product last
    return [
        fam("azimuth3", P, 3, [("azimuth",)], ST5, ("true",)),
        fam("linear3", P, 3, lin, ALL9, ("far", "omit", "noisy")),
        tolfam("tolin3", P, [{"mode": "tolin", "sg": "".join(sg)} for sg in itertools.product("+-", repeat=3)]),
        tolfam("tolout3", P, [{"mode": "tolout", "sg": sg, "oc": oc} for sg in ("-+-", "++-") for oc in (0, 1, 2)]),
        dhfam("dhlinear3", P, DH_NETS[:1], ("far", "omit", "noisy")),
        dhfam("dh3", P, DH_NETS, ("true", "pert")),
        fam("wrap3", P, 3, withangle, STA, ("true", "pert"), lay=1),
        fam("wrap4", [1, 5], 4, [("vector", "angle"), ("distance", "angle"), ("distance", "zenith", "angle"), T], ST4, ("pert",), lay=1),
        fam("mix4", P, 4, subsets(T, [1]) + [("vector", "distance"), ("distance", "height", "zenith"), T], ST4, ("true", "pert")),
        fam("anglefx3", P, 3, withangle, STA, ("true", "pert")),
        fam("full9", [1, 5], 3, subsets(T, [1, 2]), ALL9, ("true", "pert")),
        fam("mix3", P, 3, subsets(T, [1, 2, 3, 7]), ST5, ("true", "pert")),
    ]


def order_jobs(tier):
    """(spec, orders): all permutations of the <point> records x all permutations of the <obs> records x 4 algorithms"""
    P = [1, 5] if tier == "quick" else list(range(len(G.PLACES)))
    # record sets: indices into the canonical record list of the type set
    nets = [
        (("vector",), None, ("xx", "ff", "cf")),                      # 3 vectors
        (("vector", "distance", "height"), (0, 1, 4, 7, 8), ("xx", "fc", "ff")),   # v AB, v BC, d AC, h B, h C
        (("vector",), None, ("cc", "cc", "cc")),                      # free network, defect 3 resolved by all points
        (("xyz", "hdiff", "distance"), (0, 1, 4, 7, 8), ("cc", "ff", "fc")),     # xyz A, xyz B, dh BC, d AC, d BC
    ]
    if tier == "quick":
        nets = nets[:3]
    # points given without coordinates (mode omit): gama-g3 derives them from the vectors in passes over the
    # records, forwards (to = from + v) or backwards (from = to - v) depending on which end is known - the
    # known point is the first, the middle or the last one
    # ... with all three vectors, and with every spanning pair of them (chains: a point two vectors away from the
    # known one is reached only after the pass that reached its neighbour)
    known = (("xx", "ff", "ff"), ("ff", "xx", "cf"), ("ff", "ff", "xx"))
    nets = [n + (None,) for n in nets] + [(("vector",), rs, st, ("omit",)) for st in known for rs in (None, (0, 1), (0, 2), (1, 2))]
    jobs = []
    for pl in P:
        for (types, recs, status, modes) in nets:
            for mode in (modes or (("pert",) if tier == "quick" else ("true", "pert"))):
                sp = {"place": pl, "npts": 3, "types": types, "status": status, "mode": mode}
                if recs is not None:
                    sp["recs"] = recs
                nrec = len(N.records(sp))
                orders = [(pp, rp) for pp in itertools.permutations(range(3)) for rp in itertools.permutations(range(nrec))]
                # split into chunks that all start with the identity order (the reference)
                ident = orders[0]
                rest = orders[1:]
                step = 60
                for i in range(0, len(rest), step):
                    jobs.append((sp, [ident] + rest[i:i + step]))
                # grouping: consecutive <obs> records merged into one cluster assembled from several covariance
                # pieces - every composition of the record list (2^(n-1)), for every record permutation (n <= 3)
                # or the identity and the reversed order (n > 3); reference = one record per <obs>, identity order
                pid = tuple(range(3))
                rps = list(itertools.permutations(range(nrec))) if nrec <= 3 else [tuple(range(nrec)), tuple(reversed(range(nrec)))]
                grouped = [(pid, rp, g) for rp in rps for g in compositions(nrec) if len(g) < nrec]
                for i in range(0, len(grouped), step):
                    jobs.append((sp, [ident] + grouped[i:i + step]))
    # instrument / target heights inside clusters: for every assignment of from-dh / to-dh (absent / present) to the
    # records, every grouping of the records into <obs> clusters - in all record orders (3 records) or in the given and
    # the reversed order (more) - must give the result of the same records written one per <obs>: a record with a
    # height is followed by one without and the reverse, in one cluster and across a cluster boundary
    dhnets = [(DH_NETS[0], P[:1] if tier == "quick" else P),
              (DH_NETS[3], P[:1] if tier == "quick" else P)]
    if tier != "quick":
        dhnets.append((DH_ORDER_BIG, [1, 5]))
    for ((types, recs, bo, sts), places) in dhnets:
        status = sts[0]
        for pl in places:
            for mask in dh_masks(types, recs, bo):
                sp = {"place": pl, "npts": 3, "types": types, "status": status, "mode": "pert", "dh": mask}
                if recs is not None:
                    sp["recs"] = recs
                nrec = len(N.records(sp))
                pid = tuple(range(3))
                ident = (pid, tuple(range(nrec)))
                rps = list(itertools.permutations(range(nrec))) if nrec <= 3 else [tuple(range(nrec)), tuple(reversed(range(nrec)))]
                grouped = [(pid, rp, g) for rp in rps for g in compositions(nrec) if len(g) < nrec]
                for i in range(0, len(grouped), 60):
                    jobs.append((sp, [ident] + grouped[i:i + 60]))
    return jobs


def compositions(n):
    """all ways to cut n consecutive records into groups: tuples of positive sizes summing to n"""
    out = []
    for m in range(1 << (n - 1)):
        g = []; size = 1
        for k in range(n - 1):
            if (m >> k) & 1: g.append(size); size = 1
            else: size += 1
        g.append(size); out.append(tuple(g))
    return out


def work(sp):
    try:
        return N.evaluate(sp)
    except Exception as e:      # a failure of the checker itself must not look like a pass
        import traceback
        return {"case": N.case_str(sp), "cls": "checker-error", "viol": [("C19|checker-error|%s" % type(e).__name__, traceback.format_exc()[-800:])],
                "outcomes": ["checker-error"], "counters": {}, "files": {}, "sample": None}


def work_order(job):
    try:
        return N.evaluate_order(job)
    except Exception as e:
        import traceback
        return {"case": N.case_str(job[0]), "cls": "checker-error", "viol": [("C19|checker-error|%s" % type(e).__name__, traceback.format_exc()[-800:])],
                "outcomes": ["checker-error"], "counters": {}, "files": {}, "sample": None}


def setup(ck):
    exe = vlib.exe("rel", "gama-g3")
    rep = vlib.hbuild("g3mc", "rel")
    # private copies: other checks may rebuild /verif/build/rel while this one runs
    bindir = os.path.join(ck.tmp, "bin")
    os.makedirs(bindir, exist_ok=True)
    for src in (exe, rep):
        for attempt in range(20):
            try:
                shutil.copy2(src, os.path.join(bindir, os.path.basename(src)))
                break
            except OSError:
                time.sleep(0.5)
        else:
            vlib.log("BUILD-ERROR cannot copy %s" % src)
            sys.exit(2)
    N.CFG.update(exe=os.path.join(bindir, "gama-g3"), replayer=os.path.join(bindir, "g3mc"), tmp=ck.tmp)


def report(ck, res, order=False, recheck=True):
    """funnel the violations of one evaluation through ck.violation (unlisted ones are re-run once first)"""
    for sig, detail in res["viol"]:
        if recheck and not ck.known.match(ck.pid, sig) and ck.viol_sigs.get(sig, 0) < 3:
            # re-run once before reporting (DESIGN 2.6): the same signature must recur
            if order:
                again = None            # order jobs are re-run as a whole by --replay
            else:
                again = work(N.parse_case(res["case"]))
            if again is not None and sig not in [s for s, _ in again["viol"]]:
                ck.count("not_reproduced_on_rerun")
                ck.notes.append("not reproduced on re-run (dropped): %s :: %s" % (sig, detail[:200]))
                continue
        ck.violation(sig, detail, replay={"case": res["case"], "order": bool(order)}, files=res.get("files") or None)


def main():
    ck = vlib.Check("C19", level="model_checking")
    setup(ck)
    if ck.args.replay:
        payload = json.load(open(ck.args.replay))
        case = payload["case"]["case"]
        sp = N.parse_case(case)
        if payload["case"].get("order"):
            nrec = len(N.records(sp))
            orders = [(pp, rp) for pp in itertools.permutations(range(sp["npts"])) for rp in itertools.permutations(range(nrec))]
            ident = orders[0]
            orders += [(ident[0], rp, g) for rp in (itertools.permutations(range(nrec)) if nrec <= 3 else [tuple(range(nrec)), tuple(reversed(range(nrec)))])
                       for g in compositions(nrec) if len(g) < nrec]
            sp.pop("pp", None), sp.pop("rp", None), sp.pop("grp", None)
            res = N.evaluate_order((sp, orders))
        else:
            res = N.evaluate(sp)
        hits = [v for v in res["viol"] if v[0] == payload["sig"]] or res["viol"]
        for sig, detail in hits:
            print("%s\n   %s" % (sig, detail))
        print("%d violation(s) on replay of %s (class %s)" % (len(hits), case, res["cls"]))
        sys.exit(1 if hits else 0)

    deadline_margin = 20.0
    fams = families(ck.tier)
    bounds = []
    cut = False
    # ---- order layer
    if True:
        jobs = order_jobs(ck.tier)
        norders = 0
        for i in range(0, len(jobs), 256):
            if ck.time_left() < deadline_margin:
                ck.exhaustive = False
                cut = True
                ck.notes.append("deadline: order layer cut after %d of %d jobs" % (i, len(jobs)))
                break
            for res in vlib.pmap(work_order, jobs[i:i + 256], chunksize=1):
                ck.count("evaluations")
                for k, v in res["counters"].items():
                    ck.count(k, v)
                for o in res["outcomes"]:
                    ck.outcome(o)
                ck.count("states", max(0, res["counters"].get("orders", 0) - 1))
                norders += max(0, res["counters"].get("orders", 0) - 1)
                if res["sample"] and len(ck.samples) < 2:
                    ck.sample(res["sample"])
                report(ck, res, order=True)
        bounds.append("order: %d chunks, every permutation of the <point> records x every permutation of the <obs> records x 4 algorithms, and every grouping of consecutive <obs> records into clusters assembled from several covariance pieces - the latter also for every assignment of from-dh/to-dh (absent / present) to the records of the nets with heights (%d of the chunks: a record with a height followed by one without and the reverse, inside one cluster and across a cluster boundary); %d non-identity orders / groupings" % (len(jobs), sum(1 for j in jobs if j[0].get("dh")), norders))
    for F in ([] if cut else fams):
        name, places, npts, modes = F["name"], F["places"], F["npts"], F["modes"]
        specs = []
        for pl in places:
            for (types, recs, masks, sts) in F["nets"]:
                for st in (sts or F["statuses"]):
                    for var in (F.get("variants") or [{"mode": m} for m in modes]):
                        for mask in (masks or [None]):
                            sp = {"place": pl, "npts": npts, "types": tuple(types), "status": tuple(st)}
                            sp.update(var)
                            if recs is not None:
                                sp["recs"] = tuple(recs)
                            if F["lay"]:
                                sp["lay"] = F["lay"]
                            if mask is not None:
                                sp["dh"] = mask
                            specs.append(sp)
        nmask = sum(len(n[2]) for n in F["nets"] if n[2])
        bounds.append("%s: %d places x %d points x %s x %s x modes %s%s = %d networks"
                      % (name, len(places), npts,
                         ("%d type sets" % len(F["nets"])) if not nmask else ("%d record sets with every assignment of from-dh/to-dh absent/present to their records (%d masks)" % (len(F["nets"]), nmask)),
                         ("%d^%d statuses" % (len(F["alphabet"]), npts)) if F["alphabet"] else ("%s status tuples" % "/".join(str(len(n[3])) for n in F["nets"])),
                         "/".join(modes) + ((" (%d sign patterns / out-of-tolerance components)" % len(F["variants"])) if F.get("variants") else ""), " x layout 'ray' (angles within 3 cc of 0/400 gon, sights 53-111 m)" if F["lay"] else "", len(specs)))
        done = 0
        for i in range(0, len(specs), 4000):
            if ck.time_left() < deadline_margin:
                cut = True
                break
            for res in vlib.pmap(work, specs[i:i + 4000], chunksize=8):
                done += 1
                ck.count("evaluations")
                ck.count("networks_enumerated")
                for k, v in res["counters"].items():
                    ck.count(k, v)
                for o in res["outcomes"]:
                    ck.outcome(o)
                if res["counters"].get("g3_runs"):
                    ck.count("states")
                    if res["sample"] and (ck.counters["states"] % 997 == 1):
                        ck.sample(res["sample"])
                else:
                    ck.count("networks_excluded_by_construction")
                report(ck, res)
        ck.count("family_%s_done" % name, done)
        if cut:
            ck.exhaustive = False
            ck.notes.append("deadline: family %s cut after %d of %d networks" % (name, done, len(specs)))
            break
    ck.counters["transitions"] = ck.counters.get("g3_runs", 0) + ck.counters.get("adj_replays", 0)
    ck.counters["traces"] = ck.counters["transitions"]
    ck.counters["distinct_nontrivial"] = ck.counters.get("states", 0)
    ck.finish(
        "every network of the families below is generated, classified by the reference model (exact rank of the own Jacobian), and - unless ill-posed - "
        "adjusted by the real gama-g3 with each of the 4 algorithms and replayed through DataParser + Adj; oracle: exit 0, "
        "parameters/equations/defect/redundancy = reference (defect = exact nullity), adjusted coordinates = generating coordinates within 2e-6 m (see assumptions for zenith networks from displaced coordinates) "
        "(resolved-defect networks from displaced coordinates: observations reproduced and corrections orthogonal to the null space over the constrained parameters; "
        "noisy vector networks: own weighted least squares), zero residuals, agreement of the 4 algorithms, of all record orders and of all groupings of the records into <obs> clusters, and of Adj on the dump. "
        "Instrument / target heights: in the dh families every record that accepts <from-dh>/<to-dh> (vector, distance, zenith; angle: from-dh) carries them or not, in every combination; the observed value then refers to "
        "the points displaced along their local vertical (reference model of its own) - alone in its <obs> and, in the order layer, in every grouping of the records into multi-piece clusters. "
        "Rejection tolerance tol-abs (families tol*): approximate coordinates of the vector / xyz networks displaced in X, Y, Z so that every component of every absolute term is inside tol-abs = 1 m "
        "(0.05-0.95 m) while the lengths are beyond it (1.3-1.65 m), under sign patterns: nothing may be rejected and the truth is reproduced; and with one component of one point at 1.05 m: exactly the records "
        "with an absolute term beyond tol-abs in a component are listed as rejected and the equations drop by their dimension (counters records_kept_with_absolute_term_longer_than_tol_abs / records_to_be_rejected). "
        "Angles through 0 / 400 gon: the layout 'ray' (families wrap*) holds angles of +2..3 cc and 400 gon - 2..3 cc whose value computed from the displaced approximate coordinates falls on the other side of the wrap, "
        "in both directions (counters angles_observed_above_0_computed_below_400 / angles_observed_below_400_computed_above_0). "
        "A state = one generated input file that was executed; a transition = one gama-g3 execution or one Adj solution of a dump. Families: " + " | ".join(bounds),
        extra={"families": bounds, "unlisted_violation_signatures": dict(sorted(ck.viol_sigs.items())),
               "alphabet": {"types": list(N.TYPES), "singles_only": list(N.EXTRA_TYPES), "places": [p[0] for p in G.PLACES],
                            "status_codes": "x fixed, f free, c constr; two letters per point: horizontal position (n,e) and height (u)"}},
        assumptions=[
            "networks of 3-4 points within 5 km, sights 1.6-4.3 km, height differences 120-720 m; layout 'ray' (families wrap*): sights 53-111 m, height differences 6-18 m, B and C on one ray from A (C 0.4 mm off it); other geometries are not covered",
            "ill-posed networks (defect not resolved by the constrained parameters, or rank decided only by pivots between 1e-10 and 1e-2 of the natural row scale) are excluded by construction and counted as outcome classes excluded:*",
            "a rank defect counts as exact only if no zenith-angle or angle row touches a parameter on which the null space lives: those rows may legitimately be approximated (plane formulae, neglected tilt of the verticals, relative 1e-7..6e-3), and then the rank of the implementation's matrix is decided by the neglected terms (seen: gso/svd defect 0, envelope/cholesky defect 1 for zenith networks at 89.9 N and for hdiff+angle networks with a common height shift); such networks are excluded as ambiguous",
            "tolerance of adjusted = generating: 2e-6 m; from displaced approximate coordinates in networks with zenith angles plus eps x 0.57 mm, eps = (1/6.33e6 m) / min(|u|/s) <= 6.5e-3 = the turn of the station's vertical with its position, which gama's plane zenith row leaves out (at most 3.7e-6 m more; observed 2.1-2.3e-6 m where only zenith angles determine a horizontal position). gama-g3 takes one Gauss-Newton step, so a neglected term of relative size eps leaves eps x displacement; with approximate = generating coordinates the tolerance stays 2e-6 m",
            "gama-g3 does not iterate: approximate coordinates are the generating ones or displaced by 0.3-0.6 mm (second order term < 1e-9 m); 0.17-0.34 m only for the linear vector/xyz families",
            "tol-abs is the default of Model (1000 mm), not varied through <tol-abs>; that an observation with an absolute term beyond it is excluded is documented for gama-local (doc/gama-local-adj.texi) - gama-g3 has no text of its own; after a rejection only the rejected set and the number of equations are judged, and networks left without any parameter are not generated",
            "status combinations exist only for n,e jointly (the parser refuses different n and e states) and u",
            "azimuth is not in the alphabet (every <azimuth> is refused by the parser: known finding; family azimuth3 keeps it visible)",
            "angles are clockwise left -> right in 0..400 gon; every network with angles contains the explement of its first angle (> 200 gon); angles nearer to 0 / 400 gon than 2 cc are not generated (gama takes the angle from an arc cosine: resolution 1e-16 rad / angle)",
            "instrument/target heights are 0.15-0.44 m (every fourth to-dh negative), distinct per record and end, on the long-sight layout only: gama builds the distance row from the marks, not from instrument and target (direction off by dh/s), which the single step turns into dh/s x displacement - below 5e-7 m here, but not for heights of metres on sights of 60 m",
            "<left-dh>/<right-dh> of an angle are not varied: DataParser::g3_obs_angle reads them from the <to-dh> slot (they are silently ignored), but a target height changes a horizontal angle by < 1e-9 rad, far below what the oracle can see",
            "deflections of the vertical, b/l/h input and angular values in degrees are not varied",
        ])


if __name__ == "__main__":
    main()
