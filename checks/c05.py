#!/usr/bin/env python3
"""C05: linearised observation equations equal the true Jacobian and misclosure.

Exhaustive enumeration (harness/linmc.cpp) of
  stage A  13 observation types x every from/to(/fs) placement on a point
           lattice (exactly singular ones removed) x coordinate offsets x
           frames (axes-xy/angles, inconsistent ones through
           LocalNetwork::remove_inconsistency) x instrument/target heights x
           station orientations x observed-value menu x every status
           combination, each run through LocalLinearization via accept();
  stage B  5-point networks (3 xyz points, a height-only and an xy-only point)
           with 32 observations of all 13 types, fed as XML through GKFparser ->
           remove_inconsistency -> Acord2 -> refine_obsdh_reductions ->
           LocalNetwork::project_equations(A,b,w), x every status combination x
           frames x 4 algorithms; each network is re-linearised on the same
           object in every way the API offers (update_*, refine_approx_coordinates
           after solve, set_algorithm) and the oracle re-evaluated every time.
Oracle: harness/refobs.h (geometric observation functions in long double,
Richardson-extrapolated central differences)."""
import json, os, subprocess, sys
sys.path.insert(0, os.path.join(os.path.dirname(os.path.abspath(__file__)), "..", "lib"))
import vlib

STAGE_B = ("stage B: networks of 5 points -- A, B, C with xy and z (9 statuses each), D with a height only (adj=z | adj=Z | fix=z, no xy), E with xy only "
           "(adj=xy | adj=XY | fix=xy, no z) -- and 32 observations of all 13 types in 7 clusters, fed as XML through GKFparser -> remove_inconsistency -> "
           "Acord2 -> refine_obsdh_reductions -> project_equations(A,b,w); every network is then re-linearised on the same object after update_points(), "
           "update_observations(), update_residuals(), solve()+refine_approx_coordinates() (value variant 0: observations consistent with a geometry displaced "
           "by <= 0.3 m) and set_algorithm(next), in an order rotating with the status code, the whole oracle being evaluated after every build at the current "
           "approximate coordinates; ")
RULE_Q = ("stage A: 13 observation types x every ordered placement of from/to(/fs) on the lattice {-100,0,100}^2 x {-30,0,40} (27 points; "
          "zero-length horizontal sights removed by an exact integer test) x offset (5e6,1e6,1000) m x frames {ne/L, en/R consistent; ne/R, en/L "
          "inconsistent} (azimuth: all 16 axes-xy x angles) x from_dh/to_dh {0/0, 1.5/1.5, 1.6/0.2} (s-distance, z-angle) x orientation "
          "{0, 123.4567, 399.9999 gon} (direction) x observed = true + {0, 10cc, +-100gon, 200gon-+1cc, -200gon+-1cc, 399.9999gon | 0, +-3mm} x every "
          "free/fixed/constrained assignment of the xy and z part of each point (angles: 27 xy assignments x 3 uniform z assignments); "
          + STAGE_B + "enumerated: A at (0,0), B at (0,100), C at (100,0) or (100,100), heights (0,40,-30) x all 9^3*3*3 = 6561 status combinations x "
          "frames {ne/L, ne/R}, offset (5e6,1e6,1000), first algorithm / value variant / sigma-apr cycling with the status code")
RULE_T = ("stage A: as quick but lattice {-200..200 step 100}^2 x {-30,0,40} (75 points), offsets {0; (1e5,2e5,300); (5e6,1e6,1000)} and for angles all 729 "
          "status combinations whenever the three points lie in the inner lattice {-100,0,100}^2; "
          + STAGE_B + "enumerated: every ordered triple of corners of {0,100}^2 with heights (0,40,-30) (24) x 6561 status combinations x 4 frames x 4 algorithms, "
          "offset / value variant / sigma-apr cycling; plus every ordered triple with any heights from {-30,0,40} (624 more) x 729 statuses of A,B,C (D, E free) x "
          "frames {ne/L, ne/R} x algorithms {envelope, gso}")
TAIL = ("; oracle per linearisation: every coefficient = Richardson-extrapolated central difference of the reference observation function in cc/mm "
        "(rel 1e-6, floor 1e-9 x rho/d), no entry and no index for fixed or unrelated coordinates, indices a bijection onto 1..unknowns(), "
        "rhs = observed-computed mod 400 gon with |rhs| <= 200 gon (closed), network rows = reference rows = rows of a LocalLinearization run by the "
        "harness, w = (sigma-apr/stdev)^2; an evaluation = one linearised observation checked; non-trivial = it has at least one coordinate coefficient")


def main():
    ck = vlib.Check("C05", level="exploration")
    exe = vlib.hbuild("linmc", "rel")
    if ck.args.replay:
        case = json.load(open(ck.args.replay))["case"]
        r = subprocess.run([exe, "--case", case], stdout=subprocess.PIPE, text=True)
        sys.stdout.write("\n".join(l for l in r.stdout.splitlines() if l.startswith("#")) + "\n")
        hits = [l for l in r.stdout.splitlines() if l.startswith("V\t")]
        print("\n".join(hits) if hits else "no violation of C05 on replay")
        sys.exit(1 if hits else 0)
    if not ck.args.deadline and not os.environ.get("VERIF_DEADLINE_S"):
        # own budget (guide: quick <= 60 s, thorough <= 15 min on 16 cores); when it cuts the run: exhaustive=false
        ck.deadline = min(ck.deadline, ck.t0 + (840 if ck.tier == "thorough" else 55))
    viols = ck.run_shards(exe, ["--tier", ck.tier], nshards=vlib.NCPU * 4)
    for (sig, case, detail) in viols:
        ck.violation(sig, detail, replay=case)
    ck.finish((RULE_T if ck.tier == "thorough" else RULE_Q) + TAIL,
              assumptions=[
                  "coordinates on an integer lattice (sights 100-570 m, zenith angles 61-139 gon) shifted by integer offsets; other reals are not covered",
                  "observed zenith angles are taken in (0,400) gon; a value above 200 gon is a face-II reading (400 gon - z), which is how LocalLinearization::z_angle reads it; entries within 1e-9 rad of 200 gon are left out (face undecidable in floating point)",
                  "observed y / dy rows are compared up to the common factor y_sign: in an inconsistent frame gama adjusts the mirrored observation",
                  "reference: harness/refobs.h in long double; its Richardson error estimate must stay below 1e-9 of the row scale or the case is reported",
                  "stage B keeps the approximate coordinates given in the input (all points have coordinates) and reads the station orientations computed by Acord2; after refine_approx_coordinates the linearisation point is read back from the object (must stay within 5 m of the input), and rows with from_dh != to_dh get the documented slack of refine_obsdh_reductions (1e-3 mm / 0.1 cc) on the rhs"])


if __name__ == "__main__":
    main()
