#!/usr/bin/env python3
"""C08: the choice of datum in a free network changes only the datum.

Network level (this file + lib/n08_*.py): every free network of the generated
family x EVERY subset of point constraints (XY and Z separately) that the
exact reference proves admissible x 4 algorithms, on the real gama-local.
Solver level: checks/adjshape.py C08 (harness/adjmc.cpp), merged into the same
evidence file.
"""
import json, os, sys, time
sys.path.insert(0, os.path.join(os.path.dirname(os.path.abspath(__file__)), "..", "lib"))
sys.path.insert(0, os.path.dirname(os.path.abspath(__file__)))
import vlib, gnet, n08_gen, n08_check, n08_run, n08_dangle
import adjshape

RULE = ("network level: free networks (levelling d=1; 2-D distances d=3; directions+distances d=3; angles only d=4; 3-D slope distances+zenith angles d=4; "
        "slope distances only d=6; vectors d=3; variants with one observation dropped and with one point fixed) on integer lattice coordinates, "
        "observations = consistent value +-0.5 mm / +-1.5 cc by fixed sign patterns, approximate = true coordinates, --iterations 0; "
        "state = set of constrained coordinate groups (XY / Z per point), all 2^k sets classified exactly (rational null space N of the row-scaled Jacobian; "
        "admissible iff rank N_S = defect), every admissible set run with envelope, gso, svd, cholesky; oracle: defect/dof/counts = exact reference, "
        "residuals, [pvv], adjusted observations, their standard deviations, qrr/f/std-residual and every inter-point distance / slope distance / height difference / angle "
        "whose exact gradient is orthogonal to N are equal over all (set, algorithm) pairs (1e-6 m, 1e-6 gon), corrections of the constrained coordinates are "
        "orthogonal to every null vector restricted to them (1e-8 m); "
        "dangling-point dimension: every network additionally with ONE extra point P that the adjustment must remove (no observation at all; a single distance; "
        "one more target in a direction set; right-hand target of a single angle; a single slope distance = removal of xy and z in two passes -- each proved exactly to touch P "
        "in one observation with non-zero x and y coefficients, i.e. removal by singular_coords() before any solver runs), enumerated over the status of P "
        "(free xy/z/xyz or constrained XY/Z/XYZ), the position of its id in the point order (before all / between / after all family points) "
        "and the position of its observation (first = P numbered first, second, last = numbered after every family unknown), for minimal admissible constraint sets "
        "(evenly spaced in mask order) and the full set; bounds: quick 3 minimal sets; thorough 8 minimal sets + the mixed statuses XYz/xyZ on the complete networks with sign pattern 0, "
        "2 minimal sets and id position 'between' only on the other networks (other noise patterns, dropped observation, fixed point); "
        "oracle: (1) the text output lists exactly the expected removals of P and P is printed in no result section, (2) defect/dof/counts, constraint marks, all invariants above "
        "and the orthogonality / minimal-norm clause are those of the same constraint set without P, and the adjusted coordinates equal those of the run without P (1e-8 m), "
        "(3) the run with P constrained equals the run with P free (1e-8 m); "
        "iteration dimension: the slope-distance + zenith-angle and the slope-distance-only networks without fixed point additionally with POOR approximate coordinates "
        "(fixed offset patterns: 0.6-1.8 m in z and 3-9 cm in xy; thorough also 1.5-4.5 m / 8-22 cm; tol-abs 100 m, sigma-apr 1) and gama-local's linearization iterations enabled (default limit 5), "
        "for the admissible constraint sets of the lattice (quick: at most 150 per network, evenly spaced; thorough: all, plus the larger offsets on 64 sets of the complete pattern-0 networks); "
        "oracle: defect/dof/counts/constraint marks as above; every run converges by gama's own rule (iterations < limit; misclosure e = largest difference, as a position, between an adjusted observation "
        "recomputed from the adjusted coordinates and observed + residual <= 6e-7 m = gama's 5e-7 m + 20 %); tolerances follow from the MEASURED e and last correction s of the runs compared: "
        "residuals, adjusted observations and the inter-point quantities invariant under the finite datum motions (all listed ones for translations + rotation about z, slope distances when the datum contains tilts) "
        "agree over ALL runs, iterated or not (1e-6 m + 4 max e; angles 1e-6 gon + 4 max e / 100 m); over the iterated runs the standard deviations of adjusted observations "
        "and qrr/f/std-residual (relative 20 max s / 100 m on top of the printed decimals: cofactors belong to the last linearization point) and [pvv] (3e-7 relative + 2 max (2 (sqrt[pvv] + E) E + E^2), E = weighted norm of e); "
        "the TOTAL corrections adjusted - given approximate value of the constrained coordinates sum to zero per axis (1e-8 m, exact at every iteration count because translations are null vectors at every "
        "linearization point) and the corrections of the last linearization are orthogonal to the datum generators at the printed last approximate coordinates (tolerance = rounding of their 6 decimals); "
        "a run that does not converge is reported and still compared in residuals / adjusted observations / shape; solver level: " + adjshape.RULES["C08"] +
        "; states = distinct (network, constraint set[, dangling variant]) inputs + solver-level configurations, transitions = gama-local executions + solver runs")


def replay(ck, path):
    J = json.load(open(path))
    case = J["case"]
    if isinstance(case, str):
        return adjshape.run("C08", ck)          # solver-level replay (exits)
    exe = n08_run.private_exe(vlib.exe("rel", "gama-local"), ck.tmp)
    tier, fi = case["tier"], case["fi"]
    res = []
    todo = [(m, None) for m in sorted(set(case["masks"]))]
    for m, v in case.get("vars") or []:
        # a dangling-point variant is judged against the same constraint set without the point
        # and against the variant with the point declared free
        v = tuple(v)
        for t in ((m, v), (m, None)) if n08_check.is_iter(v) else ((m, v), (m, n08_dangle.free_twin(v)), (m, None)):
            if t not in todo:
                todo.append(t)
    for m, v in todo:
        w = n08_check.worker((tier, fi, m, ck.tmp, exe) + (() if v is None else (v,)))
        g = n08_check.gkf_of(tier, fi, m, v)
        stored = (J.get("files") or {}).get("mask_%x.gkf" % m if v is None else "mask_%x_%s.gkf" % (m, "_".join(str(t) for t in v)))
        if stored is not None and stored != g:
            print("note: generator output differs from the stored input for mask %x %s; the stored text is informational" % (m, v or ""))
        res.append(w)
    hits = []
    n08_check.evaluate(tier, fi, res, lambda sig, detail, masks, algs: hits.append((sig, detail)), lambda c: None)
    for sig, detail in hits:
        print("V\t%s\t%s" % (sig, detail))
    if not hits:
        print("no violation of C08 on replay")
    sys.exit(1 if hits else 0)


def main():
    ck = vlib.Check("C08")
    if ck.args.replay:
        replay(ck, ck.args.replay)
    exe = n08_run.private_exe(vlib.exe("rel", "gama-local"), ck.tmp)
    tier = ck.tier
    F = n08_gen.families(tier)
    items = []
    expected = {}
    import concurrent.futures as cf
    with cf.ProcessPoolExecutor(max_workers=vlib.NCPU) as ex:
        plans = dict(ex.map(n08_check.plan_worker, [(tier, fi) for fi in range(len(F))], chunksize=2))
    for fi, f in enumerate(F):
        k = len(n08_gen.constraint_slots(f.net))
        for mask in range(1 << k):
            items.append((tier, fi, mask, ck.tmp, exe))
        for mask, var in plans[fi]:                 # (constraint set, dangling-point variant)
            items.append((tier, fi, mask, ck.tmp, exe, var))
        expected[fi] = (1 << k) + len(plans[fi])
    # large families first so that the pool drains evenly
    byfam = {}
    done_all = True
    t0 = time.time()
    budget = 45 if tier == "quick" else 600
    with cf.ProcessPoolExecutor(max_workers=vlib.NCPU) as ex:
        it = ex.map(n08_check.worker, items, chunksize=4)
        for w in it:
            byfam.setdefault(w["fi"], []).append(w)
            if w.get("var") is not None:
                ck.count("iterated_variants" if n08_check.is_iter(w["var"]) else "dangling_point_variants"); ck.count("net_states"); ck.count("net_runs", 4)
            else:
                ck.count("constraint_sets_classified")
                if w["adm"]:
                    ck.count("net_states"); ck.count("net_runs", 4)
                else:
                    ck.count("inadmissible_sets_not_run")
            if time.time() - t0 > budget or ck.time_left() < 30:
                done_all = False
                break
        if not done_all:
            ex.shutdown(wait=False, cancel_futures=True)
    if not done_all:
        ck.exhaustive = False
        ck.notes.append("network level cut by the time budget after %d of %d inputs (constraint sets + dangling-point variants)" % (sum(len(v) for v in byfam.values()), len(items)))

    complete = []
    net_out = {}
    for fi in sorted(byfam):
        # a family cut by the deadline is evaluated on the runs that exist: every clause relates
        # runs that were made (a hanging gama-local must not hide behind its own timeouts)
        if len(byfam[fi]) != expected[fi]:
            ck.count("families_cut_by_deadline_evaluated_partially")
        complete.append((tier, fi, byfam[fi]))
    with cf.ProcessPoolExecutor(max_workers=vlib.NCPU) as ex:
        for E in ex.map(n08_check.eval_family, complete, chunksize=1):
            ck.count("families_evaluated")
            ck.count("pairwise_compared_runs", E["nruns"])
            ck.count("lattice_edges_between_admissible_sets", E["edges"])
            for c in E["outcomes"]:
                ck.outcome(c)
                net_out[c] = net_out.get(c, 0) + 1
            for (sig, detail, rp, files) in E["viol"]:
                ck.violation(sig, detail, replay=rp, files=files)
            if E["sample"] and E["fi"] % 3 == 0:
                ck.sample(E["sample"])
    ck.count("states", ck.counters.get("net_states", 0))
    ck.count("transitions", ck.counters.get("net_runs", 0))
    ck.count("evaluations", ck.counters.get("net_runs", 0))
    vlib.log("[C08 %s] network level: %d families, %d admissible sets, %d runs, %.1fs" % (
        tier, len(byfam), ck.counters.get("net_states", 0), ck.counters.get("net_runs", 0), time.time() - t0))
    # solver level (same evidence file)
    adjshape.run("C08", ck)
    ck.counters["distinct_nontrivial"] = ck.counters.get("states", 0)
    if ck.viol_sigs:
        vlib.log("unlisted violation signatures: " + "; ".join("%s x%d" % kv for kv in sorted(ck.viol_sigs.items())))
    ck.finish(RULE, extra={"network_level_outcome_classes": dict(sorted(net_out.items(), key=lambda kv: -kv[1])),
                           "network_level": {"networks": len(F), "admissible_constraint_sets_run": ck.counters.get("net_states", 0) - ck.counters.get("dangling_point_variants", 0) - ck.counters.get("iterated_variants", 0),
                                             "iterated_variants_run": ck.counters.get("iterated_variants", 0),
                                             "dangling_point_variants_run": ck.counters.get("dangling_point_variants", 0),
                                             "gama_local_runs": ck.counters.get("net_runs", 0)}},
              assumptions=[
        "integer lattice coordinates {0,100,200}^2 x heights {0,10,30}; 4-5 points; larger networks and off-lattice geometry are not covered",
        "iterated inputs: offsets of metres in z so that every run needs one or two replacements of the approximate coordinates; gama stops anywhere below 5e-7 m misclosure (measured 1e-13 .. 4.9e-7 m), "
        "so the tolerances of the datum-independent quantities are derived from the measured misclosure of the runs compared (measured spreads: <= 0.5 e in lengths, <= 0.4 of the [pvv] bound, <= 0.8 s/100 m in standard deviations); "
        "sigma-apr 1 because with sigma-apr 10 algorithm envelope refuses about a third of the admissible sets at non-lattice linearization points (known finding C09|run|failed|*|envelope, absolute pivot tolerance; "
        "the same cause leaves 1e-6 .. 1e-4 m in envelope's minimal-norm condition: known finding C08|not-minimal-over-constrained|s?|iterated*|envelope); "
        "networks with a fixed point, vectors (linear: no iteration) and 2-D networks are not iterated; after iterating the rotation part of the minimal-norm clause is only tested to the 1e-6 m rounding of <approximate>",
        "dangling point at (300,150[,20]): no sight to it is parallel to a coordinate axis, except for the attachment distx (one distance exactly along the x axis of its anchor: the y column of the point is exactly zero, 0/0 in the collinearity measure of LocalNetwork::singular_coords; must be removed like the others since repair 796e8cc); one dangling point per input; under-determined attachments that the solver-dependent null_space() path would have to remove (e.g. a station with two directions) are not generated; non-minimal constraint sets other than the full one are run without dangling point only",
        "noise +-0.5 mm / +-1.5 cc; the check asserts every coordinate correction <= 4 mm, which bounds the second-order linearisation term of any distance by 1.6e-7 m (6x below the 1e-6 m tolerance; typical margin 25-100x); --iterations 0 so that 'correction' means adjusted - given approximate value",
        "standard deviations compared with 1e-6 mm|cc + 1e-8 relative; [pvv] with 3e-7 relative (8 printed digits); qrr/f/std-residual with two units of their 3 printed decimals",
        "solver level: " + "integer design matrices with entries in {-2..2}, n<=%s unknowns" % ("4" if tier == "thorough" else "3")])


if __name__ == "__main__":
    main()
