#!/usr/bin/env python3
"""C01 / C02 / C03: solver level (adjmc, GNU_gama::Adj entry point) followed by
network level (gama-local executable = LocalNetwork entry point, netlev)."""
import os, sys
sys.path.insert(0, os.path.dirname(os.path.abspath(__file__)))
sys.path.insert(0, os.path.join(os.path.dirname(os.path.abspath(__file__)), "..", "lib"))
import vlib, adjshape, netlev

if __name__ == "__main__":
    pid = sys.argv[1]; sys.argv = [sys.argv[0]] + sys.argv[2:]
    ck = vlib.Check(pid)
    if ck.args.replay:
        import json
        d = json.load(open(ck.args.replay))
        if isinstance(d.get("case"), dict) and "files" in d:
            # network level replay: run the stored input with the stored algorithm and show the result summary
            import gnet
            r = gnet.run_gama(vlib.exe("rel", "gama-local"), d["files"]["input.gkf"], ck.tmp, "replay", args=["--algorithm", d["case"].get("alg", "envelope")], want=("xml", "text"))
            print(d["sig"], "::", d["detail"]); print(r.text or r.stderr)
            sys.exit(1)
        adjshape.run(pid, ck)   # exits
    adjshape.run(pid, ck)
    s1 = ck.counters.get("states", 0)
    netlev.run(pid, ck)
    ck.counters["distinct_nontrivial"] = ck.counters.get("states", 0)
    ck.finish(adjshape.RULES[pid] + " || network level: every levelling network with 3 (thorough: 4) points from the candidate rows {dh(i,j), observed height(i)} up to 4 (5) observations x covariance layouts (stdev attributes / bands 0-2, two value families) x status patterns (fixed / free / constrained heights) x 4 algorithms through the gama-local executable; dense reference (exact linear model); for C03 additionally every --cov-band in {-1..dim}. states = solver-level configurations (%d) + generated networks; transitions = solver runs + gama-local executions" % s1,
              assumptions=["integer design matrices with entries in {-2..2}, n<=4 unknowns, m<=%s rows; reals off the lattice are not covered" % ("5 (reduced covariance layouts for n=4,m=5)" if ck.tier == "thorough" else "4 (3 for n=4)"),
                           "solver level tolerance 1e-8*scale; network level: printed precision of the XML result",
                           "network level restricted to linear (levelling) networks; non-linear networks are compared between algorithms by C06/C07/C09"])
