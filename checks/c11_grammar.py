"""C11, space 2: the documented input grammar as a model.

An XSD-subset reader (xml.etree only) turns $REPO/xml/gama-local.xsd into
  elements[name] = Elem(attrs=[Attr(name, required, kind, enum)], model=<particle>, mixed, simple)
where a particle is ('ref', name, min, max) | ('seq', [p..], min, max) | ('choice', [p..], min, max)
(max None = unbounded).  Everything the generator knows about *structure*
(which children, in which order, which attributes exist, which are required,
which values an enumeration has) comes from that model; the only hand-written
part is the table of semantically valid *values* (VALUES) and the five
semantic rules listed in RULES, each with its reference to the manual.

The generator enumerates documents
  S: every sequence of 1..2 clusters x every sequence of 1..2 observation
     elements allowed by the cluster's content model x optional cov-mat
     absent/present x attribute mode in {implicit, explicit, all-on}
  A: for every element and every optional attribute: the attribute alone;
     for every enumeration: every value; both in a one-cluster carrier
and the driver replays ALL of them on the real executable.
"""
import itertools, os
import xml.etree.ElementTree as ET

XS = "{http://www.w3.org/2001/XMLSchema}"
NS = "http://www.gnu.org/software/gama/gama-local"


class Attr:
    def __init__(self, name, required, kind, enum, default):
        self.name, self.required, self.kind, self.enum, self.default = name, required, kind, enum, default

    def __repr__(self):
        return "Attr(%s,%s,%s)" % (self.name, "req" if self.required else "opt", self.enum or self.kind)


class Elem:
    def __init__(self, name):
        self.name = name
        self.attrs = []
        self.model = None      # particle or None (empty content)
        self.mixed = False
        self.simple = None     # simple content type (xs:string) or None


def _occ(node):
    mn = int(node.get("minOccurs", "1"))
    mx = node.get("maxOccurs", "1")
    return mn, (None if mx == "unbounded" else int(mx))


def _particle(node):
    tag = node.tag
    mn, mx = _occ(node)
    if tag == XS + "element":
        return ("ref", node.get("ref") or node.get("name"), mn, mx)
    if tag == XS + "sequence":
        return ("seq", [_particle(c) for c in node if c.tag in (XS + "element", XS + "sequence", XS + "choice")], mn, mx)
    if tag == XS + "choice":
        return ("choice", [_particle(c) for c in node if c.tag in (XS + "element", XS + "sequence", XS + "choice")], mn, mx)
    raise ValueError("unsupported particle " + tag)


def _attr(node):
    enum, kind = None, node.get("type")
    st = node.find(XS + "simpleType")
    if st is not None:
        r = st.find(XS + "restriction")
        kind = r.get("base")
        vals = [e.get("value") for e in r.findall(XS + "enumeration")]
        if vals:
            enum = vals
        mi = r.find(XS + "minInclusive")
        if mi is not None:
            kind += ">=" + mi.get("value")
    return Attr(node.get("name"), node.get("use") == "required", kind or "xs:string", enum, node.get("default"))


def read_xsd(path):
    root = ET.parse(path).getroot()
    types = {}
    for ct in root.findall(XS + "complexType"):
        types[ct.get("name")] = ct
    elements = {}

    def fill(el, ct):
        el.mixed = ct.get("mixed") == "true"
        cc = ct.find(XS + "complexContent")
        if cc is not None:
            ext = cc.find(XS + "extension")
            fill(el, types[ext.get("base")])
            ct = ext
        for c in ct:
            if c.tag in (XS + "sequence", XS + "choice"):
                el.model = _particle(c)
            elif c.tag == XS + "attribute":
                el.attrs.append(_attr(c))

    for e in root.findall(XS + "element"):
        el = Elem(e.get("name"))
        ct = e.find(XS + "complexType")
        if ct is not None:
            fill(el, ct)
        elif e.get("type"):
            el.simple = e.get("type")
        elements[el.name] = el
    return elements


def child_names(p):
    """all element names a particle can produce"""
    if p is None:
        return []
    if p[0] == "ref":
        return [p[1]]
    out = []
    for c in p[1]:
        for n in child_names(c):
            if n not in out:
                out.append(n)
    return out


def split_model(el):
    """For a cluster element: (repeatable observation children, trailing optional/required single child).
    Understands the two shapes used by the schema:
       sequence( choice*(a|b|..) , x? )   and   sequence( a+ , x[?] )"""
    m = el.model
    assert m and m[0] == "seq", el.name
    head, tail = m[1][0], (m[1][1] if len(m[1]) > 1 else None)
    reps = child_names(head)
    head_min = head[2] if head[0] == "ref" else 0
    if head[0] != "ref":
        head_min = head[2] * min(c[2] for c in head[1])
    t = None
    if tail is not None:
        t = (tail[1], tail[2])      # (name, minOccurs)
    return reps, head_min, t


# ---------------------------------------------------------------- semantic value table
# geometry: A(0,0,0) fixed, B(100,0,10) and C(50,80,5) adjusted.
VALUES = {
    ("*", "from"): "A", ("*", "to"): "B", ("angle", "bs"): "B", ("angle", "fs"): "C",
    ("*", "stdev"): "5.0", ("*", "from_dh"): "1.5", ("*", "to_dh"): "1.6", ("angle", "bs_dh"): "1.6", ("angle", "fs_dh"): "1.7",
    ("*", "extern"): "ext-1",
    ("direction", "val"): "12.3456", ("angle", "val"): "64.4440", ("z-angle", "val"): "93.6550", ("azimuth", "val"): "100.0000",
    ("distance", "val"): "100.004", ("s-distance", "val"): "100.503", ("dh", "val"): "10.002", ("dh", "dist"): "1.25",
    ("vec", "dx"): "100.002", ("vec", "dy"): "0.001", ("vec", "dz"): "10.003",
    ("obs", "orientation"): "0.0",
    ("network", "epoch"): "2020.5",
    ("parameters", "sigma-apr"): "10", ("parameters", "conf-pr"): "0.95", ("parameters", "tol-abs"): "1000",
    ("parameters", "latitude"): "50", ("parameters", "ellipsoid"): "wgs84", ("parameters", "cov-band"): "0",
    ("points-observations", "distance-stdev"): "5 3 1", ("points-observations", "direction-stdev"): "10",
    ("points-observations", "angle-stdev"): "10", ("points-observations", "zenith-angle-stdev"): "10",
    ("points-observations", "azimuth-stdev"): "10",
}
RULES = [
    "R1 an observation needs a standard deviation from somewhere: its own stdev, the implicit *-stdev of <points-observations>, dist of <dh>, or the cluster's <cov-mat> (gama-local-input.texi, 'Points and observations')",
    "R2 <direction> has no 'from': directions live in <obs from=..> (texi 'Set of observations'); other observations carry 'from' themselves when <obs> has none",
    "R3 <cov-mat dim> equals the number of observations of the cluster (3 per <vec>, 2/1/3 per <point> with xy/z/xyz); band < dim; the text holds the upper band by rows",
    "R4 a <point> inside <coordinates> defines x and y and/or z (texi 'Control coordinates')",
    "R5 identifiers refer to the three declared points; from != to, bs != fs; distances are positive",
    "R6 a height difference and a vector connect two points: <dh> and <vec> always carry 'from' (the manual lists it without 'optional'; the schema merely omits use=required)",
]


def value(elem, attr, a):
    if a.enum:
        return a.enum[0]
    for k in ((elem, attr), ("*", attr)):
        if k in VALUES:
            return VALUES[k]
    if a.kind in ("xs:double",):
        return "1.5"
    return "1"


def esc(s):
    return s.replace("&", "&amp;").replace("<", "&lt;").replace('"', "&quot;")


class Gen:
    def __init__(self, xsd_path):
        self.E = read_xsd(xsd_path)
        self.used_attrs = set()
        self.used_elems = set()
        self.exclude = set()       # (element, attribute) pairs shown to be refused one at a time (family A): left out of the all-on mode
        po = self.E["points-observations"]
        self.cluster_kinds = [n for n in child_names(po.model) if self.E[n].model is not None]   # elements with element content
        self.header_point = [n for n in child_names(po.model) if self.E[n].model is None]       # 'point'

    # -- one element as text
    def tag(self, name, attrs, body=None):
        self.used_elems.add(name)
        for k, _ in attrs:
            self.used_attrs.add((name, k))
        s = "<" + name + "".join(' %s="%s"' % (k, esc(v)) for k, v in attrs)
        return s + "/>" if body is None else s + ">" + body + "</" + name + ">"

    def attrs_for(self, name, mode, only=None, force=None, skip=()):
        """mode: 'req' = required only, 'all' = every attribute; only = one optional attribute to add"""
        out = []
        for a in self.E[name].attrs:
            if a.name in skip:
                continue
            on = a.required or mode == "all" or a.name == only
            if mode == "all" and a.name != only and (name, a.name) in self.exclude:
                on = False
            if on:
                v = force[a.name] if force and a.name in force else value(name, a.name, a)
                out.append((a.name, v))
        return out

    # -- clusters
    def nobs_of(self, kind, child, variant):
        if kind == "vectors":
            return 3
        if kind == "coordinates":
            return {"xy": 2, "z": 1, "xyz": 3}[variant]
        return 1

    def cov(self, dim, band):
        rows = []
        for r in range(dim):
            rows.append(" ".join(["4"] + ["0.5"] * min(band, dim - 1 - r)))
        return self.tag("cov-mat", [("dim", str(dim)), ("band", str(band))], "\n" + "\n".join(rows) + "\n")

    def observation(self, kind, child, idx, mode, with_stdev, obs_has_from, only=None, cvariant="xy"):
        """one observation element of a cluster; idx 0/1 picks the target so that two observations differ"""
        force = {}
        to = "B" if idx == 0 else "C"
        names = [a.name for a in self.E[child].attrs]
        if "to" in names:
            force["to"] = to
        if child == "angle":
            force["bs"], force["fs"] = ("B", "C") if idx == 0 else ("C", "B")
        if kind == "coordinates":
            pid = "B" if idx == 0 else "C"
            force["id"] = pid
            attrs = [("id", pid)]
            xyz = {"B": ("100.001", "0.002", "10.003"), "C": ("50.001", "80.002", "5.003")}[pid]
            if "xy" in cvariant:
                attrs += [("x", xyz[0]), ("y", xyz[1])]
            if "z" in cvariant:
                attrs += [("z", xyz[2])]
            if mode == "all" or only in ("fix", "adj"):
                pass       # fix/adj are attributes of the declaration, exercised in the header points
            return self.tag(child, attrs)
        skip = set()
        if "stdev" in names and not with_stdev and only != "stdev" and mode != "all":
            skip.add("stdev")
        a = self.attrs_for(child, mode, only=only, force=force, skip=skip)
        have = dict(a)
        if with_stdev and "stdev" in names and "stdev" not in have:
            a.append(("stdev", "5.0"))
        if "from" in names and "from" not in have and not obs_has_from:
            a.insert(0, ("from", "A"))          # R2
        if child in ("dh", "vec") and "from" not in have:
            a.insert(0, ("from", "A"))          # R6
        return self.tag(child, a)

    def cluster(self, kind, children, cov, mode, stdev_mode, only=None, cvariant="xy", obs_from=True):
        """children: list of child element names; cov: bool; stdev_mode: 'implicit'|'explicit'"""
        el = self.E[kind]
        reps, head_min, tail = split_model(el)
        with_stdev = (stdev_mode == "explicit") and not cov
        body, n = [], 0
        for i, ch in enumerate(children):
            o = only if (only and only[0] == ch) else None
            body.append(self.observation(kind, ch, i, mode, with_stdev or (ch == "dh" and stdev_mode == "explicit" and not cov), obs_from,
                                         only=o[1] if o else None, cvariant=cvariant))
            n += self.nobs_of(kind, ch, cvariant)
        if ch == "dh":
            pass
        if cov:
            band = min(1, n - 1) if mode != "all" else n - 1
            body.append(self.cov(n, band))
        force = {}
        skip = set()
        if kind == "obs" and not obs_from and not (only and only == ("obs", "from")):
            skip.add("from")
        a = self.attrs_for(kind, mode, only=(only[1] if only and only[0] == kind else None), skip=skip)
        if kind == "obs" and obs_from and "from" not in dict(a):
            a.insert(0, ("from", "A"))
        return self.tag(kind, a, "\n" + "\n".join(body) + "\n")

    BACKBONE = ('<obs>\n<distance from="A" to="B" val="100.002" stdev="5"/>\n<distance from="A" to="C" val="94.341" stdev="5"/>\n'
                '<distance from="B" to="C" val="94.339" stdev="5"/>\n</obs>\n'
                '<height-differences>\n<dh from="A" to="B" val="10.001" stdev="2"/>\n<dh from="A" to="C" val="5.002" stdev="2"/>\n'
                '<dh from="B" to="C" val="-4.998" stdev="2"/>\n</height-differences>')

    def document(self, clusters_text, mode, stdev_mode, only=None, backbone=False):
        E = self.E
        if backbone:
            clusters_text = list(clusters_text) + [self.BACKBONE]
        pts = [
            self.tag("point", [("id", "A"), ("x", "0"), ("y", "0"), ("z", "0"), ("fix", "xyz")]),
            self.tag("point", [("id", "B"), ("x", "100"), ("y", "0"), ("z", "10"), ("adj", "xyz")]),
            self.tag("point", [("id", "C"), ("x", "50"), ("y", "80"), ("z", "5"), ("adj", "xyz")]),
        ]
        po_only = only[1] if only and only[0] == "points-observations" else None
        po_attrs = self.attrs_for("points-observations", "all" if (mode == "all" or stdev_mode == "implicit") else "req", only=po_only)
        po = self.tag("points-observations", po_attrs, "\n" + "\n".join(pts + clusters_text) + "\n")
        kids = []
        if mode == "all" or (only and only[0] in ("description", "parameters")):
            kids.append(self.tag("description", [], "generated by c11_grammar"))
        if mode == "all" or (only and only[0] == "parameters"):
            kids.append(self.tag("parameters", self.attrs_for("parameters", mode, only=only[1] if only and only[0] == "parameters" else None,
                                                               force=only[2] if only and len(only) > 2 else None)))
        kids.append(po)
        net = self.tag("network", self.attrs_for("network", mode, only=only[1] if only and only[0] == "network" else None,
                                                 force=only[2] if only and len(only) > 2 and only[0] == "network" else None),
                       "\n" + "\n".join(kids) + "\n")
        return '<?xml version="1.0" ?>\n<gama-local xmlns="%s">\n%s\n</gama-local>\n' % (NS, net)

    # ------------------------------------------------------------ enumeration
    def cluster_variants(self, maxobs):
        """every cluster shape: (kind, children tuple, cov bool)"""
        out = []
        for kind in self.cluster_kinds:
            reps, head_min, tail = split_model(self.E[kind])
            for n in range(max(1, head_min), maxobs + 1):
                for children in itertools.product(reps, repeat=n):
                    covs = [True] if (tail and tail[1] >= 1) else [False, True]
                    for cov in covs:
                        out.append((kind, children, cov))
        return out

    def family_S(self, thorough):
        """documents: 1..2 clusters x 1..2 observations x cov x attribute modes"""
        one = self.cluster_variants(2)
        small = [c for c in one if len(c[1]) == 1]
        combos = [(c,) for c in one]
        if thorough:
            combos += [(a, b) for a in one for b in one]
        else:
            combos += [(a, b) for a in small for b in small]
        modes = [("req", "implicit"), ("req", "explicit"), ("all", "explicit")]
        for combo in combos:
            for mode, sm in modes:
                texts = []
                for (kind, children, cov) in combo:
                    cv = "xy"
                    # dh has no implicit stdev: 'implicit' means dist (R1)
                    texts.append(self._cluster_text(kind, children, cov, mode, sm, cv))
                name = "S|" + "+".join("%s(%s)%s" % (k, ",".join(ch), "+cov" if cv_ else "") for (k, ch, cv_) in combo) + "|" + mode + "/" + sm
                yield name, self.document(texts, mode, sm, backbone=True)

    def _cluster_text(self, kind, children, cov, mode, sm, cvariant, only=None, obs_from=True):
        if kind == "height-differences" and sm == "implicit" and not cov and mode != "all":
            # R1: dist is the implicit weight of a levelled height difference
            saved = self.attrs_for

            def with_dist(name, mode_, only=None, force=None, skip=()):
                r = saved(name, mode_, only=only, force=force, skip=skip)
                if name == "dh" and "dist" not in dict(r):
                    r.append(("dist", VALUES[("dh", "dist")]))
                return r
            self.attrs_for = with_dist
            try:
                return self.cluster(kind, children, cov, mode, sm, only=only, cvariant=cvariant, obs_from=obs_from)
            finally:
                self.attrs_for = saved
        return self.cluster(kind, children, cov, mode, sm, only=only, cvariant=cvariant, obs_from=obs_from)

    def family_A(self):
        """one optional attribute at a time, every enumeration value, point variants in <coordinates>, obs without from"""
        E = self.E
        carrier = {"obs": ("obs", ("distance",), False)}
        # where does each element live?  cluster children -> a carrier cluster with that single child
        home = {}
        for kind in self.cluster_kinds:
            reps, _, tail = split_model(E[kind])
            for r in reps:
                home.setdefault(r, (kind, (r,), bool(tail and tail[1] >= 1)))
            home[kind] = (kind, (reps[0],), bool(tail and tail[1] >= 1))
        default_cluster = ("obs", ("distance",), False)
        for name, el in sorted(E.items()):
            for a in el.attrs:
                vals = a.enum if a.enum else [None]
                if a.required and not a.enum:
                    continue
                for v in vals:
                    only = (name, a.name) if v is None else (name, a.name, {a.name: v})
                    if name in home and name != "point":
                        kind, children, cov = home[name]
                        for sm in (["explicit"] if a.name != "stdev" else ["implicit"]):
                            txt = self._cluster_text(kind, children, cov, "req", sm, "xy", only=(name, a.name))
                            yield "A|%s@%s" % (name, a.name), self.document([txt], "req", sm)
                    elif name == "point":
                        pt = self.tag("point", [("id", "C"), ("x", "50"), ("y", "80"), ("z", "5")] if a.name in ("fix", "adj") else [("id", "C")])
                        if a.name in ("fix", "adj"):
                            pt = self.tag("point", [("id", "C"), ("x", "50"), ("y", "80"), ("z", "5"), (a.name, v)])
                        elif a.name in ("x", "y"):
                            pt = self.tag("point", [("id", "C"), ("x", "50"), ("y", "80")])      # x and y come as a pair
                        elif a.name == "z":
                            pt = self.tag("point", [("id", "C"), ("z", "5")])
                        txt = self._cluster_text(*default_cluster, "req", "explicit", "xy")
                        yield "A|point@%s=%s" % (a.name, v), self.document([pt, txt], "req", "explicit")
                    else:
                        txt = self._cluster_text(*default_cluster, "req", "explicit", "xy")
                        yield "A|%s@%s=%s" % (name, a.name, v), self.document([txt], "req", "explicit", only=only)
        # point variants inside <coordinates> (R4) x 1..2 points
        for cv in ("xy", "z", "xyz"):
            for n in (1, 2):
                txt = self._cluster_text("coordinates", ("point",) * n, True, "req", "explicit", cv)
                yield "A|coordinates/point:%s x%d" % (cv, n), self.document([txt], "req", "explicit")
        # <obs> without from, children carry it (R2)
        for ch in child_names(E["obs"].model):
            if ch in ("direction", "cov-mat"):
                continue
            txt = self._cluster_text("obs", (ch,), False, "req", "explicit", "xy", obs_from=False)
            yield "A|obs-without-from(%s)" % ch, self.document([txt], "req", "explicit")
        # elements whose content model allows zero children (choice minOccurs=0): the empty cluster
        for kind in self.cluster_kinds:
            reps, head_min, tail = split_model(E[kind])
            if head_min == 0 and not (tail and tail[1] >= 1):
                a = self.attrs_for(kind, "req")
                if kind == "obs":
                    a.insert(0, ("from", "A"))
                txt = self._cluster_text(*default_cluster, "req", "explicit", "xy")
                yield "A|%s empty" % kind, self.document([self.tag(kind, a, "\n"), txt], "req", "explicit", backbone=True)
        # full band covariance matrices
        for kind, children in (("obs", ("distance", "direction")), ("height-differences", ("dh", "dh")), ("vectors", ("vec",)), ("coordinates", ("point", "point"))):
            txt = self._cluster_text(kind, children, True, "all", "explicit", "xyz")
            yield "A|%s full-band cov" % kind, self.document([txt], "req", "explicit")


def self_test(xsd):
    g = Gen(xsd)
    n = 0
    for name, doc in itertools.chain(g.family_S(False), g.family_A()):
        ET.fromstring(doc)       # generator must produce well-formed XML
        n += 1
    return n, g


if __name__ == "__main__":
    import sys
    n, g = self_test(sys.argv[1] if len(sys.argv) > 1 else "/repo/xml/gama-local.xsd")
    print(n, "documents;", len(g.cluster_variants(2)), "cluster shapes; kinds", g.cluster_kinds)
    for i, (name, doc) in enumerate(itertools.chain(g.family_S(False), g.family_A())):
        if name in sys.argv[2:] or (len(sys.argv) > 2 and sys.argv[2] == "--list"):
            print("=====", name)
            if "--list" not in sys.argv:
                print(doc)
