#!/usr/bin/env python3
"""C06 - consistent observations reproduce the network they were derived from.

Family G of DESIGN.md explored as a transition system on the real gama-local
executable: state = subset of the candidate observations of a template
placed on the lattice, transition = "add one candidate observation".
See lib/n06_net.py (reference Jacobian, closure model of the documented
approximate-coordinate strategy) and lib/n06_tpl.py (templates, placements).

Signature of a violation:
  C06|<clause>|kinds=<observation kinds of the state>|ih=<yes|no>|approx=<exact|perturbed|omitted>|iter=<0|n|max>|rules=<..>
clause: exit no-xml error-document removed-point removed-observation
        outlying-abs-term outlying-observation defect coords residuals
        linearization-not-converged transition
ih:     instrument / target heights (from_dh != to_dh) on a slope observation
iter:   linearization iterations reported by gama-local (max = its limit 5)
rules:  closure rules the model needed for the omitted coordinates ("-" otherwise)

Environment (debugging aids, never set by the registered commands):
  C06_ONLY=<template,template>   restrict the run to some templates
  C06_DUMP=<dir>                 write one replayable payload per signature
"""
import os, sys, json, re, itertools, time
sys.path.insert(0, os.path.join(os.path.dirname(os.path.abspath(__file__)), "..", "lib"))
import vlib, gnet
import n06_net as N
import n06_tpl as T

CTOL = 1e-6          # m
RTOL = 1e-3          # mm / cc
ETOL = 1e-8          # m, lattice edges with exact approximate coordinates
ALGS = gnet.ALGS
MAXITER = 5          # gama-local default of --iterations

_units = {}


def get_unit(uk):
    uk = tuple(uk)
    if uk not in _units:
        _units[uk] = T.make_unit(*uk)
    return _units[uk]


# ---------------------------------------------------------------- oracle on one run
BAD_TEXT = [("Removed points and coordinates", "removed-point"),
            ("Outlying absolute terms", "outlying-abs-term"),
            ("outlying absolute terms removed", "outlying-abs-term"),
            ("Outlying observations", "outlying-observation")]


def judge(run, spec):
    """returns (list of (clause, detail), adjusted {pid:(x,y,z)} or None, info)"""
    V = []
    info = {}
    if run.rc != 0:
        V.append(("exit", "exit code %s stderr=%s" % (run.rc, (run.stderr or "")[-200:])))
    if run.xml is None:
        V.append(("no-xml", "no XML result written; stdout tail: %s" % (run.stdout or "")[-200:]))
        return V, None, info
    R = gnet.parse_result(run.xml)
    if R.error:
        V.append(("error-document", R.error[:300]))
        return V, None, info
    txt = run.text or ""
    seen = set()
    for marker, clause in BAD_TEXT:
        if marker in txt and clause not in seen:
            seen.add(clause)
            V.append((clause, "text output contains '%s'" % marker))
    m = re.search(r"Number of linearization iterations: *(\d+)", txt)
    info["iters"] = int(m.group(1)) if m else 0
    info["lin-bad"] = "Test of linearization error" in txt
    if info["lin-bad"]:
        V.append(("linearization-not-converged", "gama-local itself reports a failed linearization test after %d iteration(s) on error-free data" % info["iters"]))
    info["pvv"] = R.pvv
    dim = spec["dim"]
    need0 = (["x", "y"] if dim >= 2 else []) + (["z"] if dim in (1, 3) else [])
    needs = spec.get("need") or {p: need0 for p in spec["new"]}
    adj = {}
    missing = []
    for pid in spec["new"]:
        a = R.adjusted.get(pid)
        need = needs[pid]
        if a is None or any(k not in a for k in need):
            missing.append(pid); continue
        adj[pid] = tuple(a.get(k, 0.0) for k in ("x", "y", "z"))
    if missing:
        V.append(("removed-point", "new point(s) %s lack adjusted coordinates %s (adjusted: %s)" % (
            missing, [needs[p] for p in missing], {k: sorted(c for c in v if c != "id") for k, v in R.adjusted.items()})))
    for pid in spec["fix"]:
        if pid not in R.fixed:
            V.append(("removed-point", "fixed point %s not listed as fixed" % pid))
    if R.defect != 0:
        V.append(("defect", "network defect %d reported" % R.defect))
    # every input observation appears in the result
    exp = {}
    for e in spec["exp_obs"]:
        k = (e[0], e[1], e[2], e[3]); exp[k] = exp.get(k, 0) + 1
    got = {}
    for o in R.obs:
        if o["tag"] == "angle": k = ("angle", o.get("from"), o.get("left"), o.get("right"))
        elif o["tag"].startswith("coordinate-"): k = (o["tag"], o.get("id"), None, None)
        else: k = (o["tag"], o.get("from"), o.get("to"), None)
        got[k] = got.get(k, 0) + 1
    if exp != got:
        lost = [k for k in exp if got.get(k, 0) < exp[k]]
        extra = [k for k in got if exp.get(k, 0) < got[k]]
        V.append(("removed-observation", "observations missing in result: %s extra: %s" % (lost[:4], extra[:4])))
    # coordinates
    worst = 0.0; wp = None
    for pid, a in adj.items():
        t = spec["truth"][pid]
        for i, k in enumerate(("x", "y", "z")):
            if k in needs[pid]:
                d = abs(a[i] - t[i])
                if d > worst: worst = d; wp = "%s.%s" % (pid, k)
    info["cerr"] = worst
    if worst > spec["ctol"]:
        V.append(("coords", "adjusted %s differs from the true value by %.3e m (bound %.2e); [pvv]=%.3e iterations=%s" % (
            wp, worst, spec["ctol"], R.pvv or 0, info["iters"])))
    # residuals
    wl = 0.0; wa = 0.0
    for o in R.obs:
        if "obs" not in o or "adj" not in o: continue
        d = o["adj"] - o["obs"]
        if o["tag"] in ("direction", "angle", "zenith-angle", "azimuth"):
            d = (d + 200.0) % 400.0 - 200.0
            wa = max(wa, abs(d) * 1e4)
        else:
            wl = max(wl, abs(d) * 1e3)
    info["rlin"] = wl; info["rang"] = wa
    if wl > spec["rtol_lin"] or wa > spec["rtol_ang"]:
        V.append(("residuals", "max |adj-obs| = %.3e mm / %.3e cc (bounds %.2e / %.2e); [pvv]=%.3e iterations=%s" % (
            wl, wa, spec["rtol_lin"], spec["rtol_ang"], R.pvv or 0, info["iters"])))
    return V, adj, info


_dhb = {}


def dh_bounds(unit, mask):
    k = (unit.key(), len(unit.cands), mask)
    if k not in _dhb: _dhb[k] = N.dh_bounds(unit, mask)
    return _dhb[k]


def state_kinds(unit, mask):
    return "+".join(sorted(set(c[0] for c in unit.chosen(mask))))


def state_ih(unit, mask):
    return any(N.has_dh(c) for c in unit.chosen(mask))


VNAME = {"E": "exact", "P": "perturbed", "O": "omitted"}


def make_spec(unit, mask, variant):
    ih = state_ih(unit, mask)
    spec = {"dim": unit.dim, "new": unit.new, "fix": unit.fix,
            "truth": N.truth_in_frame(unit), "need": unit.need,
            "exp_obs": [list(e[:4]) for e in N.expected_obs(unit, mask)],
            "ctol": CTOL, "rtol_lin": RTOL, "rtol_ang": RTOL, "ih": ih}
    if ih and variant[0] != "E":
        cb, rb = dh_bounds(unit, mask)
        rl = max([0.0] + [v for (i, j), v in rb.items() if unit.rows()[i][j][0] == "l"])
        ra = max([0.0] + [v for (i, j), v in rb.items() if unit.rows()[i][j][0] == "a"])
        spec["ctol"] = CTOL + 2 * cb
        spec["rtol_lin"] = RTOL + 2 * rl
        spec["rtol_ang"] = RTOL + 2 * ra
    return spec


def variants_of(unit, mask, tier):
    """[(variant, [(zero rotation, cluster order)])] of a determined state, and
    the number of omitted subsets that the closure model does not resolve (not
    run).  Omitted variants see every order of the cluster groups in the file;
    exact / perturbed ones rotate through the orders."""
    nz = 5 if N.has_directions(unit, mask) else 1
    no = len(N.group_orders(unit, mask))
    allz = list(range(nz))
    split = [(z, 0) for z in N.split_modes(unit, mask)]       # circle zero on the branch cut (templates with zsplit)
    out = [(("E",), ([(z, z % no) for z in allz] if nz >= no else [(0, o) for o in range(no)]) + split)]
    for pi, signs in enumerate(itertools.product((1, -1), repeat=len(unit.unk))):
        zs = allz if tier == "thorough" else [pi % nz]
        out.append((("P", signs), [(z, (pi + z) % no) for z in zs]))
    skipped = 0
    G = unit.groups
    oi = 0
    for k in range(1, len(G) + 1):
        for sub in itertools.combinations(G, k):
            om = frozenset(sub)
            ok, rules = N.resolvable(unit, mask, om)
            if ok:
                full = (k == len(G))
                zs = allz if (tier == "thorough" or full) else [oi % nz]
                out.append((("O", tuple(sorted(om)), rules), [(z, o) for o in range(no) for z in zs] + (split if full else [])))
                oi += 1
            else:
                skipped += 1
    return out, skipped


def algs_for(tier, counter):
    if tier == "quick": return ALGS
    return [ALGS[0], ALGS[1 + counter % 3]]


def iter_class(n):
    return "0" if n == 0 else ("max" if n >= MAXITER else "n")


def run_retry(exe, gkf, tmp, name, args):
    """gnet.run_gama; a concurrent rebuild of the executable (other checks call
    vbuild) makes it transiently non-executable: wait and retry"""
    for attempt in range(240):
        try:
            r = gnet.run_gama(exe, gkf, tmp, name, args=args, want=("xml", "text"))
            if r.rc in (126, 127) and r.xml is None:
                time.sleep(0.5); continue
            return r
        except OSError:
            time.sleep(0.5)
    return gnet.run_gama(exe, gkf, tmp, name, args=args, want=("xml", "text"))


# ---------------------------------------------------------------- worker
def work(item):
    """item = (unit key, [masks], tier, exe, tmp).  Classifies every mask by
    the reference and runs all cases of the determined ones."""
    uk, masks, tier, exe, tmp = item
    unit = get_unit(uk)
    res = []
    for mask in masks:
        cls, s = N.classify(unit, mask)
        rec = {"mask": mask, "cls": cls, "smin": s, "runs": 0, "viol": [], "adj": {}, "oc": {}, "skipped": 0}
        if cls == "det":
            vs, rec["skipped"] = variants_of(unit, mask, tier)
            cnt = mask
            seen = set()
            for variant, zrots in vs:
                spec = make_spec(unit, mask, variant)
                rules = variant[2] if variant[0] == "O" else "-"
                for zr in zrots:
                    net = N.build_net(unit, mask, variant, zr[0], zr[1])
                    gkf = gnet.to_gkf(net)
                    for alg in algs_for(tier, cnt):
                        cnt += 1
                        name = "c%d_%d_%d" % (os.getpid(), mask, rec["runs"])
                        run = run_retry(exe, gkf, tmp, name, ["--algorithm", alg])
                        rec["runs"] += 1
                        V, adj, info = judge(run, spec)
                        key = (variant[:2], zr, alg)
                        if adj is not None and not V: rec["adj"][key] = adj
                        ic = iter_class(info.get("iters", 0))
                        oc = "%s|%s|ih=%s|iter=%s|%dD" % (VNAME[variant[0]], "ok" if not V else "+".join(sorted(set(v[0] for v in V))),
                                                         "y" if spec["ih"] else "n", ic, unit.dim)
                        rec["oc"][oc] = rec["oc"].get(oc, 0) + 1
                        for clause, detail in V:
                            fk = (clause, variant[0], rules, ic)
                            first = fk not in seen
                            seen.add(fk)
                            rec["viol"].append({"clause": clause, "detail": detail, "variant": list(variant), "zrot": zr, "alg": alg,
                                                "ih": spec["ih"], "ic": ic, "rules": rules,
                                                "gkf": gkf if first else None, "spec": spec if first else None})
        res.append(rec)
    return uk, res


def sig_of(unit, mask, v):
    return "C06|%s|kinds=%s|ih=%s|approx=%s|iter=%s|rules=%s" % (
        v["clause"], state_kinds(unit, mask), "yes" if v["ih"] else "no", VNAME[v["variant"][0]], v["ic"], v["rules"])


# ---------------------------------------------------------------- replay
def replay(ck, path):
    P = json.load(open(path))
    case = P["case"]
    if "gkf" not in case:
        print("replay %s: no input stored (%s); unit %s mask %s" % (
            path, case.get("note", "transition violation: re-run the two states it names"), case.get("unit"), case.get("mask")))
        sys.exit(2)
    exe = vlib.exe("rel", "gama-local")
    run = run_retry(exe, case["gkf"], ck.tmp, "replay", ["--algorithm", case["alg"]])
    V, adj, info = judge(run, case["spec"])
    print("replay %s: algorithm=%s exit=%s info=%s" % (path, case["alg"], run.rc, info))
    if adj: print("  adjusted:", adj)
    print("  true    :", case["spec"]["truth"])
    for clause, detail in V: print("  VIOLATED %s: %s" % (clause, detail))
    if not V: print("  no violation on replay")
    sys.exit(1 if V else 0)


# ---------------------------------------------------------------- driver
SIGS = {}


def collect(ck, uk, res, pending):
    unit = get_unit(uk)
    P = pending[tuple(uk)]
    for rec in res:
        mask = rec["mask"]
        P["left"] -= 1
        P["cls"][mask] = rec["cls"]
        ck.count("subsets_enumerated")
        ck.outcome("state:" + rec["cls"])
        if rec["cls"] != "det": continue
        ck.count("states")
        ck.count("transitions", rec["runs"])
        ck.count("omitted_subsets_not_resolvable_by_model", rec["skipped"])
        for oc, n in rec["oc"].items(): ck.outcome(oc, n)
        P["adj"][mask] = rec["adj"]
        if rec["runs"] and len(ck.samples) < 6 and mask % 37 == 5:
            ck.sample("%s mask=%d obs=[%s] runs=%d smin=%.2f" % (unit.key(), mask, " ".join(N.cand_str(c) for c in unit.chosen(mask)), rec["runs"], rec["smin"]))
        for v in rec["viol"]:
            sig = sig_of(unit, mask, v)
            where = "%s mask=%d obs=[%s] approx=%s zero-rotation,cluster-order=%s alg=%s" % (
                unit.key(), mask, " ".join(N.cand_str(c) for c in unit.chosen(mask)), v["variant"], v["zrot"], v["alg"])
            if sig not in SIGS: SIGS[sig] = [0, None]
            SIGS[sig][0] += 1
            payload = None
            if v["gkf"]:
                payload = {"unit": list(uk), "mask": mask, "variant": v["variant"], "zrot": v["zrot"], "alg": v["alg"],
                           "gkf": v["gkf"], "spec": v["spec"]}
            if SIGS[sig][1] is None and payload:
                SIGS[sig][1] = where + " :: " + v["detail"][:200]
                if os.environ.get("C06_DUMP"):
                    os.makedirs(os.environ["C06_DUMP"], exist_ok=True)
                    with open(os.path.join(os.environ["C06_DUMP"], re.sub(r"[^A-Za-z0-9=+._-]", "_", sig) + ".json"), "w") as f:
                        json.dump({"property": "C06", "sig": sig, "detail": SIGS[sig][1], "case": payload}, f, indent=1, default=str)
            ck.violation(sig, where + " :: " + v["detail"],
                         replay=payload or {"unit": list(uk), "mask": mask, "variant": v["variant"], "zrot": v["zrot"], "alg": v["alg"],
                                            "note": "same state and signature as an earlier replay file, which holds the gkf"})
    if P["left"] == 0:
        vlib.log("[C06] unit %s done (states so far %d, runs %d, %.0fs)" % (
            unit.key(), ck.counters.get("states", 0), ck.counters.get("transitions", 0), time.time() - ck.t0))
        edges(ck, unit, P)
        P["adj"] = {}; P["cls"] = {}


def edges(ck, unit, P):
    """transition invariant: along s -> s+o (both determined and clean) the
    adjusted coordinates stay the same; 'a determined point stays determined'
    is rank monotonicity for the reference (a theorem) and the removed-point /
    removed-observation clauses for the implementation"""
    adj = P["adj"]; cls = P["cls"]
    n = len(unit.cands)
    for s, runs in adj.items():
        for b in range(n):
            if s >> b & 1: continue
            t = s | (1 << b)
            targets = [t]
            if cls.get(t) == "lone":
                targets = [t | (1 << b2) for b2 in range(n) if not t >> b2 & 1 and cls.get(t | (1 << b2)) == "det"
                           and unit.cands[b2][0] == "dir" and unit.cands[b2][1] == unit.cands[b][1]]
            for t in targets:
                if t not in adj: continue
                ck.count("lattice_edges")
                ih = state_ih(unit, s) or state_ih(unit, t)
                tol_ih = CTOL
                if ih:
                    tol_ih = CTOL + 2 * (dh_bounds(unit, s)[0] if state_ih(unit, s) else 0) + 2 * (dh_bounds(unit, t)[0] if state_ih(unit, t) else 0)
                for key, a in runs.items():
                    a2 = adj[t].get(key)
                    if a2 is None: continue
                    ck.count("edge_comparisons")
                    d = max(abs(a[p][i] - a2[p][i]) for p in a for i in range(3))
                    # exact approximations: no linearization step is involved, the two
                    # adjustments must agree far below the per-state bound; otherwise each
                    # state may use its own bound (gama stops iterating below 0.0005 mm)
                    if key[0][0] == "E": tol = ETOL
                    else: tol = (tol_ih + CTOL) if ih else 2 * CTOL
                    if d > tol:
                        ck.violation("C06|transition|kinds=%s|ih=%s|approx=%s|iter=-|rules=-" % (state_kinds(unit, t), "yes" if ih else "no", VNAME[key[0][0]]),
                                     "%s: adding %s to mask=%d moves the adjusted coordinates by %.3e m (key %s)" % (unit.key(), N.cand_str(unit.cands[b]), s, d, key),
                                     replay={"unit": list(unit.placement), "mask": s, "added": b, "key": str(key)})


def unit_text(e):
    t = "%s x%d" % (e[0], e[1])
    if len(e) > 2 and e[2]: t += " (first %d candidates)" % e[2]
    if len(e) > 3:
        if "frames" in e[3]: t += " x %d frames [%s]" % (len(e[3]["frames"]), " ".join("%s/%s" % (a, s[0]) for a, s in e[3]["frames"]))
        if "idrev" in e[3]: t += " x id order {new after known, new before known}"
    return t


def main():
    ck = vlib.Check("C06", level="model_checking")
    exe = vlib.exe("rel", "gama-local")
    if ck.args.replay:
        replay(ck, ck.args.replay)
    tier = ck.tier
    uks = [tuple(u) for u in T.units(tier)]
    items = []
    CH = 4 if tier == "quick" else 8
    pending = {}
    for uk in uks:
        u = get_unit(uk)
        nm = 1 << len(u.cands)
        pending[uk] = {"left": nm - 1, "adj": {}, "cls": {}}
        masks = list(range(1, nm))
        for i in range(0, len(masks), CH):
            items.append((uk, masks[i:i + CH], tier, exe, ck.tmp))
    import concurrent.futures as cf
    complete = True
    with cf.ProcessPoolExecutor(max_workers=vlib.NCPU) as ex:
        it = iter(items)
        futs = set()
        more = True
        while True:
            while more and len(futs) < vlib.NCPU * 4:
                if ck.time_left() < 30:
                    more = False; complete = False; break
                try: futs.add(ex.submit(work, next(it)))
                except StopIteration: more = False
            if not futs: break
            dn, rest = cf.wait(futs, return_when=cf.FIRST_COMPLETED)
            futs = set(rest)
            for f in dn:
                uk, res = f.result()
                collect(ck, uk, res, pending)
    if not complete:
        ck.exhaustive = False
        ck.notes.append("deadline reached: template instances not completed: %s" % [get_unit(k).key() for k, v in pending.items() if v["left"] > 0])
    for sig, (n, ex_) in sorted(SIGS.items()):
        vlib.log("[C06] %6d x %s%s\n         e.g. %s" % (n, sig, "  (known finding)" if ck.known.match("C06", sig) else "", ex_))
    ck.counters["evaluations"] = ck.counters.get("transitions", 0)
    ck.counters["distinct_nontrivial"] = ck.counters.get("states", 0)
    ck.finish(RULE % {"tier": tier, "units": ", ".join(unit_text(e) for e in T.TIERS[tier])},
              extra={"violation_signatures": {k: v[0] for k, v in sorted(SIGS.items())}},
              assumptions=ASSUMPTIONS)


RULE = ("tier %(tier)s: templates x placements = %(units)s; for every template instance ALL non-empty subsets of its candidate "
        "observation list are classified by the reference (Jacobian rank with margin); every determined subset is a state and is run "
        "with approximate coordinates exact / every +-3cm sign pattern / omitted for every subset of coordinate groups (xy, z per new "
        "point) that the closure model resolves, station circles turned through the 5-value zero menu (rotated over the stations; "
        "quick: all 5 rotations for exact and all-omitted, one rotating for the others), every order of the cluster groups (station clusters, "
        "height-differences, vectors, coordinates) in the input file for the omitted variants (rotating for exact / perturbed), azimuth first / last / "
        "absent in its station cluster (template azi3d), for template orient (a station seeing 4/5 known points) additionally the circle zero on the branch cut: orientation shift exactly "
        "200 / 0 gon x every sign pattern of +-1e-9 gon on the readings to the known points (exact and all-omitted variants), "
        "coordinate frame axes-xy x angles and id order of new vs known points as listed per "
        "template (truth, approximate offsets, vectors, observed coordinates and the sense of directions / angles / azimuths generated "
        "consistently per frame), algorithms: quick all 4, thorough envelope + one "
        "rotating; oracle per run: exit 0, no removed point/observation, no outlying term, no failed linearization test, adjusted = true "
        "within 1e-6 m, |adj-obs| < 1e-3 mm/cc; per lattice edge s -> s+o: same adjusted coordinates (1e-8 m with exact approximations, "
        "the sum of the two state bounds otherwise). "
        "A transition = one gama-local execution; a state = one determined (template instance, observation subset).")

ASSUMPTIONS = [
    "points on the lattice {0,100,200}^2 x {0,10,30}; observed values written with 10 decimals (1e-10 m / 1e-10 gon)",
    "determined = smallest singular value of the metre-scaled reduced Jacobian (angles scaled to 100 m, orientation unknowns eliminated) >= %.2f; "
    "subsets with a value in (%.0e, %.2f) are ill-conditioned and excluded by construction; below: singular" % (N.SMIN_OK, N.SMIN_ZERO, N.SMIN_OK),
    "states in which a station has exactly one direction are not run: gama-local drops a lone direction (LocalNetwork::revision_observations), "
    "the state is information-equivalent to the state without it; transitions through such a state are compared two steps apart",
    "tolerances: 1e-6 m and 1e-3 mm/cc everywhere, except states with instrument/target heights on slope observations AND non-exact "
    "approximate coordinates: there gama-local recomputes the dh reductions only when they change by more than 1e-6 m / 0.1 cc "
    "(refine_obsdh_reductions), so the bound is 1e-6 m + 2 * sum_i |G_ji| tol_i with G the least-squares estimator matrix of the "
    "reference Jacobian (first-order effect of reductions stale by one refresh tolerance), likewise for the residuals; with exact "
    "approximate coordinates the reductions are exact and the plain bounds apply",
    "omitted approximate coordinates are demanded only where the closure model of the documented strategy (rules Z1-Z3, X1-X5 in "
    "lib/n06_net.py) resolves them; every such model state is replayed on gama-local",
    "perturbations are +-3 cm per coordinate; larger errors of approximate coordinates are outside the bound",
]

if __name__ == "__main__":
    main()
