#!/usr/bin/env python3
"""C10: correlated observations are weighted by their full covariance matrix.

Bounded exhaustive exploration on the real gama-local executable:
every cluster kind x composition x band width 0..dim-1 x 2 value families x
every subset of excluded rows (x 2 exclusion mechanisms) x 4 algorithms,
plus every ordered pair / triple of correlated clusters that share unknowns
in a network with explicit zero coefficients (enum_multi / work_multi),
plus every malformed matrix of a fixed menu (rel and asan builds).
Input space, reformulations and the dense reference: lib/n10_model.py.
"""
import os, sys, json, re, itertools, math
sys.path.insert(0, os.path.join(os.path.dirname(os.path.abspath(__file__)), "..", "lib"))
import vlib, gnet
import n10_model as M

ALGS = gnet.ALGS
TOL_M = 2e-8          # coordinates, adjusted observations, residuals [m | gon]
TOL_REL = 2e-6        # [pvv], standard deviations, covariances
TOL_3DEC = 0.0021     # values printed with 3 decimals

RULE = ("every cluster kind (obs with directions/distances dim<=4, height-differences dim<=4, coordinates dim 2..5, vectors dim 3 and 6) "
        "x every composition x every band 0..dim-1 x 3 position-coded positive-definite families (the third one with every variance == sigma-apr^2 EXACTLY, "
        "cofactor diagonal exactly 1, non-zero covariances; quick: bands >= 1 with at most one excluded row) x every subset of excluded rows "
        "(excluded by a target without coordinates or by a gross absolute term) x 4 algorithms, in determined noisy networks; "
        "SHARED UNKNOWNS: every ordered pair and every ordered triple (quick: triples of a 7-cluster menu) of 19 correlated clusters "
        "(distances, directions, s-distances, z-angles, repeated distances, coordinates, height differences, vectors; dim 2..6) that refer to the same two new points, "
        "written before / after / around an uncorrelated backbone, in a network whose aligned pairs of points make gama store EXPLICIT ZERO coefficients inside the "
        "correlated clusters (bearing exactly 0: sin == 0; dy == 0 / dz == 0 for s-distances and z-angles: whole columns of a block that hold only zeros or -0.0), "
        "with the control geometry (x and y exchanged: 1e-16 instead of 0) x matrix forms per cluster (full band, band 1, diagonal matrix written with band 1 / full band, unit-variance family with full band) "
        "x one excluded group of rows in either cluster of a pair x 4 algorithms; "
        "oracles: (a) linear kinds = dense WLS with P=(C_active)^-1 (x, v, [pvv], dof, C_xx); (b) band 0 = stdev attributes, and a diagonal matrix written with band >= 1 "
        "(explicit zero covariances) = stdev attributes / band 0; "
        "(c) excluded rows = deleted rows + sub-matrix; (d) repeated-quantity clusters = whitened uncorrelated input; "
        "(e) 4 algorithms agree on every input; (f) every malformed matrix refused with a line number, no crash (rel + asan)")


# ------------------------------------------------------------------ enumeration
def subsets(n):
    for m in range(2 ** n):
        yield [k for k in range(n) if (m >> k) & 1]


def enum_cases(tier):
    """complete product space of the tier (deterministic order)"""
    thorough = tier == "thorough"
    out = []; seen = set()
    for kind in M.KINDS:
        for comp in M.COMPS[kind]:
            d = M.comp_dim(kind, comp)
            if not thorough:
                if kind in ("obs", "height-differences") and d > 3 and comp not in ("DSDS", "r4"):
                    continue
                if kind == "coordinates" and d > 4:
                    continue
                if (kind, comp) in (("vectors", "AP+PQ"), ("coordinates", "Pz+Qxyz")):
                    continue
            tmpls = [1]
            if kind == "obs" and comp[0] != "r" and thorough:
                tmpls = [1, 2]
            for tmpl in tmpls:
                for band in range(d):
                    for fam in (0, 1, 2):
                        if not thorough and d >= 4 and kind != "coordinates" and fam == 1:
                            continue
                        if not thorough and fam == 2 and band == 0:
                            continue             # unit variances without covariances: covered by thorough
                        for excl in subsets(d):
                            if not thorough and fam == 2 and len(excl) > 1:
                                continue
                            for mode in ("blunder", "point"):
                                if mode == "point" and not M.aligned(kind, comp, excl):
                                    continue
                                if not excl and mode == "point":
                                    continue
                                emode = mode
                                if kind == "obs" and mode == "blunder" and excl and all(comp[s] == "D" for s in excl):
                                    emode = "point"      # directions are always excluded through the target
                                orders = (0, 1) if thorough else ((len(out)) % 2,)
                                for order in orders:
                                    case = {"kind": kind, "comp": comp, "band": band, "fam": fam, "excl": excl,
                                            "mode": emode, "order": order, "noise": (band + fam + len(excl)) % 2}
                                    if kind == "obs":
                                        case["tmpl"] = tmpl
                                    key = json.dumps(case, sort_keys=True)
                                    if key in seen:
                                        continue
                                    seen.add(key)
                                    out.append(case)
    return out


MAL_COMPS = {"obs": ["S", "DDS", "DSDS"], "height-differences": ["h1", "h3"],
             "coordinates": ["Pxyz", "Pxy+Qxyz"], "vectors": ["AP", "AP+BP"]}


def enum_malformed(tier):
    out = []
    for kind in M.KINDS:
        for comp in MAL_COMPS[kind]:
            for mc in M.malformed_cases(kind, comp):
                mc["order"] = len(out) % 2
                out.append(mc)
    return out


# ------------------------------------------------------------------ running
def launch(exe, text, tmp, name, alg, env):
    """one execution; an executable that is being re-linked by a concurrent
    bin/vbuild (EACCES / ETXTBSY / ENOENT) is waited for, not reported"""
    import time
    for attempt in range(240):
        try:
            return gnet.run_gama(exe, text, tmp, name, args=("--algorithm", alg), want=("xml",), env=env, timeout=120)
        except OSError:
            time.sleep(0.5)
    return gnet.run_gama(exe, text, tmp, name, args=("--algorithm", alg), want=("xml",), env=env, timeout=120)


def run4(exe, text, tmp, name, env=None, algs=ALGS):
    res = {}
    for a in algs:
        r = launch(exe, text, tmp, "%s_%s" % (name, a), a, env)
        R = gnet.parse_result(r.xml) if r.xml else None
        res[a] = (r, R)
    return res


def status(r, R):
    if r.timeout:
        return "timeout"
    if r.rc < 0 or r.rc in (98, 99) or "AddressSanitizer" in r.stderr or "runtime error:" in r.stderr:
        m = re.search(r"AddressSanitizer: ([\w-]+)|(runtime error: [^\n]{0,60})", r.stderr)
        return "crash:" + ((m.group(1) or m.group(2)) if m else "rc=%d" % r.rc)
    if R is None:
        return "no-xml:rc=%d" % r.rc
    if R.error:
        return "refused"
    return "adjusted"


def close(a, b, abs_tol, rel_tol=0.0):
    if a is None or b is None:
        return a is None and b is None
    if isinstance(a, str) or isinstance(b, str):
        return a == b
    if math.isnan(a) or math.isnan(b) or math.isinf(a) or math.isinf(b):
        return False
    return abs(a - b) <= abs_tol + rel_tol * max(abs(a), abs(b))


def angle_close(a, b, tol):
    d = abs(a - b) % 400.0
    return min(d, 400.0 - d) <= tol


ANG_TAGS = ("direction", "angle", "azimuth", "zenith-angle")


def compare(R1, R2, obs_too=True):
    """list of (field, text) differences between two adjustments of the same
    mathematical problem"""
    D = []
    if R1.dof != R2.dof or R1.unknowns != R2.unknowns or R1.equations != R2.equations or R1.defect != R2.defect:
        D.append(("shape", "equations/unknowns/dof/defect %s vs %s" % ((R1.equations, R1.unknowns, R1.dof, R1.defect), (R2.equations, R2.unknowns, R2.dof, R2.defect))))
        return D
    if not close(R1.pvv, R2.pvv, 1e-7, TOL_REL):
        D.append(("pvv", "[pvv] %r vs %r" % (R1.pvv, R2.pvv)))
    if sorted(R1.adjusted) != sorted(R2.adjusted):
        D.append(("points", "adjusted points %s vs %s" % (sorted(R1.adjusted), sorted(R2.adjusted))))
        return D
    for pid in sorted(R1.adjusted):
        p, q = R1.adjusted[pid], R2.adjusted[pid]
        for k in sorted(set(p) | set(q)):
            if k == "id":
                continue
            if not close(p.get(k), q.get(k), TOL_M):
                D.append(("x", "%s.%s %r vs %r" % (pid, k, p.get(k), q.get(k))))
    if len(R1.orientations) == len(R2.orientations):
        for o1, o2 in zip(R1.orientations, R2.orientations):
            if o1[0] != o2[0] or not angle_close(o1[2], o2[2], 1e-7):
                D.append(("x", "orientation %s vs %s" % (o1, o2)))
    else:
        D.append(("points", "orientations %d vs %d" % (len(R1.orientations), len(R2.orientations))))
    if R1.cov_dim == R2.cov_dim and R1.cov_band == R2.cov_band and R1.orig_index == R2.orig_index:
        for k, (a, b) in enumerate(zip(R1.cov_flt, R2.cov_flt)):
            if not close(a, b, 1e-7, TOL_REL):
                D.append(("cxx", "C_xx[%d] %r vs %r" % (k, a, b))); break
    else:
        D.append(("cxx", "layout of C_xx differs"))
    if obs_too:
        if len(R1.obs) != len(R2.obs):
            D.append(("obs-list", "%d vs %d observations" % (len(R1.obs), len(R2.obs))))
            return D
        for i, (a, b) in enumerate(zip(R1.obs, R2.obs)):
            if (a["tag"], a.get("from"), a.get("to"), a.get("id")) != (b["tag"], b.get("from"), b.get("to"), b.get("id")):
                D.append(("obs-list", "observation %d: %s vs %s" % (i, a["tag"], b["tag"])))
                return D
            ang = a["tag"] in ANG_TAGS
            for k in ("obs", "adj"):
                ok = angle_close(a[k], b[k], TOL_M) if ang else close(a[k], b[k], TOL_M)
                if not ok:
                    D.append(("v", "observation %d %s %s: %r vs %r" % (i, a["tag"], k, a[k], b[k])))
            if not close(a.get("stdev"), b.get("stdev"), 1e-7, TOL_REL):
                D.append(("stdev", "observation %d %s stdev: %r vs %r" % (i, a["tag"], a.get("stdev"), b.get("stdev"))))
            for k in ("qrr", "f", "std-residual"):
                if not close(a.get(k), b.get(k), TOL_3DEC):
                    D.append((k, "observation %d %s %s: %r vs %r" % (i, a["tag"], k, a.get(k), b.get(k))))
    return D


def first(D, n=4):
    return "; ".join(t for _, t in D[:n])


def expected_obs_count(case, B, net):
    """number of observations gama must keep in the primary input"""
    ex = set(case.get("excl", []))
    n = sum(len(c.obs) if c.kind not in ("coordinates", "vectors") else c.dim() for c in net.clusters if c is not B["test"])
    act = [s for s in range(B["dim"]) if s not in ex]
    if case["kind"] == "obs":
        ndir = sum(1 for s in act if case["comp"][s] == "D")
        if ndir < 2:
            act = [s for s in act if case["comp"][s] != "D"]
    return n + len(act)


def work_case(arg):
    """worker: one case -> dict(viol=[(sig, detail, files)], runs, inputs, outcome, sample)"""
    idx, case, tmp, exe = arg
    out = {"viol": [], "runs": 0, "inputs": 0, "outcomes": [], "sample": None}
    kind, mode = case["kind"], case.get("mode", "blunder")
    nex = len(case.get("excl", []))
    tagk = "%s|%s" % (kind, mode if nex else "none")

    def V(sig, detail, files):
        out["viol"].append((sig, detail + " :: case " + json.dumps(case, sort_keys=True), files))

    try:
        B = M.build(case)
    except Exception as e:      # harness bug: must be loud
        V("C10|harness-error|build", repr(e), {})
        return out
    net = B["net"]
    text = M.gkf(net)
    files = {"primary.gkf": text}
    name = "c%07d" % idx
    prim = run4(exe, text, tmp, name + "p")
    out["runs"] += 4; out["inputs"] += 1
    sts = {a: status(*prim[a]) for a in ALGS}
    bad = [a for a in ALGS if sts[a] != "adjusted"]
    for a in bad:
        r, R = prim[a]
        V("C10|wellformed-not-adjusted|%s|%s" % (tagk, sts[a].split(":")[0]), "%s: %s %s" % (a, sts[a], (R.error if R else r.stderr[-300:])), files)
    if bad:
        out["outcomes"].append(tagk + "|not-adjusted")
        return out
    checked = []
    ref_alg = ALGS[0]
    R0 = prim[ref_alg][1]
    # (e) all algorithms agree
    for a in ALGS[1:]:
        D = compare(R0, prim[a][1])
        if D:
            V("C10|algorithms-disagree|%s|%s|%s" % (tagk, a, D[0][0]), "%s vs %s: %s" % (ref_alg, a, first(D)), files)
    checked.append("e")
    # the exclusion really is the intended one
    want = expected_obs_count(case, B, net)
    if len(R0.obs) != want:
        V("C10|exclusion-set|%s|band=%d" % (tagk, case["band"]), "gama kept %d observations, the case intends %d" % (len(R0.obs), want), files)
        out["outcomes"].append(tagk + "|other-exclusion-set")
        return out
    # (a) dense reference
    if kind != "obs":
        ref = M.reference_wls(net)
        for a in ALGS:
            R = prim[a][1]
            D = []
            if R.dof != ref["dof"] or len(R.obs) != ref["nobs"]:
                D.append(("shape", "dof %d / %d observations, reference %d / %d" % (R.dof, len(R.obs), ref["dof"], ref["nobs"])))
            else:
                for (pid, ch), v in sorted(ref["x"].items()):
                    g = R.adjusted.get(pid, {}).get(ch)
                    if not close(g, v, TOL_M):
                        D.append(("x", "%s.%s gama %r reference %r" % (pid, ch, g, v)))
                order = sorted(ref["active"])
                for o, key in zip(R.obs, order):
                    v = o["adj"] - o["obs"]
                    if not close(v, ref["res"][key], TOL_M):
                        D.append(("v", "residual of row %s: gama %r reference %r" % (key, v, ref["res"][key])))
                if not close(R.pvv, ref["pvv"], 1e-6, TOL_REL):
                    D.append(("pvv", "[pvv] gama %r reference %r" % (R.pvv, ref["pvv"])))
                D += compare_cxx(R, ref)
            if D:
                V("C10|dense-wls|%s|%s|%s" % (tagk, a, D[0][0]), "%s: %s" % (a, first(D)), files)
        checked.append("a")

    def relation(label, net2, cmp_fn=None):
        t2 = M.gkf(net2)
        f2 = dict(files); f2[label + ".gkf"] = t2
        rr = run4(exe, t2, tmp, name + label[0])
        out["runs"] += 4; out["inputs"] += 1
        for a in ALGS:
            s2 = status(*rr[a])
            if s2 != "adjusted":
                V("C10|%s|%s|reformulation-not-adjusted" % (label, tagk), "%s: %s" % (a, s2), f2)
                continue
            D = (cmp_fn or compare)(prim[a][1], rr[a][1])
            if D:
                V("C10|%s|%s|%s|%s" % (label, tagk, a, D[0][0]), "%s: %s" % (a, first(D)), f2)
        checked.append(label[0])

    n2 = M.reform_stdev(case, B)
    if n2 is not None:
        relation("b-diag-vs-stdev", n2)
    n3 = M.reform_deleted(case, B)
    if n3 is not None:
        relation("c-excluded-vs-deleted", n3)
    w = M.reform_whitened(case, B)
    if w is not None:
        n4, Li, cc = w

        def cmpw(R1, R2):
            D = compare(R1, R2, obs_too=False)
            if D or len(R1.obs) != len(R2.obs):
                return D or [("obs-list", "%d vs %d observations" % (len(R1.obs), len(R2.obs)))]
            # residuals of the whitened rows: v'_i = (L^-1 v)_i / c_i
            ti = net.clusters.index(B["test"])
            off = sum(len(c.obs) for c in net.clusters[:ti])
            n = len(cc)
            v = [R1.obs[off + j]["adj"] - R1.obs[off + j]["obs"] for j in range(n)]
            sg = [-1.0 if (o.get("from") == "P" and o["tag"] == "height-diff") else 1.0 for o in R1.obs[off:off + n]]
            for i in range(n):
                # residual of row j in its own direction; the whitened rows all point A->P / P->A positive
                want_v = sum(Li[i][j] * v[j] for j in range(n)) / cc[i]
                got = R2.obs[off + i]["adj"] - R2.obs[off + i]["obs"]
                if not close(got, want_v, 5e-8):
                    D.append(("v", "whitened residual %d: %r, L^-1 v / c = %r" % (i, got, want_v)))
            return D
        relation("d-whitened", n4, cmpw)
    out["outcomes"].append("%s|band%s|excl%s|%s" % (tagk, "0" if case["band"] == 0 else ("full" if case["band"] == B["dim"] - 1 else "mid"),
                                                    "0" if nex == 0 else ("all" if nex == B["dim"] else "some"), "+".join(checked)))
    if idx % 211 == 5:
        out["sample"] = "%s -> dof %d, [pvv] %.6g, %d observations kept, relations %s" % (json.dumps(case, sort_keys=True), R0.dof, R0.pvv, len(R0.obs), "+".join(checked))
    return out


# ------------------------------------------------------------------ shared unknowns (multi)
QUICK_TRIPLE_MENU = ["sA", "dA", "rP", "tB", "zB", "cQ", "vAP"]


def canon_forms(atoms, forms):
    """Zf == Z for the clusters of dimension 2"""
    return ["Z" if (f == "Zf" and M.multi_dim(a) == 2) else f for a, f in zip(atoms, forms)]


def enum_multi(tier):
    """several correlated clusters that share unknowns, explicit zero
    coefficients inside them, every order of the clusters in the file"""
    thorough = tier == "thorough"
    menu = M.MULTI_MENU
    out = []; seen = set()

    def add(atoms, forms, geom=0, bb=None, bpos=None, excl=None):
        atoms = list(atoms)
        forms = canon_forms(atoms, forms)
        lin = all(M.multi_linear(a) for a in atoms)
        for b in ([bb] if bb is not None else (["lin", "dist"] if thorough else ["lin" if lin else "dist"])):
            for bp in ([bpos] if bpos is not None else ([0, 1, 2] if thorough else [len(out) % 3])):
                case = {"atoms": atoms, "forms": forms, "geom": geom, "bb": b, "bpos": bp, "excl": excl}
                key = json.dumps(case, sort_keys=True)
                if key not in seen:
                    seen.add(key); out.append(case)

    def lin_bb(sel):
        return "lin" if all(M.multi_linear(a) for a in sel) else "dist"

    pairs = list(itertools.permutations(menu, 2))
    # every ordered pair x matrix forms
    for pr in pairs:
        if thorough:
            for fm in itertools.product(M.MULTI_FORMS, repeat=2):
                add(pr, fm)                                  # x 2 backbones x 3 places of the backbone
            for f in M.MULTI_FORMS:
                add(pr, (f, f), geom=1, bb=lin_bb(pr))       # x 3 places of the backbone
            add(pr, ("U", "U"))
            add(pr, ("U", "F1"), bb=lin_bb(pr)); add(pr, ("Z", "U"), bb=lin_bb(pr))
        else:
            for f in ("F0", "F1", "Z"):
                add(pr, (f, f))
            if menu.index(pr[0]) < menu.index(pr[1]):
                add(pr, ("U", "U"))              # unit-variance family: one order per pair (thorough: both)
            if not all(M.multi_linear(a) for a in pr):
                add(pr, ("F0", "F0"), geom=1)
    # every ordered triple
    tmenu = menu if thorough else QUICK_TRIPLE_MENU
    for tr in itertools.permutations(tmenu, 3):
        if thorough:
            for k, f in enumerate(("F0", "Z", "U")):
                add(tr, (f, f, f), bpos=(len(out) + k) % 3, bb=lin_bb(tr))
            for r in range(3):
                add(tr, [("F0", "F1", "Zf")[(r + i) % 3] for i in range(3)], bpos=(len(out) + r) % 3, bb=lin_bb(tr), geom=r % 2)
        else:
            for f in ("F0", "Z"):
                add(tr, (f, f, f))
    # one excluded group in one of the clusters of a pair
    for n, pr in enumerate(pairs):
        opts = [(ai, g) for ai in (0, 1) for g in range(len(M.multi_groups(pr[ai])))]
        if not thorough:
            opts = [opts[n % len(opts)]]
        for ai, g in opts:
            for fm in ((("F0", "F0"), ("F1", "Z"), ("Zf", "F1")) if thorough else (("F0", "F0"),)):
                add(pr, fm, excl=[ai, g, M.multi_excl_mode(pr[ai], g)], bpos=(n + g) % 3 if thorough else None,
                    bb=lin_bb(pr) if thorough else None)
    return out


def work_multi(arg):
    """worker: one multi case -> same record as work_case.  The primary input
    runs with the four algorithms (which must agree); the reformulated inputs
    run with `ralgs`: all four (thorough) or envelope + one dense algorithm
    chosen by the case index (quick)"""
    idx, case, tmp, exe, ralgs = arg
    if ralgs is None:
        ralgs = [ALGS[0], ALGS[1 + idx % 3]]
    out = {"viol": [], "runs": 0, "inputs": 0, "outcomes": [], "sample": None}
    atoms = case["atoms"]
    lin = all(M.multi_linear(a) for a in atoms) and case["bb"] == "lin"
    tagk = "shared%d|%s" % (len(atoms), "excl-" + case["excl"][2] if case.get("excl") else "none")

    def V(sig, detail, files):
        out["viol"].append((sig, detail + " :: multi case " + json.dumps(case, sort_keys=True), files))

    try:
        B = M.build_multi(case)
    except Exception as e:      # harness bug: must be loud
        V("C10|harness-error|build-multi", repr(e), {})
        return out
    net = B["net"]
    text = M.gkf(net)
    files = {"primary.gkf": text}
    name = "s%07d" % idx
    prim = run4(exe, text, tmp, name + "p")
    out["runs"] += 4; out["inputs"] += 1
    sts = {a: status(*prim[a]) for a in ALGS}
    bad = [a for a in ALGS if sts[a] != "adjusted"]
    for a in bad:
        r, R = prim[a]
        V("C10|wellformed-not-adjusted|%s|%s" % (tagk, sts[a].split(":")[0]), "%s: %s %s" % (a, sts[a], (R.error if R else r.stderr[-300:])), files)
    if bad:
        out["outcomes"].append(tagk + "|not-adjusted")
        return out
    checked = ["e"]
    R0 = prim[ALGS[0]][1]
    for a in ALGS[1:]:
        D = compare(R0, prim[a][1])
        if D:
            V("C10|algorithms-disagree|%s|%s|%s" % (tagk, a, D[0][0]), "%s vs %s: %s" % (ALGS[0], a, first(D)), files)
    want = M.multi_expected_obs(case, B)
    if len(R0.obs) != want:
        V("C10|exclusion-set|%s" % tagk, "gama kept %d observations, the case intends %d" % (len(R0.obs), want), files)
        out["outcomes"].append(tagk + "|other-exclusion-set")
        return out
    if lin:
        ref = M.reference_wls(net)
        for a in ALGS:
            D = against_reference(prim[a][1], ref)
            if D:
                V("C10|dense-wls|%s|%s|%s" % (tagk, a, D[0][0]), "%s: %s" % (a, first(D)), files)
        checked.append("a")

    def relation(label, net2, cmp_fn=None):
        t2 = M.gkf(net2)
        f2 = dict(files); f2[label + ".gkf"] = t2
        rr = run4(exe, t2, tmp, name + label[0], algs=ralgs)
        out["runs"] += len(ralgs); out["inputs"] += 1
        for a in ralgs:
            s2 = status(*rr[a])
            if s2 != "adjusted":
                V("C10|%s|%s|reformulation-not-adjusted" % (label, tagk), "%s: %s" % (a, s2), f2)
                continue
            D = (cmp_fn or compare)(prim[a][1], rr[a][1])
            if D:
                V("C10|%s|%s|%s|%s" % (label, tagk, a, D[0][0]), "%s: %s" % (a, first(D)), f2)
        checked.append(label[0])

    n2 = M.multi_reform_diag(case, B)
    if n2 is not None:
        relation("b-diag-vs-stdev", n2)
    n3 = M.multi_reform_deleted(case, B)
    if n3 is not None:
        relation("c-excluded-vs-deleted", n3)
    w = M.multi_reform_whitened(case, B)
    if w is not None:
        n4, done = w

        def cmpw(R1, R2):
            D = compare(R1, R2, obs_too=False)
            if D or len(R1.obs) != len(R2.obs):
                return D or [("obs-list", "%d vs %d observations" % (len(R1.obs), len(R2.obs)))]
            for (ai, Li, cc, sgn) in done:
                off = M.multi_obs_offset(B, net, ai)
                n = len(cc)
                v = [R1.obs[off + j]["adj"] - R1.obs[off + j]["obs"] for j in range(n)]
                for i in range(n):
                    want_v = sum(Li[i][j] * v[j] for j in range(n)) / cc[i]
                    got = R2.obs[off + i]["adj"] - R2.obs[off + i]["obs"]
                    if not close(got, want_v, 5e-8):
                        D.append(("v", "whitened residual %d of cluster %d: %r, L^-1 v / c = %r" % (i, ai, got, want_v)))
            return D
        relation("d-whitened", n4, cmpw)
    # does a cluster with a column of explicit zeros precede another correlated cluster?
    src = M.MULTI_ZERO_COLUMN[case["geom"]]
    zero = ("zerocol-first" if any(a in src for a in atoms[:-1]) else
            "zerocol-last" if atoms[-1] in src else
            "zeros-inside" if (case["geom"] == 0 and any(a in ("mA", "sP", "dP") for a in atoms)) else "nozero")
    out["outcomes"].append("%s|%s|%s|%s" % (tagk, "linear" if all(M.multi_linear(a) for a in atoms) else zero,
                                            "+".join(sorted(set(case["forms"]))), "+".join(checked)))
    if idx % 389 == 7:
        out["sample"] = "multi %s -> dof %d, [pvv] %.6g, %d observations kept, relations %s" % (json.dumps(case, sort_keys=True), R0.dof, R0.pvv, len(R0.obs), "+".join(checked))
    return out


def against_reference(R, ref):
    D = []
    if R.dof != ref["dof"] or len(R.obs) != ref["nobs"]:
        D.append(("shape", "dof %d / %d observations, reference %d / %d" % (R.dof, len(R.obs), ref["dof"], ref["nobs"])))
        return D
    for (pid, ch), v in sorted(ref["x"].items()):
        g = R.adjusted.get(pid, {}).get(ch)
        if not close(g, v, TOL_M):
            D.append(("x", "%s.%s gama %r reference %r" % (pid, ch, g, v)))
    order = sorted(ref["active"])
    for o, key in zip(R.obs, order):
        v = o["adj"] - o["obs"]
        if not close(v, ref["res"][key], TOL_M):
            D.append(("v", "residual of row %s: gama %r reference %r" % (key, v, ref["res"][key])))
    if not close(R.pvv, ref["pvv"], 1e-6, TOL_REL):
        D.append(("pvv", "[pvv] gama %r reference %r" % (R.pvv, ref["pvv"])))
    D += compare_cxx(R, ref)
    return D


def compare_cxx(R, ref):
    """covariance matrix of the adjusted unknowns: m0^2 N^-1 (mm2), m0 as used"""
    D = []
    unk = ref["unk"]
    n = len(unk)
    if n == 0 or R.cov_dim != n:
        return D
    m0 = R.sd.get("aposteriori") if R.sd.get("used") == "aposteriori" else R.sd.get("apriori")
    if not isinstance(m0, float) or ref["dof"] == 0:
        return D
    Q = M.spd_inverse(ref["N"])
    # gama orders unknowns by original index; map through adjusted point order
    names = []
    for pid in R.adj_order:
        p = R.adjusted[pid]
        for ch in ("x", "y", "z"):
            if ch in p:
                names.append((pid, ch))
    if sorted(names) != sorted(unk) or R.orig_index == []:
        return D
    # cov-mat of the XML is written in the order of <adjusted> (x y z per point)
    pos = {u: i for i, u in enumerate(unk)}
    G = gnet.cov_full(R)
    for i, ui in enumerate(names):
        for j, uj in enumerate(names):
            if G[i][j] is None:
                continue
            want = Q[pos[ui]][pos[uj]] * m0 * m0 / (M.M0 * M.M0)
            if not close(G[i][j], want, 1e-6, 5e-6):
                D.append(("cxx", "C_xx[%s,%s] gama %r reference %r" % (ui, uj, G[i][j], want)))
                return D
    return D


LINE_RE = re.compile(r"<lineNumber>\s*(\d+)\s*</lineNumber>")


def work_malformed(arg):
    idx, mc, tmp, exe_rel, exe_asan = arg
    out = {"viol": [], "runs": 0, "inputs": 1, "outcomes": [], "sample": None}
    text = M.build_malformed(mc)
    files = {"malformed.gkf": text}
    name = "m%06d" % idx
    agg = {}
    for variant, exe, env in (("rel", exe_rel, None), ("asan", exe_asan, vlib.ASAN_ENV)):
        rr = run4(exe, text, tmp, name + variant, env=env)
        out["runs"] += 4
        for a in ALGS:
            r, R = rr[a]
            st = status(r, R)
            cls = None
            if st == "refused":
                m = LINE_RE.search(R.raw)
                line = int(m.group(1)) if m else 0
                cls = "refused-with-line" if line > 0 else "refused-without-line"
            elif st == "adjusted":
                cls = "silent-adjustment"
            elif st.startswith("crash"):
                cls = st.replace("crash:", "crash-")
            elif st.startswith("no-xml"):
                # no XML at all: acceptable only with a non-zero exit status and a line in the message
                cls = "refused-with-line" if (r.rc != 0 and re.search(r"line\D{0,12}\d+", r.stderr + r.stdout)) else "refused-without-line"
            else:
                cls = st
            out["outcomes"].append("malformed|%s|%s|%s" % (mc["mal"], mc["kind"], cls))
            if cls != "refused-with-line":
                msg = (R.error if (R is not None and R.error) else "")
                if not msg:
                    fr = re.findall(r"\n\s+#\d+ \S+ in ([^\n]{0,120})", r.stderr)[:3]
                    m = re.search(r"ERROR: AddressSanitizer: [\w-]+|runtime error[^\n]*", r.stderr)
                    msg = ((m.group(0) if m else r.stderr[-300:]) + " <- " + " <- ".join(re.sub(r"GNU_gama::|<[^<>]*>", "", f).split(" /")[0] for f in fr)) if r.stderr else ""
                e = agg.setdefault(cls, {"who": [], "msg": msg.strip()[:400]})
                e["who"].append("%s/%s" % (variant, a))
    for cls, e in sorted(agg.items()):
        out["viol"].append(("C10|malformed|%s|%s|%s" % (mc["mal"], mc["kind"], cls),
                            "%s comp=%s band=%d pos=%d: %s by %s: %s" % (mc["mal"], mc["comp"], mc["band"], mc["pos"], cls, ",".join(e["who"]), e["msg"]), files))
    if idx % 151 == 3:
        out["sample"] = "malformed %s -> %s" % (json.dumps(mc, sort_keys=True), sorted(set(out["outcomes"])))
    return out


# ------------------------------------------------------------------ driver
def main():
    ck = vlib.Check("C10")
    worst = M.check_families()
    exe_rel = vlib.exe("rel", "gama-local")
    exe_asan = vlib.exe("asan", "gama-local")

    if ck.args.replay:
        return replay(ck, exe_rel, exe_asan)

    cases = enum_cases(ck.tier)
    mals = enum_malformed(ck.tier)
    multis = enum_multi(ck.tier)
    vlib.log("[C10 %s] %d cases, %d shared-unknown cases, %d malformed inputs, family condition max %.2f" % (ck.tier, len(cases), len(multis), len(mals), worst))

    def absorb(res, payload):
        ck.count("states", res["inputs"])
        ck.count("transitions", res["runs"])
        ck.count("evaluations", res["runs"])
        for o in res["outcomes"]:
            ck.outcome(o)
        if res["sample"]:
            samples.append(res["sample"])
        for (sig, detail, files) in res["viol"]:
            ck.violation(sig, detail, replay=payload, files=files)

    import concurrent.futures as cf
    done = 0
    samples = []
    with cf.ProcessPoolExecutor(max_workers=vlib.NCPU) as ex:
        # malformed first: small, includes the asan runs
        items = [(i, mc, ck.tmp, exe_rel, exe_asan) for i, mc in enumerate(mals)]
        for it, res in zip(items, ex.map(work_malformed, items, chunksize=4)):
            absorb(res, {"type": "malformed", "mc": it[1]})
        ck.count("malformed_inputs", len(mals))
        CH = 2048
        for s in range(0, len(cases), CH):
            if ck.time_left() < 30:
                ck.exhaustive = False
                ck.notes.append("deadline: %d of %d cases completed" % (done, len(cases)))
                break
            items = [(s + i, c, ck.tmp, exe_rel) for i, c in enumerate(cases[s:s + CH])]
            for it, res in zip(items, ex.map(work_case, items, chunksize=8)):
                absorb(res, {"type": "case", "case": it[1]})
                done += 1
        mdone = 0
        for s in range(0, len(multis), CH):
            if ck.time_left() < 30:
                ck.exhaustive = False
                ck.notes.append("deadline: %d of %d shared-unknown cases completed" % (mdone, len(multis)))
                break
            items = [(s + i, c, ck.tmp, exe_rel, list(ALGS) if ck.tier == "thorough" else None) for i, c in enumerate(multis[s:s + CH])]
            for it, res in zip(items, ex.map(work_multi, items, chunksize=8)):
                absorb(res, {"type": "multi", "case": it[1]})
                mdone += 1
    ck.count("cases", done)
    ck.count("shared_unknown_cases", mdone)
    mal = [x for x in samples if x.startswith("malformed")][:1]
    mul = [x for x in samples if x.startswith("multi")]
    mal += [x for x in mul if '"excl": null' not in x][:1] + [x for x in mul if '"excl": null' in x][:1]
    oth = [x for x in samples if not x.startswith("malformed") and not x.startswith("multi")]
    pick = []
    for k in M.KINDS:
        pick += [x for x in oth if '"kind": "%s"' % k in x and '"excl": []' not in x][:1]
    for x in mal + pick:
        ck.sample(x)
    ck.counters["distinct_nontrivial"] = ck.counters.get("states", 0)
    ck.finish(RULE + "; a state = one distinct gama-local input (primary, reformulated or malformed), a transition = one gama-local execution",
              extra={"violation_signatures": dict(sorted(ck.viol_sigs.items())),
                     "bound": {"tier": ck.tier, "cases": len(cases), "shared_unknown_cases": len(multis), "malformed_inputs": len(mals),
                               "family_condition_max": round(worst, 2)}},
              assumptions=["lattice networks {0,100,200}^2 x heights {0,10,30}, 1-2 new points, exact approximate coordinates, no instrument heights, sigma-apr 10, errors +-0.8 sigma",
                           "covariance values from three fixed diagonally dominant families (condition < 20; the third has all variances == sigma-apr^2 == 100 exactly); other reals are not covered",
                           "(a) only for the linear kinds; (b) only where stdev attributes exist (obs, height-differences); (c) only where the deleted input is expressible "
                           "(coordinates: xy / z groups, vectors: whole vectors); (d) only for clusters repeating one quantity (the general L^-1 transform is not expressible as an input; (a) is the whitening check there)",
                           "shared unknowns: one fixed 3-D network (4 fixed, 2 new points; A->P, B->Q, P->D aligned with +x, B and Q at the same height), errors 0.5..1.1 sigma "
                           "that depend on the cluster and the row only (every order adjusts the same observations); quick: the reformulated inputs of the shared-unknown cases run "
                           "with envelope + one dense algorithm chosen by the case index (the primary input with all four), backbone kind and place chosen by the case index; "
                           "thorough: four algorithms everywhere, pairs with both backbones at the three places",
                           "directions and zenith angles are excluded only through a target without coordinates: LocalNetwork::test_abs_term reads the homogenised right-hand side (DESIGN D10), "
                           "so a gross direction would contaminate its correlated neighbours; that is the business of C14",
                           "tolerances: 2e-8 m/gon on coordinates, adjusted observations and residuals, 2e-6 relative on [pvv], standard deviations and C_xx, 0.002 on 3-decimal fields"])


def replay(ck, exe_rel, exe_asan):
    p = ck.args.replay
    if p.endswith(".gkf"):
        text = open(p).read()
        rr = run4(exe_rel, text, ck.tmp, "replay")
        base = None
        for a in ALGS:
            r, R = rr[a]
            st = status(r, R)
            print("%-9s %s %s" % (a, st, (R.error if R is not None and R.error else ("dof %d [pvv] %r" % (R.dof, R.pvv) if R is not None else r.stderr[-200:]))))
            if st == "adjusted":
                if base is None:
                    base = R
                else:
                    D = compare(base, R)
                    if D:
                        print("   differs from first: " + first(D, 8))
        r = gnet.run_gama(exe_asan, text, ck.tmp, "replay_asan", want=("xml",), env=vlib.ASAN_ENV)
        print("asan      rc=%d %s" % (r.rc, (re.search(r"ERROR: AddressSanitizer[^\n]*", r.stderr) or [""])[0] if r.stderr else ""))
        sys.exit(0)
    payload = json.load(open(p))
    c = payload["case"]
    if c["type"] == "malformed":
        res = work_malformed((0, c["mc"], ck.tmp, exe_rel, exe_asan))
    elif c["type"] == "multi":
        res = work_multi((0, c["case"], ck.tmp, exe_rel, list(ALGS)))
    else:
        res = work_case((0, c["case"], ck.tmp, exe_rel))
    for (sig, detail, files) in res["viol"]:
        print("V %s :: %s" % (sig, detail[:700]))
    print("outcomes:", sorted(set(res["outcomes"])))
    print("%d violation(s) on replay" % len(res["viol"]) if res["viol"] else "no violation on replay")
    sys.exit(1 if res["viol"] else 0)


if __name__ == "__main__":
    main()
