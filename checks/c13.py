#!/usr/bin/env python3
"""C13 - exported input reproduces the adjustment and is a fixed point.

Transition system on the real `gama-local` executable: state = an input file,
transition = "adjust + export".  For every member of a network family (every
observation / cluster kind, cov-mat band 0/1/full, every attribute, statuses,
parameters, removed observations, every order of xy / z / xyz points in a
<coordinates> cluster, every order of angular / linear observations in an <obs>
cluster with a cov-mat x gon / degree input and output) x 16 axes/angle frames x algorithms x
approximate-coordinate modes the chain
    F0 --adjust+export--> F1 --adjust+export--> F2 --adjust+export--> F3
is run and every state is adjusted (--xml, --text).  Oracle: see RULE.
"""
import json, os, sys
sys.path.insert(0, os.path.join(os.path.dirname(os.path.abspath(__file__)), "..", "lib"))
import vlib, gnet
import n13_model as M
import n13_chain as CH

RULE = ("every member of the C13 network family (all observation and cluster kinds, cov-mat band 0/1/full, attributes from_dh/to_dh/bs_dh/fs_dh/"
        "extern/dist/orientation/obs-level from_dh, sexagesimal input and output, fixed/adj/constrained statuses, parameters, removed observations, "
        "omitted approximations; <coordinates> clusters made of every sequence of 2 and 3 <point> elements over the observed components {xy, z, xyz} "
        "with every pattern of distinct/repeated point ids (PQ PP; PQR PPQ PQP PQQ PPP) and a diagonal or band-1 cov-mat inside a determined 3-D "
        "network: 153 sequences x 2 = 306 members coords.<components>.<ids>.cov<band>; <obs> clusters with a cov-mat made of every sequence of 2 and 3 "
        "observations over {direction, angle, z-angle | distance, s-distance} (every order of angular and linear rows; sets with exactly one "
        "direction left out, gama removes it) x band 0..dim-1 x values and matrix given in gon/cc or degrees/arc seconds x output in gon or "
        "degrees: 265 x 4 = 1060 members obsc.<kinds>.cov<band>.<in>-<out>) x axes-xy/angles frames x algorithms x {exact, perturbed} approximations: chain F0 -> F1 -> F2 -> F3 by "
        "'gama-local Fk --export Fk+1'; oracle per step: export written and accepted (exit 0, no error document); independent reader (xml.etree) of "
        "Fk and Fk+1 gives the same points/status, observations (type, ends, value, stdev/cov-mat, heights, extern, dist) and parameters; "
        "approximate coordinates present for every adjusted point; adjusting Fk (k=1,2,3) gives the adjusted coordinates, residuals, [pvv], dof, "
        "m0 and standard deviations of F0 with 0 linearisation iterations; Fk+1 == Fk (k=1,2) including approximate coordinates; the export does "
        "not depend on which other outputs were requested.  state = distinct file of a chain, transition = one gama-local execution")


def jobs(tier, exe, tmp):
    frames_all = M.frames()
    algs = gnet.ALGS
    out = []
    i = 0
    for geom in ((0, 1) if tier == "thorough" else (0,)):
        fam = M.family(geom=geom)
        ci = oi = -1
        for mi, mem in enumerate(fam):
            frames = [f for f in frames_all if mem.axes is None or f[0] in mem.axes]
            fr = frames if mem.planar else [frames[0], frames[9]]
            if mem.name.startswith("coords."):
                # the <coordinates> order members (306): what they vary is the export of one cluster, so frames and
                # algorithms rotate with the member index instead of being multiplied
                ci += 1
                if tier == "thorough":
                    fr, al = (frames, [algs[ci % 2], algs[2 + ci % 2]]) if geom == 0 else (frames[ci % 2::2], [algs[ci % 4]])
                else:
                    # quick: one consistent and one inconsistent frame (axes rotate), one algorithm
                    a1, a2 = ci % 8, (ci + 5) % 8
                    fr, al = [frames[2 * a1 + (a1 >= 4)], frames[2 * a2 + (a2 < 4)]], [algs[ci % 4]]
            elif mem.name.startswith("obsc."):
                # the <obs> cov-mat order members (1060): what they vary is the export of one cluster's matrix and
                # values; frames and algorithms rotate with the member index
                oi += 1
                if tier == "thorough":
                    fr, al = (frames[oi % 4::4] if geom == 0 else frames[(oi + 1) % 8::8]), [algs[oi % 4]]
                else:
                    fr, al = [frames[(5 * oi) % 16]], [algs[oi % 4]]
            elif tier == "thorough":
                al = algs if geom == 0 else [algs[mi % 2], algs[2 + mi % 2]]
            else:
                # quick: base networks in every frame with every algorithm; other members in every second frame
                # (alternating with the member index), one algorithm (rotating), perturbed approximations in every 4th job
                al = [algs[mi % 4]] if mem.name not in ("2d", "3d") else algs
                if mem.name not in ("2d", "3d") and mem.planar: fr = fr[mi % 2::2]
            for fi, (ax, an) in enumerate(fr):
                for alg in al:
                    for ap in (("exact",) if mem.heights else ("exact", "perturbed")):
                        if tier != "thorough" and ap == "perturbed" and ((fi + mi) % 4 or mem.name.startswith("obsc.")) and mem.name not in ("2d", "3d"):
                            continue
                        out.append({"i": i, "geom": geom, "member": mem.name, "axes": ax, "angles": an, "alg": alg, "approx": ap,
                                    "exe": exe, "tmp": tmp})
                        i += 1
    return out


def report(ck, res):
    job = res["job"]
    ck.count("chains")
    ck.count("transitions", res["runs"])
    ck.count("evaluations", res["evals"])
    ck.outcome(res["outcome"])
    for (sig, detail) in res["diffs"]:
        rep = {k: job[k] for k in ("geom", "member", "axes", "angles", "alg", "approx")}
        rep["gkf"] = res["files"].get("F0.gkf", "")
        ck.violation(sig, "%s [replay spec %s]" % (detail, spec(job)),
                     replay=rep, files=res["files"])


def spec(job):
    return "%d:%s:%s:%s:%s:%s" % (job.get("geom", 0), job["member"], job["axes"], job["angles"], job["alg"], job["approx"])


def replay(ck, exe):
    """--replay <replay.json>  (re-runs the chain from the stored F0 text)  or
    --replay geom:member:axes:angles:algorithm:approx  (regenerates F0); add VERIF_KEEP=dir to keep the files"""
    want = None
    if os.path.exists(ck.args.replay):
        d = json.load(open(ck.args.replay))
        case = d["case"]; want = d.get("sig")
        job = dict(case, i=0, exe=exe, tmp=ck.tmp, f0=case.get("gkf") or None)
    else:
        g, mem, ax, an, alg, ap = ck.args.replay.split(":")
        job = {"i": 0, "geom": int(g), "member": mem, "axes": ax, "angles": an, "alg": alg, "approx": ap, "exe": exe, "tmp": ck.tmp}
    keep = os.environ.get("VERIF_KEEP")
    if keep:
        os.makedirs(keep, exist_ok=True); job["tmp"] = keep; job["keep"] = True
    res = CH.chain(job)
    print("outcome: %s, %d gama-local executions" % (res["outcome"], res["runs"]))
    for (s, t) in res["diffs"]:
        k = ck.known.match("C13", s)
        print("%s %s :: %s" % ("KNOWN" if k else "V    ", s, t))
    if not res["diffs"]:
        print("no violation of C13 on replay")
    bad = [s for (s, _) in res["diffs"] if (s == want if want else not ck.known.match("C13", s))]
    sys.exit(1 if bad else 0)


def snapshot_exe(ck):
    """build, then run a private byte copy of the executable for the whole enumeration (a concurrent rebuild of
    build/rel by another check replaces the file while it is being executed otherwise)"""
    import shutil, subprocess, time
    src = vlib.exe("rel", "gama-local")
    dst = os.path.join(ck.tmp, "gama-local")
    for attempt in range(20):
        try:
            shutil.copy2(src, dst)
            if subprocess.run([dst, "--version"], stdout=subprocess.PIPE, stderr=subprocess.PIPE, timeout=20).returncode == 0:
                return dst
        except (OSError, subprocess.SubprocessError):
            pass
        time.sleep(0.5)
    vlib.log("BUILD-ERROR cannot snapshot %s" % src)
    sys.exit(2)


def main():
    ck = vlib.Check("C13")
    exe = snapshot_exe(ck)
    if ck.args.replay:
        replay(ck, exe)
    J = jobs(ck.tier, exe, ck.tmp)
    if not ck.args.deadline and not os.environ.get("VERIF_DEADLINE_S"):
        ck.deadline = min(ck.deadline, ck.t0 + (860 if ck.tier == "thorough" else 140))     # budget of the tier
    states = set()
    members = set()
    done = 0
    for res in vlib.pmap(CH.chain, J, chunksize=4):
        report(ck, res)
        states.update(res["hashes"])
        members.add(res["job"]["member"])
        done += 1
        if res.get("sample"): ck.sample(res["sample"])
        if ck.time_left() < 20:
            ck.exhaustive = False
            ck.notes.append("deadline: the first %d of %d chains completed (order: geometry, member, frame, algorithm, approximation)" % (done, len(J)))
            break
    ck.counters["states"] = len(states)
    ck.counters["distinct_nontrivial"] = len(states)
    ck.counters["members"] = len(members)
    ck.finish(RULE + "; non-trivial = every state (each file holds a full network)",
              assumptions=[
                  "networks of <= 7 points (the coords.* members: 3 fixed + 3 adjusted points, all of them in 2 frames per member in the quick tier, 16 / 8 frames for geometry 0 / 1 with 2 / 1 algorithms in the thorough tier; the obsc.* members in 1 frame per member with exact approximations in the quick tier, 4 / 2 frames for geometry 0 / 1 in the thorough tier, frame and algorithm rotating with the member index), two geometries (200 m square at the origin; 230 m figure at x~1100, y~5100, z~260), sight lengths 60-280 m, consistent observations + deterministic noise of <= 0.7 sigma; other reals and larger networks are not covered",
                  "instrument heights that enter the reductions are combined with exact approximate coordinates only (dh-reduction convergence is C06's subject)",
                  "comparisons to the printed precision of the export: parameters 8 digits, sexagesimal values 1e-4 arc second, everything else 16-17 digits; results: 1e-6 m / 1e-6 gon / relative 1e-5",
                  "the orientation attribute of <obs> is an approximate unknown, not survey data: its preservation is demanded only through 'no further iteration'"])


if __name__ == "__main__":
    main()
