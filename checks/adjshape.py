#!/usr/bin/env python3
"""C01/C02/C03/C08(algebraic)/C20(solver level): exhaustive enumeration of the
problem space P on the real solver classes (harness/adjmc.cpp)."""
import os, sys
sys.path.insert(0, os.path.join(os.path.dirname(os.path.abspath(__file__)), "..", "lib"))
import vlib

RULES = {
 "C01": "every set of m rows from the row alphabet R_n x every block/band covariance layout x 2 value families (+ a badly scaled diagonal family with weights over 9 decades for every regular row set, compared with a long double reference) x b in {basis, mixed} x every regularisation subset S x 4 algorithms through GNU_gama::Adj; oracle: r=Ax-b, A'Pr=0, defect=exact nullity (Bareiss), min-norm over S, rtr=r'Pr",
 "C02": "same space; pairwise agreement of the 4 algorithms on defect, x, r, rtr, all q_xx(i,j), q_bb(i,j) (original and homogenised); every non-resolving S must be refused by every algorithm",
 "C03": "same space; all index pairs: Q symmetric psd, NQN=N, QNQ=Q, QN=I (defect 0), (n_S)'Q=0, q_bb=AQA', HPH=H, homogenised q_bb idempotent with diagonal in [0,1] and redundancy sum = dof",
 "C08": "algebraic part: every singular member of P, all resolving subsets S: residuals, rtr, q_bb, defect invariant; x orthogonal to the null space over S",
 "C20": "solver level: every singular member of P: lindep flags name exactly defect() unknowns whose removal leaves full column rank (exact elimination); non-resolving S refused; no non-finite output",
}

def run(pid, ck=None, extra_args=()):
    own = ck is None
    ck = ck or vlib.Check(pid)
    exe = vlib.hbuild("adjmc", "rel")
    if ck.args.replay:
        import json, subprocess
        case = json.load(open(ck.args.replay))["case"]
        base = ";".join(case.split(";")[:4])
        r = subprocess.run([exe, "--case", base], stdout=subprocess.PIPE, text=True)
        hits = [l for l in r.stdout.splitlines() if l.startswith("V\t" + pid + "|")]
        print("\n".join(hits) if hits else "no violation of %s on replay" % pid)
        sys.exit(1 if hits else 0)
    viols = ck.run_shards(exe, ["--tier", ck.tier] + list(extra_args), nshards=vlib.NCPU * 4)
    for (sig, case, detail) in viols:
        if sig.startswith(pid + "|") or sig.startswith("harness-crash"):
            ck.violation(sig, detail, replay=case)
    ck.count("distinct_nontrivial", 0)
    ck.counters["distinct_nontrivial"] = ck.counters.get("states", 0)
    if own:
        ck.finish(RULES[pid] + "; a state = one (A, covariance layout) configuration, a transition = one solver run on it; non-trivial = every configuration (all have >=1 row)",
                  assumptions=["integer design matrices with entries in {-2..2}, n<=4 unknowns, m<=%s rows; reals outside the lattice are not covered" % ("5 (reduced covariance layouts for n=4,m=5)" if ck.tier == "thorough" else "4 (3 for n=4)"),
                               "tolerance 1e-8 * scale; reference P, N, null space computed by the harness (long double / exact integers)"])
    return ck

if __name__ == "__main__":
    pid = sys.argv[1]
    sys.argv = [sys.argv[0]] + sys.argv[2:]
    run(pid)
