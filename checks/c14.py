#!/usr/bin/env python3
"""C14: exclusions are reported and equal to deleting the excluded items.

Engine netmc (lib/gnet.py) + lib/n14_model.py on the real gama-local
executable.  Every case = a determined base network (2-D with up to three
placements of the two new points, 3-D, levelling) with one or two injected
defects, for tol-abs in {10, 1000} mm, sigma-apr in {1, 10, 100}, run with all
four algorithms; whenever something was excluded the input with exactly the
excluded items deleted is run as well (two-run relation).

Two further families (lib/n14_model.py enumerate_positions / enumerate_dsets, sigma-apr 10 and angular
stdev 10 so that the known finding D10 cannot interfere): POSITION - the cluster list of the input rotated
through every position, a blunder in every scalar of the input in turn (the last one included), every
structural defect at every cluster position; DIRECTION SETS WITH REPEATED TARGETS - every target pattern
of length 3..4 over 2..3 targets with a blunder at every position and at every pair of positions."""
import os, sys, json
sys.path.insert(0, os.path.join(os.path.dirname(os.path.abspath(__file__)), "..", "lib"))
import vlib, gnet
import n14_model as M

RULE = ("all determined base networks {2-D: 3 fixed + 2 new lattice points (quick 1, thorough 3 placements), 3-D, levelling} "
        "x (no defect | every single defect | every admissible pair of defects) from {isolated point with/without coordinates, "
        "point without coordinates reachable by one distance / one direction / one slope distance, point with coordinates "
        "reachable by one distance / one direction / two collinear distances, station with one direction (alone or with a "
        "distance), two directions to the same target, unobserved free height, blunder in one observation of every type "
        "(direction in sets of 2/3/4, distance, angle, azimuth, slope distance, zenith angle, height difference, vector "
        "component(s), observed coordinate(s)) of POSITIONAL size f*tol-abs, approximate coordinates of a new point shifted by f*tol-abs (through its last <coordinates> record, which gama takes as the point's coordinates), f in {0.5,0.9,0.999,1.001,1.1,2} and f=1 exactly "
        "where the arithmetic is exact} x tol-abs {10,1000} mm x sigma-apr {1,10,100} x 4 algorithms; oracle per execution: "
        "(1) every input point/observation absent from the XML result is listed in 'Removed points' / 'Outlying absolute "
        "terms' or explained by a listed point or a direction set with < 2 targets, counts of text, XML summary and XML list "
        "agree, observed exclusion set = reference structural closure; (2) excluded for its absolute term <=> reference "
        "positional misclosure (manual: |d-d0|, |b|*d0 with the median orientation, angles: longer arm) > tol-abs; "
        "(3) result == result of the input with exactly the excluded items deleted (coordinates, residuals, [pvv], dof, "
        "stdevs, orientations, covariances); "
        "POSITION family (sigma-apr 10, every angular stdev 10): templates 2-D / 3-D / levelling with the cluster list of the "
        "complete input rotated left by every r in 0..#clusters-1 (every cluster is the first and the last of the input) x "
        "{no defect | blunder in EVERY scalar of the input in turn, first to LAST, vectors / coordinate records per component and "
        "as a whole record, f in {0.9,1.1} (thorough: all six, three 2-D placements) x tol-abs {10,1000} | every structural defect "
        "at every rotation, tol-abs 1000 (thorough: 10 too)}; REPEATED-TARGET family: one direction set with the target word w, "
        "every w of length 3..4 over 2..3 targets up to renaming (4+13 words incl. closing the horizon; thorough: all 24+78 words "
        "over {A,B,C}), station = new point with the determining distances behind the directions in the same cluster (DP) / "
        "station = fixed point, targets new+fixed, the set is the last cluster (DF), x tol-abs {10,1000} x {no blunder | blunder at "
        "every position, f {0.9,1.1} (thorough: six) | nominal blunders at every pair of positions, sizes (1.1,1.1) (thorough: "
        "{0.9,1.1}^2)}; the same three oracles, and in addition per execution (4) every row of the text listing 'Outlying absolute "
        "terms' shows the reference absolute term of its observation (mm / cc, 3e-5 relative) and the number of rows == "
        "observations given - observations in the adjustment - observations unusable for structural reasons (reference closure); (5) the table "
        "'rejected_observations' of the --html output (LocalNetwork::rejected_observations()) holds exactly the observations given "
        "minus the observations adjusted, each once: row count, every row is an excluded observation of its kind (type, points, "
        "value to 6e-4) and no kind has more rows than excluded observations, every excluded observation has a row - evaluated on "
        "every execution of every case (structural defect x blunder = two revisions included); "
        "state = one generated input, transition = one gama-local execution")


def main():
    ck = vlib.Check("C14")
    exe = vlib.exe("rel", "gama-local")
    # run a private copy: another check may relink build/rel/gama-local (under the build lock) while
    # this enumeration is running
    import shutil, fcntl
    with open(os.path.join(os.path.dirname(os.path.dirname(exe)), ".lock-" + os.path.basename(os.path.dirname(exe))), "w") as lk:
        fcntl.flock(lk, fcntl.LOCK_EX)          # the lock bin/vbuild holds while it links
        shutil.copy2(exe, os.path.join(ck.tmp, "gama-local"))
    exe = os.path.join(ck.tmp, "gama-local")
    if ck.args.replay:
        payload = json.load(open(ck.args.replay))
        case = payload["case"]
        cs = case["case"] if isinstance(case, dict) else case
        algs = [case["alg"]] if isinstance(case, dict) and case.get("alg") else gnet.ALGS
        r = M.run_case((cs, exe, ck.tmp, algs, 0))
        stored = (payload.get("files") or {}).get("input.gkf")
        if stored is not None and stored != gnet.to_gkf(M.build_case(cs)):
            print("NOTE: regenerated input differs from the stored input.gkf (generator changed)")
        bad = 0
        for sig, det, rep in r["viol"]:
            known = ck.known.match("C14", sig)
            print("%s %s :: %s" % ("KNOWN-FINDING" if known else "VIOLATION", sig, det))
            bad += 0 if known else 1
        if not r["viol"]:
            print("no violation of C14 on replay (%d executions, outcomes %s)" % (r["runs"], sorted(set(r["outcomes"]))))
        sys.exit(1 if bad else 0)

    cases = M.enumerate_cases(ck.tier)
    assert len(set(cases)) == len(cases)
    vlib.log("[C14 %s] %d cases" % (ck.tier, len(cases)))
    items = [(cs, exe, ck.tmp, gnet.ALGS, i) for i, cs in enumerate(cases)]
    done = 0
    worst = {}
    nontrivial = 0
    viols = []; samples = []       # reported in enumeration order, not in completion order
    # longest first is not needed; chunks keep the pool busy
    import concurrent.futures as cf
    with cf.ProcessPoolExecutor(max_workers=vlib.NCPU) as ex:
        it = iter(items)
        pending = set()
        stop = False
        def feed():
            nonlocal stop
            while len(pending) < vlib.NCPU * 4 and not stop:
                if ck.time_left() < 20:
                    stop = True; ck.exhaustive = False; break
                try: a = next(it)
                except StopIteration: stop = True; break
                pending.add(ex.submit(M.run_case, a))
        feed()
        while pending:
            fin, _ = cf.wait(pending, return_when=cf.FIRST_COMPLETED)
            for f in fin:
                pending.discard(f)
                r = f.result()
                done += 1
                ck.count("states"); ck.count("transitions", r["runs"]); ck.count("evaluations", r["runs"])
                ck.count("reduced_runs", r["reduced"]); ck.count("deletion_not_expressible", r["skipped3"])
                ck.count("reduced_input_not_clean", r["unclean"])
                if any(o != "nothing-excluded" for o in r["outcomes"]): nontrivial += 1
                for o in r["outcomes"]: ck.outcome(o)
                for k, v in r["worst"].items():
                    if v > worst.get(k, 0): worst[k] = v
                if r["sample"]: samples.append((r["num"], r["sample"]))
                for k, (sig, det, rep) in enumerate(r["viol"]): viols.append((r["num"], k, sig, det, rep))
            feed()
    for _, smp in sorted(samples)[::max(1, len(samples) // 6)][:6]: ck.sample(smp)
    for _, _, sig, det, rep in sorted(viols, key=lambda v: v[:2]):
        files = rep.pop("files", None) if rep else None
        ck.violation(sig, det, replay=rep, files=files)
    if done < len(cases):
        ck.exhaustive = False
        ck.notes.append("deadline: %d of %d cases completed" % (done, len(cases)))
    ck.counters["distinct_nontrivial"] = nontrivial
    ck.notes.append("largest deviation between a run and its reduced run: %s" % {k: "%.2e" % v for k, v in sorted(worst.items())})
    ck.finish(RULE, extra={"cases_enumerated": len(cases), "cases_completed": done},
              assumptions=["exact approximate coordinates, no instrument heights, noise +-0.4 sigma with a fixed sign pattern; "
                           "lattice {0,100,200}^2 x {0,10,30}; the POSITION and REPEATED-TARGET families use sigma-apr 10 with angular stdev 10 only "
                           "(D10, the listed finding, makes the exclusion depend on sigma-apr/stdev otherwise); other reals, larger networks, omitted approximate coordinates of "
                           "determined points and the huge-covariance removal path (needs near-singular geometry) are not covered",
                           "the approximate orientation of a direction set is modelled as documented (median of the estimates); approximate coordinates "
                           "are the <point> values overridden by <coordinates> records in document order (GKFparser::process_point); "
                           "deletion of a single component of a vector / coordinate record cannot be written in the input format, "
                           "those cases are checked for clauses 1 and 2 only (counter deletion_not_expressible)",
                           "the two-run relation is evaluated when the reduced input is itself free of gross absolute terms in the "
                           "reference model (deleting directions moves the median orientation of their set: with two blunders in one "
                           "set what is left can exceed tol-abs anew; counter reduced_input_not_clean, thorough tier only); a blunder "
                           "of the size of the noise in a direction that stays the median of its set has no attainable misclosure "
                           "f*tol: the nominal error is written, the oracles judge by the reference misclosure actually present",
                           "comparison of the two runs: coordinates and residuals 2e-6 (m / gon), [pvv] 1e-4 relative, "
                           "stdevs and covariances 1e-4 relative (gama's own linearisation stopping rule is 5e-7 m)"])


if __name__ == "__main__":
    main()
