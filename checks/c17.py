#!/usr/bin/env python3
"""C17: critical values of N(0,1), Student t and chi-square invert their
distributions — full (alpha, dof) grids on the real GNU_gama::Normal, Student,
Chi_square, NormalDistribution (harness/gridmc.cpp --mode c17) against
reference quantiles computed by the harness itself in long double."""
import os, sys, json, subprocess, shutil
sys.path.insert(0, os.path.join(os.path.dirname(os.path.abspath(__file__)), "..", "lib"))
import vlib

SCIPY = r"""
import sys
from scipy import stats
worst = {}
n = 0
for line in open(sys.argv[1]):
    fn, k, dof, v = line.split(); k = int(k); dof = int(dof); v = float(v); a = k / 2000.0
    s = stats.norm.isf(a) if fn == 'normal' else stats.t.isf(a, dof) if fn == 'student' else stats.chi2.isf(a, dof)
    e = abs(s - v) / max(1.0, abs(v)); n += 1
    if e >= worst.get(fn, (-1,))[0]: worst[fn] = (e, k, dof)
print(n, ' '.join('%s:%.2e(alpha=%g,dof=%d)' % (f, w[0], w[1] / 2000.0, w[2]) for f, w in sorted(worst.items())))
"""


def scipy_note(ck, exe):
    """Informational cross-check of the harness' reference quantiles against scipy; never decides."""
    py = shutil.which("python3-vt")
    if not py:
        return "scipy cross-check skipped: python3-vt not installed"
    try:
        tab = os.path.join(ck.tmp, "ref.txt")
        with open(tab, "w") as f:
            subprocess.run([exe, "--mode", "c17ref"], stdout=f, check=True, timeout=120)
        scr = os.path.join(ck.tmp, "xc.py")
        open(scr, "w").write(SCIPY)
        r = subprocess.run([py, scr, tab], stdout=subprocess.PIPE, stderr=subprocess.PIPE, text=True, timeout=120)
        out = [l for l in r.stdout.splitlines() if l.strip() and "conda" not in l]
        if r.returncode != 0 or not out:
            return "scipy cross-check could not run (rc=%s)" % r.returncode
        return ("scipy cross-check (informational, does not decide): reference quantiles of the harness vs scipy.stats isf on "
                "16 alpha x 17 dof, points and worst relative differences: " + out[-1])
    except Exception as ex:  # noqa
        return "scipy cross-check failed to run: %r" % (ex,)


def main():
    ck = vlib.Check("C17", level="exploration")
    exe = vlib.hbuild("gridmc", "rel")
    if ck.args.replay:
        case = json.load(open(ck.args.replay))["case"]
        r = subprocess.run([exe, "--mode", "c17", "--case", case], stdout=subprocess.PIPE, text=True)
        sys.stdout.write(r.stdout)
        hits = [l for l in r.stdout.splitlines() if l.startswith("V\t")]
        print("violation reproduced" if hits else "no violation on replay")
        sys.exit(1 if hits or r.returncode else 0)
    den = 20000 if ck.tier == "thorough" else 2000
    viols = ck.run_shards(exe, ["--mode", "c17", "--tier", ck.tier], nshards=vlib.NCPU * (8 if ck.tier == "thorough" else 4))
    for (sig, case, detail) in viols:
        ck.violation(sig, detail, replay=case)
    ck.notes.append(scipy_note(ck, exe))
    ck.finish(
        "full grid alpha = k/%d (k with 0.0005 <= alpha <= 0.9995) x dof in {1..1000, 2000, 1e4, 1e5, 1e6} for Student and Chi_square, the alpha grid alone for Normal: "
        "error against the reference upper-tail quantile (own long double implementation: erfc / continued fraction and series of the regularised incomplete beta and gamma functions, safeguarded Newton; self-tested against closed forms at start) "
        "relative, absolute where |quantile| < 1, below 1e-6 / 5e-4 / 5e-3; strictly decreasing in alpha between neighbouring grid points; f(1-alpha) = -f(alpha) for Normal and Student; finite; "
        "the same monotonicity / symmetry / finiteness on a dyadic log grid of 641 alphas from 2^-41 (4.5e-13) to 1-2^-41 with exactly representable complements, every dof; "
        "NormalDistribution(Normal(alpha)) = 1-alpha (upper-tail convention of statan.cpp) within 1e-6 of the smaller tail + 4.5e-16, and the resolvable form NormalDistribution(-|Normal(alpha)|) = min(alpha, 1-alpha) to 1e-6 relative, on both alpha grids and on a far grid 2^-j, 1.5*2^-j, j = 42..1021 (down to 4.5e-308; Normal also finite and strictly decreasing there); "
        "x = -40 .. 40 step 0.01, judged wherever the true value is representable (Phi(x) >= DBL_MIN, i.e. x >= -37.5, on the lower side; 1-Phi(x) >= 4.5e-16, i.e. x <= 8.04, on the upper side): NormalDistribution(x) equals the reference erfc to 1e-6 of the smaller tail (+ 4.5e-16 = DBL_EPSILON stopping rule + 2 roundings for D near 1), and Normal(NormalDistribution(x)) = -x within 1e-6 relative (absolute below 1) + 4.5e-16/phi(x) on the upper side; a D of exactly 0 or 1 inside that range is a violation; "
        "evaluation = one oracle decision, non-trivial = grid points whose reference quantile or inverse was actually computed" % den,
        assumptions=["alpha between grid points, dof not in the list and alpha below 4.5e-13 are not covered",
                     "Normal/Student/Chi_square return the value exceeded with probability alpha (checked against statan.cpp); references use the matching upper tail",
                     "quick: alpha step 0.0005 (the grid of the statement); thorough: alpha step 0.00005 on the same dof list"])


if __name__ == "__main__":
    main()
