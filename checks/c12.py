#!/usr/bin/env python3
"""C12: the XML result is a faithful, well-formed serialisation of the adjustment.

Exhaustive enumeration (no sampling) of
   network family (lib/n12_nets.py, 40 networks, every observation type,
   fixed / adjusted / constrained points, 1-D / 2-D / 3-D, consistent and
   inconsistent coordinate frames)
 x identifier menu x every identifier position (one at a time)
 x --cov-band in {-1, 0, .., dim}  x --angular {400, 360}
 (+ text output: every --language x every --encoding)
on the real gama-local, compare-xyz, gama-local-deformation executables and on
gama's own result readers (harness/xmlrt.cpp), and of
   epoch pairs (lib/n12_epochs.py): {2-D, levelling, 3-D} x identifier set x
   complete product of per-point statuses {xy, z, xyz adjusted, fixed, absent}
   in each of the two epochs, all ordered pairs
on gama-local-deformation, and of
   the statistics dimension (lib/n12_nets.py stats_net): degrees of freedom
   {0,1,2,3+} x noise level x sigma-act x conf-pr, statistics block compared
   across XML / read_xml / text / HTML / read_html (check_stats, applied to
   every gama-local execution of the check),
   the wrap dimension (wrap_net): direction / angle / azimuth a few cc on both
   sides of 0 = 400 gon, residuals of both signs (range clause check_ranges),
   the status dimension (status_net): every point x,y in {absent, fix, adj,
   constrained} x z likewise (coordinates summary, check_summary).
See RULE below for the oracles.
"""
import os, sys, json, subprocess, re, math, collections, time
sys.path.insert(0, os.path.join(os.path.dirname(os.path.abspath(__file__)), "..", "lib"))
import vlib, gnet
import n12_nets as N
import n12_parse as Q
import n12_epochs as EP
import xml.etree.ElementTree as ET

LANGS = ["en", "ca", "cs", "cz", "du", "es", "fr", "fi", "hu", "ru", "ua", "zh"]
ENCS = ["utf-8", "iso-8859-2", "iso-8859-2-flat", "cp-1250", "cp-1251"]

RULE = ("every network of the 40-member family x every string of the 11-item identifier menu at every identifier position, one at a time "
        "(each point id in all its roles station/target/coordinates-cluster/fixed/adjusted/constrained, the description, the extern attribute of the "
        "first observation of each type and of each coordinates cluster) x --cov-band in {-1,0,..,dim} x --angular {400,360} "
        "+ the 35 escape-structure strings (all 25 ordered pairs of adjacent special characters, each special as first / last character) at the "
        "description, one point id and one extern position of every [quick: every 4th] network with bands {-1,1}; "
        "[quick: id states with bands {-1,1} under 400 and -1 under 360, all bands x both units on the unmodified ids, tools on the unmodified ids and on the id states of the first and last point]; per execution: XML well-formed (expat) and "
        "holds exactly the given identifiers / description / extern; LocalNetworkAdjustmentResults::read_xml dump == python parse of the same file, "
        "field by field; python-parsed HTML, read_html, Octave .m (A*x-b, XYZ, C_xx, Indexes) and English text carry the same adjusted coordinates, "
        "standard deviations, observations and residuals to their printed precision; SVG well-formed and labelled; band k == restriction of the full "
        "matrix, dim/band/original-index consistent, nothing outside <cov-mat> depends on the band, XML independent of --angular; compare-xyz r r "
        "(zero, exit 0) and r1 r2 (exact differences of the 3-D points, verdict against the tolerance), gama-local-deformation r r / r1 r2 (shifts, "
        "index triples, cov1+cov2) for a second epoch with different noise; text output of [quick: every 7th] network x {plain, 2-byte, 3-byte id} x "
        "12 language names x 5 encodings [thorough: x both angular units] carries the same decimal numbers as en/utf-8, the same number of lines as "
        "the utf-8 output of the language, identical bytes when the text is pure ASCII; "
        "gama-local-deformation on UNEQUAL epochs (lib/n12_epochs.py): network types {2-D distances, levelling, 3-D slope distances + height differences} over a "
        "fixed anchor frame x identifier sets {same: point order of the adjustment XML == byte order of the ids used by the tool, rev: exact reverse "
        "[quick: 3-D with rev only; thorough: + mixed]} x 3 variable points [thorough: + 4 points; 3-D with 4 points for the set rev only]; every point independently has in each "
        "epoch one status of {x,y adjusted, z adjusted, x,y,z adjusted, fixed, absent} (2-D: {xy, fixed, absent}; levelling: {z, fixed, absent}); the "
        "COMPLETE product of the statuses minus the assignments without an unknown (19 / 19 / 117 epochs with 3 points, 65 / 65 / 609 with 4) is adjusted "
        "once per epoch by gama-local, then ALL ORDERED pairs of epochs of a family (both orders, every epoch with itself) go through the tool (text on "
        "stdout): listed points == points with a coordinate adjusted in both files, in byte order of the ids; index triples; shifts and epoch-2 values of "
        "the common coordinates to 1e-5; dim / band / row lengths of the matrix; every element == cov1 + cov2 taken at the rows the two coordinates have in "
        "the two <cov-mat> (1e-5 + 1e-7 relative); reference computed from the two XML files alone; "
        "STATISTICS block of EVERY gama-local execution above and of the statistics dimension (lib/n12_nets.py stats_net: levelling networks with 0 / 1 / 2 / 3 / 5 "
        "and a direction+distance network with 0 / 1 / 2 / 4 degrees of freedom x noise level {0.05, 1, 5} (ratio below / inside / above the interval) x sigma-act "
        "{apriori, aposteriori} x conf-pr {0.5, 0.9, 0.95, 0.975, 0.9545, 0.99, 0.999} [thorough: x --angular {400, 360}], complete product) compared between "
        "the adjustment XML (read_xml == XML field by field as above), the text output, the HTML output and read_html, every value to the precision of the "
        "coarser format: equations, unknowns, degrees of freedom, defect, [pvv], m0 a priori / a posteriori, which one is used and its value, confidence "
        "probability (whole per cent against three decimals), presence of the test of m0 (not-applicable <=> nothing printed), ratio, lower / upper limit, "
        "verdict passed / failed, confidence coefficient (HTML, read_html; only printed with redundancy), conf.i. column of every adjusted coordinate == "
        "confidence-scale x sqrt(cov) of the XML; printed by text and HTML only and compared between the two: partial ratios m0'/m0 (distances / directions / "
        "angles), maximal decrease of m0, maximal studentized / normalized residual with its observation index, exceeds / does not exceed, critical value, "
        "significance level; "
        "RANGE clause on EVERY execution: observed and adjusted value of every direction, angle and azimuth lies in [0, 400) gon / [0, 360) degrees in the XML, "
        "the text, the HTML and read_html (besides the agreement of every observed / adjusted value across these formats and read_xml, above); exercised by the "
        "wrap dimension (lib/n12_nets.py wrap_net): plane network with one direction, one angle and one azimuth whose consistent value lies {-5,-1,+1,+5} cc from "
        "0 = 400 gon and carries an error of {-8,+8} cc (8 settings per kind: observed values on both sides, residuals of both signs, adjusted value crossing "
        "the boundary upwards / downwards / not at all - all 12 classes occur, see outcome classes) x frames {ne-l with the azimuth; en-r, sw-l without it} x "
        "--angular {400, 360} x noise pattern; thorough: complete product 8 x 8 x 8 of the three kinds x both noise patterns; quick: complete product "
        "direction x angle, azimuth setting (kd + 3 ka) mod 8, pattern ka mod 2; "
        "COORDINATES SUMMARY of EVERY execution (adjusted / constrained / fixed x xyz / xy / z; totals where printed) compared between the XML summary, the "
        "point lists of the same XML, the text output, the HTML table, read_html and the Octave variables; observations summary XML == read_html; exercised by the "
        "status dimension (status_net): 3-D network of 3 fixed anchors + 1 adjusted helper point + variable points, each with x,y in {absent, fix, adj, "
        "constrained} x z in {absent, fix, adj, constrained} minus (absent, absent) = 15 states, tied to the anchors and to the helper so that every "
        "combination is adjustable; complete product 15^2 over 2 points [thorough: 15^3 over 3 points]; "
        "state = one distinct (network, id state, band, angular[, language, encoding, epoch, sigma-act, conf-pr, noise]) input or one ordered epoch pair, transition = one execution "
        "of gama-local / compare-xyz / gama-local-deformation / reader harness")

_FAM = None
def fam():
    global _FAM
    if _FAM is None:
        _FAM = N.family()
    return _FAM


def representable(lang, enc):
    """is the script of the language covered by the target charset?"""
    if enc == "utf-8": return True
    if lang in ("ru", "ua"): return enc == "cp-1251"
    if lang == "zh": return False
    return True        # Latin script: letters may degrade, digits and layout must not


def posclass(pos):
    return "id" if (pos.startswith("pt:") or pos == "none") else ("description" if pos == "desc" else "extern")


# =============================================================================
class Ctx:
    """result accumulator of one worker task"""
    def __init__(self, task):
        self.task = task
        self.viol = []       # (sig, detail, replay)
        self.out = collections.Counter()
        self.cnt = collections.Counter()
        self.sample = None
        self.seen = set()

    def v(self, sig, detail, run=None):
        key = sig
        if key in self.seen: return
        self.seen.add(key)
        rp = dict(self.task); rp.pop("tmp", None); rp.pop("exes", None)
        if run: rp.update(run)
        self.viol.append((sig, detail, rp))


def run_cmd(cmd, timeout=60):
    try:
        p = subprocess.run(cmd, stdout=subprocess.PIPE, stderr=subprocess.PIPE, timeout=timeout)
        return p.returncode, p.stdout, p.stderr
    except subprocess.TimeoutExpired:
        return -999, b"", b"timeout"


def rd(p, mode="rb"):
    try:
        with open(p, mode) as f: return f.read()
    except OSError:
        return None


def close(a, b, dec, slack=1e-7):
    return abs(a - b) <= 0.5 * 10 ** (-dec) + slack + 1e-12 * abs(b)


def expected_ids(net):
    return [N.norm_id(p.id) for p in net.points]


def expected_obs(net):
    """list of (tag, from, to, left, right, extern) in input order"""
    out = []
    for c in net.clusters:
        cext = getattr(c, "extern", None)
        for o in c.obs:
            f = N.norm_id(o.frm) if o.frm is not None else ""
            t = N.norm_id(o.to) if o.to is not None else ""
            e = o.extern
            k = o.kind
            if k == "direction": out.append(("direction", f, t, "", "", e))
            elif k == "distance": out.append(("distance", f, t, "", "", e))
            elif k == "angle": out.append(("angle", f, "", N.norm_id(o.bs), N.norm_id(o.fs), e))
            elif k == "azimuth": out.append(("azimuth", f, t, "", "", e))
            elif k == "s-distance": out.append(("slope-distance", f, t, "", "", e))
            elif k == "z-angle": out.append(("zenith-angle", f, t, "", "", e))
            elif k == "dh": out.append(("height-diff", f, t, "", "", e))
            elif k == "vec":
                for tg in ("dx", "dy", "dz"): out.append((tg, f, t, "", "", e))
            elif k == "coord":
                for ch in o.comps: out.append(("coordinate-" + ch, t, "", "", "", cext))
    return out


def xml_cov_index(X):
    """flattened adjusted unknowns in the order of the covariance matrix:
    list of (kind 'x|y|z|o', id, value)"""
    L = []
    for p in X.points["adjusted"]:
        if p["hxy"]: L.append(("x", p["id"], p["x"], p["cxy"])); L.append(("y", p["id"], p["y"], p["cxy"]))
        if p["hz"]: L.append(("z", p["id"], p["z"], p["cz"]))
    for o in X.orientations: L.append(("o", o["id"], o["adj"], 0))
    return L


def diag_sd(X):
    idx = Q.band_index(X.dim, X.band)
    d = {}
    for (i, j), v in zip(idx, X.flt):
        if i == j: d[i] = math.sqrt(v) if v >= 0 else float("nan")
    return d


def xml_res(o):
    """(value in mm or cc) residual of an XML observation record"""
    d = o["adj"] - o["obs"]
    if o["tag"] in Q.ANGULAR:
        if d > 200: d -= 400
        if d < -200: d += 400
        return d * 10000
    return d * 1000


# -----------------------------------------------------------------------------
def check_ids(cx, net, X, item, pos, run):
    pc = posclass(pos)
    exp = sorted(expected_ids(net))
    got = sorted(set(p["id"] for l in ("fixed", "approximate", "adjusted") for p in X.points[l]))
    if got != sorted(set(exp)):
        cx.v("C12|xml-identifiers|point-list|%s|%s" % (pc, item), "points in XML %r, given %r" % (got, exp), run)
    eo = expected_obs(net)
    go = [(o["tag"], o["from"], o["to"], o["left"], o["right"]) for o in X.obs]
    if sorted(go) != sorted(e[:5] for e in eo):
        cx.v("C12|xml-identifiers|observations|%s|%s" % (pc, item), "observation ends in XML differ from the input: %r vs %r" % (
            [g for g in go if g not in [e[:5] for e in eo]][:3], [e[:5] for e in eo if e[:5] not in go][:3]), run)
    elif go == [e[:5] for e in eo]:
        for o, e in zip(X.obs, eo):
            ge = o["extern"]; ee = e[5]
            if (ge is None) != (ee is None) or (ge is not None and N.norm_ws(ge) != N.norm_ws(ee)):
                cx.v("C12|xml-identifiers|extern|%s|%s" % (pc, N.sigclass(item, ("quot",)) if pc == "extern" else item), "extern of %s: XML %r, given %r" % (o["tag"], ge, ee), run); break
    ids_or = [o["id"] for o in X.orientations]
    for i in ids_or + [e["id"] for e in X.ellipses]:
        if i not in exp:
            cx.v("C12|xml-identifiers|orientation-or-ellipse|%s|%s" % (pc, item), "id %r not among given %r" % (i, exp), run); break
    want = net.description if net.description is not None else ""
    if N.norm_ws(X.description) != N.norm_ws(want):
        cx.v("C12|xml-identifiers|description|%s|%s" % (pc, item), "description in XML %r, given %r" % (X.description, want), run)


def check_struct(cx, X, kreq, run):
    """dim / band / index-list consistency of one XML"""
    L = xml_cov_index(X)
    if X.dim != len(L):
        cx.v("C12|cov|dim!=unknowns-listed", "dim %d, adjusted coordinates+orientations %d" % (X.dim, len(L)), run)
    if len(X.orig) != X.dim or len(set(X.orig)) != len(X.orig) or any(i < 1 for i in X.orig):
        cx.v("C12|cov|original-index", "index list %r, dim %d" % (X.orig, X.dim), run)
    eb = 0 if X.dim == 0 else (X.dim - 1 if (kreq == -1 or kreq > X.dim - 1) else kreq)
    if X.band != eb:
        cx.v("C12|cov|band-value", "--cov-band %d, dim %d: <band>%d, expected %d" % (kreq, X.dim, X.band, eb), run)
    if len(X.flt) != len(Q.band_index(X.dim, X.band)):
        cx.v("C12|cov|element-count", "dim %d band %d: %d <flt>, expected %d" % (X.dim, X.band, len(X.flt), len(Q.band_index(X.dim, X.band))), run)


def check_reader(cx, D, dump, item, pos, run):
    pc = posclass(pos)
    if dump is None:
        cx.v("C12|reader|no-dump", "harness produced no dump", run); return
    if not dump["end"].startswith("ok"):
        cx.v("C12|reader|read_xml-refuses-wellformed|%s|%s" % (pc, N.sigclass(item, ("quot",)) if pc == "extern" else item), "read_xml: %s" % dump["end"], run); return
    diffs = Q.compare_dump(D, dump["D"])
    cls = collections.OrderedDict()
    for c, d in diffs: cls.setdefault(c, d)
    for c, d in cls.items():
        tagpart = ""
        if c == "obs.residual":
            m = re.match(r"obs\.(\d+)\.residual", d)
            tagpart = "|" + D.get("obs.%s.tag" % m.group(1), "?") if m else ""
        idpart = "|%s|%s" % (pc, item) if (c.endswith(".id") or c in ("description", "obs.from", "obs.to", "obs.left", "obs.right")) else ""
        cx.v("C12|reader-loss|%s%s%s" % (c, tagpart, idpart), d, run)


def check_html_py(cx, H, X, net, item, pos, degrees, run):
    pc = posclass(pos)
    fr = "inconsistent-frame" if net.inconsistent else "consistent-frame"
    V = Q.html_view(H)
    L = xml_cov_index(X); sd = diag_sd(X)
    sc = 0.324 if degrees else 1.0
    # coordinates by unknown index
    for r in V["coords"]:
        if r["index"] not in X.orig:
            cx.v("C12|html-vs-xml|coords|unknown-index", "HTML row with index %d not in original-index %r" % (r["index"], X.orig), run); return
        k = X.orig.index(r["index"])
        kind, pid, val, con = L[k]
        if r["c"].lower() != kind or (r["c"].isupper() != bool(con)):
            cx.v("C12|html-vs-xml|coords|kind", "index %d: HTML %s, XML %s con=%s" % (r["index"], r["c"], kind, con), run)
        if r["id"] != pid:
            cx.v("C12|html-vs-xml|point-id|%s|%s" % (pc, item), "index %d: HTML id %r, XML id %r" % (r["index"], r["id"], pid), run)
        if not close(r["adj"], val, 5):
            cx.v("C12|html-vs-xml|coords|adjusted-%s" % kind, "index %d (%s %s): HTML %.5f, XML %.10f" % (r["index"], pid, kind, r["adj"], val), run)
        if k in sd and not close(r["sd"], sd[k], 1, 2e-4):
            cx.v("C12|html-vs-xml|coords|stdev", "index %d: HTML %.1f, XML sqrt(cov) %.4f" % (r["index"], r["sd"], sd[k]), run)
    ncoord = sum(1 for e in L if e[0] != "o")
    if len(V["coords"]) != ncoord:
        cx.v("C12|html-vs-xml|coords|count", "HTML has %d coordinate rows, XML %d" % (len(V["coords"]), ncoord), run)
    if len(V["ori"]) != len(X.orientations):
        cx.v("C12|html-vs-xml|orientations|count", "HTML %d, XML %d" % (len(V["ori"]), len(X.orientations)), run)
    for r in V["ori"]:
        if r["index"] not in X.orig: continue
        k = X.orig.index(r["index"])
        kind, pid, val, _ = L[k]
        if kind != "o" or pid != r["id"]:
            cx.v("C12|html-vs-xml|orientation-id|%s|%s" % (pc, item), "index %d: HTML %r, XML %s %r" % (r["index"], r["id"], kind, pid), run); continue
        tol = 6 if not degrees else None
        ok = close(r["adj"], val, 6, 1e-6) if not degrees else abs(r["adj"] - val) <= 0.005 / 3240 + 1e-6 + 0.5e-6
        if not ok and abs(abs(r["adj"] - val) - 400) > 1e-5:
            cx.v("C12|html-vs-xml|orientation|adjusted", "index %d: HTML %.7f, XML %.6f" % (r["index"], r["adj"], val), run)
        if k in sd and not close(r["sd"], sd[k] * sc, 1, 2e-4):
            cx.v("C12|html-vs-xml|orientation|stdev", "index %d: HTML %.1f, XML %.4f" % (r["index"], r["sd"], sd[k] * sc), run)
    # observations
    if len(V["obs"]) != len(X.obs):
        cx.v("C12|html-vs-xml|observations|count", "HTML %d rows, XML %d" % (len(V["obs"]), len(X.obs)), run); return
    for r, o in zip(V["obs"], X.obs):
        if (r["from"], r["to"], r["left"], r["right"]) != (o["from"], o["to"], o["left"], o["right"]):
            cx.v("C12|html-vs-xml|observation-id|%s|%s" % (pc, item), "obs %d: HTML %r, XML %r" % (r["i"], (r["from"], r["to"], r["left"], r["right"]), (o["from"], o["to"], o["left"], o["right"])), run); break
    for r, o in zip(V["obs"], X.obs):
        a = o["tag"] in Q.ANGULAR
        if a:
            tol = 0.5e-6 + 1e-9 if not degrees else 0.005 / 3240 + 1e-9
            okv = abs(r["obs"] - o["obs"]) <= tol and abs(r["adj"] - o["adj"]) <= tol
        else:
            okv = close(r["obs"], o["obs"], 5) and close(r["adj"], o["adj"], 5)
        if not okv:
            cx.v("C12|html-vs-xml|observation-value|%s|%s" % (o["tag"], fr), "obs %d: HTML %r/%r, XML %.8f/%.8f" % (r["i"], r["obs"], r["adj"], o["obs"], o["adj"]), run)
        es = o["stdev"] * (sc if a else 1.0)
        if not close(r["sd"], es, 1, 1e-6):
            cx.v("C12|html-vs-xml|observation-stdev|%s|angular%d" % (o["tag"], 360 if degrees else 400), "obs %d: HTML %.1f, XML %.4f (scaled %.4f)" % (r["i"], r["sd"], o["stdev"], es), run)
        rr = V["res"].get(r["i"])
        if rr is None:
            cx.v("C12|html-vs-xml|residuals|missing-row", "obs %d has no residual row" % r["i"], run); continue
        ev = xml_res(o) * (sc if a else 1.0)
        if not close(rr["v"], ev, 3, 1e-6):
            cx.v("C12|html-vs-xml|residual|%s|angular%d|%s" % (o["tag"], 360 if degrees else 400, fr), "obs %d: HTML v=%.3f, XML %.5f" % (r["i"], rr["v"], ev), run)
        if not close(rr["f"], o["f"], 1, 1e-3 + 1e-9):
            cx.v("C12|html-vs-xml|f", "obs %d: HTML f=%.1f, XML %.3f" % (r["i"], rr["f"], o["f"]), run)
    if H["_description"] is not None and N.norm_ws(H["_description"]) != N.norm_ws(X.description):
        cx.v("C12|html-vs-xml|description|%s|%s" % (pc, item), "HTML %r, XML %r" % (H["_description"], X.description), run)


def check_html_reader(cx, dump, X, net, item, pos, degrees, run):
    """read_html (gama's own HTML reader) against the XML of the same run"""
    pc = posclass(pos)
    item = N.sigclass(item, ("amp", "lt", "quot", "gt", "apos"))    # read_html splits cells at every escaped character
    fr = "inconsistent-frame" if net.inconsistent else "consistent-frame"
    if dump is None or not dump["end"].startswith("ok"):
        cx.v("C12|html-reader|refuses|%s|%s" % (pc, item), "read_html: %s" % (dump["end"] if dump else "no dump"), run); return
    G = dump["D"]
    adj = X.points["adjusted"]
    if G.get("adjusted.n") != len(adj):
        cx.v("C12|html-reader|point-count|%s|%s" % (pc, item), "read_html has %s adjusted points, XML %d (ids %r)" % (
            G.get("adjusted.n"), len(adj), [G.get("adjusted.%d.id" % i) for i in range(min(6, G.get("adjusted.n") or 0))]), run); return
    L = xml_cov_index(X); sd = diag_sd(X)
    for i, p in enumerate(adj):
        k = "adjusted.%d." % i
        if G[k + "id"] != p["id"]:
            cx.v("C12|html-reader|point-id|%s|%s" % (pc, item), "adjusted point %d: read_html %r, XML %r" % (i, G[k + "id"], p["id"]), run); break
        if (G[k + "hxy"], G[k + "hz"]) != (p["hxy"], p["hz"]) or (G[k + "indx"], G[k + "indy"], G[k + "indz"]) != (p["indx"], p["indy"], p["indz"]):
            # the heights-only table stores the adjustment index, not the position
            if not (p["hxy"] == 0 and G[k + "hz"] == 1 and G[k + "indx"] == 0):
                cx.v("C12|html-reader|point-flags", "point %r: read_html hxy/hz/ind %r, XML %r" % (p["id"], (G[k + "hxy"], G[k + "hz"], G[k + "indx"], G[k + "indy"], G[k + "indz"]), (p["hxy"], p["hz"], p["indx"], p["indy"], p["indz"])), run)
        for c in ("x", "y", "z"):
            if (c == "z" and p["hz"]) or (c != "z" and p["hxy"]):
                if not close(G[k + c], p[c], 5):
                    cx.v("C12|html-reader|coords|adjusted-%s" % c, "point %r %s: read_html %.6f, XML %.10f" % (p["id"], c, G[k + c], p[c]), run)
    if G.get("cov.dim") != X.dim:
        cx.v("C12|html-reader|cov-dim", "read_html cov dim %s, XML %d" % (G.get("cov.dim"), X.dim), run)
    else:
        sc = 1.0
        for kk in range(X.dim):
            if kk in sd and "cov.%d" % kk in G:
                g = math.sqrt(max(G["cov.%d" % kk], 0.0))
                tol = 0.05 / 0.324 if (degrees and L[kk][0] == "o") else 0.05
                if abs(g - sd[kk]) > tol + 2e-4:
                    cx.v("C12|html-reader|stdev|%s|angular%d" % ("orientation" if L[kk][0] == "o" else "coordinate", 360 if degrees else 400),
                         "unknown %d: read_html %.3f, XML %.4f" % (kk + 1, g, sd[kk]), run)
    if G.get("oi.n") == len(X.orig) + 1:
        go = [G["oi.%d" % i] for i in range(1, len(X.orig) + 1)]
        if go != X.orig:
            cx.v("C12|html-reader|original-index", "read_html %r, XML %r" % (go, X.orig), run)
    else:
        cx.v("C12|html-reader|original-index", "read_html has %s entries, XML %d" % (G.get("oi.n"), len(X.orig) + 1), run)
    if G.get("ori.n") != len(X.orientations):
        cx.v("C12|html-reader|orientation-count", "read_html %s, XML %d" % (G.get("ori.n"), len(X.orientations)), run)
    else:
        for i, o in enumerate(X.orientations):
            k = "ori.%d." % i
            if G[k + "id"] != o["id"]:
                cx.v("C12|html-reader|orientation-id|%s|%s" % (pc, item), "read_html %r, XML %r" % (G[k + "id"], o["id"]), run); break
            tol = 0.5e-6 + 1e-9 if not degrees else 0.005 / 3240 + 1e-6
            if abs(G[k + "adj"] - o["adj"]) > tol + 0.5e-6 or G[k + "index"] != o["index"]:
                cx.v("C12|html-reader|orientation|adjusted", "read_html %.7f index %s, XML %.6f index %d" % (G[k + "adj"], G[k + "index"], o["adj"], o["index"]), run)
    if G.get("obs.n") != len(X.obs):
        cx.v("C12|html-reader|observation-count|%s|%s" % (pc, item), "read_html %s, XML %d" % (G.get("obs.n"), len(X.obs)), run); return
    for i, o in enumerate(X.obs):
        k = "obs.%d." % i
        gg = (G[k + "tag"], G[k + "from"], G[k + "to"], G[k + "left"], G[k + "right"]); ww = (o["tag"], o["from"], o["to"], o["left"], o["right"])
        if gg != ww and o["tag"].startswith("coordinate-") and gg[:2] == ww[:2] and gg[3:] == ww[3:] and ww[2] == "":
            cx.v("C12|html-reader|observation-to|observed-coordinate-gets-previous-target", "obs %d: read_html %r, XML %r" % (i + 1, gg, ww), run); continue
        if gg != ww:
            cx.v("C12|html-reader|observation-id|%s|%s" % (pc, item), "obs %d: read_html %r, XML %r" % (i + 1, (G[k + "tag"], G[k + "from"], G[k + "to"], G[k + "left"], G[k + "right"]), (o["tag"], o["from"], o["to"], o["left"], o["right"])), run); break
    for i, o in enumerate(X.obs):
        k = "obs.%d." % i
        a = o["tag"] in Q.ANGULAR
        if a:
            tol = 0.5e-6 + 1e-9 if not degrees else 0.005 / 3240 + 1e-9
            okv = abs(G[k + "obs"] - o["obs"]) <= tol and abs(G[k + "adj"] - o["adj"]) <= tol
        else:
            okv = close(G[k + "obs"], o["obs"], 5) and close(G[k + "adj"], o["adj"], 5)
        if not okv:
            cx.v("C12|html-reader|observation-value|%s|%s" % (o["tag"], fr), "obs %d: read_html %r/%r, XML %.8f/%.8f" % (i + 1, G[k + "obs"], G[k + "adj"], o["obs"], o["adj"]), run)
        # stdev in the units of the XML (mm / cc); printed with one decimal (in arc seconds under --angular 360)
        tol = 0.05 / (0.324 if (a and degrees) else 1.0) + 1e-4
        if abs(G[k + "stdev"] - o["stdev"]) > tol:
            cx.v("C12|html-reader|observation-stdev|%s|angular%d" % ("angular" if a else "linear", 360 if degrees else 400),
                 "obs %d (%s): read_html stdev %.4f, XML %.4f" % (i + 1, o["tag"], G[k + "stdev"], o["stdev"]), run)
        if not close(G[k + "f"], o["f"], 1, 1e-3):
            cx.v("C12|html-reader|f", "obs %d: read_html %.2f, XML %.3f" % (i + 1, G[k + "f"], o["f"]), run)


def check_octave(cx, mtext, X, net, item, pos, run):
    pc = posclass(pos)
    try:
        O = Q.octave(mtext)
    except Q.OctaveError as e:
        cx.v("C12|octave-syntax|%s|%s" % (pc, N.sigclass(item, ("apos",))), str(e), run); return
    adj = X.points["adjusted"]
    if O.get("Points") != [p["id"] for p in adj] and any("'" in p["id"] for p in adj):
        cx.v("C12|octave-syntax|%s|%s" % (pc, N.sigclass(item, ("apos",))), "undoubled apostrophes happen to parse, as another id: Points %r, XML adjusted %r" % (O.get("Points"), [p["id"] for p in adj]), run); return
    if O.get("Points") != [p["id"] for p in adj]:
        cx.v("C12|octave-vs-xml|point-id|%s|%s" % (pc, item), "Points %r, XML adjusted %r" % (O.get("Points"), [p["id"] for p in adj]), run); return
    xyz = O.get("XYZ", [])
    if len(xyz) != len(adj):
        cx.v("C12|octave-vs-xml|XYZ-rows", "XYZ has %d rows, %d points" % (len(xyz), len(adj)), run); return
    for row, p in zip(xyz, adj):
        e = [p["x"] if p["hxy"] else 0.0, p["y"] if p["hxy"] else 0.0, p["z"] if p["hz"] else 0.0]
        for c, (g, w) in enumerate(zip(row, e)):
            if not close(g, w, 6):
                cx.v("C12|octave-vs-xml|XYZ|%s" % "xyz"[c], "point %r: XYZ %r, XML %r" % (p["id"], row, e), run)
    fx = X.points["fixed"]
    if O.get("FixedPoints") != [p["id"] for p in fx]:
        cx.v("C12|octave-vs-xml|fixed-id|%s|%s" % (pc, item), "FixedPoints %r, XML fixed %r" % (O.get("FixedPoints"), [p["id"] for p in fx]), run)
    else:
        for row, p in zip(O.get("FixedXYZ", []), fx):
            e = [p["hxy"], p["hz"], p["x"] if p["hxy"] else 0.0, p["y"] if p["hxy"] else 0.0, p["z"] if p["hz"] else 0.0]
            for c, (g, w) in enumerate(zip(row, e)):
                if not close(g, w, 6):
                    what = ["has-xy", "has-z", "x", "y", "z"][c]
                    cx.v("C12|octave-vs-xml|FixedXYZ|%s|%s" % (what, "inconsistent-frame" if net.inconsistent else "consistent-frame"),
                         "fixed point %r: FixedXYZ %r, XML %r" % (p["id"], row, e), run)
    # indexes and covariance
    L = xml_cov_index(X)
    ncoord = sum(1 for e in L if e[0] != "o")
    oi = []
    for row in O.get("Indexes", []): oi += [int(v) for v in row if v != 0]
    if oi != X.orig[:ncoord]:
        cx.v("C12|octave-vs-xml|Indexes", "Indexes %r, XML original-index %r" % (oi, X.orig[:ncoord]), run)
    if X.band == X.dim - 1 or X.dim == 0:
        M = Q.full_cov(X)
        C = O.get("C_xx", [])
        if len(C) != ncoord or any(len(r) != ncoord for r in C):
            cx.v("C12|octave-vs-xml|C_xx-shape", "C_xx %dx?, coordinates %d" % (len(C), ncoord), run)
        else:
            for i in range(ncoord):
                for j in range(ncoord):
                    w = float(M[(min(i, j), max(i, j))])
                    if not Q.feq(C[i][j], w, rel=2e-7, ab=1e-12):
                        cx.v("C12|octave-vs-xml|C_xx", "C_xx(%d,%d)=%r, XML %r" % (i + 1, j + 1, C[i][j], w), run); break
    # residuals: A x - b
    if net.dimtype and O["tmp"] and "b" in O and X.gp.get("gama-local-algorithm") == "envelope":
        A = O["tmp"][0]; xs = [r[0] for r in O["tmp"][-1]]; b = [r[0] for r in O["b"]]
        v = [-bb for bb in b]
        for (r, c, val) in A: v[int(r) - 1] += val * xs[int(c) - 1]
        if len(v) != len(X.obs):
            cx.v("C12|octave-vs-xml|equations", "b has %d rows, XML %d observations" % (len(v), len(X.obs)), run)
        else:
            ys = -1.0 if net.inconsistent else 1.0
            for i, (g, o) in enumerate(zip(v, X.obs)):
                w = xml_res(o) * (ys if o["tag"] in ("coordinate-y", "dy") else 1.0)
                if abs(g - w) > 2e-6 + 1e-9 * abs(w):
                    cx.v("C12|octave-vs-xml|residual|%s" % o["tag"], "obs %d: A*x-b = %.7f, XML adj-obs = %.7f" % (i + 1, g, w), run)


def check_text(cx, text, X, net, item, pos, degrees, run):
    fr = "inconsistent-frame" if net.inconsistent else "consistent-frame"
    V = Q.text_view(text, degrees)
    L = xml_cov_index(X); sd = diag_sd(X)
    sc = 0.324 if degrees else 1.0
    ncoord = sum(1 for e in L if e[0] != "o")
    if len(V["coords"]) != ncoord:
        cx.v("C12|text-vs-xml|coords|count", "text has %d coordinate rows, XML %d (sections %r)" % (len(V["coords"]), ncoord, V["sections"]), run)
    for r in V["coords"]:
        if r["index"] not in X.orig:
            cx.v("C12|text-vs-xml|coords|unknown-index", "text row index %d not in %r" % (r["index"], X.orig), run); continue
        k = X.orig.index(r["index"]); kind, pid, val, con = L[k]
        if r["c"].lower() != kind:
            cx.v("C12|text-vs-xml|coords|kind", "index %d: text %s, XML %s" % (r["index"], r["c"], kind), run); continue
        if not close(r["adj"], val, 5):
            cx.v("C12|text-vs-xml|coords|adjusted-%s" % kind, "index %d (%r): text %.5f, XML %.10f" % (r["index"], pid, r["adj"], val), run)
        if k in sd and not close(r["sd"], sd[k], 1, 2e-4):
            cx.v("C12|text-vs-xml|coords|stdev", "index %d: text %.1f, XML %.4f" % (r["index"], r["sd"], sd[k]), run)
    if len(V["ori"]) != len(X.orientations):
        cx.v("C12|text-vs-xml|orientations|count", "text %d, XML %d" % (len(V["ori"]), len(X.orientations)), run)
    for r in V["ori"]:
        if r["index"] not in X.orig: continue
        k = X.orig.index(r["index"]); kind, pid, val, _ = L[k]
        tol = 0.5e-6 + 1e-6 if not degrees else 0.005 / 3240 + 1e-6 + 0.5e-6
        if kind != "o" or abs(r["adj"] - val) > tol:
            cx.v("C12|text-vs-xml|orientation|adjusted", "index %d: text %.7f, XML %s %.6f" % (r["index"], r["adj"], kind, val), run)
        if k in sd and not close(r["sd"], sd[k] * sc, 1, 2e-4):
            cx.v("C12|text-vs-xml|orientation|stdev", "index %d: text %.1f, XML %.4f" % (r["index"], r["sd"], sd[k] * sc), run)
    if len(V["obs"]) != len(X.obs):
        cx.v("C12|text-vs-xml|observations|count", "text %d rows, XML %d" % (len(V["obs"]), len(X.obs)), run); return
    dof = None
    for i, o in enumerate(X.obs):
        tv = V["obs"].get(i + 1)
        if tv is None:
            cx.v("C12|text-vs-xml|observations|missing-row", "no text row for observation %d" % (i + 1), run); continue
        a = o["tag"] in Q.ANGULAR
        try:
            if a and degrees: ob, ad = Q.dms2gon(tv[0]), Q.dms2gon(tv[1])
            else: ob, ad = float(tv[0]), float(tv[1])
        except ValueError as e:
            cx.v("C12|text-vs-xml|observation-value|unparsable|%s" % o["tag"], "obs %d: %r" % (i + 1, tv), run); continue
        if a:
            tol = 0.5e-6 + 1e-9 if not degrees else 0.005 / 3240 + 1e-9
            okv = abs(ob - o["obs"]) <= tol and abs(ad - o["adj"]) <= tol
        else:
            okv = close(ob, o["obs"], 5) and close(ad, o["adj"], 5)
        if not okv:
            cx.v("C12|text-vs-xml|observation-value|%s|%s" % (o["tag"], fr), "obs %d: text %r/%r, XML %.8f/%.8f" % (i + 1, tv[0], tv[1], o["obs"], o["adj"]), run)
        es = o["stdev"] * (sc if a else 1.0)
        if not close(tv[2], es, 1, 1e-6):
            cx.v("C12|text-vs-xml|observation-stdev|%s|angular%d" % (o["tag"], 360 if degrees else 400), "obs %d: text %.1f, XML %.4f (in text units %.4f)" % (i + 1, tv[2], o["stdev"], es), run)
        if V["has_res"]:
            rr = V["res"].get(i + 1)
            if rr is None:
                cx.v("C12|text-vs-xml|residuals|missing-row", "obs %d" % (i + 1), run); continue
            ev = xml_res(o) * (sc if a else 1.0)
            if not close(rr["v"], ev, 3, 1e-6):
                cx.v("C12|text-vs-xml|residual|%s|angular%d|%s" % (o["tag"], 360 if degrees else 400, fr), "obs %d: text v=%.3f, XML %.5f" % (i + 1, rr["v"], ev), run)
            if not close(rr["f"], o["f"], 1, 1e-3 + 1e-9):
                cx.v("C12|text-vs-xml|f", "obs %d: text %.1f, XML %.3f" % (i + 1, rr["f"], o["f"]), run)


def _stat_close(g, w, dec, rel=0.0):
    """printed value g (dec decimals) against the more precise w"""
    if g is None or w is None or g != g or w != w or abs(g) == float("inf") or abs(w) == float("inf"): return False
    return abs(g - w) <= 0.5 * 10 ** (-dec) + 1e-7 + (rel + 1e-9) * abs(w)


def _stat_sci(g, w, digits):
    """g printed in scientific notation with `digits` decimals of the mantissa"""
    if g is None or w is None or g != g or w != w: return False
    if w == 0 or g == 0: return abs(g - w) <= 1e-30
    return abs(g - w) <= (0.5 * 10 ** (-digits) + 1e-7) * 10 ** math.floor(math.log10(abs(w))) * 1.0000001


def check_stats(cx, D, X, tstat, hstat, G, V_text, V_html, run):
    """the statistics block of one run across the formats: adjustment XML (D, python parse; read_xml is compared with D field by
    field elsewhere), text output (tstat), HTML output (hstat), read_html (G) - every value a format prints, to its printed precision;
    what only text and HTML print (partial ratios, maximal residual, critical value) is compared between these two"""
    dof = D["pe.degrees-of-freedom"]
    used = "aposteriori" if D["sd.using-aposteriori"] else "apriori"
    cls = "dof%s|%s" % (dof if dof < 3 else "3+", used)
    stx = D.get("sd.status")
    def bad(fmt, field, detail):
        cx.v("C12|stats|%s|%s|%s" % (fmt, field, cls), detail + "  [XML: dof %d, used %s, probability %.3f, ratio %.3f in (%.3f, %.3f) %s, scale %.7g]" % (
            dof, used, D["sd.probability"], D["sd.ratio"], D["sd.lower"], D["sd.upper"], stx, D["sd.confidence-scale"]), run)
    m0u = D["sd.aposteriori"] if D["sd.using-aposteriori"] else D["sd.apriori"]
    for fmt, T in (("text-vs-xml", tstat), ("html-vs-xml", hstat)):
        if T is None: continue
        for k, dk in (("equations", "pe.equations"), ("unknowns", "pe.unknowns"), ("dof", "pe.degrees-of-freedom"), ("defect", "pe.defect")):
            if T.get(k) != D[dk]: bad(fmt, k, "%s: %r, XML %r" % (k, T.get(k), D[dk]))
        for k, w in (("apriori", D["sd.apriori"]), ("aposteriori", D["sd.aposteriori"]), ("m0-used", m0u)):
            if not _stat_close(T.get(k), w, 2): bad(fmt, k, "%s: printed %r, XML %.7g" % (k, T.get(k), w))
        if not _stat_sci(T.get("pvv"), D["pe.sum-of-squares"], 5): bad(fmt, "sum-of-squares", "[pvv] printed %r, XML %.7e" % (T.get("pvv"), D["pe.sum-of-squares"]))
        if T.get("used") != used or T.get("used-label", used) != used: bad(fmt, "used", "standard deviation used: %r / %r, XML %r" % (T.get("used"), T.get("used-label"), used))
        # the probability is printed in whole per cent here and with three decimals in the XML
        for k in ("confidence-pct", "interval-pct"):
            if k == "interval-pct" and k not in T: continue
            g = T.get(k)
            if g is None or not abs(g - 100 * D["sd.probability"]) <= 0.5 + 0.05 + 1e-7: bad(fmt, "probability", "%s %r %%, XML probability %.3f" % (k, g, D["sd.probability"]))
        has = "ratio" in T or "lower" in T or "passed" in T
        if (stx == "not-applicable") != (not has):
            bad(fmt, "verdict", "test of m0: printed %s, XML <%s/>" % ("ratio %r interval (%r, %r) %s" % (T.get("ratio"), T.get("lower"), T.get("upper"),
                {True: "contains", False: "does not contain", None: "?"}[T.get("passed")]) if has else "nothing", stx))
        elif has:
            for k in ("ratio", "lower", "upper"):
                if not _stat_close(T.get(k), D["sd." + k], 3, 1e-7): bad(fmt, k, "%s: printed %r, XML %.3f" % (k, T.get(k), D["sd." + k]))
            if T.get("passed") is None or T.get("passed") != (stx == "passed") or T.get("passed-label", T.get("passed")) != T.get("passed"):
                bad(fmt, "verdict", "interval %s the ratio (label %r), XML <%s/>" % ("contains" if T.get("passed") else "does not contain", T.get("passed-label"), stx))
        if "confidence-scale" in T and not _stat_close(T["confidence-scale"], D["sd.confidence-scale"], 3):
            bad(fmt, "confidence-scale", "confidence coefficient printed %r, XML %.7e" % (T["confidence-scale"], D["sd.confidence-scale"]))
    # confidence intervals of the adjusted coordinates = confidence scale x standard deviation
    sd = diag_sd(X); scale = D["sd.confidence-scale"]
    for fmt, V in (("text-vs-xml", V_text), ("html-vs-xml", V_html)):
        if V is None: continue
        for r in V["coords"]:
            if r["index"] not in X.orig or "conf" not in r: continue
            k = X.orig.index(r["index"])
            if k in sd and not _stat_close(Q.fval(r["conf"]), scale * sd[k], 1, 2e-4):
                bad(fmt, "confidence-interval", "unknown %d: conf.i. %r, XML confidence-scale x sqrt(cov) = %.4f x %.4f = %.4f" % (r["index"], r["conf"], scale, sd[k], scale * sd[k])); break
    # read_html
    if G is not None:
        fmt = "read_html-vs-xml"
        for k in ("pe.equations", "pe.unknowns", "pe.degrees-of-freedom", "pe.defect", "sd.using-aposteriori", "pe.connected"):
            if G.get(k) != D[k]: bad(fmt, k, "%s: read_html %r, XML %r" % (k, G.get(k), D[k]))
        for k in ("sd.apriori", "sd.aposteriori"):
            if not _stat_close(G.get(k), D[k], 2): bad(fmt, k, "%s: read_html %r, XML %.7g" % (k, G.get(k), D[k]))
        if not _stat_sci(G.get("pe.sum-of-squares"), D["pe.sum-of-squares"], 5): bad(fmt, "sum-of-squares", "read_html %r, XML %.7e" % (G.get("pe.sum-of-squares"), D["pe.sum-of-squares"]))
        g = G.get("sd.probability")
        if g is None or not abs(g - D["sd.probability"]) <= 0.005 + 0.0005 + 1e-9: bad(fmt, "probability", "read_html %r, XML %.3f" % (g, D["sd.probability"]))
        if dof > 0:         # the HTML output has the test of m0 and the confidence coefficient only with redundant observations
            for k in ("sd.ratio", "sd.lower", "sd.upper", "sd.confidence-scale"):
                if not _stat_close(G.get(k), D[k], 3, 1e-7): bad(fmt, k[3:], "%s: read_html %r, XML %.7g" % (k, G.get(k), D[k]))
            if G.get("sd.status") != stx: bad(fmt, "verdict", "read_html %r, XML %r" % (G.get("sd.status"), stx))
    # what only the text and the HTML output print
    if tstat is not None and hstat is not None:
        fmt = "text-vs-html"
        keys = [k for k, _ in Q._PARTIAL] + ["max-decrease", "max-kind", "max-residual", "max-exceeds", "critical-value", "significance-pct", "max-index"]
        for k in keys:
            a, b = tstat.get(k), hstat.get(k)
            if a is None and b is None: continue
            dec = {"max-residual": 2, "critical-value": 2, "significance-pct": 0}.get(k, 3)
            if isinstance(a, float) and isinstance(b, float): ok = _stat_close(a, b, dec + 1)      # both are rounded to dec decimals
            else: ok = (a == b)
            if not ok: bad(fmt, k, "%s: text %r, HTML %r" % (k, a, b))
    cx.out["statistics compared: %s" % cls] += 1
    if stx: cx.out["test of m0: %s" % stx] += 1


WRAPPED = ("direction", "angle", "azimuth")


def check_ranges(cx, X, V_text, V_html, G, degrees, run):
    """range clause: every observed / adjusted direction, angle and azimuth lies in [0, 400) gon ([0, 360) degrees) in every
    format; also records on which side of 0 = 400 the observed and the adjusted value of the run lie (vacuity)"""
    def rng(fmt, tag, what, v, shown):
        if v is None or not (0.0 <= v < 400.0):
            cx.v("C12|angular-range|%s|%s|%s" % (fmt, tag, what), "%s %s value %r is outside [0, 400) gon / [0, 360) degrees" % (tag, what, shown), run)
    for i, o in enumerate(X.obs):
        if o["tag"] not in WRAPPED: continue
        rng("xml", o["tag"], "obs", o["obs"], o["obs"]); rng("xml", o["tag"], "adj", o["adj"], o["adj"])
        lo = lambda v: v < 0.01
        hi = lambda v: v > 399.99
        if (lo(o["obs"]) or hi(o["obs"])) and (lo(o["adj"]) or hi(o["adj"])):
            cx.out["%s at 0/400: observed %s, adjusted %s" % (o["tag"], "above 0" if lo(o["obs"]) else "below 400", "above 0" if lo(o["adj"]) else "below 400")] += 1
        if G is not None and G.get("obs.n") == len(X.obs):
            rng("read_html", o["tag"], "obs", G.get("obs.%d.obs" % i), G.get("obs.%d.obs" % i)); rng("read_html", o["tag"], "adj", G.get("obs.%d.adj" % i), G.get("obs.%d.adj" % i))
        if V_html is not None and len(V_html["obs"]) == len(X.obs):
            r = V_html["obs"][i]
            rng("html", o["tag"], "obs", r["obs"], r["obs"]); rng("html", o["tag"], "adj", r["adj"], r["adj"])
        if V_text is not None:
            tv = V_text["obs"].get(i + 1)
            if tv is not None:
                for what, sv in (("obs", tv[0]), ("adj", tv[1])):
                    try: v = Q.dms2gon(sv) if degrees else float(sv)
                    except ValueError: v = None
                    if sv.lstrip().startswith("-"): v = None
                    rng("text", o["tag"], what, v, sv)


def check_summary(cx, D, X, tsum, hsum, G, O, run):
    """coordinates summary (adjusted / constrained / fixed x xyz / xy / z, totals) across the adjustment XML, its own point lists,
    the text output, the HTML output, read_html and the Octave file; observations summary XML == read_html"""
    ref = {(g, c): D["cs.%s.%s" % (g, c)] for (g, c) in Q.SUMMARY_KEYS}
    def bad(fmt, key, got):
        cx.v("C12|coordinates-summary|%s|%s.%s" % (fmt, key[0], key[1]), "%s %s: %r, XML summary %r   [XML summary %s]" % (
            key[0], key[1], got, ref.get(key), " ".join("%s.%s=%d" % (g, c, ref[(g, c)]) for (g, c) in Q.SUMMARY_KEYS)), run)
    # the lists of the XML itself
    adj = X.points["adjusted"]; fx = X.points["fixed"]
    own = {("adjusted", "xyz"): sum(1 for p in adj if p["hxy"] and p["hz"]), ("adjusted", "xy"): sum(1 for p in adj if p["hxy"] and not p["hz"]),
           ("adjusted", "z"): sum(1 for p in adj if p["hz"] and not p["hxy"]),
           ("constrained", "xyz"): sum(1 for p in adj if p["cxy"] and p["cz"]), ("constrained", "xy"): sum(1 for p in adj if p["cxy"] and not p["cz"]),
           ("constrained", "z"): sum(1 for p in adj if p["cz"] and not p["cxy"]),
           ("fixed", "xyz"): sum(1 for p in fx if p["hxy"] and p["hz"]), ("fixed", "xy"): sum(1 for p in fx if p["hxy"] and not p["hz"]),
           ("fixed", "z"): sum(1 for p in fx if p["hz"] and not p["hxy"])}
    for k in Q.SUMMARY_KEYS:
        if own[k] != ref[k]: bad("xml-lists-vs-xml", k, own[k])
    for fmt, T in (("text-vs-xml", tsum), ("html-vs-xml", hsum)):
        if T is None: continue
        for k in Q.SUMMARY_KEYS:
            if T.get(k) != ref[k]: bad(fmt, k, T.get(k))
        for c in ("xyz", "xy", "z"):
            w = ref[("adjusted", c)] + ref[("fixed", c)]
            if T.get(("total", c)) != w:
                cx.v("C12|coordinates-summary|%s|total.%s" % (fmt, c), "Total %s: %r, XML adjusted + fixed = %d" % (c, T.get(("total", c)), w), run)
    if G is not None:
        for k in Q.SUMMARY_KEYS:
            if G.get("cs.%s.%s" % k) != ref[k]: bad("read_html-vs-xml", k, G.get("cs.%s.%s" % k))
        for k in sorted(D):
            if k.startswith("os.") and G.get(k) != D[k]:
                cx.v("C12|observations-summary|read_html-vs-xml|%s" % k[3:], "%s: read_html %r, XML %r" % (k, G.get(k), D[k]), run)
    if O is not None:
        for k in Q.SUMMARY_KEYS:
            g = O.get("%s_%s" % k)
            if g is None or g != ref[k]: bad("octave-vs-xml", k, g)
    mixed = any((p["cxy"] or p["cz"]) and any(q["id"] == p["id"] for q in fx) for p in adj)
    cx.out["coordinates summary compared%s" % (": a point constrained in one part and fixed in the other" if mixed else "")] += 1


def check_svg(cx, svg, net, item, pos, run):
    pc = posclass(pos)
    try:
        root = ET.fromstring(svg)
    except ET.ParseError as e:
        cx.v("C12|svg-not-wellformed|%s-special-char|%s" % (pc, N.sigclass(item, ("amp", "lt"))), "SVG: %s" % e, run); return
    texts = set((t.text or "") for t in root.iter() if t.tag.endswith("text"))
    for p in net.points:
        if p.xy is not None and N.norm_id(p.id) not in texts and N.norm_id(p.id) not in set(x.strip() for x in texts):
            cx.v("C12|svg-identifiers|%s|%s" % (pc, item), "point %r not labelled in the SVG (labels %r)" % (N.norm_id(p.id), sorted(texts)[:8]), run); break


# -----------------------------------------------------------------------------
def one_run(cx, net, gkf_text, band, ang, item, pos, tmp, exes, tag, keep=False, full=True):
    """one gama-local execution + reader harness + per-run oracles.
    returns dict(xmltext, X, path) or None"""
    base = os.path.join(tmp, tag)
    inp = base + ".gkf"
    with open(inp, "w", encoding="utf8") as f: f.write(gkf_text)
    outs = {k: base + "." + k for k in ("xml", "html", "txt", "m", "svg")}
    args = ["--xml", outs["xml"], "--html", outs["html"], "--text", outs["txt"], "--octave", outs["m"],
            "--cov-band", str(band), "--angular", str(ang)]
    if full: args += ["--svg", outs["svg"]]
    run = {"band": band, "angular": ang, "args": ["--cov-band", str(band), "--angular", str(ang)]}
    rc, so, se = run_cmd([exes["gama"], inp] + args)
    cx.cnt["transitions"] += 1; cx.cnt["gama-local runs"] += 1
    res = None
    try:
        xmlb = rd(outs["xml"])
        if rc != 0 or xmlb is None:
            cx.out["gama-local rc=%s" % rc] += 1
            cx.v("C12|gama-local|rc!=0|%s|%s" % (posclass(pos), item), "rc=%s stderr=%s xml=%s" % (rc, se[-300:], (xmlb or b"")[:300]), run)
            return None
        xmlt = xmlb.decode("utf8", "surrogateescape")
        degrees = (ang == 360)
        try:
            D, X = Q.xml_expect(xmlb)
        except ET.ParseError as e:
            cx.out["xml not well-formed"] += 1
            bad = ("amp", "lt", "quot") if posclass(pos) == "extern" else ("amp", "lt")
            cx.v("C12|xml-not-wellformed|%s-special-char|%s" % (posclass(pos), N.sigclass(item, bad)), "adjustment XML is not well-formed (%s = %r): %s" % (pos, N.MENU_D[item], e), run)
            # gama's reader must refuse it with an exception, not crash
            hrc, hso, hse = run_cmd([exes["xmlrt"], "xml", outs["xml"]])
            cx.cnt["transitions"] += 1; cx.cnt["reader runs"] += 1
            dd = Q.harness_dumps(hso.decode("utf8", "surrogateescape"))
            if hrc != 0 or not dd or not dd[0]["end"].startswith("exception"):
                cx.v("C12|reader|accepts-or-crashes-on-malformed|%s" % item, "rc=%s end=%s" % (hrc, dd[0]["end"] if dd else None), run)
            # the other outputs of this run can still be judged on their own
            pcs = posclass(pos)
            hb = rd(outs["html"])
            if hb is not None:
                try: Q.html_tables(hb.decode("utf8", "surrogateescape"))
                except ET.ParseError as e2: cx.v("C12|html-not-wellformed|%s-special-char|%s" % (pcs, N.sigclass(item, ("amp", "lt"))), "HTML: %s" % e2, run)
            mb = rd(outs["m"])
            if mb is not None:
                try: Q.octave(mb.decode("utf8", "surrogateescape"))
                except Q.OctaveError as e2: cx.v("C12|octave-syntax|%s|%s" % (pcs, N.sigclass(item, ("apos",))), str(e2), run)
            if full:
                sb = rd(outs["svg"])
                if sb is not None and any(p.xy is not None for p in net.points): check_svg(cx, sb, net, item, pos, run)
            return None
        if not X.root_ok or "<error" in xmlt[:400]:
            cx.v("C12|gama-local|error-document", xmlt[:400], run); return None
        cx.out["xml well-formed"] += 1
        check_ids(cx, net, X, item, pos, run)
        check_struct(cx, X, band, run)
        hrc, hso, hse = run_cmd([exes["xmlrt"], "xml", outs["xml"], "html", outs["html"]])
        cx.cnt["transitions"] += 1; cx.cnt["reader runs"] += 1
        dd = Q.harness_dumps(hso.decode("utf8", "surrogateescape"))
        html_markup = (net.description or "").startswith("<")   # html.cpp copies such a description verbatim ("description in HTML")
        if html_markup: cx.out["description handed to the HTML output as markup (not judged)"] += 1
        if hrc != 0 or len(dd) != 2:
            cx.out["reader harness rc=%s" % hrc] += 1
            cx.v("C12|reader|harness-crash|%s|%s" % (posclass(pos), item), "rc=%s stderr=%s" % (hrc, hse[-400:]), run)
        else:
            cx.out["read_xml %s" % dd[0]["end"].split("\t")[0]] += 1
            cx.out["read_html %s" % dd[1]["end"].split("\t")[0]] += 1
            check_reader(cx, D, dd[0], item, pos, run)
            if not html_markup: check_html_reader(cx, dd[1], X, net, item, pos, degrees, run)
        htmlb = rd(outs["html"])
        try:
            H = None if html_markup else Q.html_tables(htmlb.decode("utf8", "surrogateescape"))
        except (ET.ParseError, AttributeError) as e:
            cx.v("C12|html-not-wellformed|%s-special-char|%s" % (posclass(pos), N.sigclass(item, ("amp", "lt"))), "HTML (%s = %r): %s" % (pos, N.MENU_D[item], e), run); H = None
        if H is not None:
            try:
                check_html_py(cx, H, X, net, item, pos, degrees, run)
            except (ValueError, IndexError, KeyError) as e:
                cx.v("C12|html-vs-xml|unparsable-table|%s|%s" % (posclass(pos), item), "%s: %r" % (type(e).__name__, e), run)
        mb = rd(outs["m"])
        if mb is None: cx.v("C12|octave|missing", "no .m file", run)
        else: check_octave(cx, mb.decode("utf8", "surrogateescape"), X, net, item, pos, run)
        tb = rd(outs["txt"])
        if tb is None: cx.v("C12|text|missing", "no text file", run)
        else: check_text(cx, tb.decode("utf8", "surrogateescape"), X, net, item, pos, degrees, run)
        try:
            tt = tb.decode("utf8", "surrogateescape") if tb is not None else None
            hs = Q.html_stats(H) if H is not None else None
            G = dd[1]["D"] if (hrc == 0 and len(dd) == 2 and dd[1]["end"].startswith("ok") and not html_markup) else None
            check_stats(cx, D, X, Q.text_stats(tt) if tt is not None else None, hs, G,
                        Q.text_view(tt, degrees) if tt is not None else None, Q.html_view(H) if H is not None else None, run)
        except (ValueError, IndexError, KeyError) as e:
            cx.v("C12|stats|unparsable|%s|%s" % (posclass(pos), item), "%s: %r" % (type(e).__name__, e), run)
        try:
            try: Om = Q.octave(mb.decode("utf8", "surrogateescape")) if mb is not None else None
            except Q.OctaveError: Om = None
            Vt = Q.text_view(tt, degrees) if tt is not None else None
            Vh = Q.html_view(H) if H is not None else None
            check_ranges(cx, X, Vt, Vh, G, degrees, run)
            check_summary(cx, D, X, Q.text_summary(tt) if tt is not None else None, Q.html_summary(H) if H is not None else None, G, Om, run)
        except (ValueError, IndexError, KeyError) as e:
            cx.v("C12|summary|unparsable|%s|%s" % (posclass(pos), item), "%s: %r" % (type(e).__name__, e), run)
        if full:
            sb = rd(outs["svg"])
            if sb is not None and any(p.xy is not None for p in net.points): check_svg(cx, sb, net, item, pos, run)
        cx.out["band=%s" % ("full" if X.band == X.dim - 1 else ("0" if X.band == 0 else "partial"))] += 1
        res = {"xml": xmlb, "X": X, "path": outs["xml"], "dof": D["pe.degrees-of-freedom"]}
        return res
    finally:
        for k, p in outs.items():
            if keep and k == "xml" and res is not None: continue
            try: os.unlink(p)
            except OSError: pass
        try: os.unlink(inp)
        except OSError: pass


def check_tools(cx, r1, r2, exes, tmp, tag, item, pos):
    """compare-xyz and gama-local-deformation on r1 (self) and (r1, r2)"""
    pc = posclass(pos)
    X1, X2 = r1["X"], r2["X"]
    def pts3(X): return {p["id"]: p for p in X.points["adjusted"] if p["hxy"] and p["hz"]}
    for (ra, rb, name) in ((r1, r1, "self"), (r1, r2, "two")):
        Xa, Xb = ra["X"], rb["X"]
        _cmpxyz(cx, ra, rb, name, exes, pc, item, pts3)
        _deform(cx, ra, rb, name, exes, tmp, tag, pc, item)


def _cmpxyz(cx, ra, rb, name, exes, pc, item, pts3):
    if True:
        Xa, Xb = ra["X"], rb["X"]
        rc, so, se = run_cmd([exes["cmp"], ra["path"], rb["path"]])
        cx.cnt["transitions"] += 1; cx.cnt["compare-xyz runs"] += 1
        R = Q.comparexyz(so.decode("utf8", "surrogateescape"))
        A, B = pts3(Xa), pts3(Xb)
        common = sorted(set(A) & set(B), key=lambda s: s.encode("utf8", "surrogateescape"))
        exp = [(i, B[i]["x"] - A[i]["x"], B[i]["y"] - A[i]["y"], B[i]["z"] - A[i]["z"]) for i in common]
        got = [(p[0], p[5], p[6], p[7]) for p in R["points"]]
        run = {"tool": "compare-xyz", "mode": name}
        if rc not in (0, 1) or R["verdict"] is None:
            cx.v("C12|compare-xyz|crash-or-no-verdict|%s|%s" % (pc, item), "rc=%s out=%r err=%r" % (rc, so[-200:], se[-200:]), run); return
        if [g[0] for g in got] != [e[0] for e in exp]:
            cx.v("C12|compare-xyz|point-set|%s|%s" % (pc, item), "reported %r, 3-D points common to both %r" % ([g[0] for g in got], [e[0] for e in exp]), run); return
        bad = [(g, e) for g, e in zip(got, exp) if any(abs(g[k] - e[k]) > 0.5e-14 + 1e-15 for k in (1, 2, 3))]
        if bad:
            cx.v("C12|compare-xyz|differences|%s" % name, "reported %r, expected %r" % bad[0], run)
        amax = max([0.0] + [abs(e[k]) for e in exp for k in (1, 2, 3)])
        if name == "self" and (rc != 0 or R["verdict"] != "Passed" or amax != 0.0 or (R["max"] and any(m != 0 for m in R["max"]))):
            cx.v("C12|compare-xyz|self-not-zero", "rc=%s verdict=%s max=%r" % (rc, R["verdict"], R["max"]), run)
        if name == "two":
            want_fail = amax > R.get("tol", 1e-5)
            if (rc == 1) != want_fail or (R["verdict"] == "Failed") != want_fail or abs(R["absmax"] - amax) > 1e-4 * amax + 1e-18:
                cx.v("C12|compare-xyz|verdict", "max |diff| %.3e tol %.1e: rc=%s verdict=%s reported %.4e" % (amax, R.get("tol"), rc, R["verdict"], R["absmax"]), run)
            if R["max"] is not None and exp:
                for k in (1, 2, 3):
                    m = max((abs(e[k]) for e in exp))
                    if abs(abs(R["max"][k - 1]) - m) > 0.5e-14 + 1e-15:
                        cx.v("C12|compare-xyz|max-line", "component %d: reported %r, expected abs %r" % (k, R["max"], m), run)
            cx.out["compare-xyz two: %s" % R["verdict"]] += 1


def _deform(cx, ra, rb, name, exes, tmp, tag, pc, item, extra=None, sfx="", via_stdout=False):
    """one run of gama-local-deformation ra rb, judged against a reference that
    is computed from the two adjustment XML files alone (python views Xa, Xb):
    points with a coordinate adjusted in both, in byte order of the ids; index
    triples; epoch2 - epoch1; cov1 + cov2 restricted to the common coordinates.
    sfx: class appended to the signatures of the value oracles (epoch pairs);
    returns the number of common coordinates when everything was judged."""
    if True:
        Xa, Xb = ra["X"], rb["X"]
        if via_stdout:
            rc, txt, se = run_cmd([exes["def"], ra["path"], rb["path"]])
        else:
            outp = os.path.join(tmp, tag + "." + name + ".def")
            rc, so, se = run_cmd([exes["def"], ra["path"], rb["path"], "--text", outp])
            txt = rd(outp)
            try: os.unlink(outp)
            except OSError: pass
        cx.cnt["transitions"] += 1; cx.cnt["deformation runs"] += 1
        run = {"tool": "gama-local-deformation", "mode": name}
        if extra: run.update(extra)
        if rc != 0 or txt is None:
            cx.v("C12|deformation|crash|%s|%s%s" % (pc, item, sfx), "rc=%s err=%r" % (rc, se[-300:]), run); return
        Dd = Q.deformation(txt.decode("utf8", "surrogateescape"))
        a = {p["id"]: p for p in Xa.points["adjusted"]}; b = {p["id"]: p for p in Xb.points["adjusted"]}
        ids = sorted(set(a) & set(b), key=lambda s: s.encode("utf8", "surrogateescape"))
        t1 = []; t2 = []; exp = []
        ci = 0
        for i in ids:
            pa, pb = a[i], b[i]
            hxy = pa["hxy"] and pb["hxy"]; hz = pa["hz"] and pb["hz"]
            if not (hxy or hz): continue
            ix = iy = iz = 0
            if hxy: ix = ci + 1; iy = ci + 2; ci += 2; t1 += [pa["indx"], pa["indy"]]; t2 += [pb["indx"], pb["indy"]]
            if hz: iz = ci + 1; ci += 1; t1.append(pa["indz"]); t2.append(pb["indz"])
            exp.append((i, ix, iy, iz, pb["x"] - pa["x"], pb["y"] - pa["y"], pb["z"] - pa["z"], pb["x"], pb["y"], pb["z"]))
        got = Dd["points"]
        if [g[0] for g in got] != [e[0] for e in exp] or Dd.get("junk"):
            cx.v("C12|deformation|point-set|%s|%s%s" % (pc, item, sfx), "reported %r (+unparsed %r), expected %r" % ([g[0] for g in got], Dd.get("junk", [])[:2], [e[0] for e in exp]), run); return
        good = True
        for g, e in zip(got, exp):
            if g[1:4] != e[1:4]:
                cx.v("C12|deformation|covariance-indexes" + sfx, "point %r: %r, expected %r" % (g[0], g[1:4], e[1:4]), run); good = False; break
            # only coordinates adjusted in both epochs have a shift (index != 0); the other columns of the row are not judged
            cols = ([4, 5, 7, 8] if e[1] else []) + ([6, 9] if e[3] else [])
            if any(not close(g[k], e[k], 5, 1e-9) for k in cols):
                cx.v("C12|deformation|shift|%s%s" % (name, sfx), "point %r: reported %r, expected %r" % (g[0], g[4:], e[4:]), run); good = False; break
        if name == "self" and any(g[k] != 0 for g in got for k in (4, 5, 6) if g[k - 3]):
            cx.v("C12|deformation|self-not-zero" + sfx, "%r" % (got[:2],), run); good = False
        Ma, Mb = Q.full_cov(Xa), Q.full_cov(Xb)
        n = len(t1)
        if Dd["dim"] != n or Dd["band"] != n - 1 or len(Dd["cov"]) != n or any(len(r) != n - i for i, r in enumerate(Dd["cov"])):
            cx.v("C12|deformation|cov-shape" + sfx, "dim %s band %s rows %r, expected dim %d" % (Dd["dim"], Dd["band"], [len(r) for r in Dd["cov"]], n), run); return
        okc = True
        for i in range(n):
            for j in range(i, n):
                ka = (min(t1[i], t1[j]) - 1, max(t1[i], t1[j]) - 1); kb = (min(t2[i], t2[j]) - 1, max(t2[i], t2[j]) - 1)
                w = float(Ma[ka]) + float(Mb[kb])
                g = Dd["cov"][i][j - i]
                if not close(g, w, 5, 1e-9 + 1e-7 * abs(w)):
                    cx.v("C12|deformation|covariance-sum" + sfx, "C(%d,%d): reported %.5f, cov1+cov2 = %.7f (cov1 row/col %d,%d  cov2 row/col %d,%d)" % (
                        i + 1, j + 1, g, w, t1[i], t1[j], t2[i], t2[j]), run); okc = False; break
            if not okc: break
        if not sfx: cx.out["deformation %s ok" % name] += 1
        return n if (good and okc) else None


def bands_for(dim, mode):
    allb = [-1] + list(range(0, dim + 1))
    if mode == "all": return allb
    return [b for b in allb if b in (-1, 1)]


def task_idstate(task):
    """all bands x angular of one (network, position, menu item)"""
    cx = Ctx(task)
    name, e0, e1 = fam()[task["net"]]
    pos, item = task["pos"], task["item"]
    text = N.MENU_D[item]
    net = N.apply(e0, pos, text) if pos != "none" else N.apply(e0, "pt:@@", "")
    tmp, exes = task["tmp"], task["exes"]
    gkf_text = task.get("gkf_override") or N.gkf(net)
    tag0 = "n%d_%s_%s" % (task["net"], re.sub(r"\W", "_", pos), item)
    cx.sample = "net=%s pos=%s(%s) item=%s id=%r" % (name, pos, N.roles(e0, pos[3:]) if pos.startswith("pt:") else "-", item, text)
    ref = {}
    dim = None
    bands = task.get("bands")
    angs = task.get("angulars", [400, 360])
    first = True
    blist = [-1]
    for ang in angs:
        k = 0
        while k < len(blist):
            b = blist[k]; k += 1
            keep = (b == -1 and ang == 400 and task.get("tools"))
            if task["bandmode"] == "some" and ang == 360 and b != -1 and bands is None:
                continue          # quick tier: partial bands of modified ids only under --angular 400
            r = one_run(cx, net, gkf_text, b, ang, item, pos, tmp, exes, "%s_b%d_a%d" % (tag0, b, ang), keep=keep, full=(b == -1))
            cx.cnt["states"] += 1
            if r is None:
                continue
            if dim is None:
                dim = r["X"].dim
                blist = [-1] + [x for x in (bands if bands is not None else bands_for(dim, task["bandmode"])) if x != -1]
            ref[(b, ang)] = r
    # ---- cross-run oracles
    for ang in angs:
        full = ref.get((-1, ang))
        if full is None: continue
        Mf = Q.full_cov(full["X"])
        for (b, a), r in ref.items():
            if a != ang or b == -1: continue
            X = r["X"]; run = {"band": b, "angular": ang, "args": ["--cov-band", str(b), "--angular", str(ang)]}
            if X.dim != full["X"].dim or X.orig != full["X"].orig:
                cx.v("C12|cov|dim-or-index-depends-on-band", "band %d: dim %d index %r; full: dim %d index %r" % (b, X.dim, X.orig, full["X"].dim, full["X"].orig), run); continue
            idx = Q.band_index(X.dim, X.band)
            if len(idx) == len(X.flt_text):
                bad = [(ij, t, Mf[ij]) for ij, t in zip(idx, X.flt_text) if not Q.feq(float(t), float(Mf[ij]), rel=2e-7, ab=1e-13)]
                if bad:
                    cx.v("C12|cov|band!=restriction-of-full", "band %d: element %r = %s, full matrix has %s (%d elements differ)" % (b, bad[0][0], bad[0][1], bad[0][2], len(bad)), run)
            # everything but the covariance matrix must not depend on the band
            strip = lambda t: re.sub(rb"<cov-mat>.*?</cov-mat>", b"", t, flags=re.S)
            if strip(r["xml"]) != strip(full["xml"]):
                cx.v("C12|cov|xml-outside-cov-mat-depends-on-band", "band %d vs full" % b, run)
    for (b, a), r in ref.items():
        if a == 360 and (b, 400) in ref and ref[(b, 400)]["xml"] != r["xml"]:
            cx.v("C12|xml-depends-on-angular", "band %d: XML written with --angular 360 differs from --angular 400" % b, {"band": b, "angular": 360, "args": ["--cov-band", str(b), "--angular", "360"]})
    # ---- tools
    if task.get("tools") and (-1, 400) in ref:
        r1 = ref[(-1, 400)]
        net2 = N.apply(e1, pos, text) if pos != "none" else N.apply(e1, "pt:@@", "")
        r2 = one_run(cx, net2, N.gkf(net2), -1, 400, item, pos, tmp, exes, tag0 + "_e2", keep=True, full=False)
        cx.cnt["states"] += 1
        if r2 is not None:
            check_tools(cx, r1, r2, exes, tmp, tag0, item, pos)
            try: os.unlink(r2["path"])
            except OSError: pass
        try: os.unlink(r1["path"])
        except OSError: pass
    return (cx.viol, dict(cx.out), dict(cx.cnt), cx.sample)


def task_lang(task):
    """text output: every language x every encoding of one (network, id state, angular)"""
    cx = Ctx(task)
    name, e0, e1 = fam()[task["net"]]
    pos, item = task["pos"], task["item"]
    text = N.MENU_D[item]
    net = N.apply(e0, pos, text) if pos != "none" else N.apply(e0, "pt:@@", "")
    tmp, exes = task["tmp"], task["exes"]
    ang = task["angular"]
    tag0 = "L%d_%s_%s_%d" % (task["net"], re.sub(r"\W", "_", pos), item, ang)
    inp = os.path.join(tmp, tag0 + ".gkf")
    with open(inp, "w", encoding="utf8") as f: f.write(N.gkf(net))
    cx.sample = "text: net=%s pos=%s item=%s angular=%d x %d languages x %d encodings" % (name, pos, item, ang, len(LANGS), len(ENCS))
    ref = None; ref_by_lang = {}
    ascii_only = all(ord(c) < 128 for c in text)
    for lang in LANGS:
        for enc in ENCS:
            outp = os.path.join(tmp, "%s_%s_%s.txt" % (tag0, lang, enc))
            rc, so, se = run_cmd([exes["gama"], inp, "--text", outp, "--language", lang, "--encoding", enc, "--angular", str(ang)])
            cx.cnt["transitions"] += 1; cx.cnt["gama-local runs"] += 1; cx.cnt["states"] += 1
            data = rd(outp)
            try: os.unlink(outp)
            except OSError: pass
            run = {"language": lang, "encoding": enc, "angular": ang, "args": ["--language", lang, "--encoding", enc, "--angular", str(ang)]}
            if rc != 0 or data is None:
                cx.v("C12|text|rc!=0|%s|%s" % (lang, enc), "rc=%s err=%r" % (rc, se[-200:]), run); continue
            toks = Q.decimal_tokens(data)
            if not representable(lang, enc):
                # the script of the language has no code points in the target
                # charset: gama writes arbitrary bytes, nothing can be demanded
                # beyond a normal exit and a non-empty file
                cx.out["text: script not representable in encoding (run only)"] += 1
                if len(data) < 100: cx.v("C12|text|empty-output|%s|%s" % (lang, enc), "%d bytes" % len(data), run)
                continue
            if ref is None:
                ref = (toks, data)          # en / utf-8
                if len(toks) < 6: cx.v("C12|text|no-numbers", "reference text has %d numbers" % len(toks), run)
            if toks != ref[0]:
                k = next((i for i, (a, b) in enumerate(zip(toks, ref[0])) if a != b), min(len(toks), len(ref[0])))
                cx.v("C12|text-numbers-depend-on-language-or-encoding|%s|%s" % (lang, enc),
                     "%d numbers vs %d in en/utf-8; first difference at #%d: %r vs %r" % (len(toks), len(ref[0]), k, toks[k:k + 2], ref[0][k:k + 2]), run)
                cx.out["text numbers differ"] += 1
            else:
                cx.out["text numbers equal"] += 1
            if enc == "utf-8": ref_by_lang[lang] = data
            else:
                u = ref_by_lang.get(lang)
                if u is not None and data.count(b"\n") != u.count(b"\n"):
                    cx.v("C12|text-lines-depend-on-encoding|%s|%s" % (lang, enc), "%d lines vs %d in utf-8" % (data.count(b"\n"), u.count(b"\n")), run)
                if u is not None and all(c < 128 for c in u) and data != u:
                    cx.v("C12|text-ascii-changed-by-encoding|%s|%s" % (lang, enc), "pure ASCII output differs between utf-8 and %s" % enc, run)
            if lang in ("cs", "cz") and enc == "utf-8" and "cz" in ref_by_lang and "cs" in ref_by_lang and ref_by_lang["cs"] != ref_by_lang["cz"]:
                cx.v("C12|text|cs!=cz", "language names cs and cz give different output", run)
    try: os.unlink(inp)
    except OSError: pass
    return (cx.viol, dict(cx.out), dict(cx.cnt), cx.sample)


# -----------------------------------------------------------------------------
# epoch pairs for gama-local-deformation (lib/n12_epochs.py)
def ep_dir(tmp, fam):
    return os.path.join(tmp, "ep_" + EP.famkey(fam).replace(":", "_"))


def task_epochprep(task):
    """adjust a slice of the epochs of one family; the XML files stay in the scratch directory"""
    cx = Ctx(task)
    fam = tuple(task["fam"]); tmp, exes = task["tmp"], task["exes"]
    d = ep_dir(tmp, fam)
    os.makedirs(d, exist_ok=True)
    for st in task["sts"]:
        inp = os.path.join(d, st + ".gkf"); outp = os.path.join(d, st + ".xml")
        with open(inp, "w", encoding="utf8") as f: f.write(EP.gkf(fam, st))
        rc, so, se = run_cmd([exes["gama"], inp, "--xml", outp])
        cx.cnt["transitions"] += 1; cx.cnt["gama-local runs"] += 1; cx.cnt["states"] += 1; cx.cnt["epoch adjustments"] += 1
        try: os.unlink(inp)
        except OSError: pass
        run = {"s1": st, "s2": st}
        xmlb = rd(outp)
        X = None
        if rc == 0 and xmlb is not None:
            try: D, X = Q.xml_expect(xmlb)
            except ET.ParseError: X = None
        if X is None or not X.root_ok:
            cx.v("C12|gama-local|rc!=0|epochs-%s" % fam[0], "epoch %s: rc=%s stderr=%r" % (st, rc, se[-300:]), run)
            try: os.unlink(outp)
            except OSError: pass
            continue
        check_struct(cx, X, -1, run)
        got = {q["id"]: (q["hxy"], q["hz"]) for q in X.points["adjusted"]}
        if got != EP.expected_adjusted(fam, st):
            cx.v("C12|xml-identifiers|adjusted-coordinates|epochs-%s" % fam[0], "epoch %s: adjusted list of the XML %r, given %r" % (st, got, EP.expected_adjusted(fam, st)), run)
        cx.out["epoch adjusted"] += 1
    cx.sample = None
    return (cx.viol, dict(cx.out), dict(cx.cnt), cx.sample)


_EPX = {}
def ep_view(path):
    """(parsed view, path) of an epoch XML, cached per worker process"""
    r = _EPX.get(path)
    if r is None:
        b = rd(path)
        if b is None: return None
        D, X = Q.xml_expect(b)
        r = {"X": X, "path": path}
        if len(_EPX) > 1500: _EPX.clear()
        _EPX[path] = r
    return r


def task_epochs(task):
    """one first epoch against every second epoch of its family (complete row of the ordered pairs)"""
    cx = Ctx(task)
    fam = tuple(task["fam"]); tmp, exes = task["tmp"], task["exes"]
    d = ep_dir(tmp, fam)
    s1 = task["s1"]
    r1 = ep_view(os.path.join(d, s1 + ".xml"))
    seconds = task.get("seconds") or EP.epochs(fam)
    for s2 in seconds:
        cx.cnt["states"] += 1; cx.cnt["epoch pairs"] += 1
        r2 = ep_view(os.path.join(d, s2 + ".xml"))
        if r1 is None or r2 is None:
            cx.out["epoch pair skipped: an epoch was not adjusted"] += 1; continue
        pcl = EP.pairclass(fam, s1, s2)
        n = _deform(cx, r1, r2, "self" if s1 == s2 else "two", exes, tmp, "", "id", "plain",
                    extra={"s1": s1, "s2": s2}, sfx="|epochs-%s|%s" % (fam[0], pcl), via_stdout=True)
        if n is None: cx.out["deformation epochs %s-D: not as the reference" % fam[0]] += 1
        else:
            cx.out["deformation epochs %s-D %s: ok" % (fam[0], pcl)] += 1
            cx.out["deformation epochs: %s common coordinates" % ("no" if n == 0 else "1-3" if n <= 3 else "4-6" if n <= 6 else "7-12")] += 1
    # object histories: one GamaLocalDeformation object given several epoch pairs in turn (every sequence of <= 3 pairs out
    # of (s1, s1) and the first / middle / last second epoch); each answer must be the text of a fresh object
    if exes.get("defhist") and r1 is not None:
        pick = []
        for s2 in [s1, seconds[0], seconds[len(seconds) // 2], seconds[-1]]:
            pth = os.path.join(d, s2 + ".xml")
            if s2 not in [q[0] for q in pick] and ep_view(pth) is not None: pick.append((s2, pth))
        if len(pick) >= 2:
            rc, so, se = run_cmd([exes["defhist"], r1["path"]] + [q[1] for q in pick])
            so = (so or b"").decode("utf8", "replace") if isinstance(so, bytes) else (so or "")
            done = re.search(r"DONE sequences=(\d+) steps=(\d+)", so)
            run = {"tool": "defhist", "s1": s1, "s2": s1, "hist_seconds": [q[0] for q in pick]}
            if rc != 0 or not done:
                cx.v("C12|deformation|object-history|crash|epochs-%s" % fam[0], "rc=%s out=%r err=%r" % (rc, so[-200:], (se or b"")[-300:]), run)
            else:
                cx.cnt["states"] += int(done.group(1)); cx.cnt["transitions"] += int(done.group(2)); cx.cnt["deformation object histories"] += int(done.group(1))
                bad = [l for l in so.splitlines() if l.startswith("DIFF ")]
                for l in bad[:3]:
                    cx.v("C12|deformation|object-history|differs-from-fresh-object|epochs-%s" % fam[0], "pairs (first epoch %s, second epochs %r): %s" % (s1, [q[0] for q in pick], l), run)
                if not bad: cx.out["deformation object histories: as a fresh object"] += 1
    cx.sample = "epochs: family %s first epoch %s (ids %s) x %d second epochs, e.g. %s" % (
        EP.famkey(fam), s1, ",".join(EP.IDSETS[fam[1]][:fam[2]]), len(seconds), seconds[len(seconds) // 2])
    return (cx.viol, dict(cx.out), dict(cx.cnt), cx.sample)


def task_stats(task):
    """statistics dimension: one (template = degrees of freedom, noise level) x sigma-act x conf-pr [x angular]; every run goes
    through all per-run oracles of one_run, check_stats among them"""
    viol = []; out = collections.Counter(); cnt = collections.Counter(); sample = None
    tmp, exes = task["tmp"], task["exes"]
    for sa in task.get("sigma_acts") or N.SIGMA_ACT:
        for cp in task.get("conf_prs") or N.CONF_PR:
            for ang in task.get("angulars") or [400]:
                t = dict(task, sigma_act=sa, conf_pr=cp); t.pop("sigma_acts", None); t.pop("conf_prs", None); t.pop("angulars", None)
                cx = Ctx(t)
                net = N.stats_net(task["name"], task["noise"], sa, cp)
                tag = "S_%s_%s_%s_%s_%d" % (task["name"], task["noise"], sa, str(cp).replace(".", ""), ang)
                r = one_run(cx, net, task.get("gkf_override") or N.gkf(net), -1, ang, "plain", "none", tmp, exes, tag, full=False)
                cx.cnt["states"] += 1; cx.cnt["statistics runs"] += 1
                if r is not None:
                    cx.out["statistics dimension: conf-pr %s" % cp] += 1
                viol += cx.viol; out.update(cx.out); cnt.update(cx.cnt)
                sample = "statistics: net=%s noise=%s sigma-act=%s conf-pr=%s angular=%d" % (task["name"], task["noise"], sa, cp, ang)
    return (viol, dict(out), dict(cnt), sample)


def gen_net(case):
    """network of a generated case: kind 'wrap' (angular values at 0/400) or 'status' (status combinations)"""
    if case["kind"] == "wrap": return N.wrap_net(case["kd"], case["ka"], case["kz"], case["frame"], case.get("pat", 0))
    return N.status_net([tuple(x) for x in case["states"]])


def task_gen(task):
    """a list of generated networks (task['cases']: dicts with kind + parameters [+ angular]), each through all per-run oracles"""
    viol = []; out = collections.Counter(); cnt = collections.Counter(); sample = None
    tmp, exes = task["tmp"], task["exes"]
    for k, case in enumerate(task["cases"]):
        t = dict(case); t["kind"] = task["kind"]
        cx = Ctx(t)
        net = gen_net(t)
        ang = case.get("angular", 400)
        r = one_run(cx, net, task.get("gkf_override") or N.gkf(net), -1, ang, "plain", "none", tmp, exes, "G%s_%d" % (task["tag"], k), full=False)
        cx.cnt["states"] += 1; cx.cnt["%s runs" % task["kind"]] += 1
        viol += cx.viol; out.update(cx.out); cnt.update(cx.cnt)
        if task["kind"] == "wrap":
            sample = "wrap: direction/angle/azimuth settings %s/%s/%s (offset cc, error cc: %s) frame %s noise pattern %s angular %d" % (
                case["kd"], case["ka"], case["kz"], [(N.WRAP_OFF[x % 4], N.WRAP_ERR[x // 4]) for x in (case["kd"], case["ka"], case["kz"]) if x is not None], case["frame"], case.get("pat", 0), ang)
        else:
            sample = "status: points xy+z = %s" % N.state_name([tuple(x) for x in case["states"]])
    return (viol, dict(out), dict(cnt), sample)


def run_task(task):
    try:
        if task["kind"] == "lang": return task_lang(task)
        if task["kind"] in ("wrap", "status"): return task_gen(task)
        if task["kind"] == "stats": return task_stats(task)
        if task["kind"] == "epochprep": return task_epochprep(task)
        if task["kind"] == "epochs": return task_epochs(task)
        return task_idstate(task)
    except Exception as e:       # a bug of the check itself must be loud
        import traceback
        t = dict(task); t.pop("tmp", None); t.pop("exes", None)
        return ([("C12|check-internal-error|%s" % type(e).__name__, traceback.format_exc()[-1500:], t)], {}, {}, None)


# =============================================================================
def build_tasks(ck, exes):
    F = fam()
    tasks = []
    quick = ck.tier == "quick"
    base = {"tmp": ck.tmp, "exes": exes}
    only = [x for x in os.environ.get("C12_NETS", "").split(",") if x]     # debugging / mutation demonstrations only
    if only: ck.exhaustive = False; ck.notes.append("restricted to networks %s by C12_NETS" % only)
    for ni, (name, e0, e1) in enumerate(F):
        if only and name not in only: continue
        # unmodified identifiers: all bands, both units, tools
        tasks.append(dict(base, kind="id", net=ni, pos="none", item="plain", bandmode="all", tools=True))
        for pos in N.positions(e0):
            for item, _ in N.MENU:
                ends = ("pt:" + e0.points[0].id, "pt:" + e0.points[-1].id)
                tasks.append(dict(base, kind="id", net=ni, pos=pos, item=item, bandmode=("some" if quick else "all"),
                                  tools=((pos in ends) or not quick)))
    # escape-structure items (adjacent pairs, first / last character)
    for ni, (name, e0, e1) in enumerate(F):
        if only and name not in only: continue
        if quick and ni % 4 != 0: continue
        ext = [p for p in N.positions(e0) if p.startswith("ext:")]
        for pos in ["desc", "pt:" + e0.points[-1].id] + ext[:1]:
            for item, _ in N.MENU_X:
                tasks.append(dict(base, kind="id", net=ni, pos=pos, item=item, bandmode="some", tools=False))
    # text output: languages x encodings
    for ni, (name, e0, e1) in enumerate(F):
        if only and name not in only: continue
        if quick and ni % 7 != 0: continue
        p0 = "pt:" + e0.points[-1].id
        for (pos, item) in (("none", "plain"), (p0, "utf8-2byte"), (p0, "utf8-3byte")):
            for ang in ((400,) if quick else (400, 360)):
                tasks.append(dict(base, kind="lang", net=ni, pos=pos, item=item, angular=ang))
    return tasks


def build_stats_tasks(ck, exes):
    only = [x for x in os.environ.get("C12_NETS", "").split(",") if x]
    if only and "stats" not in only: return []
    base = {"tmp": ck.tmp, "exes": exes}
    return [dict(base, kind="stats", name=nm, noise=nz, angulars=([400] if ck.tier == "quick" else [400, 360]))
            for nm in N.stats_names() for nz, _ in N.NOISE]


def build_gen_tasks(ck, exes):
    """angular values at 0/400 and status combinations"""
    import itertools
    only = [x for x in os.environ.get("C12_NETS", "").split(",") if x]
    base = {"tmp": ck.tmp, "exes": exes}
    quick = ck.tier == "quick"
    tasks = []
    if not only or "wrap" in only:
        # thorough: the complete product of the 8 settings of the three kinds; quick: the complete product direction x angle,
        # the azimuth setting follows (kd + 3 ka) mod 8 (each of its settings meets each direction setting once)
        for kd in range(8):
            for ka in range(8):
                pats = [ka % 2] if quick else [0, 1]          # noise pattern of the other observations
                cases = [dict(kd=kd, ka=ka, kz=kz, frame="ne-l", pat=pt, angular=ang) for kz in ([(kd + 3 * ka) % 8] if quick else range(8))
                         for pt in pats for ang in (400, 360)]
                # the other frames without the azimuth (its reference model is the one of axes-xy="ne")
                cases += [dict(kd=kd, ka=ka, kz=None, frame=fr, pat=pt, angular=ang) for fr in N.WRAP_FRAMES[1:] for pt in pats for ang in (400, 360)]
                tasks.append(dict(base, kind="wrap", tag="w%d%d" % (kd, ka), cases=cases))
    if not only or "status" in only:
        # complete product of the 15 states per point over 2 points (quick) / 3 points (thorough)
        npts = 2 if quick else 3
        for i, st0 in enumerate(N.POINT_STATES):
            rest = list(itertools.product(N.POINT_STATES, repeat=npts - 1))
            for j in range(0, len(rest), 45):
                cases = [dict(states=[list(st0)] + [list(x) for x in r]) for r in rest[j:j + 45]]
                tasks.append(dict(base, kind="status", tag="s%d_%d" % (i, j), cases=cases))
    return tasks


def replay_gen(ck, exes, rp):
    case = dict(rp["case"])
    task = dict(kind=case["kind"], tag="replay", cases=[case], tmp=ck.tmp, exes=exes)
    stored = (rp.get("files") or {}).get("input.gkf")
    if stored: task["gkf_override"] = stored
    viol, out, cnt, sample = run_task(task)
    print("replay: gama-local input.gkf --xml --text --html --octave --angular %s  (%s)" % (case.get("angular", 400), sample))
    hits = [v for v in viol if v[0] == rp["sig"]]
    for sg, dt, r in viol:
        print(("SAME " if sg == rp["sig"] else "other") + " " + sg + " :: " + str(dt)[:400])
    if not hits: print("violation %s not reproduced" % rp["sig"])
    sys.exit(1 if hits else 0)


def replay_stats(ck, exes, rp):
    case = rp["case"]
    task = dict(kind="stats", name=case["name"], noise=case["noise"], sigma_acts=[case["sigma_act"]], conf_prs=[case["conf_pr"]],
                angulars=[case.get("angular", 400)], tmp=ck.tmp, exes=exes)
    stored = (rp.get("files") or {}).get("input.gkf")
    if stored: task["gkf_override"] = stored
    viol, out, cnt, sample = run_task(task)
    print("replay: gama-local input.gkf --xml --text --html --octave --angular %s  (statistics network %s, noise %s, sigma-act %s, conf-pr %s)" % (
        case.get("angular", 400), case["name"], case["noise"], case["sigma_act"], case["conf_pr"]))
    hits = [v for v in viol if v[0] == rp["sig"]]
    for sg, dt, r in viol:
        print(("SAME " if sg == rp["sig"] else "other") + " " + sg + " :: " + str(dt)[:400])
    if not hits: print("violation %s not reproduced" % rp["sig"])
    sys.exit(1 if hits else 0)


def epoch_families(ck):
    only = [x for x in os.environ.get("C12_NETS", "").split(",") if x]
    if only and "epochs" not in only: return []
    return EP.families(ck.tier)


def build_epoch_tasks(ck, exes):
    """(preparation tasks, pair tasks): every epoch of every family is adjusted once,
    then every ordered pair of epochs of a family goes through the tool"""
    base = {"tmp": ck.tmp, "exes": exes}
    prep, pairs = [], []
    for fam in epoch_families(ck):
        sts = EP.epochs(fam)
        for k in range(0, len(sts), 24):
            prep.append(dict(base, kind="epochprep", fam=list(fam), sts=sts[k:k + 24]))
        for s1 in sts:
            pairs.append(dict(base, kind="epochs", fam=list(fam), s1=s1))
    return prep, pairs


def replay_epochs(ck, exes, rp):
    case = rp["case"]
    fam = tuple(case["fam"]); s1, s2 = case["s1"], case["s2"]
    d = ep_dir(ck.tmp, fam); os.makedirs(d, exist_ok=True)
    if case.get("tool") == "defhist":
        # object history: adjust the first epoch and the recorded second epochs, then every sequence of <= 3 pairs on one object
        paths = []
        for k, st in enumerate([s1] + list(case["hist_seconds"])):
            inp = os.path.join(d, "hist%d.gkf" % k); outp = os.path.join(d, "hist%d.xml" % k)
            with open(inp, "w", encoding="utf8") as f: f.write(EP.gkf(fam, st))
            rc, so, se = run_cmd([exes["gama"], inp, "--xml", outp])
            print("replay: gama-local hist%d.gkf --xml hist%d.xml (family %s, statuses %s) rc=%s" % (k, k, EP.famkey(fam), st, rc))
            paths.append(outp)
        rc, so, se = run_cmd([exes["defhist"]] + paths)
        so = so.decode("utf8", "replace")
        print("replay: defhist hist0.xml " + " ".join("hist%d.xml" % k for k in range(1, len(paths))) + "  (pair k = first epoch with second epoch k; one object per sequence)")
        print(so[-2000:])
        bad = rc != 0 or "DIFF " in so or "DONE" not in so
        print(("SAME " + rp["sig"]) if bad else ("violation %s not reproduced" % rp["sig"]))
        sys.exit(1 if bad else 0)
    stored = rp.get("files") or {}
    cx = Ctx({"kind": "epochs", "fam": list(fam), "s1": s1})
    views = []
    for k, st in ((1, s1), (2, s2)):
        text = stored.get("epoch%d.gkf" % k) or EP.gkf(fam, st)
        if text != EP.gkf(fam, st): print("note: the recorded input of epoch %d differs from the regenerated one; the recorded text was run" % k)
        inp = os.path.join(d, "replay%d.gkf" % k); outp = os.path.join(d, "replay%d.xml" % k)
        with open(inp, "w", encoding="utf8") as f: f.write(text)
        rc, so, se = run_cmd([exes["gama"], inp, "--xml", outp])
        print("replay: gama-local epoch%d.gkf --xml epoch%d.xml  (family %s, statuses %s of points %s) rc=%s" % (
            k, k, EP.famkey(fam), st, ",".join(EP.IDSETS[fam[1]][:fam[2]]), rc))
        if rc != 0 or rd(outp) is None:
            cx.v("C12|gama-local|rc!=0|epochs-%s" % fam[0], "epoch %s: rc=%s stderr=%r" % (st, rc, se[-300:]), {"s1": st, "s2": st})
            views.append(None)
            continue
        D, X = Q.xml_expect(rd(outp))
        check_struct(cx, X, -1, {"s1": st, "s2": st})
        got = {q["id"]: (q["hxy"], q["hz"]) for q in X.points["adjusted"]}
        if got != EP.expected_adjusted(fam, st):
            cx.v("C12|xml-identifiers|adjusted-coordinates|epochs-%s" % fam[0], "epoch %s: adjusted list of the XML %r, given %r" % (st, got, EP.expected_adjusted(fam, st)), {"s1": st, "s2": st})
        views.append({"X": X, "path": outp})
    if views[0] is not None and views[1] is not None:
        print("replay: gama-local-deformation epoch1.xml epoch2.xml")
        _deform(cx, views[0], views[1], "self" if s1 == s2 else "two", exes, ck.tmp, "", "id", "plain",
                extra={"s1": s1, "s2": s2}, sfx="|epochs-%s|%s" % (fam[0], EP.pairclass(fam, s1, s2)), via_stdout=True)
    hits = [v for v in cx.viol if v[0] == rp["sig"]]
    for sg, dt, r in cx.viol:
        print(("SAME " if sg == rp["sig"] else "other") + " " + sg + " :: " + str(dt)[:300])
    if not hits: print("violation %s not reproduced" % rp["sig"])
    sys.exit(1 if hits else 0)


def replay(ck, exes):
    rp = json.load(open(ck.args.replay))
    case = rp["case"]
    if case.get("kind") in ("epochs", "epochprep"):
        replay_epochs(ck, exes, rp)
    if case.get("kind") == "stats":
        replay_stats(ck, exes, rp)
    if case.get("kind") in ("wrap", "status"):
        replay_gen(ck, exes, rp)
    F = fam()
    ni = case["net"] if isinstance(case.get("net"), int) else [n for n, _, _ in F].index(case["net"])
    task = dict(case, net=ni, tmp=ck.tmp, exes=exes)
    if task.get("kind") != "lang":
        if "band" in case:
            task["bands"] = sorted(set([-1, case["band"]])); task["angulars"] = sorted(set([400, case.get("angular", 400)]))
        task["tools"] = True
    stored = (rp.get("files") or {}).get("input.gkf")
    if stored and task.get("kind") != "lang":
        task["gkf_override"] = stored      # re-run exactly the recorded input text
    viol, out, cnt, sample = run_task(task)
    name, e0, e1 = F[ni]
    net = N.apply(e0, task["pos"], N.MENU_D[task["item"]]) if task["pos"] != "none" else e0
    print("replay: network %s position %s item %s; gama-local options %s" % (name, task["pos"], task["item"], case.get("args")))
    if stored and stored != N.gkf(net): print("note: the recorded input differs from the regenerated one (network family changed); the recorded text was run")
    hits = [v for v in viol if v[0] == rp["sig"]]
    for s, d, r in viol:
        print(("SAME " if s == rp["sig"] else "other") + " " + s + " :: " + str(d)[:300])
    if not hits: print("violation %s not reproduced" % rp["sig"])
    sys.exit(1 if hits else 0)


def private_copies(ck, exes):
    """other checks may rebuild /verif/build/<variant> (after a commit in the
    repository) while this one runs; the executables of *this* build are copied
    into the scratch directory under the build lock so that 90 k executions
    all run the same binaries."""
    import fcntl, shutil
    bdir = os.path.dirname(exes["gama"])
    suffix = os.path.basename(bdir)
    out = {}
    try:
        lock = open(os.path.join(os.path.dirname(bdir), ".lock-" + suffix), "a")
        fcntl.flock(lock, fcntl.LOCK_EX)
    except OSError:
        lock = None
    try:
        d = os.path.join(ck.tmp, "bin"); os.makedirs(d, exist_ok=True)
        for k, p in exes.items():
            q = os.path.join(d, os.path.basename(p))
            shutil.copy2(p, q); out[k] = q
        r = subprocess.run([out["gama"], "--version"], stdout=subprocess.PIPE, stderr=subprocess.PIPE)
        if r.returncode != 0: out = dict(exes)
    except OSError:
        out = dict(exes)
    finally:
        if lock is not None:
            fcntl.flock(lock, fcntl.LOCK_UN); lock.close()
    return out


def main():
    ck = vlib.Check("C12")
    exes = {"gama": vlib.exe("rel", "gama-local"), "cmp": vlib.exe("rel", "compare-xyz"),
            "def": vlib.exe("rel", "gama-local-deformation"), "xmlrt": vlib.hbuild("xmlrt", "rel"), "defhist": vlib.hbuild("defhist", "rel")}
    exes = private_copies(ck, exes)
    if ck.args.replay:
        replay(ck, exes)
    tasks = build_tasks(ck, exes)
    eprep, epairs = build_epoch_tasks(ck, exes)
    ntasks = len(tasks) + len(eprep) + len(epairs)
    # heavy tasks first (better load balance); results are order independent
    order = sorted(range(len(tasks)), key=lambda i: (0 if tasks[i]["kind"] == "lang" else 1, -fam()[tasks[i]["net"]][1].points.__len__()))
    # the epochs are adjusted first (their XML files are the inputs of the pair tasks), the rows of epoch pairs
    # (up to 609 tool runs each) go to the front of the queue
    stasks = build_stats_tasks(ck, exes)
    ntasks += len(stasks)
    gtasks = build_gen_tasks(ck, exes)
    ntasks += len(gtasks)
    tasks = epairs + gtasks + stasks + [tasks[i] for i in order]
    order = range(len(tasks))
    done = 0
    import concurrent.futures as cf
    files_cache = {}

    def absorb(res):
        viol, out, cnt, sample = res
        for k, v in out.items(): ck.outcome(k, v)
        for k, v in cnt.items(): ck.count(k, v)
        if sample and (done % 997 == 1 or (sample[:7] in ("epochs:", "statist", "wrap: d", "status:") and not files_cache.get(sample[:7]))):
            ck.sample(sample)
            files_cache[sample[:7]] = True
        for sig, detail, rp in viol:
            rp = dict(rp)
            files = None
            if rp.get("kind") in ("epochs", "epochprep"):
                sts = rp.pop("sts", None); rp.pop("seconds", None); rp["kind"] = "epochs"
                rp.setdefault("s1", sts[0] if sts else EP.epochs(tuple(rp["fam"]))[0]); rp.setdefault("s2", rp["s1"])
                if ck.known.match("C12", sig) is None:
                    f_ = tuple(rp["fam"])
                    files = {"epoch1.gkf": EP.gkf(f_, rp["s1"]), "epoch2.gkf": EP.gkf(f_, rp["s2"])}
            elif rp.get("kind") in ("wrap", "status"):
                if ck.known.match("C12", sig) is None and ("kd" in rp or "states" in rp):
                    files = {"input.gkf": N.gkf(gen_net(rp))}
            elif rp.get("kind") == "stats":
                if ck.known.match("C12", sig) is None and "sigma_act" in rp:
                    files = {"input.gkf": N.gkf(N.stats_net(rp["name"], rp["noise"], rp["sigma_act"], rp["conf_pr"]))}
            else:
                F = fam()
                rp["net_name"] = F[rp["net"]][0]
                if ck.known.match("C12", sig) is None:
                    try:
                        e0 = F[rp["net"]][1]
                        net = N.apply(e0, rp["pos"], N.MENU_D[rp["item"]]) if rp["pos"] != "none" else e0
                        files = {"input.gkf": N.gkf(net)}
                    except Exception:
                        files = None
            ck.violation(sig, detail, replay=rp, files=files)

    with cf.ProcessPoolExecutor(max_workers=vlib.NCPU) as ex:
        for res in ex.map(run_task, eprep):
            done += 1
            absorb(res)
        futs = []
        it = iter(order)
        pending = set()
        stop = False
        def submit_more():
            nonlocal stop
            while len(pending) < vlib.NCPU * 4 and not stop:
                try: i = next(it)
                except StopIteration: stop = True; break
                if ck.time_left() < 20:
                    ck.exhaustive = False; stop = True; break
                pending.add(ex.submit(run_task, tasks[i]))
        submit_more()
        while pending:
            fin, _ = cf.wait(pending, return_when=cf.FIRST_COMPLETED)
            for f in fin:
                pending.discard(f)
                done += 1
                absorb(f.result())
            submit_more()
    if done < ntasks: ck.exhaustive = False
    if os.environ.get("C12_SIGS"):
        for k, v in sorted(ck.viol_sigs.items()): vlib.log("UNLISTED %6d  %s" % (v, k))
        for k, v in sorted(ck.nknown.items()): vlib.log("KNOWN    %6d  %s" % (v, k))
    ck.count("evaluations", ck.counters.get("transitions", 0))
    ck.counters["distinct_nontrivial"] = ck.counters.get("states", 0)
    ck.count("tasks", done)
    ck.finish(RULE, assumptions=[
        "40 networks with <= 5 points and <= 28 observations; identifier strings from the 11-item menu and the 35 escape-structure items of lib/n12_nets.py (one position at a time)",
        "tolerances: half a unit of the last printed digit of the less precise output + 1e-6 slack; exact equality for identifiers, indexes and counts",
        "HTML is compared in English only (read_html recognises English labels); SVG is only tested for well-formedness and point labels",
        "language x encoding pairs whose script has no code points in the target charset (ru, ua outside cp-1251; zh outside utf-8) are executed but only a normal exit and a non-empty file are demanded",
        "a description whose first character is '<' is copied verbatim into the HTML output by design (html.cpp: 'description in HTML'); for that input the HTML is not judged",
        "menu item inner-blank (id 'P  7') is an extension of the stated menu: PointID keeps one inner blank by design",
        "epoch pairs: 2-4 fixed anchors + 3 (thorough also 4) variable points, true coordinates moved by <= 6 mm and noise pattern shifted per epoch, "
        "a-posteriori scaling (every epoch has its own covariance matrix); the shift and epoch-2 columns of a coordinate that is not adjusted in both "
        "epochs (index 0 in the triple) are not judged (the tool prints x2 - 0 there)",
        "statistics block: formats are compared with each other, never with an independent chi-square / Student / normal quantile; the text output computes "
        "ratio, limits and critical value in single precision (half a unit of the last printed digit + 1e-7 still holds on the whole enumeration)",
        "reference parsers: python xml.etree (expat) and the small parsers of lib/n12_parse.py"])


if __name__ == "__main__":
    main()
