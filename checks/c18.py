#!/usr/bin/env python3
"""C18: geodetic primitives round-trip — ellipsoidal coordinates on every
ellipsoid of the table, sexagesimal/centesimal angle strings and values,
literal recognisers, bearing/distance (harness/gridmc.cpp --mode c18)."""
import os, sys, json, subprocess
sys.path.insert(0, os.path.join(os.path.dirname(os.path.abspath(__file__)), "..", "lib"))
import vlib


def main():
    ck = vlib.Check("C18", level="exploration")
    exe = vlib.hbuild("gridmc", "rel")
    if ck.args.replay:
        case = json.load(open(ck.args.replay))["case"]
        r = subprocess.run([exe, "--mode", "c18", "--case", case], stdout=subprocess.PIPE, text=True)
        sys.stdout.write(r.stdout)
        hits = [l for l in r.stdout.splitlines() if l.startswith("V\t")]
        print("violation reproduced" if hits else "no violation on replay")
        sys.exit(1 if hits or r.returncode else 0)
    viols = ck.run_shards(exe, ["--mode", "c18", "--tier", ck.tier], nshards=vlib.NCPU * 4)
    for (sig, case, detail) in viols:
        ck.violation(sig, detail, replay=case)
    kgon = "400" if ck.tier == "thorough" else "100"
    ck.finish(
        "(1) ellipsoids: the default object and all 48 table entries x latitude -90..90 step 1 deg + {+-89.999999} x longitude -180..180 step 15 deg + {+-179.999999} x h in {-10 km, 0, 1 m, 9 m, 1000 km, 20000 km}: "
        "blh2xyz equals the closed formula (long double) to 1e-6 m, xyz2blh(blh2xyz(.)) is finite, in range, describes the same point and returns the start values within 0.1 mm (measured worst case 8e-9 m at 20000 km, so no larger Bowring allowance is used); exact-pole inputs (0,0,+-(b+h)); table id/name/axes consistency. "
        "(1b) object histories: ONE Ellipsoid object driven through [set(e1), op1(lat), switch to e2, op2(lat)] for all 49 x 49 ordered pairs (e1, e2) of {default object, 48 table entries} (complete product, e1 = e2 included) "
        "x 4 ways to switch {set(&E,id), set_ab(a,b), set_af(a,f), set_af1(a,1/f)} x all 7 x 7 pairs (op1, op2) of {blh2xyz, xyz2blh, N, M, W, V, F} x latitude -90..90 step " + ("0.25" if ck.tier == "thorough" else "1") + " deg + {+-89.999999} "
        "(xyz2blh: point of that geocentric latitude on a sphere, exact pole at +-90): the result of op2 is bit-identical to op2 on a fresh object switched once to e2 the same way; outcome classes record whether the answers on e1 and e2 differ at all. "
        "(2) angles: gon2deg(k*0.0001 gon, k=0.." + kgon + " gon) at precisions 0..6 (all four sign modes and negatives on every " + ("" if ck.tier == "thorough" else "8th ") + "k), 3024 values with seconds 60-j*0.1*10^-p, specials: every produced string has 0<=m<60, 0<=s<60, prec decimals, is accepted by deg2gon and returns the value within half a unit of the last printed digit; "
        "canonical strings d-mm-ss[.5] (6 d x 60 m x 60 s) -> deg2gon -> gon2deg reproduce themselves; rad2dms -> dms2rad on the same k grid in radians within 1e-9 rad; dms2rad of all literals d.mmss (5 d x 60 x 60). "
        "(3) literals: every string of length <= 6 over {0,1,.,-,+,e,E,space,x} through IsFloat and IsInteger against the xs:double / xs:integer lexical grammar (manual: 'decimal numbers', XSD types), every string of length <= 7 through deg2gon against 'sign? D+-D+-D+[.D+]' (manual section on degrees); forms the manual leaves open (spaces after the sign, exponent or bare trailing point in seconds) are counted, not judged. "
        "(4) bearing/distance: all 625 ordered pairs of a 5x5 lattice x 3 offsets x 6 spacings (10 um, 0.1 mm, 1 mm, 1 cm, 100 m, 7.9 km): bearing in [0,2pi), equals atan2 reference, bearing(b,a)=bearing(a,b)+-pi, distance symmetric and exact to 4e-16, d*(cos,sin)=(dx,dy), point and coordinate overloads agree, coincident points give (0,0). "
        "evaluation = one case through all its oracles, non-trivial = distinct grid values / valid literals / non-coincident pairs",
        assumptions=["object histories are two operations long with one parameter change, both operations at the same latitude, longitude 15 deg, h 1000 m; longer histories and changes of latitude between the operations are not enumerated",
                     "values between grid points, strings over other characters or longer than 6 (7) are not covered",
                     "the lattice has dy exactly 0 or |dy| > 1e-9|dx|, so the half-open bearing interval is decidable in floating point",
                     "length 7 for deg2gon because the shortest signed d-m-s literal has 6 characters and sign defects need one more"])


if __name__ == "__main__":
    main()
