#!/usr/bin/env python3
"""C04: query histories of the solver objects and of GNU_gama::Adj — explicit
state BFS to a fixpoint on the real objects (harness/histmc.cpp, ASan build)."""
import os, sys, json, subprocess
sys.path.insert(0, os.path.join(os.path.dirname(os.path.abspath(__file__)), "..", "lib"))
import vlib

def main():
    ck = vlib.Check("C04")
    exe = vlib.hbuild("histmc", "asan")
    if ck.args.replay:
        case = json.load(open(ck.args.replay))["case"]
        r = subprocess.run([exe, "--case", case], env=vlib.ASAN_ENV)
        sys.exit(1 if r.returncode else 0)
    viols = ck.run_shards(exe, ["--tier", ck.tier], nshards=vlib.NCPU * 3, env=vlib.ASAN_ENV)
    for (sig, case, detail) in viols:
        ck.violation(sig, detail, replay=case)
    if ck.counters.get("bfs_cut_by_deadline"):
        ck.exhaustive = False
    ck.counters["distinct_nontrivial"] = ck.counters.get("states", 0)
    ck.finish("breadth-first search to a fixpoint over operation histories of AdjEnvelope, AdjGSO, AdjSVD, AdjCholDec (alphabet: unknowns, residuals, sum_of_squares, defect, q_xx(i,j) all pairs, q_bb, q0_xx, q_bx, lindep(i), min_x(), min_x(S1), min_x(S2), reset(same system), reset(bigger system: one more unknown and row)) and GNU_gama::Adj (x, r, rtr, defect, q_xx, q_bb, set_algorithm x4, set(new input data) x3: the data of the unit, the same system with the regularisation list shifted by one unknown, with a list of another length) on a fixed family of regular and singular problems (regularisation subsets include ones that cannot fix the datum: the refusal must repeat), and of LocalNetwork objects built by the real parser from 5 generated networks (regular 2-D, free levelling loop, free 2-D with defect 3, a 2-D 'bridge' whose first observation alone joins two sub-networks, a 3-D polar network with instrument / target heights; alphabet: solve, residuals, trans_VWV, degrees_of_freedom, null_space, m_0, counts, qxx, qbb, stdev_obs, wcoef_res, stdev_res, studentized_residual, obs_control, unknown_stdev, std_error_ellipse, lindep, cond, conf_int_coef, huge_abs_terms, connected_network, set_algorithm x4, update_points/observations/residuals/adjustment, set_m_0_apriori/aposteriori, conf_pr x2, unknown_table (unknown_type/unknown_pointid of every unknown), status change of the first / last free xy point to fixed and back through PD + update_points, first observation / whole first cluster passive and back + update_observations, instrument / target heights of an observation set to zero and back + refine_obsdh_reductions + update_observations, refused calls conf_pr(1.5) / conf_pr(0) (must throw and change nothing); the LocalNetwork configuration space alg x m0 x conf-pr x status x activity is explored as four complete sub-alphabets (alg x m0 x conf-pr, alg x status, alg x activity, status x activity), thorough adds the full product); after the merged search every history of length <= 2 over the enabled alphabet is followed by every query WITHOUT state merging (state that the canonical key does not read cannot hide there); states merged by a canonical key read from private fields (stage, flags, cache keys and contents, regularisation list, cached vectors); invariant on every transition: answer == answer of a fresh object with the same configuration, solved once, asked only this; each history replayed twice (canon-on-replay); every (problem, class) runs in a forked child so that a sanitizer abort is attributed to the transition; state = distinct canonical key, non-trivial = all",
              assumptions=["solver problems: loop5, loop5+datum, chain4, split4, reg4, empty-col, tri3 (see harness/histmc.cpp), unit covariance; network problems: data/c04/*.gkf", "accessors that kill the process when asked first are probed once per configuration in a nested fork and not executed again in unsolved states",
                           "answers compared with relative tolerance 1e-8"])

if __name__ == "__main__":
    main()
