#!/usr/bin/env python3
"""C09: reported statistics are consistent with the adjustment they describe.

Engine netmc: the real `gama-local` executable on every network of seven
templates (2-D with fixed datum, the same with 0.01 mm / 0.1 cc precision, free
2-D with constrained points, levelling, 3-D, distances along the axes, observed
coordinates with diagonal / full covariance blocks; all standard deviations
inside a cluster differ).  For each template the lattice of observation subsets is
walked DOWN from the full network (transition = remove one observation) while
the network stays determined, every +-sigma sign pattern of the noisy
observations present is enumerated, and every input is run under the full
product sigma-act x conf-pr x sigma-apr (1e-3 .. 1e3) x algorithm.  The full
network of every template is also run with one and with two passive
observations at every position of every cluster.
Oracle: lib/n09_net.py (oracle, sigma_apr_relation) + edge relations below.
"""
import os, sys, json, math, time
sys.path.insert(0, os.path.join(os.path.dirname(os.path.abspath(__file__)), "..", "lib"))
import concurrent.futures as cf
import vlib, gnet
import n09_net as N

TEMPLATES = ["T2", "T2F", "T1", "T3", "T2H", "T2X", "T2C", "T2Ci"]
HALF_ALWAYS = {"T2H"}        # high-precision copy of T2: mirror-half of the sign patterns in both tiers (budget)

# quick: a sub-product that is complete within itself: only the sign patterns whose first noisy sign is '+'
# (the other half is its mirror image s -> -s), 2 of 6 conf-pr values, 3 of 6 sigma-apr values (both ends of the decades), T2H: full network only
# algorithms envelope + gso (the two branches of LocalNetwork::vyrovnani_: AdjBaseSparse / AdjBaseFull)
QUICK = {"sigma-act": ["aposteriori", "apriori"], "conf-pr": [0.9, 0.999], "sigma-apr": [1e-3, 10.0, 1e3],
         "alg": ["envelope", "gso"], "half": True}
FULL = {"sigma-act": N.SIGMA_ACT, "conf-pr": N.CONF_PR, "sigma-apr": N.SIGMA_APR, "alg": N.ALGS, "half": False}

# blunder family (D10): one gross error on the full T2 network, size as a
# multiple of the documented tol-abs test quantity
BLUNDER_OBS = ["dPB", "aQ", "sBQ"]
BLUNDER_FACT = [0.5, 2.0, 8.0]

_T = {}
_EXE = None
_TMP = None


def tmpl(name):
    if name not in _T:
        _T[name] = N.template(name)
    return _T[name]


def params(act, conf, m0a):
    return {"sigma-apr": m0a, "conf-pr": conf, "tol-abs": 1000.0, "sigma-act": act}


def dofclass(d):
    return "dof%d" % d if d is not None and d <= 2 else "dof3+"


def run_one(net, alg, name):
    g = gnet.to_gkf(net)
    r = gnet.run_gama(_EXE, g, _TMP, name, args=["--algorithm", alg], want=("xml", "text"))
    R = gnet.parse_result(r.xml) if r.xml else None
    return g, r, R


def worker(item):
    """item: (tname, subset, signs, act, conf, algs, aprs, blunder) -> dict"""
    global _EXE, _TMP
    (tname, subset, signs, act, conf, algs, aprs, exe, tmp, blunder, edge_set, passive) = item
    _EXE = exe; _TMP = tmp
    T = tmpl(tname)
    out = {"viol": [], "runs": 0, "outcomes": {}, "edge": {}, "sample": None, "states": len(aprs)}
    pat = N.pattern_str(T, subset, signs)
    uid = "%d_%s" % (os.getpid(), tname)

    def oc(c):
        out["outcomes"][c] = out["outcomes"].get(c, 0) + 1

    for alg in algs:
        group = []
        for m0a in aprs:
            par = params(act, conf, m0a)
            net = N.build_net(T, subset, signs, par, passive=passive)
            case = {"template": tname, "subset": list(subset), "signs": {str(k): v for k, v in signs.items()},
                    "params": par, "alg": alg, "blunder": blunder, "passive": [list(x) for x in passive]}
            if blunder:
                apply_blunder(T, net, blunder)
            g, r, R = run_one(net, alg, uid)
            out["runs"] += 1
            base = "%s|%s" % (tname, act)
            if r.rc != 0 or R is None or R.error:
                out["viol"].append(("C09|run|failed|%s|%s" % (base, alg), "rc %s error %s stderr %s" % (r.rc, getattr(R, "error", None), r.stderr[-300:]), case, g))
                oc("run-failed|%s|%s" % (tname, alg)); group = None; break
            if blunder:
                group.append((m0a, R, {"m0test": "border"}, case, g))
                oc("blunder|%s|x%g|obs-in-xml=%d" % (blunder[0], blunder[1], len(R.obs)))
                continue
            try:
                V, sm = N.oracle(net, R, r.text)
            except Exception as e:                       # an output the oracle cannot even read is a violation, not a crash
                import traceback
                V, sm = [("oracle", "exception", "%s: %s" % (type(e).__name__, traceback.format_exc()[-400:]))], {}
            dc = dofclass(sm.get("dof")) + ("+passive" if passive else "")
            for (clause, cls, detail) in V:
                out["viol"].append(("C09|%s|%s|%s|%s|%s" % (clause, cls, base, dc, alg), detail, case, g))
            if sm.get("defect-mismatch"):
                oc("defect-misjudged|%s|%s" % (tname, alg))
                if group is not None: group.append((m0a, R, sm, case, g))
                continue
            oc("%s|%s|%s|test=%s" % (tname, R.sd.get("used"), dc, sm.get("m0test")))
            if passive: oc("passive|%s|%s" % (tname, ",".join("%s@%d" % x for x in passive)))
            if sm.get("ellipse-circular"): oc("ellipse-circular-bearing-skipped")
            if sm.get("ellipse-zero"): oc("ellipse-zero(m0=0)-bearing-from-cofactors")
            if sm.get("text-res-table") is False and sm.get("dof", 0) <= 1: oc("text-no-residual-table(dof<=1)")
            group.append((m0a, R, sm, case, g))
            if (act, conf, m0a) == tuple(edge_set) and "pvv1" in sm and not passive:
                out["edge"][alg] = edge_summary(R, sm, r.text)
            if out["sample"] is None and alg == algs[0] and m0a == aprs[0]:
                out["sample"] = "%s subset=%s signs=%s %s conf=%g m0a=%g %s: dof=%s [pvv]=%s m0'=%s kp=%s ratio=%s (%s..%s) %s" % (
                    tname, "".join(T.cand[i]["name"] + "," for i in subset), pat, act, conf, m0a, alg, R.dof, R.pvv,
                    R.sd.get("aposteriori"), R.sd.get("confidence-scale"), R.sd.get("ratio"), R.sd.get("lower"), R.sd.get("upper"), sm.get("m0test"))
        if group and any(x[2].get("defect-mismatch") for x in group):
            if not all(x[2].get("defect-mismatch") for x in group):
                case = dict(group[0][3]); case["sigma-apr-group"] = [x[0] for x in group]
                out["viol"].append(("C09|sigma-apr|defect|%s|%s|%s" % (tname, act, alg), "the reported defect depends on sigma-apr: %s" % (
                    ", ".join("%g: defect %d dof %d" % (x[0], x[1].defect, x[1].dof) for x in group)), case, group[0][4]))
            group = None
        if group and len(group) > 1:
            Vr = N.sigma_apr_relation([(a, R, sm) for (a, R, sm, _, _) in group])
            for (clause, cls, detail) in Vr:
                dc = (dofclass(group[0][2].get("dof")) + ("+passive" if passive else "")) if not blunder else "blunder-%s-x%g" % (blunder[0], blunder[1])
                case = dict(group[0][3]); case["sigma-apr-group"] = [a for (a, _, _, _, _) in group]
                out["viol"].append(("C09|%s|%s|%s|%s|%s|%s" % (clause, cls, tname, act, dc, alg), detail, case, group[0][4]))
            oc("sigma-apr-group|%s|%s" % (tname, act))
    return out


def apply_blunder(T, net, blunder):
    """add a gross error to one observation: factor x the tol-abs (1000 mm) test quantity"""
    name, fact = blunder
    C = net.coords()
    for c in net.clusters:
        for o in c.obs:
            for cand in T.cand:
                co = cand["obs"]
                if cand["name"] == name and (co.kind, co.frm, co.to, co.bs, co.fs) == (o.kind, o.frm, o.to, o.bs, o.fs):
                    if o.kind == "distance":
                        o.val += fact * 1.0
                    else:
                        far = o.to if o.kind == "direction" else o.bs       # gama uses from/to (= bs for an angle)
                        d0 = gnet.hdist(C[o.frm], C[far])
                        o.val = gnet.norm400(o.val + fact * 1.0 / d0 * gnet.R2G)
                    return
    raise KeyError(name)


def edge_summary(R, sm, text):
    """what a run contributes to the relations along lattice transitions"""
    return {"pvv1": sm["pvv1"], "dof": sm["dof"], "eq": R.equations, "unk": R.unknowns,
            "obs": {"|".join(map(str, k)): (d["v"], d["qh"], d["eo"], d["sigma"]) for k, d in sm.get("obs", {}).items()},
            "adj": {p: dict(R.adjusted[p]) for p in R.adj_order}, "fixed": R.fixed,
            "corr": max([abs(x - R.approx[p][c]) for p in R.adj_order for c, x in R.adjusted[p].items() if c != "id" and c in R.approx.get(p, {})] or [0.0])}


def edge_relation(T, i, signs, par, pe, ce, mx=None):
    """relations along one lattice transition (parent --remove observation i--> child):
       equations drop by dim(i); dof = eq - unk (+ defect, same datum);
       [pvv]_child = [pvv]_parent - v_i^2/q_vi                     (manual eq. 6, 7)
       err-obs_i(parent) = L_i(adjusted child network) - l_i         (manual eq. 9)
    Both adjustments are solutions of slightly different linearisations, so the
    identities hold up to second order terms, bounded through the distance of the
    two adjusted networks from each other and from their linearisation points
    (shift); they are a coarse (0.1 .. 1 %) semantic cross-check of v, q_v and
    err-obs, the sharp checks are the per-run clauses.  Returns [(class, detail)]."""
    out = []
    cand = T.cand[i]; o = cand["obs"]
    dim = o.dim()
    if ce["eq"] != pe["eq"] - dim:
        out.append(("counts", "removing %s: parent equations %d child %d, dimension of the observation %d" % (cand["name"], pe["eq"], ce["eq"], dim)))
    if o.kind in ("vec", "coord"): return out      # several rows leave at once: only the count relation
    net1 = N.build_net(T, (i,), {i: signs.get(i, 1)}, par)
    row = N.scalar_rows(net1)[0]
    key = "|".join(map(str, row["key"]))
    if key not in pe["obs"]: return out
    v, qh, eo, sg = pe["obs"][key]
    if qh > 1 - 1e-4: return out              # uncontrolled observation: v = 0, nothing to compare
    drop = v * v / (sg * sg) / (1 - qh)       # v^2/q_v in units of m0a = 1
    exp = pe["pvv1"] - drop
    shift = max([abs(x - pe["adj"][p_][c_]) for p_, d_ in ce["adj"].items() for c_, x in d_.items()
                 if c_ != "id" and p_ in pe["adj"] and c_ in pe["adj"][p_]] or [0.0])
    # distance of both adjusted networks from their linearisation points and from each other
    shift = max(shift, pe.get("corr", 0.0), ce.get("corr", 0.0))
    tolp = pe["pvv1"] * (1e-4 + 40.0 * shift / 100.0) + 1e-9
    if mx is not None: mx["pvv"] = max(mx["pvv"], abs(ce["pvv1"] - exp) / tolp)
    if abs(ce["pvv1"] - exp) > tolp:
        out.append(("pvv-drop", "removing %s: [pvv]/m0a^2 parent %r child %r, parent - v^2/q_v = %r (tolerance %.3g, coordinate shift %.3g m)" % (
            cand["name"], pe["pvv1"], ce["pvv1"], exp, tolp, shift)))
    oo = net1.clusters[0].obs[0]
    if eo is not None and oo.kind != "direction":      # a direction needs the orientation, which the child may not have
        C = {p: (d.get("x"), d.get("y"), d.get("z")) for p, d in ce["fixed"].items()}
        for p, d in ce["adj"].items():
            q = C.get(p, (None, None, None))
            C[p] = (d.get("x", d.get("X", q[0])), d.get("y", d.get("Y", q[1])), d.get("z", d.get("Z", q[2])))
        e = gnet.ref_value(oo, C, 0.0) - oo.val
        e = N._wrap(e) * 1e4 if row["ang"] else e * 1e3
        so = 15.0 * shift * shift / 100.0                      # K * shift^2 / sight length ...
        so = so * 1e3 if not row["ang"] else so / 100.0 * gnet.R2G * 1e4
        tol = 1e-3 + 1e-4 * abs(eo) + so / (1.0 - qh)          # ... amplified like v itself: e = v / (1 - q_h)
        if mx is not None: mx["err"] = max(mx["err"], abs(e - eo) / tol)
        if abs(e - eo) > tol:
            out.append(("err-obs", "removing %s: err-obs %r, value from the reduced network minus observation %r (tolerance %.3g, coordinate shift %.3g m)" % (
                cand["name"], eo, e, tol, shift)))
    return out


def edge_checks(ck, store, lat, EDGE_SET):
    n = 0
    mx = {"pvv": 0.0, "err": 0.0}
    par = params(*EDGE_SET)
    for tname, (nodes, edges, status) in lat.items():
        T = tmpl(tname)
        for (par_s, ch_s, i) in edges:
            for signs_key, ent in store.get((tname, par_s), {}).items():
                signs = dict(signs_key)
                chs = tuple(sorted((k, v) for k, v in signs.items() if k != i))
                cent = store.get((tname, ch_s), {}).get(chs)
                if cent is None: continue
                for alg, pe in ent.items():
                    ce = cent.get(alg)
                    if ce is None: continue
                    n += 1
                    for (cls, detail) in edge_relation(T, i, signs, par, pe, ce, mx):
                        case = {"template": tname, "subset": list(par_s), "signs": {str(k): v for k, v in signs.items()},
                                "params": par, "alg": alg, "edge-removed": i, "blunder": None}
                        ck.violation("C09|edge|%s|%s|%s" % (cls, tname, dofclass(pe["dof"])), detail, replay=case)
    ck.count("edge_relations", n)
    ck.notes.append("edge relations: largest observed |[pvv]_child - ([pvv]_parent - v^2/q_v)| / tolerance([pvv]_parent (1e-4 + 40 shift/100 m)) = %.2f; "
                    "largest |err-obs - (L_red - l)| / tolerance(1e-3 + 1e-4|e| + 15 shift^2/(100 m (1-q_h))) = %.2f" % (mx["pvv"], mx["err"]))
    return n


def replay(ck, exe):
    p = json.load(open(ck.args.replay))
    case = p["case"]
    T = tmpl(case["template"])
    subset = tuple(case["subset"]); signs = {int(k): v for k, v in case["signs"].items()}
    aprs = case.get("sigma-apr-group") or [case["params"]["sigma-apr"]]
    global _EXE, _TMP
    _EXE = exe; _TMP = ck.tmp
    bad = 0; group = []
    for m0a in aprs:
        par = dict(case["params"]); par["sigma-apr"] = m0a
        net = N.build_net(T, subset, signs, par, passive=tuple(tuple(x) for x in case.get("passive") or ()))
        if case.get("blunder"): apply_blunder(T, net, tuple(case["blunder"]))
        g, r, R = run_one(net, case["alg"], "replay")
        stored = (p.get("files") or {}).get("input.gkf")
        if stored is not None and m0a == aprs[0]:
            print("input identical to the stored gkf text: %s" % (stored == g))
        print("--- sigma-apr %g %s: rc=%s" % (m0a, case["alg"], r.rc))
        if R is None or R.error:
            print("  no result: %s" % (getattr(R, "error", None))); bad += 1; continue
        if not case.get("blunder"):
            V, sm = N.oracle(net, R, r.text)
            for v in V:
                print("  VIOLATION %s|%s :: %s" % v); bad += 1
        else:
            sm = {"m0test": "border"}
            print("  observations in xml: %d (input %d)" % (len(R.obs), len(N.scalar_rows(net))))
        group.append((m0a, R, sm, r.text))
    if len(group) > 1:
        for v in N.sigma_apr_relation([x[:3] for x in group]):
            print("  VIOLATION %s|%s :: %s" % v); bad += 1
    if case.get("edge-removed") is not None and group and "pvv1" in group[0][2]:
        i = int(case["edge-removed"])
        ch = tuple(j for j in subset if j != i)
        par = dict(case["params"])
        netc = N.build_net(T, ch, {k: v for k, v in signs.items() if k != i}, par)
        g, r, Rc = run_one(netc, case["alg"], "replayc")
        Vc, smc = N.oracle(netc, Rc, r.text)
        pe = edge_summary(group[0][1], group[0][2], group[0][3]); ce = edge_summary(Rc, smc, r.text)
        for (cls, detail) in edge_relation(T, i, signs, par, pe, ce):
            print("  VIOLATION edge|%s :: %s" % (cls, detail)); bad += 1
    if not bad: print("no violation of C09 on replay")
    sys.exit(1 if bad else 0)


def snapshot_exe(ck):
    """private copy of the freshly built executable: a concurrent `vbuild` of another check may
    relink build/rel/gama-local while this enumeration is running"""
    import shutil
    src = vlib.exe("rel", "gama-local")
    dst = os.path.join(ck.tmp, "gama-local")
    for _ in range(50):
        try:
            shutil.copy2(src, dst)
            if os.path.getsize(dst) > 0 and os.access(dst, os.X_OK): return dst
        except OSError:
            pass
        time.sleep(0.2)
    return src


def main():
    ck = vlib.Check("C09")
    exe = snapshot_exe(ck)
    if ck.args.replay:
        replay(ck, exe)
    S = FULL if ck.tier == "thorough" else QUICK
    budget = float(os.environ.get("VERIF_C09_BUDGET_S", 0) or ((13 * 60) if ck.tier == "thorough" else 50))
    t_end = min(ck.deadline, time.time() + budget)      # enumeration budget, counted after the (incremental) build
    EDGE_SET = ("aposteriori", S["conf-pr"][0], S["sigma-apr"][0])
    lat = {}
    items = []
    T2 = tmpl("T2"); top = tuple(range(len(T2.cand)))
    for name in BLUNDER_OBS:
        for fact in BLUNDER_FACT:
            for act in S["sigma-act"]:
                items.append(("T2", top, {i: 1 for i in T2.noisy}, act, 0.95, S["alg"], list(N.SIGMA_APR), exe, ck.tmp, (name, fact), EDGE_SET, ()))
                ck.count("blunder_networks")
    per_t = []
    for tname in TEMPLATES:
        T = tmpl(tname)
        per_t.append([])
        nodes, edges, status = N.lattice(T)
        lat[tname] = (nodes, edges, status)
        ck.count("lattice_nodes_executed", len(nodes))
        ck.count("lattice_nodes_passed_through", sum(1 for v in status.values() if v == "pass"))
        ck.count("lattice_subsets_undetermined", sum(1 for v in status.values() if v is None))
        ck.count("lattice_edges", len(edges))
        topn = tuple(range(len(T.cand)))
        # passive-observation variants of the full network: every position of every cluster, one and two
        # passive observations; sign patterns: alternating (+ all '+' in thorough); conf-pr 0.95 only
        pats = [{i: (1 if k % 2 else -1) for k, i in enumerate(T.noisy)}] + ([] if S["half"] else [{i: 1 for i in T.noisy}])
        for pv in N.variants(T):
            for signs in pats:
                ck.count("networks"); ck.count("passive_variant_networks")
                for act in S["sigma-act"]:
                    per_t[-1].append((tname, topn, signs, act, 0.95, S["alg"], list(S["sigma-apr"]), exe, ck.tmp, None, EDGE_SET, pv))
        for s in nodes:
            if tname in HALF_ALWAYS and S["half"] and s != topn: continue
            for signs in N.patterns(T, s):
                if (S["half"] or tname in HALF_ALWAYS) and signs and signs[min(signs)] < 0: continue
                ck.count("networks")
                for act in S["sigma-act"]:
                    for conf in S["conf-pr"]:
                        per_t[-1].append((tname, s, signs, act, conf, S["alg"], list(S["sigma-apr"]), exe, ck.tmp, None, EDGE_SET, ()))
    # all templates progress at the same relative speed (a run cut by the deadline has seen every family)
    merged = []
    for L in per_t:
        merged += [((k + 0.5) / len(L), t, k, it) for t, (k, it) in zip([len(merged)] * len(L), enumerate(L))]
    merged.sort(key=lambda x: (x[0], x[1], x[2]))
    items += [m[3] for m in merged]
    vlib.log("[C09 %s] %d work items, %d networks" % (ck.tier, len(items), ck.counters["networks"]))
    store = {}
    done = 0
    WAVE = 16 * 40
    with cf.ProcessPoolExecutor(max_workers=vlib.NCPU) as ex:
        for w0 in range(0, len(items), WAVE):
            if time.time() > t_end:
                ck.exhaustive = False
                ck.notes.append("deadline: %d of %d work items completed" % (done, len(items)))
                break
            wave = items[w0:w0 + WAVE]
            for item, out in zip(wave, ex.map(worker, wave, chunksize=4)):
                done += 1
                ck.count("transitions", out["runs"])
                ck.count("states", out["states"])
                ck.count("evaluations", out["runs"])
                for k, v in out["outcomes"].items(): ck.outcome(k, v)
                if out["sample"] and (done % 997 == 1): ck.sample(out["sample"])
                for (sig, detail, case, g) in out["viol"]:
                    ck.violation(sig, detail, replay=case, files={"input.gkf": g})
                if out["edge"]:
                    store.setdefault((item[0], item[1]), {})[tuple(sorted(item[2].items()))] = out["edge"]
    edge_checks(ck, store, lat, EDGE_SET)
    ck.counters["distinct_nontrivial"] = ck.counters.get("states", 0)
    prod = "sigma-act %s x conf-pr %s x sigma-apr %s x algorithm %s" % (S["sigma-act"], S["conf-pr"], S["sigma-apr"], S["alg"])
    if S["half"]:
        prod += " (quick sub-product: of the sign patterns only those whose first noisy sign is '+', the other half being the mirror image s -> -s; envelope and gso are the two branches of LocalNetwork::vyrovnani_)"
    ck.finish(
        "eight templates (T2Ci = T2C declared in the inconsistent frame axes-xy=en + left-handed angles, y mirrored internally and back on output; T2C: observed coordinates - fixed A + 3 new points G1 (100,100), G2 (300,100), G3 (200,200); <coordinates> session 1 {G1 sigma 3/8 mm, G2 7/4} and "
        "session 2 {G1 4/10, G2 6/5, G3 9/6.5} with diagonal cov-mat, a third cluster {G3 25 12 / 36 mm^2, full 2x2 block}, distances A-G3 and G1-G2; G1, G2 hang on observed coordinates "
        "with exactly zero xy covariance (sigma_x < sigma_y: bearing 100 gon, sigma_x > sigma_y: bearing 0) and on a distance whose bearing at the linearisation point is exactly 0 when "
        "the y errors have equal signs, every point is observed twice in the full network, 108 determined subsets with dof 0 .. 8; the <coordinate-x|y> rows of a diagonal block are "
        "uncorrelated observations with sigma = sqrt(variance) and go through every per-observation clause; T2X: one new point observed by five distances along the coordinate axes only - x, y uncorrelated up to rounding (c_xy ~ 1e-15, sin(pi) is not 0) with q_yy > q_xx and q_xx > q_yy sub-networks; T2H: T2 with 0.004-0.016 mm / 0.07-0.15 cc standard deviations, mirror-half of the sign patterns; T2: 3 fixed + 2 new points on {0,100,200}^2, 3 directions + 3 distances + 1 angle; T2F: the same 5 points as a free network, A B C constrained, 3 more distances, defect 3; "
        "T1: levelling 2 fixed + 3 new heights, 6 height differences; "
        "T3: 3-D 3 fixed + 2 new points, slope distances, zenith angles, a height difference and a vector with full 3x3 cov-mat, no instrument heights); for each template the lattice of "
        "observation subsets reachable from the full network by removing one observation at a time while the reference model keeps it determined (all such subsets, dof from the top value down to 0), "
        "x every +-sigma sign pattern on the noisy observations present (2^6 on the full T2 network) x " + prod + "; plus a blunder family (T2 full network, one gross error of 0.5/2/8 x the tol-abs "
        "test quantity on a direction, an angle, a distance) for the participation clause; plus, for every template, the full network with one and with two passive observations (target without "
        "coordinates that cannot be computed, or listed without fix/adj for height differences and vectors) inserted at every position of every cluster (all stdevs inside a cluster differ), conf-pr 0.95.  Oracle on every execution: dof = equations - unknowns + defect; [pvv] = v'Pv from obs/adj and the input "
        "weights / full cov-mat; aposteriori = sqrt([pvv]/dof); confidence-scale = own Normal/Student quantile (bisection) by <used>; ratio, lower, upper, verdict; cov-mat = m0^2 (A'PA)^-1 (free network: S-transformed g-inverse for the constrained coordinates) with an "
        "independent numeric Jacobian; ellipses = eigen-decomposition of the 2x2 block; per uncorrelated observation stdev, qrr, f, std-residual, err-obs, err-adj; English text output "
        "(general parameters, std.dev / conf.i. of unknowns and observations, residual table, ellipses) against the XML; relation between the runs that differ only in sigma-apr; relations along "
        "lattice transitions ([pvv] drop = v^2/q_v, err-obs = value from the reduced network). state = one (network, sigma-act, conf-pr, sigma-apr) input; transition = one gama-local execution",
        extra={"tier_product": prod, "violation_signatures": dict(ck.viol_sigs)},
        assumptions=["sight lengths 100-283 m, noise +-1 sigma (2-15 mm / cc): linearisation effects are second order; tolerances = printed precision of each field (+ 1e-6 relative; Student 5e-4, chi-square 5e-3 as C17 allows)",
                     "reference quantiles: own bisection on erfc / incomplete beta / incomplete gamma (agreement with scipy.stats < 1e-12 measured once)",
                     "confidence ellipse a', b' in the text output are checked against the 2-D coefficient (sqrt(chi2_2) or sqrt(2F_2,dof)) that makes the coverage probability equal conf-pr, as the manual's defining sentence says; the manual's formula a' = k_p a with the 1-D k_p disagrees with that sentence",
                     "statistics of observations in correlated clusters (the vector of T3, the G3 block of T2C) are not checked except through [pvv], dof, the cov-mat of the unknowns and stdev = m0 sqrt(a Q a') (the property restricts the residual-cofactor relation to uncorrelated observations); a member of a <coordinates> cluster whose covariance with every other active member is exactly 0 counts as uncorrelated",
                     "lattice transitions that remove an observation of dimension > 1 (vector, observed xy coordinates) are checked for the equation count only"])


if __name__ == "__main__":
    main()
