#!/usr/bin/env python3
"""C20: ill-posed networks are diagnosed, identically for every algorithm.

Network level (this file + lib/n20_*.py, lib/n08_ref.py): networks with planted
rank deficiencies x ALL subsets of point constraints (classified exactly as
regular / sufficient / insufficient / non-spanning) x 4 algorithms on the real
gama-local (text + XML output).  Solver level: checks/adjshape.py C20
(harness/adjmc.cpp), merged into the same evidence file.
"""
import json, os, sys, time
sys.path.insert(0, os.path.join(os.path.dirname(os.path.abspath(__file__)), "..", "lib"))
sys.path.insert(0, os.path.dirname(os.path.abspath(__file__)))
import vlib, gnet, n08_gen, n08_run, n20_gen, n20_check
import adjshape
import concurrent.futures as cf

RULE = ("network level: lattice networks with planted deficiencies {split (component without datum), hinge (free part tied by one distance), single determining element "
        "(distance / direction / angle / 3-D), missing scale (angles or directions only, one fixed point), missing heights (unobserved z, heights without datum, 3-D distances only), "
        "levelling in two components, free networks (2-D distances, angles, 3-D slope distances 4-5 points, slope distances + zenith angles, levelling)} x every subset of the "
        "switchable constraints (XY and Z of every free point), each classified exactly (rational null space N: regular / sufficient / insufficient / non-spanning) x envelope, gso, svd, cholesky; "
        "oracle per run: no nan/inf in XML, text, stdout; the 'Removed points' list is replayed on the exact model: every removed point must have an unknown with a non-zero null-space row at "
        "that moment; an adjustment is printed only if the remaining system is determined (rank N_S = defect) and then defect/dof/unknowns/equations and the list of adjusted coordinates "
        "equal the exact reference; a free coordinate without any active observation must be reported, not dropped silently; a 'can not be adjusted' diagnosis must name exactly defect "
        "unknowns whose removal leaves full column rank; an error document is acceptable only for inputs the reference calls undetermined; across algorithms: outcome class, exit status, "
        "removed coordinates and (for equal removals) defect, dof, [pvv], adjusted coordinates, adjusted observations and their standard deviations agree (1e-6 m / gon); "
        "solver level: " + adjshape.RULES["C20"] +
        "; states = distinct (network, constraint set) inputs + solver-level configurations, transitions = gama-local executions + solver runs")


def replay(ck, path):
    J = json.load(open(path))
    case = J["case"]
    if isinstance(case, str):
        return adjshape.run("C20", ck)
    exe = n08_run.private_exe(vlib.exe("rel", "gama-local"), ck.tmp)
    stored = (J.get("files") or {}).get("input.gkf")
    w = n20_check.worker((case["tier"], case["ci"], case["mask"], ck.tmp, exe, stored))
    _, _, g = n20_check.build(case["tier"], case["ci"], case["mask"])
    if stored is not None and stored != g:
        print("note: the generator no longer produces the stored input; the stored gkf text was run, the reference model is the generator's")
    for (sig, detail, rp, files) in w["viol"]:
        print("V\t%s\t%s" % (sig, detail))
    hit = [v for v in w["viol"] if v[0] == J.get("sig")]
    if not w["viol"]:
        print("no violation of C20 on replay")
    sys.exit(1 if w["viol"] else 0)


def main():
    ck = vlib.Check("C20")
    if ck.args.replay:
        replay(ck, ck.args.replay)
    exe = n08_run.private_exe(vlib.exe("rel", "gama-local"), ck.tmp)
    tier = ck.tier
    C = n20_check.case_list(tier)
    items = []
    for ci, c in enumerate(C):
        k = len(n08_gen.constraint_slots(c.net))
        for mask in range(1 << k):
            items.append((tier, ci, mask, ck.tmp, exe))
    t0 = time.time()
    budget = 40 if tier == "quick" else 600
    done = 0
    cut = False
    net_out = {}
    sampled = set()
    with cf.ProcessPoolExecutor(max_workers=vlib.NCPU) as ex:
        for w in ex.map(n20_check.worker, items, chunksize=4):
            done += 1
            ck.count("net_states"); ck.count("net_runs", w["runs"])
            ck.count("inputs_" + w["kind"])
            for o in w["outcomes"]:
                ck.outcome(o)
                net_out[o] = net_out.get(o, 0) + 1
            for (sig, detail, rp, files) in w["viol"]:
                ck.violation(sig, detail, replay=rp, files=files)
            if w.get("sample") and (w["ci"], w["kind"]) not in sampled and (len(sampled) % 5 == 0 or w["kind"] == "non-spanning" and len(ck.samples) < 5):
                ck.sample(w["sample"])
            if w.get("sample"):
                sampled.add((w["ci"], w["kind"]))
            if time.time() - t0 > budget or ck.time_left() < 30:
                cut = True
                break
        if cut:
            ex.shutdown(wait=False, cancel_futures=True)
    if cut:
        ck.exhaustive = False
        ck.notes.append("network level cut by the time budget after %d of %d inputs" % (done, len(items)))
    ck.count("states", ck.counters.get("net_states", 0))
    ck.count("transitions", ck.counters.get("net_runs", 0))
    ck.count("evaluations", ck.counters.get("net_runs", 0))
    vlib.log("[C20 %s] network level: %d networks, %d inputs, %d runs, %.1fs" % (tier, len(C), done, ck.counters.get("net_runs", 0), time.time() - t0))
    adjshape.run("C20", ck)
    ck.counters["distinct_nontrivial"] = ck.counters.get("states", 0)
    if ck.viol_sigs:
        vlib.log("unlisted violation signatures: " + "; ".join("%s x%d" % kv for kv in sorted(ck.viol_sigs.items())))
    if ck.nknown:
        vlib.log("known findings hit: " + "; ".join("%s x%d" % kv for kv in sorted(ck.nknown.items())))
    ck.finish(RULE, extra={"network_level_outcome_classes": dict(sorted(net_out.items(), key=lambda kv: -kv[1])),
                           "network_level": {"inputs": ck.counters.get("net_states", 0), "gama_local_runs": ck.counters.get("net_runs", 0)}},
              assumptions=[
        "integer lattice coordinates, 3-7 points, consistent observations + a fixed +-0.5 mm / +-1.5 cc sign pattern, approximate = true coordinates, default command line",
        "classification is exact (fractions) for the Jacobian at the approximate coordinates; geometry off the lattice and larger networks are not covered",
        "the names of the dependent unknowns may differ between algorithms (each valid); removed coordinates and results may not",
        "solver level: integer design matrices with entries in {-2..2}, n<=%s unknowns" % ("4" if tier == "thorough" else "3")])


if __name__ == "__main__":
    main()
