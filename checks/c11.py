#!/usr/bin/env python3
"""C11 -- any input is either adjusted or refused with a located diagnostic, safely.

Five bounded spaces, all against the ASan+UBSan build (DESIGN.md section 3/C11):
  automaton  explicit-state BFS over well-formed event prefixes on the real GKFparser
             (harness/parsemc.cpp, in-process through xml_parse/expat), to a fixpoint of
             the canonical key; every accepted end state goes through the real gama-local
             with each --algorithm
  grammar    every document of the XSD-derived grammar model (checks/c11_grammar.py)
             replayed on the real gama-local: must not be a parser error
  mutate     every prefix, every position x 12 substitute bytes, every two-chunk split of
             the seeds in data/c11 (in-process), accepted mutants and a stride of the
             refused ones replayed on the real gama-local; thorough: the same for a
             gama-g3 input and for an adjustment-result XML fed to compare-xyz and
             gama-local-deformation
  literals   all strings over {0 1 . - + e E blank x} up to length 5 (thorough 6) in one
             attribute of each numeric class, against reference recognisers
  options    every option x {valid, empty, garbage, missing}, every pair of options,
             2 inputs, degenerate input paths
"""
import os, re, sys, json, subprocess, itertools, time
import concurrent.futures as cf
sys.path.insert(0, os.path.join(os.path.dirname(os.path.abspath(__file__)), "..", "lib"))
sys.path.insert(0, os.path.dirname(os.path.abspath(__file__)))
import vlib

SPACES = ["automaton", "grammar", "mutate", "layout", "literals", "options"]
DATA = os.path.join(vlib.VERIF, "data", "c11")
ENV = dict(vlib.ASAN_ENV)
ENV_NOSYM = dict(ENV, ASAN_OPTIONS=ENV["ASAN_OPTIONS"] + ":symbolize=0", UBSAN_OPTIONS=ENV["UBSAN_OPTIONS"] + ":symbolize=0")
CPU_LIMIT_S = 10          # a run that burns more CPU than this is a hang
WALL_LIMIT_S = 120        # a run that sleeps longer than this is a hang too
DOCUMENTED_EXIT = (0, 1, 2, 3)     # read from main() of gama-local.cpp: 0 ok / XML error document written,
                                   # 1 not adjustable / exception, 2 gama exception while reading, 3 parser error (text mode)
SUBST = [b"<", b">", b"&", b'"', b"'", b"/", b"0", b"-", b"e", b" ", b"\x00", b"\xff"]


# --------------------------------------------------------------------------- running things
def run_cmd(cmd, stdin_bytes=None, cwd=None, env=None):
    """Run with a CPU limit (deterministic under machine load) and a generous wall limit."""
    full = ["/bin/sh", "-c", 'ulimit -t %d; exec "$@"' % CPU_LIMIT_S, "sh"] + list(cmd)
    t = time.time()
    for attempt in range(90):
        try:
            r = subprocess.run(full, input=stdin_bytes if stdin_bytes is not None else b"", stdout=subprocess.PIPE,
                               stderr=subprocess.PIPE, env=env or ENV, timeout=WALL_LIMIT_S, cwd=cwd)
            rc, out, err = r.returncode, r.stdout, r.stderr
        except subprocess.TimeoutExpired as ex:
            rc, out, err = -999, ex.stdout or b"", ex.stderr or b""
        # the executable is being relinked by a concurrent bin/vbuild (exec fails in sh): wait for it
        if rc in (126, 127) and err.startswith(b"sh: ") and os.path.basename(cmd[0]).encode() in err:
            time.sleep(2)
            continue
        break
    else:
        vlib.log("BUILD-ERROR executable %s cannot be started (no verdict)" % cmd[0])
        os._exit(2)
    return rc, out.decode("utf8", "replace"), err.decode("utf8", "replace"), time.time() - t


def short_func(frame):
    f = frame.replace("(anonymous namespace)::", "")
    f = re.sub(r"\[abi:\w+\]", "", f)
    f = re.sub(r"<[^<>]*>", "", f)
    for _ in range(4):
        f = re.sub(r"<[^<>]*>", "", f)
    f = re.sub(r"\(.*\)\s*(const)?$", "", f.replace("operator()", "operator@@")).replace("operator@@", "operator()")
    f = f.strip().split(" ")[-1]          # drop a leading return type
    parts = [p for p in f.split("::") if p and p not in ("GNU_gama", "local", "g3")]
    return ("::".join(parts[-2:]) if parts else frame[:40]).replace(" ", "")


def sanitizer(err):
    """-> (kind, function of the innermost gama frame, summary) or None"""
    m = re.search(r"ERROR: AddressSanitizer: ([\w-]+)", err)
    kind = None
    if m:
        kind = m.group(1)
    else:
        m2 = re.search(r"runtime error: ([^\n]*)", err)
        if m2:
            t = m2.group(1)
            kind = ("float-cast-overflow" if "outside the range of representable" in t else
                    "nonnull-argument" if "null pointer passed as argument" in t else
                    "null-deref" if "null pointer" in t else
                    "signed-overflow" if "signed integer overflow" in t else
                    "misaligned" if "misaligned" in t else "ubsan")
    if kind is None:
        return None
    func = "?"
    for fm in re.finditer(r"#\d+ 0x[0-9a-f]+ in (.+?) (/[^\s:]+)(:\d+)?", err):
        if "/repo" in fm.group(2) or vlib.REPO in fm.group(2):
            func = short_func(fm.group(1))
            break
    first = (m.group(0) if m else "runtime error: " + m2.group(1))[:200]
    return kind, func, first


def classify_gl(rc, out, err):
    """Outcome class of one gama-local run with XML results on stdout.
    -> (class, violation signature tail or None, detail)"""
    if rc in (-24, -999, -9) or rc == 128 + 24:
        return "hang", "hang", "no termination within %d s CPU / %d s wall" % (CPU_LIMIT_S, WALL_LIMIT_S)
    s = sanitizer(err)
    if s:
        return "sanitizer:" + s[0], "sanitizer|%s|%s" % (s[0], s[1]), s[2]
    if rc < 0 or rc >= 128:
        return "signal", "signal|%d" % (-rc if rc < 0 else rc - 128), err[-300:]
    if rc not in DOCUMENTED_EXIT:
        return "exit-%d" % rc, "undocumented-exit|%d" % rc, (err or out)[-300:]
    m = re.search(r'<error category="(\w+)">', out)
    if m:
        cat = m.group(1)
        descs = re.findall(r"<description>(.*?)</description>", out, re.S)
        if cat == "gamaLocalParserError":
            lm = re.search(r"<lineNumber>(-?\d+)</lineNumber>", out)
            line = int(lm.group(1)) if lm else 0
            msg = descs[1].strip() if len(descs) > 1 else ""
            if line < 1 or not msg:
                return "parse-error-without-line", "parse-error-without-line", "lineNumber=%d description=%r" % (line, msg)
            return "parse-error@line", None, "line %d: %s" % (line, msg)
        return "refused-later:" + cat, None, " / ".join(d.strip() for d in descs)[:200]
    pm = re.search(r"error on reading XML input.*?line number\s*(-?\d+)\s*:\s*(.*)", err, re.S)   # text mode (rc 3)
    if rc == 3 or pm:
        line = int(pm.group(1)) if pm else 0
        msg = pm.group(2).strip() if pm else ""
        if line < 1 or not msg:
            return "parse-error-without-line", "parse-error-without-line", "rc=3 line=%d msg=%r" % (line, msg)
        return "parse-error@line", None, "line %d: %s" % (line, msg[:80])
    if "<gama-local-adjustment" in out and "<network-general-parameters" in out:
        return "adjusted", None, ""
    if rc == 1:
        return "refused-later:rc1", None, (err or out)[-120:].strip()
    if rc == 2:
        return "refused-later:rc2", None, err[-120:].strip()
    return "exit0-no-adjustment", None, (out[-100:] + err[-100:]).strip()


_orig_violation = vlib.Check.violation


def _violation(self, sig, detail, replay=None, files=None):
    return _orig_violation(self, re.sub(r"\s+", "_", sig), detail, replay=replay, files=files)     # signatures carry no blanks


vlib.Check.violation = _violation


class Pool:
    def __init__(self):
        self.ex = cf.ThreadPoolExecutor(max_workers=vlib.NCPU)

    def map(self, fn, items):
        return self.ex.map(fn, items)


def run_harness(ck, exe, args, nshards, env=None):
    """Like Check.run_shards, but also returns the harness's extra lines (A / R)."""
    extra, viols = [], []

    def one(i):
        cmd = [exe] + list(args) + ["--shard", "%d/%d" % (i, nshards)]
        tl = max(5.0, ck.time_left())
        e = dict(env or ENV, VERIF_DEADLINE_S=str(max(1.0, tl - 20)))
        try:
            r = subprocess.run(cmd, stdout=subprocess.PIPE, stderr=subprocess.PIPE, env=e, timeout=tl + 120)
            return i, r.returncode, r.stdout.decode("utf8", "replace"), r.stderr.decode("utf8", "replace")
        except subprocess.TimeoutExpired as ex:
            return i, -999, (ex.stdout or b"").decode("utf8", "replace"), "timeout"

    with cf.ThreadPoolExecutor(max_workers=vlib.NCPU) as ex:
        results = list(ex.map(one, range(nshards)))
    for (i, rc, out, err) in results:
        done, last = False, ""
        for line in out.splitlines():
            f = line.split("\t")
            if f[0] == "V" and len(f) >= 3:
                viols.append((f[1], f[2], f[3] if len(f) > 3 else ""))
            elif f[0] == "C" and len(f) >= 3:
                if f[1] != "violations_raw":
                    ck.count(f[1], int(f[2]))
            elif f[0] == "O" and len(f) >= 2:
                ck.outcome(f[1], int(f[2]) if len(f) > 2 else 1)
            elif f[0] == "X" and len(f) >= 2:
                ck.sample(f[1])
            elif f[0] == "D":
                done = True
                if f[1] != "1":
                    ck.exhaustive = False
            elif f[0] == "L":
                last = f[1] if len(f) > 1 else ""
            elif f[0] in ("A", "R"):
                extra.append(f)
        if rc != 0 or not done:
            ck.exhaustive = False
            s = sanitizer(err)
            what = "sanitizer|%s|%s" % (s[0], s[1]) if s else "rc=%s" % rc
            viols.append(("harness-crash|parsemc|" + what, last, "shard %d rc=%s stderr tail: %s" % (i, rc, err[-1200:])))
    return viols, extra


def harness_replay(case):
    return {"kind": "harness", "case": case}


# --------------------------------------------------------------------------- space 1
def space_automaton(ck, hexe, gl, pool):
    t0 = time.time()
    tl = ck.time_left()
    budget = min(tl * 0.5, 700 if ck.tier == "thorough" else 200)
    args = ["--mode", "automaton", "--tier", ck.tier, "--jobs", str(vlib.NCPU), "--tmp", ck.tmp]
    e = dict(ENV_NOSYM, VERIF_DEADLINE_S=str(budget))
    r = subprocess.run([hexe] + args, stdout=subprocess.PIPE, stderr=subprocess.PIPE, env=e)
    out = r.stdout.decode("utf8", "replace")
    accept, done = [], False
    for line in out.splitlines():
        f = line.split("\t")
        if f[0] == "V" and len(f) >= 4:
            ck.violation(f[1], f[3], replay=harness_replay(f[2]))
        elif f[0] == "C" and len(f) >= 3 and f[1] != "violations_raw":
            ck.count(f[1], int(f[2]))
            if f[1] in ("states", "transitions"):
                ck.count("automaton_canonical_" + f[1], int(f[2]))
        elif f[0] == "O" and len(f) >= 3:
            ck.outcome("automaton: " + f[1], int(f[2]))
        elif f[0] == "X":
            ck.sample(f[1])
        elif f[0] == "A" and len(f) >= 5:
            accept.append(f)
        elif f[0] == "D":
            done = True
            if f[1] != "1":
                ck.exhaustive = False
                ck.notes.append("automaton: BFS stopped by the deadline before the fixpoint")
    if r.returncode != 0 or not done:
        ck.exhaustive = False
        ck.violation("harness-crash|parsemc|automaton-master", r.stderr.decode("utf8", "replace")[-1500:], replay=harness_replay("automaton:"))
    vlib.log("[C11 automaton] BFS %.1fs, %d accepted end states" % (time.time() - t0, len(accept)))
    # accepted end states -> the rest of the pipeline, every algorithm
    jobs = []
    for n, f in enumerate(accept):
        doc = f[4].replace("\\n", "\n")
        p = os.path.join(ck.tmp, "acc-%d.gkf" % n)
        with open(p, "w") as fh:
            fh.write(doc)
        for alg in ("gso", "svd", "cholesky", "envelope"):
            jobs.append((f[1], f[3], p, alg, doc))

    def one(j):
        hist, region, p, alg, doc = j
        rc, out, err, dt = run_cmd([gl, p, "--algorithm", alg])
        return j, classify_gl(rc, out, err)

    for (hist, region, p, alg, doc), (cls, vsig, detail) in pool.map(one, jobs):
        ck.count("transitions")
        ck.count("automaton_pipeline_runs")
        ck.outcome("accepted end state -> " + ("[muted] " if region == "muted" else "") + cls)
        if cls.startswith("parse-error"):
            vsig = vsig or "exe-refuses-what-harness-accepted"
        if vsig:
            ck.violation("automaton-accept|%s|%s" % (region, vsig), "%s (algorithm %s) on the document of history %s" % (detail, alg, hist),
                         replay={"kind": "exec", "cmd": ["gama-local", "@in.gkf", "--algorithm", alg]}, files={"in.gkf": doc})


# --------------------------------------------------------------------------- space 2
def space_grammar(ck, gl, pool):
    import c11_grammar
    g = c11_grammar.Gen(os.path.join(vlib.REPO, "xml", "gama-local.xsd"))
    refused_attrs = set()
    for docs in (list(g.family_A()), None):
        if docs is None:
            # all-on mode of family S leaves out the attributes that family A has just shown to be refused
            # (they are reported there); everything else stays on
            g.exclude = set(refused_attrs)
            if refused_attrs:
                ck.notes.append("grammar: all-on documents omit the refused documented attributes %s" % sorted(refused_attrs))
            docs = list(g.family_S(ck.tier == "thorough"))
        _grammar_run(ck, gl, pool, docs, refused_attrs)
    # binding of the model to the schema: everything the schema declares was used
    decl_attrs = {(e.name, a.name) for e in g.E.values() for a in e.attrs}
    unused = sorted(decl_attrs - g.used_attrs)
    unused_el = sorted(set(g.E) - g.used_elems - {"gama-local"})
    ck.count("grammar_schema_attributes", len(decl_attrs))
    ck.count("grammar_schema_attributes_exercised", len(decl_attrs & g.used_attrs))
    if unused or unused_el:
        ck.notes.append("grammar: schema items never generated: %s %s" % (unused, unused_el))


def _grammar_run(ck, gl, pool, docs, refused_attrs):
    ck.count("grammar_documents", len(docs))

    def one(i):
        name, doc = docs[i]
        p = os.path.join(ck.tmp, "g-%d.gkf" % i)
        with open(p, "w") as fh:
            fh.write(doc)
        if ck.time_left() < 30:
            return i, None
        rc, out, err, dt = run_cmd([gl, p])
        os.unlink(p)
        return i, classify_gl(rc, out, err)

    for i, res in pool.map(one, range(len(docs))):
        name, doc = docs[i]
        if res is None:
            ck.exhaustive = False
            continue
        cls, vsig, detail = res
        ck.count("states"); ck.count("transitions"); ck.count("traces")
        ck.outcome("grammar document -> " + cls)
        fam = name.split("|")[0]
        what = name.split("|")[1]
        if cls.startswith("parse-error"):
            # a document of the documented grammar is refused by the parser
            if fam == "A":
                sig = "grammar|documented-refused|" + what.split("=")[0]
                if "@" in what:
                    refused_attrs.add(tuple(what.split("=")[0].split("@")))
            else:
                sig = "grammar|documented-refused|structure|" + re.sub(r"\d+", "#", detail.split(":", 1)[-1].strip())[:40]
            ck.violation(sig, "%s: %s" % (name, detail), replay={"kind": "exec", "cmd": ["gama-local", "@in.gkf"]}, files={"in.gkf": doc})
        elif vsig:
            ck.violation("grammar|%s" % vsig, "%s: %s" % (name, detail), replay={"kind": "exec", "cmd": ["gama-local", "@in.gkf"]}, files={"in.gkf": doc})
    ck.sample("grammar: " + docs[0][0])


# --------------------------------------------------------------------------- space 3
def mutant(doc, kind, pos, b):
    if kind == "prefix":
        return doc[:pos]
    if kind == "subst":
        return doc[:pos] + SUBST[b] + doc[pos + 1:]
    return doc


def space_mutate(ck, hexe, gl, pool):
    thorough = ck.tier == "thorough"
    args = ["--mode", "mutate", "--tier", ck.tier, "--seeds", DATA]
    if not thorough:
        args += ["--stride", "3", "--xcheck", "48"]
    else:
        args += ["--xcheck", "16"]
    viols, extra = run_harness(ck, hexe, args, vlib.NCPU * 2)
    for (sig, case, detail) in viols:
        ck.violation(sig, detail, replay=harness_replay(case))
    seeds = {n: open(os.path.join(DATA, n), "rb").read() for n in os.listdir(DATA) if n.endswith(".gkf")}
    jobs = []
    for f in extra:
        if f[0] == "A":
            jobs.append(("A", f[1], f[2], int(f[3]), int(f[4]), 0, 0))
        else:
            jobs.append(("R", f[1], f[2], int(f[3]), int(f[4]), int(f[5]), int(f[6])))
    vlib.log("[C11 mutate] in-process done; %d mutants go to the real gama-local" % len(jobs))

    def one(k):
        j = jobs[k]
        if ck.time_left() < 30:
            return k, None
        m = mutant(seeds[j[1]], j[2], j[3], j[4])
        p = os.path.join(ck.tmp, "m-%d.gkf" % k)
        with open(p, "wb") as fh:
            fh.write(m)
        rc, out, err, dt = run_cmd([gl, p])
        os.unlink(p)
        return k, classify_gl(rc, out, err) + (out,)

    for k, res in pool.map(one, range(len(jobs))):
        if res is None:
            ck.exhaustive = False
            continue
        tag, seed, kind, pos, b, hcls, hline = jobs[k]
        cls, vsig, detail, out = res
        ck.count("transitions"); ck.count("mutants_on_executable")
        ck.outcome("mutant(%s) accepted by parser -> %s" % (kind, cls) if tag == "A" else "mutant(%s) refused in-process -> %s" % (kind, cls))
        rp = {"kind": "exec", "cmd": ["gama-local", "@in.gkf"], "mutant": [seed, kind, pos, b]}
        files = {"in.gkf.hex": mutant(seeds[seed], kind, pos, b).hex()}
        if vsig:
            ck.violation("mutate-exec|%s|%s" % (kind, vsig), "%s %s@%d byte#%d: %s" % (seed, kind, pos, b, detail), replay=rp, files=files)
        elif tag == "A" and cls.startswith("parse-error"):
            ck.violation("mutate-exec|%s|binding|harness-accepts-exe-refuses" % kind, "%s %s@%d byte#%d: %s" % (seed, kind, pos, b, detail), replay=rp, files=files)
        elif tag == "R":
            lm = re.search(r"<lineNumber>(-?\d+)</lineNumber>", out)
            if not cls.startswith("parse-error") or (lm and int(lm.group(1)) != hline):
                ck.violation("mutate-exec|%s|binding|harness-refuses-differently" % kind,
                             "%s %s@%d byte#%d: in-process class %d line %d, executable: %s %s" % (seed, kind, pos, b, hcls, hline, cls, detail), replay=rp, files=files)
    # quick: the unmutated seeds and every prefix; thorough: every substitution as well
    space_mutate_other_tools(ck, gl, pool, thorough)


G3_SEEDS = {"gama-g3": "g3-seed.xml", "gama-g3#multi-cov": "g3-seed2.xml"}   # label -> seed document


def space_mutate_other_tools(ck, gl, pool, thorough=True):
    """gama-g3 input -> gama-g3 (two seed documents: one covariance matrix at the end of <obs>; a cluster
    assembled from several covariance pieces); adjustment XML -> compare-xyz, gama-local-deformation."""
    g3 = vlib.exe("asan", "gama-g3")
    cmpx = vlib.exe("asan", "compare-xyz")
    deform = vlib.exe("asan", "gama-local-deformation")
    g3seeds = {lab: open(os.path.join(DATA, fn), "rb").read() for lab, fn in G3_SEEDS.items()}
    lev = os.path.join(DATA, "adj-seed.gkf.in")
    adj = os.path.join(ck.tmp, "adj-seed.xml")
    rc, out, err, dt = run_cmd([gl, lev, "--xml", adj])
    adjseed = open(adj, "rb").read() if os.path.exists(adj) else b""
    if not adjseed:
        ck.violation("mutate-other|setup|no-adjustment-xml", "gama-local --xml produced nothing for data/c11/adj-seed.gkf.in rc=%s" % rc)
        return
    jobs = []
    seeds = dict(g3seeds); seeds["compare-xyz"] = adjseed; seeds["gama-local-deformation"] = adjseed
    for tool, seed in seeds.items():
        jobs.append((tool, "seed", 0, 0))
        for p in range(len(seed)):
            jobs.append((tool, "prefix", p, 0))
        if not thorough: continue
        for p in range(len(seed)):
            for b in range(12):
                if seed[p:p + 1] != SUBST[b]:
                    jobs.append((tool, "subst", p, b))
    exes = {"compare-xyz": cmpx, "gama-local-deformation": deform}
    for lab in g3seeds: exes[lab] = g3
    vlib.log("[C11 mutate] other tools: %d runs" % len(jobs))

    def one(k):
        tool, kind, pos, b = jobs[k]
        if ck.time_left() < 40:
            return k, None
        m = mutant(seeds[tool], kind, pos, b)
        p = os.path.join(ck.tmp, "o-%d.xml" % k)
        with open(p, "wb") as fh:
            fh.write(m)
        if tool in G3_SEEDS:
            cmd = [exes[tool], p, os.path.join(ck.tmp, "o-%d.out" % k)]
        elif tool == "compare-xyz":
            cmd = [exes[tool], adj, p]
        else:
            cmd = [exes[tool], adj, p, "--text", os.path.join(ck.tmp, "o-%d.out" % k)]
        rc, out, err, dt = run_cmd(cmd)
        for q in (p, os.path.join(ck.tmp, "o-%d.out" % k)):
            try:
                os.unlink(q)
            except OSError:
                pass
        return k, (rc, out[-400:], err[-3000:])

    for k, res in pool.map(one, range(len(jobs))):
        if res is None:
            ck.exhaustive = False
            continue
        label, kind, pos, b = jobs[k]
        tool = label.split("#")[0]
        rc, out, err = res
        ck.count("states"); ck.count("transitions"); ck.count("other_tool_runs")
        s = sanitizer(err)
        vsig = None
        if rc in (-24, -999, 152):
            cls, vsig = "hang", "hang"
        elif s:
            cls, vsig = "sanitizer:" + s[0], "sanitizer|%s|%s" % (s[0], s[1])
        elif rc in (-6, 134) and "terminate called" in err:
            ex = re.search(r"instance of '([^']+)'", err)
            cls = "abort:uncaught " + (ex.group(1) if ex else "?")
            vsig = "abort|uncaught|" + (ex.group(1).split("::")[-1] if ex else "?")
        elif rc < 0 or rc >= 128:
            cls, vsig = "signal %d" % rc, "signal|%d" % rc
        elif tool == "gama-g3" and rc == 1 and "XML parser error on line" in err:
            lm = re.search(r"XML parser error on line (-?\d+)", err)
            line = int(lm.group(1))
            cls = "parse-error@line" if line >= 1 else "parse-error-without-line"
            if line < 1:
                vsig = "parse-error-without-line"
        else:
            cls = "rc=%d" % rc
        ck.outcome("%s %s -> %s" % (tool, kind, cls))
        if vsig:
            ck.violation("mutate-other|%s|%s" % (tool, vsig), "%s %s@%d byte#%d rc=%s %s" % (tool, kind, pos, b, rc, (err or out)[-300:]),
                         replay={"kind": "other", "tool": label, "mutant": [kind, pos, b]})


# --------------------------------------------------------------------------- space 3b
LAYOUTS = ["one-line", "crlf", "cr-only-in-text", "pad-4095", "pad-4096", "pad-4097", "pad-70000", "long-comment", "no-final-newline", "blank-lines-x3",
           "tabs", "indent-2000"]


def relayout(doc, how):
    """the same XML document in another physical layout (white space between tokens / inside text only)"""
    if how == "one-line":
        return doc.replace(b"\r", b"").replace(b"\n", b" ")
    if how == "crlf":
        return doc.replace(b"\r", b"").replace(b"\n", b"\r\n")
    if how == "cr-only-in-text":
        return doc.replace(b">\n<", b">\r\n<")
    if how.startswith("pad-"):
        # one physical line of exactly n bytes (incl. its newline) and the same line longer: blanks after the first tag end
        n = int(how[4:])
        lines = doc.split(b"\n")
        for i, l in enumerate(lines):
            if i >= 2 and l.rstrip().endswith(b">") and not l.lstrip().startswith(b"<?"):
                lines[i] = l + b" " * max(0, n - 1 - len(l))
                break
        return b"\n".join(lines)
    if how == "long-comment":
        i = doc.find(b"\n", doc.find(b"<gama-local"))
        return doc[:i + 1] + b"<!-- " + b"x" * 9000 + b" -->\n" + doc[i + 1:]
    if how == "no-final-newline":
        return doc.rstrip(b"\r\n \t")
    if how == "blank-lines-x3":
        return doc.replace(b"\n", b"\n\n\n")
    if how == "tabs":
        return doc.replace(b"\n", b"\n\t\t")
    if how == "indent-2000":
        return doc.replace(b"\n<", b"\n" + b" " * 2000 + b"<")
    raise KeyError(how)


def space_layout(ck, gl, pool):
    """every valid seed document x every physical layout: the real gama-local must give the same answer as for the
    original (same class, same adjustment XML apart from nothing): white space between markup is not data"""
    seeds = {n: open(os.path.join(DATA, n), "rb").read() for n in sorted(os.listdir(DATA)) if n.endswith(".gkf") and n.startswith("s")}
    jobs = [(n, "original") for n in seeds] + [(n, how) for n in seeds for how in LAYOUTS]

    def one(k):
        n, how = jobs[k]
        doc = seeds[n] if how == "original" else relayout(seeds[n], how)
        p = os.path.join(ck.tmp, "lay-%d.gkf" % k)
        with open(p, "wb") as fh:
            fh.write(doc)
        rc, out, err, dt = run_cmd([gl, p])
        os.unlink(p)
        return k, classify_gl(rc, out, err) + (out,)

    res = dict(pool.map(one, range(len(jobs))))
    base = {}
    for k, (n, how) in enumerate(jobs):
        if how == "original":
            base[n] = res[k]
    for k, (n, how) in enumerate(jobs):
        cls, vsig, detail, out = res[k]
        ck.count("states"); ck.count("transitions"); ck.count("layout_runs")
        ck.outcome("layout(%s) -> %s" % (how, cls))
        rp = {"kind": "layout", "seed": n, "layout": how}
        if vsig:
            ck.violation("layout|%s|%s" % (how, vsig), "%s in layout %s: %s" % (n, how, detail), replay=rp)
        if how == "original":
            continue
        b = base[n]
        if cls != b[0]:
            ck.violation("layout|%s|class-differs|%s->%s" % (how, b[0].split(":")[0], cls.split(":")[0]), "%s: original %s (%s), layout %s: %s (%s)" % (n, b[0], b[2], how, cls, detail), replay=rp)
        elif out != b[3]:
            ck.violation("layout|%s|output-differs" % how, "%s: the result document differs from that of the original layout" % n, replay=rp)


# --------------------------------------------------------------------------- space 4
def space_literals(ck, hexe):
    viols, extra = run_harness(ck, hexe, ["--mode", "literals", "--tier", ck.tier], vlib.NCPU * 4)
    for (sig, case, detail) in viols:
        ck.violation(sig, detail, replay=harness_replay(case))


# --------------------------------------------------------------------------- space 5
def space_options(ck, gl, pool):
    inputs = [os.path.join(DATA, "s1-dir-dist.gkf"), os.path.join(DATA, "s5-hdiff-cov.gkf")]
    outp = lambda n: os.path.join(ck.tmp, "opt-out-" + n)
    valid = {
        "algorithm": ["gso", "svd", "cholesky", "envelope"], "language": ["en", "cz", "zh"], "encoding": ["utf-8", "cp-1251"],
        "angular": ["400", "360"], "latitude": ["50", "50-30-00"], "ellipsoid": ["wgs84"],
        "text": ["@text"], "html": ["@html"], "xml": ["@xml"], "octave": ["@m"], "svg": ["@svg"], "obs": ["@obs"],
        "cov-band": ["0", "-1"], "iterations": ["0", "3"], "export": ["@gkf"], "verbose": ["yes", "no"],
    }
    garbage = {"text": "/nonexistent-dir/x", "html": "/nonexistent-dir/x", "xml": "/nonexistent-dir/x", "octave": "/nonexistent-dir/x",
               "svg": "/nonexistent-dir/x", "obs": "/nonexistent-dir/x", "export": "/nonexistent-dir/x"}
    jobs = []          # (label, argv-after-exe, stdin)

    def val(o, v, k):
        return outp("%d.%s" % (k, v[1:])) if v.startswith("@") else v

    k = 0
    for inp in inputs:
        for o, vs in valid.items():
            for v in vs:
                k += 1; jobs.append(("single|%s|valid" % o, [inp, "--" + o, val(o, v, k)], None))
            k += 1; jobs.append(("single|%s|empty" % o, [inp, "--" + o, ""], None))
            k += 1; jobs.append(("single|%s|garbage" % o, [inp, "--" + o, garbage.get(o, "zz%s\xff")], None))
            k += 1; jobs.append(("single|%s|missing" % o, [inp, "--" + o], None))
            k += 1; jobs.append(("single|%s|before-input" % o, ["--" + o, val(o, vs[0], k), inp], None))
        for (o1, o2) in itertools.combinations(valid, 2):
            k += 1; jobs.append(("pair|%s+%s" % (o1, o2), [inp, "--" + o1, val(o1, valid[o1][0], k), "--" + o2, val(o2, valid[o2][-1], k + 100000)], None))
        for fl in ("--help", "--version", "--dumpversion", "--bogus", "-", "--input-xml"):
            k += 1; jobs.append(("flag|" + fl, [inp, fl], None))
        k += 1; jobs.append(("input|--input-xml", ["--input-xml", inp], None))
        k += 1; jobs.append(("input|twice", [inp, inp], None))
        k += 1; jobs.append(("input|stdin", ["-"], open(inp, "rb").read()))
    empty = os.path.join(ck.tmp, "empty.gkf"); open(empty, "w").close()
    unread = os.path.join(ck.tmp, "unreadable.gkf")
    with open(unread, "w") as fh:
        fh.write(open(inputs[0]).read())
    os.chmod(unread, 0)
    for lab, argv, sin in (("input|empty-file", [empty], None), ("input|directory", [ck.tmp], None), ("input|nonexistent", [os.path.join(ck.tmp, "no-such-file")], None),
                           ("input|mode-000", [unread], None), ("input|stdin-empty", ["-"], b""), ("input|none", [], None), ("flag|--help alone", ["--help"], None),
                           ("flag|--version alone", ["--version"], None), ("input|empty-name", [""], None), ("input|dev-null", ["/dev/null"], None)):
        jobs.append((lab, argv, sin))

    def one(i):
        lab, argv, sin = jobs[i]
        rc, out, err, dt = run_cmd([gl] + argv, stdin_bytes=sin, cwd=ck.tmp)
        return i, (rc,) + classify_gl(rc, out, err) + (out,)

    for i, (rc, cls, vsig, detail, out) in pool.map(one, range(len(jobs))):
        lab, argv, sin = jobs[i]
        ck.count("states"); ck.count("transitions"); ck.count("option_runs")
        if cls == "exit0-no-adjustment":
            cls = "help" if "Usage:" in out else "version" if ("GNU Gama" in out or re.match(r"\s*\d+\.\d+", out)) else "rc0-results-in-file" if any(a in ("--text", "--html", "--xml") for a in argv) else "rc0-other"
        ck.outcome("options %s -> %s" % (lab.split("|")[0] + ("|" + lab.split("|")[2] if lab.count("|") > 1 else ""), cls))
        if vsig:
            sig = "options|%s" % vsig if vsig.startswith("sanitizer") else "options|%s|%s" % (lab, vsig)
            ck.violation(sig, lab + ": gama-local %s : rc=%s %s" % (" ".join(repr(a) for a in argv[-4:]), rc, detail),
                         replay={"kind": "exec", "cmd": ["gama-local"] + [a if not a.startswith(ck.tmp) else "@tmp/" + os.path.basename(a) for a in argv], "stdin": bool(sin)},
                         files={"note": "paths under @tmp are scratch files; inputs are data/c11 seeds"})


# --------------------------------------------------------------------------- replay
def do_replay(ck, path, hexe):
    j = json.load(open(path))
    case = j.get("case") or {}
    if case.get("kind") == "harness":
        cs = case["case"]
        cmd = [hexe, "--case", cs, "--seeds", DATA, "--tier", j.get("tier", ck.tier)]
        r = subprocess.run(cmd, stdout=subprocess.PIPE, stderr=subprocess.PIPE, env=ENV)
        out = r.stdout.decode("utf8", "replace"); err = r.stderr.decode("utf8", "replace")
        sys.stdout.write(out); sys.stderr.write(err[-4000:])
        bad = r.returncode != 0 or any(l.startswith("V\t") for l in out.splitlines())
        print("replay: %s" % ("violation reproduced" if bad else "no violation"))
        sys.exit(1 if bad else 0)
    if case.get("kind") == "exec":
        files = j.get("files", {})
        argv = []
        for a in case["cmd"][1:]:
            if a == "@in.gkf":
                p = os.path.join(ck.tmp, "in.gkf")
                if "in.gkf" in files:
                    open(p, "w").write(files["in.gkf"])
                else:
                    open(p, "wb").write(bytes.fromhex(files["in.gkf.hex"]))
                argv.append(p)
            elif a.startswith("@tmp/"):
                argv.append(os.path.join(ck.tmp, a[5:]))
            else:
                argv.append(a)
        rc, out, err, dt = run_cmd([vlib.exe("asan", case["cmd"][0])] + argv, cwd=ck.tmp)
        cls, vsig, detail = classify_gl(rc, out, err)
        print(out[-1500:]); print(err[-3000:], file=sys.stderr)
        print("replay: rc=%s class=%s %s" % (rc, cls, detail))
        sys.exit(1 if (vsig or cls.startswith("parse-error")) else 0)
    if case.get("kind") == "layout":
        gl = vlib.exe("asan", "gama-local")
        doc = open(os.path.join(DATA, case["seed"]), "rb").read()
        outs = []
        for how in ("original", case["layout"]):
            p = os.path.join(ck.tmp, "lay.gkf")
            open(p, "wb").write(doc if how == "original" else relayout(doc, how))
            rc, out, err, dt = run_cmd([gl, p])
            outs.append((classify_gl(rc, out, err)[0], out))
            print("replay: %s layout %s -> %s" % (case["seed"], how, outs[-1][0]))
        bad = outs[0] != outs[1]
        print("replay: %s" % ("violation reproduced" if bad else "no violation"))
        sys.exit(1 if bad else 0)
    if case.get("kind") == "other":
        label = case["tool"]; tool = label.split("#")[0]; kind, pos, b = case["mutant"]
        gl = vlib.exe("asan", "gama-local")
        adj = os.path.join(ck.tmp, "adj-seed.xml")
        run_cmd([gl, os.path.join(DATA, "adj-seed.gkf.in"), "--xml", adj])
        seed = open(os.path.join(DATA, G3_SEEDS[label]), "rb").read() if tool == "gama-g3" else open(adj, "rb").read()
        p = os.path.join(ck.tmp, "mutant.xml")
        open(p, "wb").write(mutant(seed, kind, pos, b))
        cmd = [vlib.exe("asan", tool)] + ([p, os.path.join(ck.tmp, "out")] if tool == "gama-g3" else [adj, p] if tool == "compare-xyz" else [adj, p, "--text", os.path.join(ck.tmp, "out")])
        rc, out, err, dt = run_cmd(cmd)
        print(err[-3000:], file=sys.stderr)
        bad = bool(sanitizer(err)) or rc < 0 or rc >= 128 or (tool != "gama-g3" and rc == 134)
        print("replay: %s rc=%s %s" % (tool, rc, "violation reproduced" if bad else "no violation"))
        sys.exit(1 if bad else 0)
    print("replay: unknown case kind %s" % case.get("kind"))
    sys.exit(2)


# --------------------------------------------------------------------------- main
def main():
    argv = sys.argv[1:]
    only = SPACES
    if "--only" in argv:
        i = argv.index("--only")
        only = [s for s in argv[i + 1].split(",") if s]
        argv = argv[:i] + argv[i + 2:]
    ck = vlib.Check("C11", level="model_checking", argv=argv)
    hexe = vlib.hbuild("parsemc", "asan")
    gl = vlib.exe("asan", "gama-local")
    if ck.args.replay:
        do_replay(ck, ck.args.replay, hexe)
    pool = Pool()
    for sp in only:
        if sp not in SPACES:
            vlib.log("unknown space " + sp); sys.exit(2)
    t = time.time()
    for sp in SPACES:
        if sp not in only:
            continue
        if ck.time_left() < 40:
            ck.exhaustive = False
            ck.notes.append("space %s not started: deadline" % sp)
            continue
        t = time.time()
        if sp == "automaton":
            space_automaton(ck, hexe, gl, pool)
        elif sp == "grammar":
            space_grammar(ck, gl, pool)
        elif sp == "mutate":
            space_mutate(ck, hexe, gl, pool)
        elif sp == "layout":
            space_layout(ck, gl, pool)
        elif sp == "literals":
            space_literals(ck, hexe)
        elif sp == "options":
            space_options(ck, gl, pool)
        vlib.log("[C11 %s] %.1fs" % (sp, time.time() - t))
    for sig, n in sorted(ck.viol_sigs.items()):
        vlib.log("  unlisted signature x%d: %s" % (n, sig))
    sk = ck.counters.get("transitions_skipped_known_sanitizer_class", 0)
    if sk:
        ck.notes.append("automaton: %d transitions were not executed because the same (parser state, event, pending cluster empty?, muted region?) class had already produced a sanitizer report or a hang in this run; each such class is reported once" % sk)
    ck.counters["distinct_nontrivial"] = ck.counters.get("states", 0)
    ck.counters["evaluations"] = ck.counters.get("transitions", 0)
    if only != SPACES:
        ck.notes.append("debug run restricted to spaces: %s" % ",".join(only))
    th = ck.tier == "thorough"
    ck.finish(
        "automaton: BFS to the fixpoint of the canonical key over %s events (open(tag) x attribute menu for the 21 known tags + 1 unknown, close, 6 text events) on the real GKFparser, "
        "invariants on every transition (error state absorbing, error => message and line >= 1, recorded error => error state, no sanitizer report, canon-on-replay), accepted end states x 4 algorithms on gama-local; "
        "grammar: all XSD-derived documents %s x 3 attribute modes + one-optional-attribute-at-a-time + every enumeration value, each on gama-local; "
        "mutate: %s seeds (each valid one also parsed in-process with check_covariances on and off: same clusters, covariance dimension = number of observations): every split, every prefix%s, every position%s x 12 bytes in-process, accepted mutants and 1/%d of the refused ones on gama-local%s; "
        "layout: every valid seed document x %d physical layouts (one line, CRLF, padded lines of 4095/4096/4097/70000 bytes, 9000-byte comment, no final newline, blank lines, tabs, 2000-blank indentation) on gama-local: same class and byte-identical result document as for the original layout; "
        "literals: all strings over 9 letters up to length %d in 5 attribute classes + overflow literals; options: every option x {valid,empty,garbage,missing,before-input}, every pair, 2 inputs, degenerate inputs. "
        "states = canonical parser states + distinct documents/mutants/literals/command lines; transitions = parser events replayed + executable runs"
        % (ck.counters.get("automaton_events", "?"), "with 1..2 clusters x 1..2 observations" if th else "with 1 cluster x 1..2 observations and 2 clusters x 1 observation",
           "8 valid + 5 invalid", "" if th else " (stride 3 plus the last 64)", "" if th else " (stride 3)", 16 if th else 48,
           "; gama-g3 (2 seed documents: one covariance matrix per <obs>; a cluster assembled from three covariance pieces) / compare-xyz / gama-local-deformation: the seed and every prefix" + (" and every substitution" if th else ""), len(LAYOUTS), 6 if th else 5),
        assumptions=[
            "documented exit statuses of gama-local are {0,1,2,3} as read from main(); with XML output an error document is written and the status is 0",
            "hang = more than %d s CPU (ulimit -t) or %d s wall for an executable, more than 250 ms CPU for one in-process xml_parse call (an ordinary call takes < 0.1 ms)" % (CPU_LIMIT_S, WALL_LIMIT_S),
            "a parse error must carry a line >= 1 and a non-empty message; errors raised after parsing (no points, not adjustable, ...) need no line",
            "the region behind the error-lost defect (error recorded, parser not in the error state) is explored under a coarser key",
            "not covered: byte strings more than one edit / truncation away from a seed, documents with more than 2 clusters, literals longer than the bound",
        ])


if __name__ == "__main__":
    main()
