#!/usr/bin/env python3
"""Network-level (gama-local executable, LocalNetwork entry point) parts of
C01 / C02 / C03 on the complete family of small levelling networks: rows
e_j - e_i (height differences) and e_i (observed heights), banded covariance
matrices, fixed / free / constrained heights, 4 algorithms, all --cov-band.

The model is linear, so the harness's dense reference (python floats, 3-4
unknowns) is exact up to rounding; tolerances are the printed precision."""
import os, sys, itertools, json
sys.path.insert(0, os.path.join(os.path.dirname(os.path.abspath(__file__)), "..", "lib"))
import vlib, gnet
from gnet import Net, Pt, Obs, Cluster, band_cov, fill_values, to_gkf, run_gama, parse_result, ALGS

TRUE_Z = [10.0, 12.5, 15.25, 11.75]
NAMES = ["A", "B", "C", "D"]
STATUS_PATTERNS = {           # per point index -> status ; (only first n used)
    "fix1": ["fix", "adj", "adj", "adj"],
    "con1": ["con", "adj", "adj", "adj"],
    "allcon": ["con", "con", "con", "con"],
    "con23": ["adj", "con", "con", "adj"],
    "fix1con2": ["fix", "con", "adj", "adj"],
    "alladj": ["adj", "adj", "adj", "adj"],
}


def covfn(fam):
    def f(i, j):
        d = j - i
        if fam == 0:
            return [4.0 + (i % 3), 1.0, 0.5][d]
        s = [1.0, 2.0, 0.5, 1.5, 0.8]
        return [1.0, -0.3, 0.15][d] * s[i % 5] * s[j % 5] * 4.0
    return f


def build(n, cand_idx, cands, dh_band, co_band, fam, pattern, m0):
    net = Net(**{"sigma-apr": m0, "conf-pr": 0.95, "tol-abs": 1000, "sigma-act": "apriori"})
    st = STATUS_PATTERNS[pattern]
    net.points = [Pt(NAMES[i], z=TRUE_Z[i], zs=st[i], az=(0.003 * ((i * 3) % 5 - 2)) if st[i] != "fix" else True) for i in range(n)]
    dhs = []; cos = []
    for k in cand_idx:
        c = cands[k]
        e = 0.001 * (((k * 7 + 3) % 5) - 2) + 0.0005 * (k % 2)
        if c[0] == "dh": dhs.append(Obs("dh", NAMES[c[1]], NAMES[c[2]], err=e, stdev=None if dh_band is not None else 2.0 + (k % 3)))
        elif st[c[1]] == "fix": return None
        else: cos.append(Obs("coord", to=NAMES[c[1]], comps="z", err=(e,)))
    cl = []
    if dhs:
        cov = None
        if dh_band is not None:
            cov = band_cov(len(dhs), min(dh_band, len(dhs) - 1), covfn(fam))
        cl.append(Cluster("height-differences", dhs, cov=cov))
    if cos:
        cl.append(Cluster("coordinates", cos, cov=band_cov(len(cos), min(co_band, len(cos) - 1), covfn(1 - fam))))
    net.clusters = cl
    fill_values(net)
    return net


# ---------------------------------------------------------------- dense reference
def matinv(M):
    n = len(M); A = [list(map(float, r)) + [1.0 if i == j else 0.0 for j in range(n)] for i, r in enumerate(M)]
    for c in range(n):
        p = max(range(c, n), key=lambda r: abs(A[r][c]))
        if abs(A[p][c]) < 1e-13: return None
        A[c], A[p] = A[p], A[c]
        d = A[c][c]; A[c] = [v / d for v in A[c]]
        for r in range(n):
            if r != c and A[r][c] != 0.0:
                f = A[r][c]; A[r] = [a - f * b for a, b in zip(A[r], A[c])]
    return [r[n:] for r in A]


def mm(A, B):
    return [[sum(a * b for a, b in zip(r, c)) for c in zip(*B)] for r in A]


def tr(A):
    return [list(r) for r in zip(*A)]


def reference(net):
    """returns dict with unknown ids, A, C (mm^2), l (mm), components, deficiency info"""
    unk = [p.id for p in net.points if p.zs in ("adj", "con")]
    ui = {u: i for i, u in enumerate(unk)}
    approx = {p.id: p.z + (p.az if isinstance(p.az, float) else 0.0) for p in net.points}
    rows = []; l = []; blocks = []; obsdesc = []; obs_corr = []
    choices = {p.id: [approx[p.id]] for p in net.points}
    for c in net.clusters:
        start = len(rows)
        for o in c.obs:
            r = [0.0] * len(unk)
            if o.kind == "dh":
                if o.to in ui: r[ui[o.to]] += 1.0
                if o.frm in ui: r[ui[o.frm]] -= 1.0
                comp = approx[o.to] - approx[o.frm]; val = o.val
            else:
                if o.to in ui: r[ui[o.to]] += 1.0
                comp = approx[o.to]; val = o.val[0]
            rows.append(r); l.append((val - comp) * 1000.0)
            obsdesc.append((o.kind if o.kind == "dh" else "co", o.frm, o.to, val))
            obs_corr.append(c.cov is not None and c.cov[0] > 0)
            if o.kind != "dh": choices.setdefault(o.to, []).append(val)
        d = len(rows) - start
        Cb = [[0.0] * d for _ in range(d)]
        if c.cov is not None:
            band, rws = c.cov
            for i, rw in enumerate(rws):
                for k, v in enumerate(rw): Cb[i][i + k] = Cb[i + k][i] = v
        else:
            for i, o in enumerate(c.obs): Cb[i][i] = o.stdev ** 2
        blocks.append((start, Cb))
    m = len(rows)
    C = [[0.0] * m for _ in range(m)]
    for (s, Cb) in blocks:
        for i in range(len(Cb)):
            for j in range(len(Cb)): C[s + i][s + j] = Cb[i][j]
    # components of the graph on unknown points; datum ties
    parent = {u: u for u in unk}
    def find(a):
        while parent[a] != a: parent[a] = parent[parent[a]]; a = parent[a]
        return a
    tied = set(); used = set()
    for c in net.clusters:
        for o in c.obs:
            if o.kind == "dh":
                a, b = o.frm, o.to
                for q in (a, b):
                    if q in ui: used.add(q)
                if a in ui and b in ui: parent[find(a)] = find(b)
            else:
                if o.to in ui: used.add(o.to)
    for c in net.clusters:
        for o in c.obs:
            if o.kind == "dh":
                a, b = o.frm, o.to
                if a in ui and b not in ui: tied.add(find(a))
                if b in ui and a not in ui: tied.add(find(b))
            elif o.to in ui: tied.add(find(o.to))
    tied = {find(t) for t in tied}
    comps = {}
    for u in unk: comps.setdefault(find(u), []).append(u)
    deficient = [v for k, v in comps.items() if k not in tied]
    con = {p.id for p in net.points if p.zs == "con"}
    return dict(unk=unk, A=rows, C=C, l=l, deficient=deficient, con=con, used=used, approx=approx, obsdesc=obsdesc, approx_choices=choices, obs_corr=obs_corr)


def check_one(args):
    (exe, tmp, name, gkf, refd, alg, covbands, m0) = args
    out = {"viol": [], "alg": alg}
    r = run_gama(exe, gkf, tmp, name, args=["--algorithm", alg], want=("xml",))
    out["rc"] = r.rc
    R = parse_result(r.xml) if r.xml else None
    if R is None or R.error:
        out["error"] = (R.error if R else "no-xml rc=%s %s" % (r.rc, r.stderr[:100]))
        return out
    unk = refd["unk"]; A = refd["A"]; C = refd["C"]; l = refd["l"]; u = len(unk); m = len(A)
    P = matinv(C)
    P = [[m0 * m0 * v for v in row] for row in P]
    dx = []; approx_used = {}
    for q in unk:
        a = R.adjusted.get(q)
        if a is None: out["viol"].append(("removed-point", "unknown point %s missing from <adjusted>" % q)); return out
        z = a.get("z", a.get("Z"))
        ap = R.approx.get(q, {})
        apz = ap.get("z", ap.get("Z"))
        if apz is None or min(abs(apz - c) for c in refd["approx_choices"][q]) > 1e-9:
            out["viol"].append(("approx-not-from-input", "point %s: reported approximate height %s is neither the given one nor an observed coordinate %s" % (q, apz, refd["approx_choices"][q]))); return out
        approx_used[q] = apz
        dx.append((z - apz) * 1000.0)
    if len(R.obs) != m: out["viol"].append(("obs-count", "%d observations in result, %d in input" % (len(R.obs), m))); return out
    appr = dict(refd["approx"]); appr.update(approx_used)
    l = []
    for (kind, frm, to, val) in refd["obsdesc"]:
        comp = (appr[to] - appr[frm]) if kind == "dh" else appr[to]
        l.append((val - comp) * 1000.0)
    v = [(o["adj"] - o["obs"]) * 1000.0 for o in R.obs]
    out["summary"] = dict(dx=dx, v=v, pvv=R.pvv, dof=R.dof, defect=R.defect, cov=R.cov_flt, stdev=[o["stdev"] for o in R.obs], qrr=[o.get("qrr") for o in R.obs])
    # C01 (1) v = A dx - l
    e = max(abs(sum(A[i][j] * dx[j] for j in range(u)) - l[i] - v[i]) for i in range(m))
    if e > 2e-6: out["viol"].append(("C01|v!=Ax-l|" + alg, "max %g mm" % e))
    Pv = [sum(P[i][k] * v[k] for k in range(m)) for i in range(m)]
    e = max(abs(sum(A[i][j] * Pv[i] for i in range(m))) for j in range(u))
    sc = max(1.0, max(abs(x) for x in Pv))
    if e > 1e-5 * sc: out["viol"].append(("C01|normal-equations|" + alg, "max |A'Pv| %g (scale %g)" % (e, sc)))
    nul = len(refd["deficient"])
    if R.defect != nul: out["viol"].append(("C01|defect|" + alg, "defect %d, reference %d" % (R.defect, nul)))
    if R.dof != m - u + nul: out["viol"].append(("C01|dof|" + alg, "dof %d, reference %d" % (R.dof, m - u + nul)))
    for comp in refd["deficient"]:
        S = [q for q in comp if q in refd["con"]]
        s = sum(dx[unk.index(q)] for q in S)
        if abs(s) > 2e-6 * max(1, len(S)): out["viol"].append(("C01|min-norm|" + alg, "sum of corrections of constrained heights %s = %g mm" % (S, s)))
    pvv = sum(v[i] * Pv[i] for i in range(m))
    if abs(pvv - R.pvv) > 1e-6 * max(1.0, abs(pvv)) + 1e-9: out["viol"].append(("C01|pvv|" + alg, "reported %g, v'Pv %g" % (R.pvv, pvv)))
    # C03: cov-mat = m0^2 Q (apriori) = S-regularised g-inverse of A' C^-1 A, for every cov-band
    Cinv = matinv(C)
    N = mm(mm(tr(A), Cinv), A)
    E = []
    for comp in refd["deficient"]:
        E.append([1.0 if (q in comp and q in refd["con"]) else 0.0 for q in unk])
    G = [[1.0 if q in comp else 0.0 for q in unk] for comp in refd["deficient"]]
    k = len(E)
    B = [N[i] + [E[c][i] for c in range(k)] for i in range(u)] + [E[c] + [0.0] * k for c in range(k)]
    # bordered system: [N E; G' 0]; its inverse's top-left block is the reflexive g-inverse with (n_S)'Q = 0
    Bi = matinv(B)
    out["Qref"] = None
    if Bi is not None:
        Q = [row[:u] for row in Bi[:u]]
        out["Qref"] = Q
        # order of unknowns in the XML: original-index gives the order of rows
        order = [unk.index(pid) for pid in R.adj_order if pid in unk]
        def cmpcov(RR, tag):
            Mx = gnet.cov_full(RR); d = RR.cov_dim
            if d != u: out["viol"].append(("C03|cov-dim|" + alg, "%s dim %d unknowns %d" % (tag, d, u))); return
            for i in range(d):
                for j in range(d):
                    if Mx[i][j] is None: continue
                    ref = Q[order[i]][order[j]]
                    if abs(Mx[i][j] - ref) > 2e-7 * max(1.0, abs(ref)) + 1e-9:
                        out["viol"].append(("C03|cov-mat!=m0^2Q|" + alg, "%s entry (%d,%d) %g reference %g" % (tag, i, j, Mx[i][j], ref))); return
        cmpcov(R, "band=-1" if R.cov_band == u - 1 else "band=%d" % R.cov_band)
        full = gnet.cov_full(R)
        for b in covbands:
            r2 = run_gama(exe, gkf, tmp, name + "b", args=["--algorithm", alg, "--cov-band", str(b)], want=("xml",))
            R2 = parse_result(r2.xml) if r2.xml else None
            out["runs"] = out.get("runs", 0) + 1
            if R2 is None or R2.error: out["viol"].append(("C03|cov-band-run-failed|" + alg, "band %s: %s" % (b, R2.error if R2 else r2.stderr[:80]))); continue
            want = u - 1 if (b < 0 or b > u - 1) else b
            if R2.cov_band != want: out["viol"].append(("C03|cov-band-value|" + alg, "--cov-band %s gives band %d, expected %d" % (b, R2.cov_band, want))); continue
            M2 = gnet.cov_full(R2)
            for i in range(u):
                for j in range(u):
                    inside = abs(i - j) <= want
                    if inside != (M2[i][j] is not None) or (inside and abs(M2[i][j] - full[i][j]) > 1e-12 + 1e-9 * abs(full[i][j])):
                        out["viol"].append(("C03|cov-band-not-restriction|" + alg, "--cov-band %s entry (%d,%d)" % (b, i, j))); break
                else: continue
                break
            cmpcov(R2, "band=%s" % b)
        # stdev of adjusted observations = m0 * sqrt(a Q a') ; qrr relation left to C09
        for i, o in enumerate(R.obs):
            q = sum(A[i][a] * Q[a][b] * A[i][b] for a in range(u) for b in range(u))
            s = (max(q, 0.0)) ** 0.5
            if abs(o["stdev"] - s) > 1e-6 * max(1.0, s) + 1e-9:
                cls = "correlated-cluster" if refd["obs_corr"][i] else "uncorrelated"
                out["viol"].append(("C03|stdev-adj-obs|%s|%s" % (cls, alg), "obs %d stdev %g reference sqrt(aQa') %g" % (i, o["stdev"], s)))
                if cls == "uncorrelated": break
    return out


def close(a, b, tol=1e-7):
    if isinstance(a, (list, tuple)):
        return len(a) == len(b) and all(close(x, y, tol) for x, y in zip(a, b))
    if a is None or b is None: return a is b
    return abs(a - b) <= tol * max(1.0, abs(a), abs(b))


def run(pid, ck):
    exe = vlib.exe("rel", "gama-local")
    thorough = ck.tier == "thorough"
    jobs = []; meta = {}
    ns = [3, 4] if thorough else [3]
    kmax = 5 if thorough else 4
    count = 0
    for n in ns:
        cands = [("dh", i, j) for i in range(n) for j in range(i + 1, n)] + [("dh", n - 1, 0)] + [("co", i) for i in range(min(n, 2))]
        for k in range(2, kmax + 1):
            for idx in itertools.combinations(range(len(cands)), k):
                ndh = sum(1 for i in idx if cands[i][0] == "dh")
                layouts = [(None, 0, 0)] + [(b, cb, f) for b in range(0, min(3, max(1, ndh))) for cb in (0, 1) for f in (0, 1) if not (b == 0 and cb == 1 and f == 1)]
                if not thorough: layouts = [(None, 0, 0), (1, 0, 0), (2, 1, 1)]
                for pat in (STATUS_PATTERNS if thorough else ["fix1", "con1", "allcon", "con23"]):
                    for (b, cb, f) in layouts:
                        net = build(n, idx, cands, b, cb, f, pat, 2.0)
                        if net is None: ck.outcome("skipped:observed-height-of-fixed-point"); continue
                        refd = reference(net)
                        if len(refd["used"]) != len(refd["unk"]): ck.outcome("skipped:unused-point"); continue
                        resolvable = all(any(q in refd["con"] for q in comp) for comp in refd["deficient"])
                        if not refd["unk"]: continue
                        count += 1
                        key = "lev%d" % count
                        gkf = to_gkf(net)
                        meta[key] = dict(gkf=gkf, resolvable=resolvable, desc="n=%d obs=%s dh_band=%s co_band=%s fam=%d status=%s" % (n, [cands[i] for i in idx], b, cb, f, pat), refd=refd)
                        u = len(refd["unk"])
                        covbands = list(range(-1, u + 1)) if pid == "C03" else []
                        for alg in ALGS:
                            jobs.append((exe, ck.tmp, key + alg, gkf, refd, alg, covbands if alg in ("envelope", "gso") or thorough else [], 2.0))
    ck.count("states", count)
    if count: ck.sample(next(iter(meta.values()))["desc"])
    results = {}
    for job, out in zip(jobs, gnet.pool_map(check_one, jobs, workers=vlib.NCPU, chunksize=8)):
        key = job[2][:-len(job[5])]
        results.setdefault(key, {})[job[5]] = out
        ck.count("transitions", 1 + out.get("runs", 0)); ck.count("evaluations", 1 + out.get("runs", 0))
        if ck.time_left() < 5: ck.exhaustive = False; break
    for key, per in results.items():
        md = meta[key]
        files = {"input.gkf": md["gkf"]}
        if not md["resolvable"]:
            # ill posed: every algorithm must refuse in the same way (C02 last sentence)
            cls = tuple(sorted((a, "adjusted" if "summary" in o else "refused") for a, o in per.items()))
            ck.outcome("illposed:" + ",".join("%s=%s" % c for c in cls))
            if pid == "C02":
                for a, o in per.items():
                    if "summary" in o:
                        ck.violation("C02|net|illposed-adjusted|" + a, "levelling network whose free part has no constrained height is adjusted by %s: %s" % (a, md["desc"]), replay={"desc": md["desc"], "alg": a}, files=files)
            continue
        for a, o in per.items():
            if "error" in o:
                ck.outcome("refused-wellposed:" + a)
                if pid in ("C01", "C02"):
                    ck.violation("%s|net|refused-wellposed|%s" % (pid, a), "%s: %s" % (md["desc"], o["error"]), replay={"desc": md["desc"], "alg": a}, files=files)
                continue
            ck.outcome("adjusted:%s:defect=%d" % (a, o["summary"]["defect"]))
            for (sig, detail) in o["viol"]:
                if sig.startswith(pid + "|") or (pid == "C01" and "|" not in sig):
                    s = sig if "|" in sig else "C01|net|" + sig
                    ck.violation(s.replace(pid + "|", pid + "|net|", 1) if not s.startswith(pid + "|net|") else s, md["desc"] + " :: " + detail, replay={"desc": md["desc"], "alg": a}, files=files)
        if pid == "C02":
            base = per.get("envelope", {}).get("summary")
            for a, o in per.items():
                s = o.get("summary")
                if a == "envelope" or s is None or base is None: continue
                ck.count("pairs_compared")
                for fld, tol in (("dx", 1e-6), ("v", 1e-6), ("pvv", 1e-6), ("dof", 0), ("defect", 0), ("cov", 1e-6), ("stdev", 1e-6), ("qrr", 2e-3)):
                    if not close(base[fld], s[fld], tol or 1e-12):
                        ck.violation("C02|net|%s|envelope~%s" % (fld, a), "%s: %s differs: %s vs %s" % (md["desc"], fld, base[fld], s[fld]), replay={"desc": md["desc"], "alg": a}, files=files)
                        break
    return ck


if __name__ == "__main__":
    pid = sys.argv[1]; sys.argv = [sys.argv[0]] + sys.argv[2:]
    ck = vlib.Check(pid)
    run(pid, ck)
    ck.counters["distinct_nontrivial"] = ck.counters.get("states", 0)
    ck.finish("levelling family only (debug entry)")
