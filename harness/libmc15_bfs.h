// libmc15_bfs.h -- copy / assign / move / reset histories: explicit-state BFS to a fixpoint (C15)
//
// A state is the tuple of the *private fields* of N objects of one class (data
// pointer abstracted to null/non-null + aliasing pattern, sz, row_, col_, dim_,
// band_ ... and the contents).  A state is materialised by writing exactly those
// fields into fresh objects (no operation under test is used for that), then ONE
// real operation is executed and the result is compared with the value model
// (std::vector<double> per object).  Every discovered state also keeps its
// shortest operation history; histories are replayed from three default
// constructed objects with real operations only (`--case bfs...##<history>`
// and the trace validation at the end of the search).
//
// Besides {copy-construct, move-construct, copy-assign, move-assign, self-assign, reset(n), reset(), write} the alphabet
// contains the in-place / state-caching operations of each class, with the model applying the mathematical operation:
//   Vec: sort (S), += (P);  Mat: transpose() (T), invert() (I), A = inv(B) (J);
//   SymMat: cholDec() (K), invert() (V), solve(rhs) (Q);  CovMat: cholDec() (K), solve (Q);  BandMat: K, Q, triDiag() (G).
// They are enabled where the exact result stays in the small integer alphabet (unimodular matrices, integer LL' / LDL').
// Raw member pointers that cache a buffer address (Mat::pentry, BandMat::addr_m_) are part of the state, abstracted to
// {null, own buffer, buffer of object j, stale}; "stale" is materialised as a pointer to freed memory (ASan reports any use).
#ifndef VERIF_LIBMC15_BFS_H
#define VERIF_LIBMC15_BFS_H
#include "libmc15_base.h"
#include <deque>
#include <unordered_map>
#include <sanitizer/asan_interface.h>

struct Shape { int a, b; };
struct Raw { int sz = 0; bool nonnull = false; const void* rep = nullptr; std::vector<double> data; std::vector<int> f; std::vector<const void*> hp; std::vector<int> hk; };
// a permanently poisoned block stands for "stale": any access through it is an ASan report, and it is never reallocated
static double* dangling() { static double* d = [] { double* p = new double[8]; __asan_poison_memory_region(p, 8 * sizeof(double)); return p; }(); return d; }
// kinds of cached pointers: 0 null, 1 own buffer, 2+j buffer of object j, 9 stale
static void classify(std::vector<Raw>& raws) { for (size_t i = 0; i < raws.size(); i++) { raws[i].hk.clear(); for (const void* q : raws[i].hp) { int k = 9; if (!q) k = 0; else if (q == raws[i].rep) k = 1; else for (size_t j = 0; j < raws.size(); j++) if (j != i && raws[j].rep && q == raws[j].rep) { k = 2 + (int)j; break; } raws[i].hk.push_back(k); } } }
static bool iinv(const IMat& M, IMat& R) { int n = M.r; I64 det = idet(M); if (det != 1 && det != -1) return false; R = IMat(n, n); if (n == 1) { R(0, 0) = det; return true; }
  for (int i = 0; i < n; i++) for (int j = 0; j < n; j++) { std::vector<int> ri, ci; for (int k = 0; k < n; k++) { if (k != j) ri.push_back(k); if (k != i) ci.push_back(k); } IMat S(n - 1, n - 1); for (int a = 0; a < n - 1; a++) for (int b = 0; b < n - 1; b++) S(a, b) = M(ri[a], ci[b]); R(i, j) = (((i + j) & 1) ? -1 : 1) * idet(S) * det; } return true; }
static bool within(const IMat& M, int lo, int hi) { for (I64 x : M.a) if (x < lo || x > hi) return false; return true; }
struct Val { int a = 0, b = 0; std::vector<int> cells; bool moved = false; bool operator==(const Val& o) const { return a == o.a && b == o.b && cells == o.cells; } };

template <class T> struct Tr;
template <class T> static void poke_mem(T* t, const Raw& r) {
  delete[] t->rep; t->rep = nullptr; t->sz = r.sz;
  if (r.nonnull) { t->rep = new double[r.sz]; for (int i = 0; i < r.sz; i++) t->rep[i] = r.data[i]; }
}
template <class T> static void snap_mem(const T& t, Raw& r) {
  r.sz = t.sz; r.rep = t.rep; r.nonnull = t.rep != nullptr; r.data.clear();
  if (t.rep && t.sz > 0 && t.sz <= 64) r.data.assign(t.rep, t.rep + t.sz);
}

template <> struct Tr<Vec> {
  static const char* name() { return "Vec"; }
  static std::vector<Shape> menu(int lvl) { (void)lvl; return {{0, 0}, {1, 0}, {2, 0}, {3, 0}}; }
  static Vec* fresh() { return new Vec(); }
  static void reset(Vec& v, Shape s) { v.reset(s.a); v.set_zero(); }
  static void reset0(Vec& v) { v.reset(); }
  static int ncells(const Val& v) { return v.a; }
  static Val zero(Shape s) { Val v; v.a = s.a; v.cells.assign(s.a, 0); return v; }
  static void write(Vec& v, const Val&, int k, double x) { v(k + 1) = x; }
  static Raw snap(const Vec& v) { Raw r; snap_mem(v, r); return r; }
  static Vec* poke(const Raw& r) { Vec* v = new Vec(); poke_mem(v, r); return v; }
  static void setp(Vec&, int, void*) {}
  static const char* iops(bool) { return "SP"; }
  static bool ibin(char t) { return t == 'P'; }
  static const char* iname(char t) { return t == 'S' ? "sort" : "plus-assign"; }
  static bool ien(char t, const std::vector<Val>& val, int i, int j, int wmax) {
    if (t == 'S') return true;
    if (val[i].a != val[j].a || val[i].a == 0) return false;
    for (int k = 0; k < val[i].a; k++) { int x = val[i].cells[k] + val[j].cells[k]; if (x < 0 || x > wmax) return false; }
    return true;
  }
  static std::string iapply(char t, std::vector<Vec*>& ob, int i, int j, const std::vector<Val>&) { if (t == 'S') GNU_gama::sort(*ob[i]); else { Vec& src = *ob[j]; *ob[i] += src; } return ""; }
  static void imodel(char t, std::vector<Val>& val, int i, int j) { if (t == 'S') std::sort(val[i].cells.begin(), val[i].cells.end()); else { std::vector<int> c = val[j].cells; for (size_t k = 0; k < c.size(); k++) val[i].cells[k] += c[k]; } }
  // value seen through the public API; false + why if the private fields are inconsistent
  static bool value(const Vec& v, const Raw& r, Val& out, std::string& why) {
    if (r.sz < 0 || r.sz > 64) { why = "sz " + std::to_string(r.sz); return false; }
    if (r.sz > 0 && !r.nonnull) { why = "null data pointer with sz " + std::to_string(r.sz); return false; }
    out.a = v.dim(); out.b = 0; out.cells.clear();
    for (int i = 1; i <= v.dim(); i++) out.cells.push_back((int)v(i));
    for (int i = 1; i <= v.dim(); i++) if (v(i) != out.cells[i - 1]) { why = "non-integer content"; return false; }
    return true;
  }
};
template <> struct Tr<Mat> {
  static const char* name() { return "Mat"; }
  static std::vector<Shape> menu(int lvl) {
    if (lvl == 2) return {{0, 0}, {1, 1}, {2, 2}};                 // in-place configurations
    if (lvl == 3) return {{0, 0}, {1, 1}};
    if (lvl == 4) return {{0, 0}, {1, 1}, {2, 2}, {1, 2}, {2, 1}};
    std::vector<Shape> m = {{0, 0}, {1, 1}, {1, 2}, {2, 1}, {2, 2}}; if (lvl >= 1) { m.push_back({0, 2}); m.push_back({2, 0}); m.push_back({1, 3}); m.push_back({3, 1}); } return m; }
  static Mat* fresh() { return new Mat(); }
  static void reset(Mat& v, Shape s) { v.reset(s.a, s.b); v.set_zero(); }
  static void reset0(Mat& v) { v.reset(); }
  static int ncells(const Val& v) { return v.a * v.b; }
  static Val zero(Shape s) { Val v; v.a = s.a; v.b = s.b; v.cells.assign(s.a * s.b, 0); return v; }
  static void write(Mat& v, const Val& m, int k, double x) { v(k / m.b + 1, k % m.b + 1) = x; }
  static Raw snap(const Mat& v) { Raw r; snap_mem(v, r); r.f = {v.row_, v.col_}; r.hp = {v.pentry}; return r; }
  static void setp(Mat& v, int, void* q) { v.pentry = (double*)q; }
  static const char* iops(bool inpl) { return inpl ? "TIJ" : "T"; }
  static bool ibin(char t) { return t == 'J'; }
  static const char* iname(char t) { return t == 'T' ? "transpose-in-place" : (t == 'I' ? "invert" : "assign-inv(B)"); }
  static IMat dense(const Val& v) { IMat M(v.a, v.b); for (int k = 0; k < v.a * v.b; k++) M.a[k] = v.cells[k]; return M; }
  static bool ien(char t, const std::vector<Val>& val, int i, int j, int) {
    if (t == 'T') return true;
    const Val& s = val[t == 'J' ? j : i]; if (s.a != s.b || s.a == 0) return false;
    IMat R; return iinv(dense(s), R) && within(R, -1, 1);
  }
  static std::string iapply(char t, std::vector<Mat*>& ob, int i, int j, const std::vector<Val>&) {
    if (t == 'T') ob[i]->transpose(); else if (t == 'I') ob[i]->invert(); else { Mat& src = *ob[j]; *ob[i] = GNU_gama::inv(src); }
    return "";
  }
  static void imodel(char t, std::vector<Val>& val, int i, int j) {
    if (t == 'T') { Val s = val[i]; val[i].a = s.b; val[i].b = s.a; for (int r = 0; r < s.a; r++) for (int c = 0; c < s.b; c++) val[i].cells[c * s.a + r] = s.cells[r * s.b + c]; return; }
    Val s = val[t == 'J' ? j : i]; IMat R; iinv(dense(s), R); for (size_t k = 0; k < R.a.size(); k++) s.cells[k] = (int)R.a[k]; s.moved = false; val[i] = s;
  }
  static Mat* poke(const Raw& r) { Mat* v = new Mat(); poke_mem(v, r); v->row_ = r.f[0]; v->col_ = r.f[1]; return v; }
  static bool value(const Mat& v, const Raw& r, Val& out, std::string& why) {
    if (r.f[0] < 0 || r.f[1] < 0 || r.sz != r.f[0] * r.f[1]) { why = "row_ " + std::to_string(r.f[0]) + " col_ " + std::to_string(r.f[1]) + " sz " + std::to_string(r.sz); return false; }
    if (r.sz > 0 && !r.nonnull) { why = "null data pointer with sz " + std::to_string(r.sz); return false; }
    out.a = v.rows(); out.b = v.cols(); out.cells.clear();
    for (int i = 1; i <= v.rows(); i++) for (int j = 1; j <= v.cols(); j++) { double x = static_cast<const Mat&>(v)(i, j); out.cells.push_back((int)x); if (x != (int)x) { why = "non-integer content"; return false; } }
    return true;
  }
};
template <> struct Tr<SymMat> {
  static const char* name() { return "SymMat"; }
  static std::vector<Shape> menu(int lvl) { std::vector<Shape> m = {{0, 0}, {1, 0}, {2, 0}, {2, 1}}; if (lvl >= 1) m.push_back({3, 0}); return m; }   // b = 1: reset(r,c) instead of reset(d)
  static SymMat* fresh() { return new SymMat(); }
  static void reset(SymMat& v, Shape s) { if (s.b) v.reset(s.a, s.a); else v.reset(s.a); v.set_zero(); }
  static void reset0(SymMat& v) { v.reset(0); }
  static int ncells(const Val& v) { return v.a * (v.a + 1) / 2; }
  static Val zero(Shape s) { Val v; v.a = s.a; v.cells.assign(s.a * (s.a + 1) / 2, 0); return v; }
  static void write(SymMat& v, const Val&, int k, double x) { int i = 0; while ((i + 1) * (i + 2) / 2 <= k) i++; int j = k - i * (i + 1) / 2; if (k & 1) v(j + 1, i + 1) = x; else v(i + 1, j + 1) = x; }
  static Raw snap(const SymMat& v) { Raw r; snap_mem(v, r); r.f = {v.row_, v.col_, v.dim_, v.idf_}; return r; }
  static SymMat* poke(const Raw& r) { SymMat* v = new SymMat(); poke_mem(v, r); v->row_ = r.f[0]; v->col_ = r.f[1]; v->dim_ = r.f[2]; v->idf_ = r.f[3]; return v; }
  static void setp(SymMat&, int, void*) {}
  static const char* iops(bool inpl) { return inpl ? "KVQ" : ""; }
  static bool ibin(char) { return false; }
  static const char* iname(char t) { return t == 'K' ? "cholDec" : (t == 'V' ? "invert" : "solve"); }
  static IMat dense(const Val& v) { IMat M(v.a, v.a); for (int i = 0; i < v.a; i++) for (int j = 0; j <= i; j++) M(i, j) = M(j, i) = v.cells[i * (i + 1) / 2 + j]; return M; }
  // integer Cholesky factor A = L L' (false if A is not positive definite or the factor is not a small integer matrix)
  static bool ichol(const Val& v, std::vector<int>& L) {
    int d = v.a; if (d == 0) return false; IMat A = dense(v); if (!is_pd(A)) return false; L.assign(v.cells.size(), 0);
    auto l = [&](int i, int j) -> int& { return L[i * (i + 1) / 2 + j]; };
    for (int i = 0; i < d; i++) for (int j = 0; j <= i; j++) { I64 x = A(i, j); for (int k = 0; k < j; k++) x -= (I64)l(i, k) * l(j, k);
      if (i == j) { int q = (int)llround(sqrt((double)x)); if (x <= 0 || (I64)q * q != x) return false; l(i, i) = q; } else { if (x % l(j, j)) return false; l(i, j) = (int)(x / l(j, j)); }
      if (abs(l(i, j)) > 2) return false; }
    return true;
  }
  static bool ien(char t, const std::vector<Val>& val, int i, int, int) {
    const Val& v = val[i]; if (v.a == 0) return false; std::vector<int> L;
    if (t == 'K') return ichol(v, L);
    if (t == 'V') { IMat A = dense(v), R; return is_pd(A) && iinv(A, R) && within(R, -2, 2); }
    for (int k = 0; k < v.a; k++) if (v.cells[k * (k + 1) / 2 + k] == 0) return false;
    return true;
  }
  static std::string iapply(char t, std::vector<SymMat*>& ob, int i, int, const std::vector<Val>& val) {
    if (t == 'K') { ob[i]->cholDec(); return ""; }
    if (t == 'V') { ob[i]->invert(); return ""; }
    // solve with the current contents taken as the factor L
    const Val& v = val[i]; int d = v.a; Vec b(d); std::vector<LD> x(d); for (int k = 0; k < d; k++) { b(k + 1) = k + 1; x[k] = k + 1; }
    static_cast<const SymMat&>(*ob[i]).solve(b);
    auto l = [&](int r, int c) { return (LD)v.cells[r * (r + 1) / 2 + c]; };
    for (int r = 0; r < d; r++) { for (int c = 0; c < r; c++) x[r] -= l(r, c) * x[c]; x[r] /= l(r, r); }
    for (int r = d - 1; r >= 0; r--) { for (int c = r + 1; c < d; c++) x[r] -= l(c, r) * x[c]; x[r] /= l(r, r); }
    for (int k = 0; k < d; k++) if (!(fabsl(x[k] - b(k + 1)) <= 1e-12L * std::max<LD>(1, fabsl(x[k])))) return "solve: x(" + std::to_string(k + 1) + ") = " + str(b(k + 1)) + " expected " + str((double)x[k]);
    return "";
  }
  static void imodel(char t, std::vector<Val>& val, int i, int) {
    if (t == 'K') { std::vector<int> L; ichol(val[i], L); val[i].cells = L; }
    else if (t == 'V') { IMat R; iinv(dense(val[i]), R); for (int r = 0; r < val[i].a; r++) for (int c = 0; c <= r; c++) val[i].cells[r * (r + 1) / 2 + c] = (int)R(r, c); }
  }
  static bool value(const SymMat& v, const Raw& r, Val& out, std::string& why) {
    int d = r.f[2];
    if (d < 0 || r.f[0] != d || r.f[1] != d || r.sz != d * (d + 1) / 2) { why = "row_ " + std::to_string(r.f[0]) + " col_ " + std::to_string(r.f[1]) + " dim_ " + std::to_string(d) + " sz " + std::to_string(r.sz); return false; }
    if (r.sz > 0 && !r.nonnull) { why = "null data pointer with sz " + std::to_string(r.sz); return false; }
    out.a = v.dim(); out.b = 0; out.cells.clear();
    for (int i = 1; i <= d; i++) for (int j = 1; j <= i; j++) { double x = v(i, j); if (v(j, i) != x) { why = "S(i,j) != S(j,i)"; return false; } out.cells.push_back((int)x); if (x != (int)x) { why = "non-integer content"; return false; } }
    return true;
  }
};
template <class BM, bool PAD> struct TrBand {
  static std::vector<Shape> menu(int lvl) { if (lvl == 3) return {{0, 0}, {2, 1}, {3, 2}}; std::vector<Shape> m = {{0, 0}, {1, 0}, {2, 0}, {2, 1}}; if (lvl >= 1) { m.push_back({3, 0}); m.push_back({3, 1}); m.push_back({3, 2}); } return m; }
  static BM* fresh() { return new BM(); }
  static void reset(BM& v, Shape s) { v.reset(s.a, s.b); v.set_zero(); }
  static void reset0(BM& v) { v.reset(); }
  static int ncells(const Val& v) { return v.a * (v.b + 1) - v.b * (v.b + 1) / 2; }
  static Val zero(Shape s) { Val v; v.a = s.a; v.b = s.b; v.cells.assign(ncells(v), 0); return v; }
  static void cellij(const Val& m, int k, int& i, int& j) { int t = 0; for (i = 0; i < m.a; i++) for (j = i; j < m.a && j <= i + m.b; j++, t++) if (t == k) return; }
  static void write(BM& v, const Val& m, int k, double x) { int i, j; cellij(m, k, i, j); if (k & 1) v(j + 1, i + 1) = x; else v(i + 1, j + 1) = x; }
  static bool ibin(char) { return false; }
  static const char* iname(char t) { return t == 'K' ? "cholDec" : (t == 'Q' ? "solve" : "triDiag"); }
  static int cidx(const Val& m, int i, int j) { int t = 0; for (int r = 0; r < m.a; r++) for (int c = r; c < m.a && c <= r + m.b; c++, t++) if (r == i && c == j) return t; return -1; }
  static IMat dense(const Val& v) { IMat M(v.a, v.a); int t = 0; for (int i = 0; i < v.a; i++) for (int j = i; j < v.a && j <= i + v.b; j++, t++) M(i, j) = M(j, i) = v.cells[t]; return M; }
  // integer factor A = L D L' in band storage (D on the diagonal, L' above it)
  static bool ildl(const Val& v, std::vector<int>& F) {
    int d = v.a; if (d == 0) return false; IMat A = dense(v); if (!is_pd(A)) return false;
    std::vector<std::vector<I64>> l(d, std::vector<I64>(d, 0)); std::vector<I64> dd(d, 0);
    for (int i = 0; i < d; i++) { I64 x = A(i, i); for (int k = 0; k < i; k++) x -= l[i][k] * l[i][k] * dd[k]; if (x <= 0 || x > 2) return false; dd[i] = x;
      for (int j = i + 1; j < d; j++) { I64 y = A(j, i); for (int k = 0; k < i; k++) y -= l[j][k] * l[i][k] * dd[k]; if (y % x) return false; l[j][i] = y / x; if (l[j][i] < -2 || l[j][i] > 2) return false; if (j > i + v.b && l[j][i] != 0) return false; } }
    F.assign(v.cells.size(), 0); int t = 0; for (int i = 0; i < d; i++) for (int j = i; j < d && j <= i + v.b; j++, t++) F[t] = (int)(i == j ? dd[i] : l[j][i]);
    return true;
  }
  static bool ien(char t, const std::vector<Val>& val, int i, int, int) {
    const Val& v = val[i]; if (v.a == 0) return false; std::vector<int> F;
    if (t == 'K') return ildl(v, F);
    if (t == 'G') return v.b <= 1 || (v.b == 2 && v.a == 3 && v.cells[cidx(v, 0, 2)] == 0);
    for (int k = 0; k < v.a; k++) if (v.cells[cidx(v, k, k)] == 0) return false;
    return true;
  }
  static std::string solve_query(const BM& m, const Val& v) {
    int d = v.a; Vec b(d); std::vector<LD> x(d); for (int k = 0; k < d; k++) { b(k + 1) = k + 1; x[k] = k + 1; }
    m.solve(b);
    auto u = [&](int r, int c) { return (c <= r + v.b) ? (LD)v.cells[cidx(v, r, c)] : (LD)0; };   // r <= c
    for (int r = 0; r < d; r++) for (int c = 0; c < r; c++) x[r] -= u(c, r) * x[c];
    for (int r = 0; r < d; r++) x[r] /= u(r, r);
    for (int r = d - 1; r >= 0; r--) for (int c = r + 1; c < d; c++) x[r] -= u(r, c) * x[c];
    for (int k = 0; k < d; k++) if (!(fabsl(x[k] - b(k + 1)) <= 1e-12L * std::max<LD>(1, fabsl(x[k])))) return "solve: x(" + std::to_string(k + 1) + ") = " + str(b(k + 1)) + " expected " + str((double)x[k]);
    return "";
  }
  static void imodel(char t, std::vector<Val>& val, int i, int) { if (t == 'K') { std::vector<int> F; ildl(val[i], F); val[i].cells = F; } }
  static bool value_common(const BM& v, const Raw& r, int d, int b, int expect_sz, Val& out, std::string& why) {
    if (d < 0 || b < 0 || r.sz != expect_sz) { why = "dim " + std::to_string(d) + " band " + std::to_string(b) + " sz " + std::to_string(r.sz); return false; }
    if (r.sz > 0 && !r.nonnull) { why = "null data pointer with sz " + std::to_string(r.sz); return false; }
    out.a = v.dim(); out.b = v.bandWidth(); out.cells.clear();
    if (d > 0 && b >= d) { why = "band " + std::to_string(b) + " >= dim " + std::to_string(d); return false; }
    const BM& c = v;
    for (int i = 1; i <= d; i++) for (int j = i; j <= d && j <= i + b; j++) { double x = c(i, j); if (c(j, i) != x) { why = "C(i,j) != C(j,i)"; return false; } out.cells.push_back((int)x); if (x != (int)x) { why = "non-integer content"; return false; } }
    return true;
  }
};
template <> struct Tr<CovMat> : TrBand<CovMat, false> {
  static const char* name() { return "CovMat"; }
  static void setp(CovMat&, int, void*) {}
  static const char* iops(bool inpl) { return inpl ? "KQ" : ""; }
  static std::string iapply(char t, std::vector<CovMat*>& ob, int i, int, const std::vector<Val>& val) { if (t == 'K') { ob[i]->cholDec(); return ""; } return solve_query(*ob[i], val[i]); }
  static Raw snap(const CovMat& v) { Raw r; snap_mem(v, r); r.f = {v.row_, v.col_, v.band_, v.band_1, v.dim_b}; return r; }
  static CovMat* poke(const Raw& r) { CovMat* v = new CovMat(); poke_mem(v, r); v->row_ = r.f[0]; v->col_ = r.f[1]; v->band_ = r.f[2]; v->band_1 = r.f[3]; v->dim_b = r.f[4]; return v; }
  static bool value(const CovMat& v, const Raw& r, Val& out, std::string& why) {
    int d = r.f[0], b = r.f[2];
    if (r.f[1] != d) { why = "row_ != col_"; return false; }
    if (d > 0 && (r.f[3] != b + 1 || r.f[4] != d - b)) { why = "band_1 " + std::to_string(r.f[3]) + " dim_b " + std::to_string(r.f[4]) + " for dim " + std::to_string(d) + " band " + std::to_string(b); return false; }
    return value_common(v, r, d, b, d * (b + 1) - b * (b + 1) / 2, out, why);
  }
};
template <> struct Tr<BandMat> : TrBand<BandMat, true> {
  static const char* name() { return "BandMat"; }
  static void setp(BandMat& v, int, void* q) { v.addr_m_ = (double*)q; }
  static const char* iops(bool inpl) { return inpl ? "KQG" : ""; }
  static std::string iapply(char t, std::vector<BandMat*>& ob, int i, int, const std::vector<Val>& val) { if (t == 'K') { ob[i]->cholDec(); return ""; } if (t == 'G') { ob[i]->triDiag(); return ""; } return solve_query(*ob[i], val[i]); }
  static Raw snap(const BandMat& v) { Raw r; snap_mem(v, r); r.f = {v.row_, v.col_, v.band_}; r.hp = {v.addr_m_}; return r; }
  static BandMat* poke(const Raw& r) { BandMat* v = new BandMat(); poke_mem(v, r); v->row_ = r.f[0]; v->col_ = r.f[1]; v->band_ = r.f[2]; return v; }
  static bool value(const BandMat& v, const Raw& r, Val& out, std::string& why) {
    int d = r.f[0], b = r.f[2];
    if (r.f[1] != d) { why = "row_ != col_"; return false; }
    return value_common(v, r, d, b, d * (b + 1), out, why);
  }
};

struct Op { char t = 0; int i = 0, j = 0, k = 0, v = 0; };   // t: C copy-construct, X move-construct, A copy-assign, M move-assign, R reset(shape j)+set_zero, Z reset(), W write cell k := v
static std::string opstr(const Op& o) {
  std::string s(1, o.t); s += std::to_string(o.i);
  if (o.t == 'C' || o.t == 'X' || o.t == 'A' || o.t == 'M' || o.t == 'R' || o.t == 'P' || o.t == 'J') s += "." + std::to_string(o.j);
  if (o.t == 'R') s += "." + std::to_string(o.k);
  if (o.t == 'W') s += "." + std::to_string(o.k) + "." + std::to_string(o.v);
  return s;
}
static Op opparse(const std::string& s) {
  Op o; o.t = s[0]; auto f = ints(s.substr(1), '.');
  // ints() drops empty fields only; all fields are present
  o.i = f.size() > 0 ? f[0] : 0;
  if (o.t == 'W') { o.k = f.size() > 1 ? f[1] : 0; o.v = f.size() > 2 ? f[2] : 0; }
  else { o.j = f.size() > 1 ? f[1] : 0; o.k = f.size() > 2 ? f[2] : 0; }
  return o;
}

static std::function<std::string()> g_bfs_hist;   // history of the transition being executed (for the crash report of the unit)
template <class T> struct Bfs {
  typedef Tr<T> R;
  int N; int lvl; int wlimit;   // objects, shape-menu level, number of writable cells per object (first/last/middle when limited)
  bool inpl = false; int wmax = 1;   // in-place operations enabled; written values cycle through 0..wmax
  std::string uname;
  struct Node { std::vector<Raw> raw; std::vector<Val> val; int parent; Op op; int depth; };
  std::vector<Node> nodes;
  std::unordered_map<std::string, int> index;
  long long cur_node = -1; Op cur_op;
  std::string last_shown;
  mutable long long n_mf_unchanged = 0, n_mf_empty = 0; long long n_eval = 0;

  // canonical key: two letters per small integer field
  static void put(std::string& k, long long x) { if (x >= -32 && x < 224) { k += (char)('a' + ((x + 32) >> 4)); k += (char)('a' + ((x + 32) & 15)); } else { k += '{'; k += std::to_string(x); k += '}'; } }
  std::string key(const std::vector<Raw>& raws) const {
    std::string k; k.reserve(64);
    for (int i = 0; i < N; i++) {
      const Raw& r = raws[i];
      put(k, r.sz); k += (r.nonnull ? 'p' : 'n');
      // aliasing pattern: index of the first object with the same non-null pointer
      int al = i; for (int j = 0; j < i; j++) if (r.nonnull && raws[j].rep == r.rep) { al = j; break; }
      put(k, al); k += ':';
      for (int x : r.f) put(k, x);
      k += ':';
      for (double d : r.data) { if (d == (int)d) put(k, (int)d); else { k += '('; k += str(d); k += ')'; } }
      for (int x : r.hk) { k += 'q'; put(k, x); }
      k += '|';
    }
    return k;
  }
  // readable form of a state (sizes, null/non-null data pointer, alias index, private fields, contents, cached pointer kinds)
  std::string show(const std::vector<Raw>& raws) const {
    std::string k;
    for (int i = 0; i < N; i++) {
      const Raw& r = raws[i];
      k += std::to_string(r.sz) + (r.nonnull ? "p" : "n");
      int al = i; for (int j = 0; j < i; j++) if (r.nonnull && raws[j].rep == r.rep) { al = j; break; }
      k += std::to_string(al) + ":";
      for (int x : r.f) k += std::to_string(x) + ",";
      k += ":";
      for (double d : r.data) k += (d == 0 ? "0" : d == 1 ? "1" : "(" + str(d) + ")");
      for (int x : r.hk) k += ":q" + std::to_string(x);
      k += "|";
    }
    return k;
  }
  std::string history(int n, const Op* last = nullptr) const {
    std::vector<std::string> h; for (int x = n; x > 0; x = nodes[x].parent) h.push_back(opstr(nodes[x].op));
    std::string s; for (size_t i = h.size(); i-- > 0;) { if (!s.empty()) s += ","; s += h[i]; }
    if (last) { if (!s.empty()) s += ","; s += opstr(*last); }
    return s;
  }
  std::vector<int> wcells(int n) const {
    std::vector<int> c; if (n <= wlimit) { for (int i = 0; i < n; i++) c.push_back(i); return c; }
    c.push_back(0); if (n / 2 != 0 && n / 2 != n - 1) c.push_back(n / 2); c.push_back(n - 1); return c;
  }
  std::vector<Op> ops_of(const std::vector<Val>& val) const {
    std::vector<Op> ops; std::vector<Shape> menu = R::menu(lvl);
    for (char t : {'C', 'X', 'A', 'M'}) for (int i = 0; i < N; i++) for (int j = 0; j < N; j++) { Op o; o.t = t; o.i = i; o.j = j; ops.push_back(o); }
    for (int i = 0; i < N; i++) for (size_t s = 0; s < menu.size(); s++) { Op o; o.t = 'R'; o.i = i; o.j = menu[s].a; o.k = menu[s].b; ops.push_back(o); }
    for (int i = 0; i < N; i++) { Op o; o.t = 'Z'; o.i = i; ops.push_back(o); }
    for (int i = 0; i < N; i++) for (int k : wcells(R::ncells(val[i]))) { Op o; o.t = 'W'; o.i = i; o.k = k; int c = val[i].cells[k]; o.v = (c >= 0 && c <= wmax) ? (c + 1) % (wmax + 1) : 0; ops.push_back(o); }
    for (const char* t = R::iops(inpl); *t; t++) for (int i = 0; i < N; i++) for (int j = 0; j < (R::ibin(*t) ? N : 1); j++) if (R::ien(*t, val, i, j, wmax)) { Op o; o.t = *t; o.i = i; o.j = j; ops.push_back(o); }
    return ops;
  }
  // the real operation
  static std::string apply(std::vector<T*>& ob, const std::vector<Val>& val, const Op& o) {
    switch (o.t) {
      default: return R::iapply(o.t, ob, o.i, o.j, val);
      case 'C': { T* t = new T(*ob[o.j]); delete ob[o.i]; ob[o.i] = t; break; }
      case 'X': { T* t = new T(std::move(*ob[o.j])); delete ob[o.i]; ob[o.i] = t; break; }
      case 'A': { T& src = *ob[o.j]; *ob[o.i] = src; break; }
      case 'M': { T& src = *ob[o.j]; *ob[o.i] = std::move(src); break; }
      case 'R': R::reset(*ob[o.i], Shape{o.j, o.k}); break;
      case 'Z': R::reset0(*ob[o.i]); break;
      case 'W': R::write(*ob[o.i], val[o.i], o.k, o.v); break;
    }
    return "";
  }
  // the value model; for moves the source may afterwards be unchanged or empty: mark with a = -1 ("adopt what the implementation left, if valid")
  static void model(std::vector<Val>& val, const Op& o) {
    switch (o.t) {
      default: R::imodel(o.t, val, o.i, o.j); break;
      case 'C': case 'A': val[o.i] = val[o.j]; break;
      case 'X': case 'M':
        if (o.i != o.j) { val[o.i] = val[o.j]; val[o.i].moved = false; val[o.j].moved = true; }
        else if (o.t == 'M') val[o.i].moved = true;      // self move-assignment: valid but unspecified
        break;                                           // 'X' with i == j: the old object is destroyed, the new one holds its value
      case 'R': val[o.i] = R::zero(Shape{o.j, o.k}); break;
      case 'Z': val[o.i] = R::zero(Shape{0, 0}); break;
      case 'W': val[o.i].cells[o.k] = o.v; break;
    }
  }
  // compare implementation objects with the model; returns "" or the description of the first difference. Adopts moved-from values.
  std::string compare(std::vector<T*>& ob, std::vector<Raw>& raws, std::vector<Val>& val, std::string& cls) const {
    raws.clear(); for (int i = 0; i < N; i++) raws.push_back(R::snap(*ob[i]));
    classify(raws);
    for (int i = 0; i < N; i++) for (int j = i + 1; j < N; j++) if (raws[i].nonnull && raws[i].rep == raws[j].rep) { cls = "shared-buffer"; return "objects " + std::to_string(i) + " and " + std::to_string(j) + " share their data pointer"; }
    for (int i = 0; i < N; i++) {
      Val got; std::string why;
      if (!R::value(*ob[i], raws[i], got, why)) { cls = "inconsistent-fields"; return "object " + std::to_string(i) + ": " + why; }
      if (val[i].moved) {   // moved-from: unchanged or empty
        Val before = val[i]; before.moved = false;
        if (got == before) { val[i] = before; n_mf_unchanged++; }
        else if (R::ncells(got) == 0 && got.a == 0) { val[i] = got; n_mf_empty++; }
        else { cls = "moved-from-invalid"; return "object " + std::to_string(i) + " after being moved from is neither unchanged nor empty"; }
        continue;
      }
      if (!(got == val[i])) {
        cls = (got.a != val[i].a || got.b != val[i].b) ? "wrong-shape" : "wrong-contents";
        std::string s = "object " + std::to_string(i) + ": shape " + std::to_string(got.a) + "," + std::to_string(got.b) + " cells [" + join(got.cells) + "] expected shape " + std::to_string(val[i].a) + "," + std::to_string(val[i].b) + " cells [" + join(val[i].cells) + "]";
        return s;
      }
    }
    return "";
  }
  void report(const std::string& cls, const Op& o, const std::string& hist, const std::string& detail) {
    static const char* on[128] = {0};
    on['C'] = "copy-construct"; on['X'] = "move-construct"; on['A'] = "copy-assign"; on['M'] = "move-assign"; on['R'] = "reset(n)"; on['Z'] = "reset()"; on['W'] = "write";
    std::string opn = on[(int)o.t] ? on[(int)o.t] : R::iname(o.t); if ((o.t == 'A' || o.t == 'M') && o.i == o.j) opn = std::string("self-") + opn;
    V("C15|copy|" + std::string(R::name()) + "|" + opn + "|" + cls, uname + "#0#" + hist + " :: history of " + std::to_string(N) + " " + R::name() + " objects", detail);
    if (ctx().verbose) printf("# VIOLATION copy|%s|%s|%s: %s\n", R::name(), opn.c_str(), cls.c_str(), detail.c_str());
  }

  void run() {
    std::vector<T*> ob; for (int i = 0; i < N; i++) ob.push_back(R::fresh());
    Node n0; for (int i = 0; i < N; i++) { n0.raw.push_back(R::snap(*ob[i])); n0.val.push_back(R::zero(Shape{0, 0})); }
    classify(n0.raw);
    for (auto p : ob) delete p;
    n0.parent = -1; n0.depth = 0; nodes.push_back(n0); index[key(n0.raw)] = 0;
    std::deque<int> q; q.push_back(0);
    int maxdepth = 0; long long nviol = 0;
    g_bfs_hist = [this]() { return cur_node >= 0 ? history((int)cur_node, &cur_op) : std::string(); };
    while (!q.empty()) {
      if (expired()) break;
      int n = q.front(); q.pop_front();
      cur_node = n;
      std::vector<Op> ops = ops_of(nodes[n].val);
      for (const Op& o : ops) {
        cur_op = o;
        std::vector<T*> obj; for (int i = 0; i < N; i++) obj.push_back(R::poke(nodes[n].raw[i]));
        for (int i = 0; i < N; i++) for (size_t h = 0; h < nodes[n].raw[i].hk.size(); h++) { int kd = nodes[n].raw[i].hk[h]; R::setp(*obj[i], (int)h, kd == 0 ? nullptr : (kd == 1 ? (void*)obj[i]->rep : (kd == 9 ? (void*)dangling() : (void*)obj[kd - 2]->rep))); }
        std::vector<Val> val = nodes[n].val;
        std::string exc, qdiff;
        try { qdiff = apply(obj, val, o); } catch (const Exc& e) { exc = e.what(); }
        CT(); n_eval++;
        model(val, o);
        std::vector<Raw> raws; std::string cls, diff;
        if (!exc.empty()) { cls = "unexpected-exception"; diff = exc; }
        else if (!qdiff.empty()) { cls = "wrong-answer"; diff = qdiff; }
        else diff = compare(obj, raws, val, cls);
        if (!diff.empty()) {
          nviol++; report(cls, o, history(n, &o), diff);
          if (cls != "shared-buffer" && cls != "inconsistent-fields") for (auto p : obj) delete p;   // do not free twice what is shared
          continue;
        }
        for (auto p : obj) delete p;
        std::string k = key(raws);
        if (index.find(k) == index.end()) {
          Node nn; nn.raw = raws; nn.val = val; nn.parent = n; nn.op = o; nn.depth = nodes[n].depth + 1;
          for (Raw& r : nn.raw) r.rep = r.nonnull ? (const void*)(&r) : nullptr;   // pointers of dead objects are meaningless (no aliasing in a valid state)
          maxdepth = std::max(maxdepth, nn.depth);
          index[k] = (int)nodes.size(); nodes.push_back(nn); q.push_back((int)nodes.size() - 1);
          C("states");
        }
      }
    }
    C("states");   // the initial state
    g_bfs_hist = nullptr;
    if (n_mf_unchanged) O(std::string(R::name()) + ":moved-from:unchanged", n_mf_unchanged);
    if (n_mf_empty) O(std::string(R::name()) + ":moved-from:empty", n_mf_empty);
    n_mf_unchanged = n_mf_empty = 0; C("evaluations", n_eval); n_eval = 0;
    bool fix = q.empty();
    O(std::string("bfs:") + R::name() + (inpl ? "+inplace" : "") + ":N=" + std::to_string(N) + (fix ? ":fixpoint" : ":deadline") + ":depth=" + std::to_string(maxdepth) + ":states=" + std::to_string(nodes.size()));
    if (!fix) ctx().complete = false;
    // trace validation: replay the recorded history of every state with real operations only
    long long traces = 0;
    for (size_t n = 0; n < nodes.size() && !expired(); n++) {
      std::string h = history((int)n);
      std::string k = replay(h, false);
      traces++;
      if (k != key(nodes[n].raw)) { V("C15|copy|" + std::string(R::name()) + "|history-replay|state-differs", uname + "#0#" + h + " :: history", "replaying the history from default constructed objects gives a state different from the recorded " + show(nodes[n].raw)); }
    }
    C("bfs_histories_replayed", traces);
    if (nodes.size() > 5 && (std::string(R::name()) == "Vec" || (std::string(R::name()) == "CovMat" && N == 2))) X(std::string(R::name()) + " history " + history((int)nodes.size() - 1) + " -> state " + show(nodes.back().raw));
  }
  // replay a history with real operations from default constructed objects; returns the final key
  std::string replay(const std::string& hist, bool verbose) {
    std::vector<T*> ob; std::vector<Val> val;
    for (int i = 0; i < N; i++) { ob.push_back(R::fresh()); val.push_back(R::zero(Shape{0, 0})); }
    std::vector<Raw> raws; bool dead = false;
    for (auto& s : split(hist, ',')) {
      if (s.empty()) continue;
      Op o = opparse(s);
      if (o.t == 'W' && (o.k >= R::ncells(val[o.i]))) { if (verbose) printf("# %s: write outside the object, history not applicable\n", s.c_str()); break; }
      if (strchr("CXAMRZW", o.t) == nullptr && !R::ien(o.t, val, o.i, o.j, wmax)) { if (verbose) printf("# %s: operation not enabled in this state, history not applicable\n", s.c_str()); break; }
      std::string exc, qdiff; try { qdiff = apply(ob, val, o); } catch (const Exc& e) { exc = e.what(); }
      model(val, o);
      std::string cls, diff; if (!exc.empty()) { cls = "unexpected-exception"; diff = exc; } else if (!qdiff.empty()) { cls = "wrong-answer"; diff = qdiff; } else diff = compare(ob, raws, val, cls);
      if (verbose) printf("# %-8s -> %s %s\n", s.c_str(), show(raws).c_str(), diff.empty() ? "ok" : ("VIOLATION " + cls + ": " + diff).c_str());
      if (!diff.empty()) { if (verbose) report(cls, o, hist, diff); dead = (cls == "shared-buffer" || cls == "inconsistent-fields"); break; }
    }
    if (raws.empty()) { for (int i = 0; i < N; i++) raws.push_back(R::snap(*ob[i])); classify(raws); }
    std::string k = key(raws); last_shown = show(raws);
    if (!dead) for (auto p : ob) delete p;
    return k;
  }
};
#endif
