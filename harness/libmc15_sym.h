// libmc15_sym.h -- SymMat / CovMat / BandMat: storage, algebra, Cholesky (C15)
#ifndef VERIF_LIBMC15_SYM_H
#define VERIF_LIBMC15_SYM_H
#include "libmc15_base.h"

static bool SYM_BIG = false;   // thorough: dim 4 over {-1,0,1,2}, dim 5 over {0,1}
static int sym_base(int d) { return d <= 3 ? 4 : (d == 4 ? (SYM_BIG ? 4 : 3) : 2); }
static const int* sym_alpha(int d) { int b = sym_base(d); return b == 4 ? ALPHA4 : (b == 3 ? ALPHA3 : ALPHA2); }
static long long sym_total(int d) { return ipow(sym_base(d), d * (d + 1) / 2); }
static RM sym_dec(int d, long long k) { return decsym(d, k, sym_base(d), sym_alpha(d)); }
static int bandwidth(const RM& A) { int b = 0; for (int i = 0; i < A.r; i++) for (int j = 0; j < A.c; j++) if (A(i, j) != 0) b = std::max(b, abs(i - j)); return b; }

static const char* dclass(bool pd, bool psd) { return pd ? "pd" : (psd ? "psd-singular" : "indefinite"); }

// reference solution of A x = b (A regular) in long double
static std::vector<long double> lsolve(const RM& A, const std::vector<double>& b) {
  LMat R; inverse(toL(A), R); std::vector<long double> x(A.r, 0);
  for (int i = 0; i < A.r; i++) for (int j = 0; j < A.r; j++) x[i] += R(i, j) * b[j];
  return x;
}

template <class BM> static void band_case(const char* cname, const RM& A, const IMat& Ai, bool pd, bool psd, int b) {
  const int d = A.r;
  std::string cn = cname; std::string cls = std::string(dclass(pd, psd));
  BM Cm(d, b);
  const bool isband = cn == "BandMat";
  int expect_size = isband ? d * (b + 1) : d * (b + 1) - b * (b + 1) / 2;
  C("transitions");
  if (Cm.dim() != d || Cm.bandWidth() != b || Cm.rows() != d || Cm.cols() != d || Cm.size() != expect_size) bad("storage", cn + "(d,b)", "shape", "dim/band/size wrong: size " + std::to_string(Cm.size()) + " expected " + std::to_string(expect_size));
  if (isband) Cm.set_zero();    // BandMat keeps padding cells in its storage
  try {
    for (int i = 0; i < d; i++) for (int j = i; j < d && j <= i + b; j++) { if ((i + j) & 1) Cm(j + 1, i + 1) = A(i, j); else Cm(i + 1, j + 1) = A(i, j); }
  } catch (const Exc& e) { bad("storage", cn + "::operator()", "unexpected-exception", e.what()); return; }
  const BM& CC = Cm;
  C("transitions");
  for (int i = 0; i < d; i++) for (int j = 0; j < d; j++) {
    double x = CC(i + 1, j + 1);
    if (x != A(i, j)) { bad("storage", cn + "::operator()const", "readback", "element (" + std::to_string(i + 1) + "," + std::to_string(j + 1) + ") = " + str(x) + " expected " + str(A(i, j)) + " band " + std::to_string(b)); break; }
    if (abs(i - j) > b) {
      bool threw = false; try { Cm(i + 1, j + 1) = 0; } catch (const Exc& e) { threw = e.error() == GE::BadIndex; }
      if (!threw) bad("storage", cn + "::operator()", "outside-band-write-accepted", "no BadIndex exception for (" + std::to_string(i + 1) + "," + std::to_string(j + 1) + ") band " + std::to_string(b));
    }
  }
  // row pointers and packed order
  {
    const double* p = Cm.begin(); int t = 0; bool okp = true;
    for (int i = 0; i < d && okp; i++) {
      if (Cm[i + 1] != p + t) { bad("storage", cn + "::operator[]", "row-pointer", "row " + std::to_string(i + 1) + " offset " + std::to_string(Cm[i + 1] - p) + " expected " + std::to_string(t) + " d " + std::to_string(d) + " b " + std::to_string(b)); okp = false; break; }
      for (int j = i; j <= i + b; j++) { if (j < d) { if (p[t] != A(i, j)) { bad("storage", cn, "packed-order", "cell " + std::to_string(t)); okp = false; break; } t++; } else if (isband) t++; }
    }
  }
  // product with vectors
  for (auto& v : basisV(d)) { Vec x = toVec(v); expect_v((cn + "*Vec").c_str(), rmulv(A, v), [&] { return Cm * x; }); expect_v((cn + "(MatBase)*Vec").c_str(), rmulv(A, v), [&] { return static_cast<const MatBase&>(Cm) * x; }); }
  // Cholesky
  C("transitions");
  BM F = Cm; bool threw = false; int err = -1; std::string what;
  try { F.cholDec(); } catch (const Exc& e) { threw = true; err = e.error(); what = e.what(); }
  O(cn + ":cholDec:" + cls + (threw ? ":exception" + std::to_string(err) : ":ok"));
  if (d == 0) { if (!threw) bad("cholesky", cn + "::cholDec", "dim0-accepted", "no exception for a 0x0 matrix"); return; }
  if (!pd) {
    if (!threw) bad("cholesky", cn + "::cholDec", std::string("non-pd-accepted|") + cls, "matrix " + rstr(A) + " band " + std::to_string(b) + " is not positive definite but cholDec returned normally");
    else if (err != GE::NonPositiveDefinite) bad("cholesky", cn + "::cholDec", "wrong-exception", what);
    return;
  }
  if (threw) { bad("cholesky", cn + "::cholDec", "pd-refused", what + " for " + rstr(A) + " band " + std::to_string(b)); return; }
  // A = L D L', stored: D on the diagonal, L' (unit upper) in the band
  {
    const BM& FC = F; LMat Lm(d, d), Dm(d, d);
    for (int i = 0; i < d; i++) { Lm(i, i) = 1; Dm(i, i) = FC(i + 1, i + 1); for (int j = i + 1; j < d; j++) Lm(j, i) = FC(i + 1, j + 1); }
    long double e = maxdiffL(mul(mul(Lm, Dm), tr(Lm)), toL(A));
    if (e > 1e-12) bad("cholesky", cn + "::cholDec", "LDL'!=A", "max diff " + str((double)e) + " for " + rstr(A) + " band " + std::to_string(b));
    for (int i = 0; i < d; i++) if (!(Dm(i, i) > 0)) bad("cholesky", cn + "::cholDec", "pivot<=0", "pd matrix with non positive pivot");
  }
  for (auto& v : basisV(d)) {
    C("transitions");
    Vec x = toVec(v);
    try { F.solve(x); } catch (const Exc& e) { bad("cholesky", cn + "::solve", "unexpected-exception", e.what()); continue; }
    std::vector<long double> ref = lsolve(A, v); long double e = 0;
    for (int i = 0; i < d; i++) e = std::max(e, fabsl(ref[i] - x(i + 1)));
    if (!(e <= 1e-11)) bad("cholesky", cn + "::solve", "Ax!=b", "max |x-ref| " + str((double)e) + " for " + rstr(A) + " band " + std::to_string(b));
  }
}

// BandMat::invBand(Z, pbw) of a positive definite band matrix against the dense inverse, for the default call and
// every requested result band b .. b+3 (the result band may exceed dim-1: the extra cells lie outside the matrix)
static void bandinv_case(const RM& A, int b, const char* fam = "") {
  const int d = A.r;
  BandMat Bm(d, b); Bm.set_zero();
  for (int i = 0; i < d; i++) for (int j = i; j < d && j <= i + b; j++) Bm(i + 1, j + 1) = A(i, j);
  LMat R; if (!inverse(toL(A), R)) { bad("inverse", "harness", "reference-inverse-failed", "family member not invertible: " + rstr(A)); return; }
  const long double tol = 1e-11L * std::max<long double>(1, maxabs(R));
  BandMat F = Bm;
  try { F.cholDec(); } catch (const Exc& e) { bad("cholesky", "BandMat::cholDec", "pd-refused", std::string(e.what()) + " for " + rstr(A) + " band " + std::to_string(b)); return; }
  const std::vector<double> F0(F.begin(), F.end());
  for (int q = -1; q <= 3; q++) {          // q = -1: invBand(Z) without the second argument; else pbw = b + q
    const int pbw = q < 0 ? 0 : b + q;
    const int zb = std::max(pbw, b);
    // the result object: empty, (q = 1) already sized for the request, (q = 2) sized for something else
    C("transitions");
    try {
      BandMat Z; if (q == 1) Z.reset(d, zb); else if (q == 2) Z.reset(d + 1, b);
      if (q < 0) F.invBand(Z); else F.invBand(Z, pbw);
      std::string cls = std::string(q < 0 ? "default-band" : (q == 0 ? "same-band" : "wider-band")) + (b >= 2 ? "|band>=2" : "|band<=1") + fam;
      O("BandMat:invBand:" + cls);
      if (Z.dim() != d || Z.bandWidth() != zb) { bad("inverse", "BandMat::invBand", "shape|" + cls, "dim " + std::to_string(Z.dim()) + " band " + std::to_string(Z.bandWidth()) + " expected " + std::to_string(d) + " / " + std::to_string(zb)); continue; }
      const BandMat& ZC = Z; long double e = 0; int wi = 0, wj = 0;
      for (int i = 0; i < d; i++) for (int j = i; j < d && j <= i + zb; j++) { long double df = fabsl(R(i, j) - ZC(i + 1, j + 1)); if (!(df <= e)) { e = df; wi = i + 1; wj = j + 1; } }
      if (!(e <= tol)) bad("inverse", "BandMat::invBand", "band-of-inverse|" + cls, "Z(" + std::to_string(wi) + "," + std::to_string(wj) + ") = " + str(ZC(wi, wj)) + " dense inverse " + str((double)R(wi - 1, wj - 1)) + " for " + rstr(A) + " band " + std::to_string(b) + " requested band " + (q < 0 ? std::string("(default)") : std::to_string(pbw)));
      if (std::vector<double>(F.begin(), F.end()) != F0) { bad("inverse", "BandMat::invBand", "factor-changed", "invBand modified the factored matrix"); return; }
    } catch (const Exc& e) { bad("inverse", "BandMat::invBand", "unexpected-exception", e.what()); }
  }
}

// ---- alg.bandinv: the family of strictly diagonally dominant band matrices
//   segment (d, b), d = 1..BI_DFULL, b = 0..d-1: every filling of the in-band off-diagonal cells over {-1,0,1}, diagonal 2b+1+(i mod 2)
//   segment (d, b), d = BI_DFULL+1..BI_DMAX, b = 0..min(d-1, BI_BMAX): three structured fillings over {-2..2}, diagonal 4b+1+(i mod 2)
//   two configurations, each a unit of its own so that a case index means the same in both tiers:
//   alg.bandinv (quick and thorough): BI_DMAX 9, BI_CAP 10;  alg.bandinvx (thorough): BI_DMAX 10, BI_CAP 12
static const int BI_DFULL = 5, BI_BMAX = 5;
static int BI_CFG = 0;
struct BiSeg { int d, b, cells; bool full; long long n, first; };
static const std::vector<BiSeg>& bi_segs() {
  static std::vector<BiSeg> SS[2];
  std::vector<BiSeg>& S = SS[BI_CFG]; const int BI_DMAX = BI_CFG ? 10 : 9, BI_CAP = BI_CFG ? 12 : 10;
  if (S.empty()) {
    long long at = 0;
    for (int d = BI_DMAX; d >= 1; d--) for (int b = std::min(d - 1, d <= BI_DFULL ? d - 1 : BI_BMAX); b >= 0; b--) {
      BiSeg s; s.d = d; s.b = b; s.cells = 0; for (int k = 1; k <= b; k++) s.cells += d - k;
      s.full = d <= BI_DFULL || s.cells <= BI_CAP; s.n = s.full ? ipow(3, s.cells) : 3; s.first = at; at += s.n; S.push_back(s);
    }
  }
  return S;
}
static long long bandinv_total() { const BiSeg& l = bi_segs().back(); return l.first + l.n; }
static const BiSeg& bi_find(long long idx) { const auto& S = bi_segs(); size_t k = 0; while (k + 1 < S.size() && S[k + 1].first <= idx) k++; return S[k]; }
static RM bi_matrix(long long idx, int& b, bool& full) {
  const BiSeg& s = bi_find(idx); long long k = idx - s.first; b = s.b; full = s.full;
  RM A(s.d, s.d);
  for (int i = 0; i < s.d; i++) A(i, i) = (s.full ? 2 * s.b : 4 * s.b) + 1 + (i % 2);
  for (int i = 0; i < s.d; i++) for (int j = i + 1; j < s.d && j <= i + s.b; j++) {
    double v;
    if (s.full) { v = ALPHA3[k % 3]; k /= 3; }
    else v = k == 0 ? 1.0 : (k == 1 ? (((i + j) & 1) ? -2.0 : 1.0) : (double)((3 * i + 5 * j) % 5 - 2));
    A(i, j) = A(j, i) = v;
  }
  return A;
}
static std::string bandinv_fmt(long long idx) { int b; bool full; RM A = bi_matrix(idx, b, full); return "band " + std::to_string(b) + " " + rstr(A); }
static void bandinv_unit_case(long long idx) {
  int b; bool full; RM A = bi_matrix(idx, b, full); g_cls = "";
  C("states"); C("evaluations");
  bandinv_case(A, b, full ? "" : "|structured");
}

static void sym_case(int d, long long k) {
  RM A = sym_dec(d, k); g_cls = d ? "dim>0" : "dim0";
  C("states"); C("evaluations");
  IMat Ai = toI(A);
  const bool pd = is_pd(Ai), psd = pd || is_psd(Ai);
  const std::string cls = dclass(pd, psd);
  SymMat S = toSym(A);
  const SymMat& SC = S;
  C("transitions");
  if (S.dim() != d || S.rows() != d || S.cols() != d || S.size() != d * (d + 1) / 2) bad("storage", "SymMat(d)", "shape", "dim/size wrong");
  for (int i = 0; i < d; i++) for (int j = 0; j < d; j++) {
    if (SC(i + 1, j + 1) != A(i, j) || S(i + 1, j + 1) != A(i, j)) { bad("storage", "SymMat::operator()", "readback", "element (" + std::to_string(i + 1) + "," + std::to_string(j + 1) + ")"); break; }
    if (i >= j && S.begin()[i * (i + 1) / 2 + j] != A(i, j)) { bad("storage", "SymMat", "packed-order", "cell " + std::to_string(i * (i + 1) / 2 + j)); break; }
  }
  RM Lo(d, d), Up(d, d), Z(d, d);
  for (int i = 0; i < d; i++) for (int j = 0; j < d; j++) { Lo(i, j) = i >= j ? A(i, j) : 0; Up(i, j) = i <= j ? A(i, j) : 0; }
  expect_m("Square(SymMat)", A, [&] { return GNU_gama::Square(S); });
  expect_m("Lower(SymMat)", Lo, [&] { return GNU_gama::Lower(S); });
  expect_m("Upper(SymMat)", Up, [&] { return GNU_gama::Upper(S); });
  expect_m("Lower(Square(SymMat))", A, [&] { return GNU_gama::Lower(GNU_gama::Square(S)); });
  expect_m("trans(SymMat)", A, [&] { return SymMat(GNU_gama::trans(SC)); });
  for (double f : {2.0, -1.0, 0.5}) { expect_m("SymMat*f", rscale(A, f), [&] { return S * f; }); expect_m("f*SymMat", rscale(A, f), [&] { return f * S; }); }
  static std::vector<std::vector<RM>> BS(6), BMk(6);
  if (BS[d].empty()) { BS[d] = basisSym(d); BMk[d] = basisM(d == 0 ? 1 : std::min(d, 2), d); }
  for (auto& B : BS[d]) {
    SymMat T = toSym(B); RM s = radd(A, B), df = radd(A, B, -1);
    expect_m("SymMat+SymMat(member)", s, [&] { return S + T; });
    expect_m("SymMat-SymMat(member)", df, [&] { return S - T; });
    expect_m("SymMat+SymMat(free)", s, [&] { return GNU_gama::operator+<double, int, Exc>(S, T); });
    expect_m("SymMat-SymMat(free)", df, [&] { return GNU_gama::operator-<double, int, Exc>(S, T); });
    expect_m("SymMat+=SymMat", s, [&] { SymMat X = S; X += T; return X; });
    expect_m("SymMat-=SymMat", df, [&] { SymMat X = S; X -= T; return X; });
    RM P = rmul(A, B); bool psym = true;
    for (int i = 0; i < d; i++) for (int j = 0; j < i; j++) if (P(i, j) != P(j, i)) psym = false;
    C("transitions");
    try {
      SymMat X = S * T; std::string why;
      if (psym) { O("SymMat*SymMat:symmetric-product"); if (!eqm(X, P, &why)) bad("algebra", "SymMat*SymMat", "symmetric-product", why); }
      else {
        O("SymMat*SymMat:nonsymmetric-product");
        bool low = true; for (int i = 0; i < d; i++) for (int j = 0; j <= i; j++) if (X(i + 1, j + 1) != P(i, j)) low = false;
        if (!low) bad("algebra", "SymMat*SymMat", "lower-triangle-wrong", "even the lower triangle differs from A*B");
        bad("algebra", "SymMat*SymMat", "nonsymmetric-product", "A*B = " + rstr(P) + " is not symmetric, the SymMat result returns its lower triangle mirrored");
      }
    } catch (const Exc& e) { bad("algebra", "SymMat*SymMat", "unexpected-exception", e.what()); }
    expect_m("SymMat*Mat(generic)", P, [&] { Mat Bm = toMat(B); return static_cast<const MatBase&>(S) * static_cast<const MatBase&>(Bm); });
  }
  for (auto& B : BMk[d]) { Mat Bm = toMat(B); expect_m("Mat*SymMat", rmul(B, A), [&] { return Bm * S; }); }
  for (auto& v : basisV(d)) { Vec x = toVec(v); expect_v("SymMat*Vec(generic)", rmulv(A, v), [&] { return static_cast<const MatBase&>(S) * x; }); }

  // ---- Cholesky A = L L'
  C("transitions");
  SymMat F = S; bool threw = false; std::string what; int err = -1;
  try { F.cholDec(); } catch (const Exc& e) { threw = true; what = e.what(); err = e.error(); }
  int nul = threw ? -1 : F.nullity();
  if (ctx().samples < 3 && d == 3 && k % 997 == 11) X("symmetric " + rstr(A) + " exact class " + cls + ": SymMat::cholDec " + (threw ? "threw " + what : "nullity " + std::to_string(nul)));
  O("SymMat:cholDec:" + cls + (threw ? ":exception" + std::to_string(err) : (nul ? ":nullity>0" : ":nullity=0")));
  if (pd) {
    if (threw || nul != 0) bad("cholesky", "SymMat::cholDec", "pd-refused", (threw ? what : "nullity " + std::to_string(nul)) + " for " + rstr(A));
    else {
      LMat Lm(d, d); for (int i = 0; i < d; i++) for (int j = 0; j <= i; j++) Lm(i, j) = F.begin()[i * (i + 1) / 2 + j];
      long double e = maxdiffL(mul(Lm, tr(Lm)), toL(A));
      if (e > 1e-12) bad("cholesky", "SymMat::cholDec", "LL'!=A", "max diff " + str((double)e) + " for " + rstr(A));
      for (auto& v : basisV(d)) {
        C("transitions");
        Vec x = toVec(v);
        try { F.solve(x); } catch (const Exc& ex) { bad("cholesky", "SymMat::solve", "unexpected-exception", ex.what()); continue; }
        std::vector<long double> ref = lsolve(A, v); long double ee = 0;
        for (int i = 0; i < d; i++) ee = std::max(ee, fabsl(ref[i] - x(i + 1)));
        if (!(ee <= 1e-11)) bad("cholesky", "SymMat::solve", "Ax!=b", "max |x-ref| " + str((double)ee) + " for " + rstr(A));
      }
      C("transitions");
      try {
        SymMat Inv = GNU_gama::inv(S); LMat R; inverse(toL(A), R);
        double e1 = maxdiff(Inv, R);
        if (!(e1 <= 1e-11)) bad("inverse", "inv(SymMat)", "inv(A)A!=I", "max |inv-ref| " + str(e1) + " for " + rstr(A));
      } catch (const Exc& ex) { bad("inverse", "inv(SymMat)", "pd-refused", ex.what()); }
    }
  } else {
    // the class signals "not positive definite" by an exception or by nullity() > 0
    if (!threw && nul == 0 && d > 0) bad("cholesky", "SymMat::cholDec", "non-pd-accepted|" + cls, "matrix " + rstr(A) + " is not positive definite but cholDec reports nullity 0");
    if (!threw && psd && d > 0) {
      int exact = d - rank(Ai);
      if (nul != exact) bad("cholesky", "SymMat::cholDec", "psd-nullity", "nullity " + std::to_string(nul) + " exact " + std::to_string(exact) + " for " + rstr(A));
      LMat Lm(d, d); for (int i = 0; i < d; i++) for (int j = 0; j <= i; j++) Lm(i, j) = F.begin()[i * (i + 1) / 2 + j];
      long double e = maxdiffL(mul(Lm, tr(Lm)), toL(A));
      if (!(e <= 1e-7)) bad("cholesky", "SymMat::cholDec", "psd-LL'!=A", "max diff " + str((double)e) + " for " + rstr(A));
    }
  }
  // ---- band classes for every admissible band width
  int bw = bandwidth(A);
  for (int b = bw; b <= std::max(0, d - 1); b++) {
    band_case<CovMat>("CovMat", A, Ai, pd, psd, b);
    band_case<BandMat>("BandMat", A, Ai, pd, psd, b);
    if (pd && d > 0) bandinv_case(A, b);
  }
}
#endif

// ------------------------------------------------------------------ index types
// The templates take the index type as a parameter (lib/matvec/unsigned.h exists for the unsigned ones): CovMat and
// BandMat instantiated with long / unsigned / unsigned long must give bit for bit what the int instantiation gives:
// product with a vector, cholDec, solve; for every dim 1..8 x band 0..dim-1 x two value families.
template <template <class, class, class> class BMT, class Index> static void idx_one(const char* cname, const char* iname, int d, int bw, int fam) {
  typedef BMT<double, int, Exc> RefM; typedef BMT<double, Index, Exc> TM;
  typedef GNU_gama::Vec<double, int, Exc> RefV; typedef GNU_gama::Vec<double, Index, Exc> TV;
  RefM R(d, bw); TM T((Index)d, (Index)bw); R.set_zero(); T.set_zero();
  for (int i = 1; i <= d; i++) for (int j = i; j <= i + bw && j <= d; j++) {
    double x = (i == j) ? 10.0 * (bw + 1) + i + (fam ? 0.5 * j : 0) : (fam ? -1.0 : 1.0) * (1 + double((i * 7 + j * 13) % 5));
    R(i, j) = x; T((Index)i, (Index)j) = x;
  }
  RefV rv(d); TV tv((Index)d); for (int i = 1; i <= d; i++) { rv(i) = (i % 2 ? 1.0 : -2.0) * i; tv((Index)i) = rv(i); }
  std::string cls = std::string(iname) + "|band" + (bw >= 3 ? ">=3" : std::to_string(bw));
  C("transitions");
  try {
    RefV rp = R * rv; TV tp = T * tv;
    for (int i = 1; i <= d; i++) if (rp(i) != tp((Index)i)) { bad("index-type", std::string(cname) + "*Vec", cls, "dim " + std::to_string(d) + " band " + std::to_string(bw) + " row " + std::to_string(i) + ": " + str(tp((Index)i)) + ", int instantiation " + str(rp(i))); break; }
    R.cholDec(); T.cholDec();
    R.solve(rp); T.solve(tp);
    for (int i = 1; i <= d; i++) if (rp(i) != tp((Index)i)) { bad("index-type", std::string(cname) + "::solve", cls, "dim " + std::to_string(d) + " band " + std::to_string(bw) + " row " + std::to_string(i) + ": " + str(tp((Index)i)) + ", int instantiation " + str(rp(i))); break; }
  } catch (const Exc& e) { bad("index-type", cname, cls + "|unexpected-exception", e.what()); }
}
static const int IDX_DMAX = 8;
static long long idx_total() { return (long long)IDX_DMAX * IDX_DMAX * 2; }
static std::string idx_fmt(long long k) { int fam = (int)(k % 2), bw = (int)(k / 2) % IDX_DMAX, d = (int)(k / 2) / IDX_DMAX + 1; return "CovMat/BandMat<long, unsigned, unsigned long> dim " + std::to_string(d) + " band " + std::to_string(bw) + " family " + std::to_string(fam); }
static void idx_case(long long k) {
  int fam = (int)(k % 2), bw = (int)(k / 2) % IDX_DMAX, d = (int)(k / 2) / IDX_DMAX + 1;
  if (bw >= d) return;
  C("states"); C("evaluations"); g_cls = "";
  idx_one<GNU_gama::CovMat, long>("CovMat", "long", d, bw, fam); idx_one<GNU_gama::CovMat, unsigned>("CovMat", "unsigned", d, bw, fam); idx_one<GNU_gama::CovMat, unsigned long>("CovMat", "unsigned-long", d, bw, fam);
  idx_one<GNU_gama::BandMat, long>("BandMat", "long", d, bw, fam); idx_one<GNU_gama::BandMat, unsigned>("BandMat", "unsigned", d, bw, fam); idx_one<GNU_gama::BandMat, unsigned long>("BandMat", "unsigned-long", d, bw, fam);
  O("index-types:band" + std::string(bw >= 3 ? ">=3" : std::to_string(bw)));
}
