// libmc15_nonconf.h -- every binary operator on every pair of shapes in {0..3}^4 (C15)
#ifndef VERIF_LIBMC15_NONCONF_H
#define VERIF_LIBMC15_NONCONF_H
#include "libmc15_base.h"

// position coded operands
static RM pcA(int r, int c) { RM A(r, c); for (int t = 0; t < r * c; t++) A.a[t] = 1 + t; return A; }
static RM pcB(int r, int c) { RM A(r, c); for (int t = 0; t < r * c; t++) A.a[t] = 2 * t - 3; return A; }
static RM pcS(int d, int w, bool second) {   // symmetric, diagonally dominant, band width w
  RM A(d, d); for (int i = 0; i < d; i++) for (int j = i; j < d && j <= i + w; j++) A(i, j) = A(j, i) = (i == j) ? 8 + i + (second ? 2 : 0) : 1 + ((i + j + (second ? 1 : 0)) % 2);
  return A;
}
static std::vector<double> pcV(int n, bool second) { std::vector<double> v(n); for (int i = 0; i < n; i++) v[i] = second ? 2 * i - 1 : i + 1; return v; }
static CovMat toCov(const RM& A, int w) { CovMat C_(A.r, w); for (int i = 0; i < A.r; i++) for (int j = i; j < A.r && j <= i + w; j++) C_(i + 1, j + 1) = A(i, j); return C_; }
static BandMat toBand(const RM& A, int w) { BandMat C_(A.r, w); C_.set_zero(); for (int i = 0; i < A.r; i++) for (int j = i; j < A.r && j <= i + w; j++) C_(i + 1, j + 1) = A(i, j); return C_; }

enum Kind { KM, KV, KS };   // operand kinds: general matrix r x c; vector (r x 1, only c == 1 enumerated); symmetric (r == c)
struct BinOp {
  const char* name; Kind l, r; bool unary;
  std::function<bool(int, int, int, int)> conform;                   // mathematical conformance of the shapes
  std::function<bool(int, int, int, int, RM&, std::string&)> run;    // executes; returns false if an exception was thrown; result in the RM
  std::function<RM(int, int, int, int)> ref;                         // reference result (empty function: result not compared)
};
static bool sameshape(int a, int b, int c, int d) { return a == c && b == d; }
static bool inner(int a, int b, int c, int d) { (void)a; (void)d; return b == c; }
template <class X> static RM grabM(const X& M) { RM R(M.rows(), M.cols()); for (int i = 0; i < R.r; i++) for (int j = 0; j < R.c; j++) R(i, j) = M(i + 1, j + 1); return R; }
template <class X> static RM grabV(const X& v) { RM R(v.dim(), 1); for (int i = 0; i < R.r; i++) R(i, 0) = v(i + 1); return R; }
static RM grabRow(const TVec& v) { RM R(1, v.dim()); for (int i = 0; i < R.c; i++) R(0, i) = v(i + 1); return R; }

#define LM_TRY(expr) try { expr; return true; } catch (const Exc& e) { why = std::string(e.what()) + " error " + std::to_string(e.error()); return false; }

static std::vector<BinOp>& binops() {
  static std::vector<BinOp> T;
  if (!T.empty()) return T;
  auto MM = [&](const char* n, std::function<bool(int, int, int, int)> cf, std::function<RM(const Mat&, const Mat&, const Mat&, const Mat&)> f, std::function<RM(const RM&, const RM&)> rf) {
    // f gets A, B and the matrices At, Bt whose transposes represent A and B
    BinOp o; o.name = n; o.l = KM; o.r = KM; o.unary = false; o.conform = cf;
    o.run = [f](int a, int b, int c, int d, RM& out, std::string& why) { RM A = pcA(a, b), B = pcB(c, d); Mat Am = toMat(A), Bm = toMat(B), At = toMat(rtr(A)), Bt = toMat(rtr(B)); LM_TRY(out = f(Am, Bm, At, Bt)) };
    o.ref = [rf](int a, int b, int c, int d) { return rf(pcA(a, b), pcB(c, d)); };
    T.push_back(o);
  };
  auto add = [](const RM& A, const RM& B) { return radd(A, B); };
  auto sub = [](const RM& A, const RM& B) { return radd(A, B, -1); };
  auto mulf = [](const RM& A, const RM& B) { return rmul(A, B); };
  typedef const Mat& CM_;
  MM("Mat+Mat", sameshape, [](CM_ A, CM_ B, CM_, CM_) { return grabM(A + B); }, add);
  MM("Mat-Mat", sameshape, [](CM_ A, CM_ B, CM_, CM_) { return grabM(A - B); }, sub);
  MM("MatBase+MatBase", sameshape, [](CM_ A, CM_ B, CM_, CM_) { return grabM(static_cast<const MatBase&>(A) + static_cast<const MatBase&>(B)); }, add);
  MM("MatBase-MatBase", sameshape, [](CM_ A, CM_ B, CM_, CM_) { return grabM(static_cast<const MatBase&>(A) - static_cast<const MatBase&>(B)); }, sub);
  MM("Mat*Mat", inner, [](CM_ A, CM_ B, CM_, CM_) { return grabM(A * B); }, mulf);
  MM("MatBase*MatBase", inner, [](CM_ A, CM_ B, CM_, CM_) { return grabM(static_cast<const MatBase&>(A) * static_cast<const MatBase&>(B)); }, mulf);
  MM("TransMat+TransMat", sameshape, [](CM_, CM_, CM_ At, CM_ Bt) { return grabM(trans(At) + trans(Bt)); }, add);
  MM("TransMat-TransMat", sameshape, [](CM_, CM_, CM_ At, CM_ Bt) { return grabM(trans(At) - trans(Bt)); }, sub);
  MM("Mat+TransMat", sameshape, [](CM_ A, CM_, CM_, CM_ Bt) { return grabM(A + trans(Bt)); }, add);
  MM("TransMat+Mat", sameshape, [](CM_, CM_ B, CM_ At, CM_) { return grabM(trans(At) + B); }, add);
  MM("Mat-TransMat", sameshape, [](CM_ A, CM_, CM_, CM_ Bt) { return grabM(A - trans(Bt)); }, sub);
  MM("TransMat-Mat", sameshape, [](CM_, CM_ B, CM_ At, CM_) { return grabM(trans(At) - B); }, sub);
  MM("TransMat*Mat", inner, [](CM_, CM_ B, CM_ At, CM_) { return grabM(trans(At) * B); }, mulf);
  MM("Mat*TransMat", inner, [](CM_ A, CM_, CM_, CM_ Bt) { return grabM(A * trans(Bt)); }, mulf);
  MM("TransMat*TransMat", inner, [](CM_, CM_, CM_ At, CM_ Bt) { return grabM(trans(At) * trans(Bt)); }, mulf);

  auto MV = [&](const char* n, std::function<RM(const Mat&, const Mat&, const Vec&)> f) {   // matrix (r1 x c1) * vector (r2)
    BinOp o; o.name = n; o.l = KM; o.r = KV; o.unary = false; o.conform = [](int, int b, int c, int) { return b == c; };
    o.run = [f](int a, int b, int c, int, RM& out, std::string& why) { RM A = pcA(a, b); Mat Am = toMat(A), At = toMat(rtr(A)); Vec v = toVec(pcV(c, true)); LM_TRY(out = f(Am, At, v)) };
    o.ref = [](int a, int b, int c, int) { return colRM(rmulv(pcA(a, b), pcV(c, true))); };
    T.push_back(o);
  };
  MV("Mat*Vec", [](CM_ A, CM_, const Vec& v) { return grabV(A * v); });
  MV("MatBase*Vec", [](CM_ A, CM_, const Vec& v) { return grabV(static_cast<const MatBase&>(A) * v); });
  MV("TransMat*Vec", [](CM_, CM_ At, const Vec& v) { return grabV(trans(At) * v); });
  auto VM = [&](const char* n, bool oracle, std::function<RM(const Vec&, const Mat&, const Mat&)> f) {   // row vector (r1) * matrix (r2 x c2)
    BinOp o; o.name = n; o.l = KV; o.r = KM; o.unary = false; o.conform = [](int a, int, int c, int) { return a == c; };
    o.run = [f](int a, int, int c, int d, RM& out, std::string& why) { RM B = pcB(c, d); Mat Bm = toMat(B), Bt = toMat(rtr(B)); Vec v = toVec(pcV(a, false)); LM_TRY(out = f(v, Bm, Bt)) };
    if (oracle) o.ref = [](int a, int, int c, int d) { RM R(1, d); std::vector<double> x = vmulr(pcV(a, false), pcB(c, d)); R.a = x; return R; };
    T.push_back(o);
  };
  VM("TransVec*Mat", true, [](const Vec& v, CM_ B, CM_) { return grabRow(trans(v) * B); });
  VM("TransVec*MatBase", true, [](const Vec& v, CM_ B, CM_) { return grabRow(trans(v) * static_cast<const MatBase&>(B)); });
  VM("TransVec*TransMat(MatBase)", true, [](const Vec& v, CM_, CM_ Bt) { return grabRow(trans(v) * trans(Bt)); });
  // Vec * TransMat has no mathematical meaning for a column vector: only memory safety is demanded ("exception or any value, never an out-of-bounds read")
  VM("Vec*TransMat", false, [](const Vec& v, CM_, CM_ Bt) { return grabRow(v * trans(Bt)); });

  auto VV = [&](const char* n, std::function<RM(const Vec&, const Vec&)> f, std::function<RM(const std::vector<double>&, const std::vector<double>&)> rf) {
    BinOp o; o.name = n; o.l = KV; o.r = KV; o.unary = false; o.conform = [](int a, int, int c, int) { return a == c; };
    o.run = [f](int a, int, int c, int, RM& out, std::string& why) { Vec x = toVec(pcV(a, false)), y = toVec(pcV(c, true)); LM_TRY(out = f(x, y)) };
    o.ref = [rf](int a, int, int c, int) { return rf(pcV(a, false), pcV(c, true)); };
    T.push_back(o);
  };
  auto vadd = [](const std::vector<double>& x, const std::vector<double>& y) { RM R((int)x.size(), 1); for (size_t i = 0; i < x.size(); i++) R.a[i] = x[i] + y[i]; return R; };
  auto vsub = [](const std::vector<double>& x, const std::vector<double>& y) { RM R((int)x.size(), 1); for (size_t i = 0; i < x.size(); i++) R.a[i] = x[i] - y[i]; return R; };
  auto vdot = [](const std::vector<double>& x, const std::vector<double>& y) { RM R(1, 1); for (size_t i = 0; i < x.size(); i++) R.a[0] += x[i] * y[i]; return R; };
  VV("Vec+Vec", [](const Vec& x, const Vec& y) { return grabV(x + y); }, vadd);
  VV("Vec-Vec", [](const Vec& x, const Vec& y) { return grabV(x - y); }, vsub);
  VV("Vec+=Vec", [](const Vec& x, const Vec& y) { Vec t = x; t += y; return grabV(t); }, vadd);
  VV("Vec-=Vec", [](const Vec& x, const Vec& y) { Vec t = x; t -= y; return grabV(t); }, vsub);
  VV("TransVec+TransVec", [](const Vec& x, const Vec& y) { return grabV(trans(x) + trans(y)); }, vadd);
  VV("TransVec-TransVec", [](const Vec& x, const Vec& y) { return grabV(trans(x) - trans(y)); }, vsub);
  VV("Vec::dot", [](const Vec& x, const Vec& y) { RM R(1, 1); R.a[0] = x.dot(y); return R; }, vdot);
  VV("TransVec*Vec", [](const Vec& x, const Vec& y) { RM R(1, 1); R.a[0] = trans(x) * y; return R; }, vdot);

  auto SS = [&](const char* n, bool cmp, std::function<RM(const SymMat&, const SymMat&)> f, std::function<RM(const RM&, const RM&)> rf) {
    BinOp o; o.name = n; o.l = KS; o.r = KS; o.unary = false; o.conform = [](int a, int, int c, int) { return a == c; };
    o.run = [f](int a, int, int c, int, RM& out, std::string& why) { SymMat S = toSym(pcS(a, 4, false)), U = toSym(pcS(c, 4, true)); LM_TRY(out = f(S, U)) };
    if (cmp) o.ref = [rf](int a, int, int c, int) { return rf(pcS(a, 4, false), pcS(c, 4, true)); };
    T.push_back(o);
  };
  SS("SymMat+SymMat(member)", true, [](const SymMat& A, const SymMat& B) { return grabM(A + B); }, add);
  SS("SymMat-SymMat(member)", true, [](const SymMat& A, const SymMat& B) { return grabM(A - B); }, sub);
  SS("SymMat+SymMat(free)", true, [](const SymMat& A, const SymMat& B) { return grabM(GNU_gama::operator+<double, int, Exc>(A, B)); }, add);
  SS("SymMat-SymMat(free)", true, [](const SymMat& A, const SymMat& B) { return grabM(GNU_gama::operator-<double, int, Exc>(A, B)); }, sub);
  SS("SymMat+=SymMat", true, [](const SymMat& A, const SymMat& B) { SymMat X = A; X += B; return grabM(X); }, add);
  SS("SymMat-=SymMat", true, [](const SymMat& A, const SymMat& B) { SymMat X = A; X -= B; return grabM(X); }, sub);
  SS("SymMat*SymMat", false, [](const SymMat& A, const SymMat& B) { return grabM(A * B); }, mulf);   // values: unit alg.sym
  {
    BinOp o; o.name = "Mat*SymMat"; o.l = KM; o.r = KS; o.unary = false; o.conform = [](int, int b, int c, int) { return b == c; };
    o.run = [](int a, int b, int c, int, RM& out, std::string& why) { Mat Am = toMat(pcA(a, b)); SymMat S = toSym(pcS(c, 4, true)); LM_TRY(out = grabM(Am * S)) };
    o.ref = [](int a, int b, int c, int) { return rmul(pcA(a, b), pcS(c, 4, true)); };
    T.push_back(o);
    o.name = "SymMat*Mat(generic)"; o.l = KS; o.r = KM; o.conform = [](int a, int, int c, int) { return a == c; };
    o.run = [](int a, int, int c, int d, RM& out, std::string& why) { Mat Bm = toMat(pcB(c, d)); SymMat S = toSym(pcS(a, 4, false)); LM_TRY(out = grabM(static_cast<const MatBase&>(S) * static_cast<const MatBase&>(Bm))) };
    o.ref = [](int a, int, int c, int d) { return rmul(pcS(a, 4, false), pcB(c, d)); };
    T.push_back(o);
  }
  auto SV = [&](const char* n, bool solve, std::function<RM(const RM&, const Vec&)> f) {   // symmetric (d) with a vector (n)
    BinOp o; o.name = n; o.l = KS; o.r = KV; o.unary = false; o.conform = [](int a, int, int c, int) { return a == c; };
    o.run = [f](int a, int, int c, int, RM& out, std::string& why) { Vec v = toVec(pcV(c, true)); RM S = pcS(a, 1, false); LM_TRY(out = f(S, v)) };
    if (!solve) o.ref = [](int a, int, int c, int) { return colRM(rmulv(pcS(a, 1, false), pcV(c, true))); };
    T.push_back(o);
  };
  SV("SymMat*Vec(generic)", false, [](const RM& S, const Vec& v) { SymMat X = toSym(S); return grabV(static_cast<const MatBase&>(X) * v); });
  SV("CovMat*Vec", false, [](const RM& S, const Vec& v) { CovMat X = toCov(S, std::min(1, std::max(0, S.r - 1))); return grabV(X * v); });
  SV("BandMat*Vec", false, [](const RM& S, const Vec& v) { BandMat X = toBand(S, std::min(1, std::max(0, S.r - 1))); return grabV(X * v); });
  SV("SymMat::solve(rhs)", true, [](const RM& S, const Vec& v) { SymMat X = toSym(S); if (S.r) X.cholDec(); Vec t = v; X.solve(t); return grabV(t); });
  SV("CovMat::solve(rhs)", true, [](const RM& S, const Vec& v) { CovMat X = toCov(S, std::min(1, std::max(0, S.r - 1))); if (S.r) X.cholDec(); Vec t = v; X.solve(t); return grabV(t); });
  SV("BandMat::solve(rhs)", true, [](const RM& S, const Vec& v) { BandMat X = toBand(S, std::min(1, std::max(0, S.r - 1))); if (S.r) X.cholDec(); Vec t = v; X.solve(t); return grabV(t); });

  auto UN = [&](const char* n, std::function<RM(const Mat&)> f, std::function<RM(const RM&)> rf) {   // needs a square operand
    BinOp o; o.name = n; o.l = KM; o.r = KM; o.unary = true; o.conform = [](int a, int b, int, int) { return a == b; };
    o.run = [f](int a, int b, int, int, RM& out, std::string& why) { RM A = pcA(a, b); for (int i = 0; i < std::min(a, b); i++) A(i, i) += 20; Mat Am = toMat(A); LM_TRY(out = f(Am)) };
    if (rf) o.ref = [rf](int a, int b, int, int) { RM A = pcA(a, b); for (int i = 0; i < std::min(a, b); i++) A(i, i) += 20; return rf(A); };
    T.push_back(o);
  };
  UN("Lower(Mat)", [](const Mat& A) { return grabM(GNU_gama::Lower(A)); }, [](const RM& A) { RM R(A.r, A.c); for (int i = 0; i < A.r; i++) for (int j = 0; j < A.c; j++) R(i, j) = i >= j ? A(i, j) : A(j, i); return R; });
  UN("Upper(Mat)", [](const Mat& A) { return grabM(GNU_gama::Upper(A)); }, [](const RM& A) { RM R(A.r, A.c); for (int i = 0; i < A.r; i++) for (int j = 0; j < A.c; j++) R(i, j) = i <= j ? A(i, j) : A(j, i); return R; });
  UN("Mat::invert", [](const Mat& A) { Mat X = A; X.invert(); return grabM(X); }, nullptr);
  UN("SymMat(r,c)", [](const Mat& A) { SymMat S(A.rows(), A.cols()); S.set_zero(); return grabM(S); }, [](const RM& A) { return RM(A.r, A.c); });
  UN("SymMat::reset(r,c)", [](const Mat& A) { SymMat S(1); S.reset(A.rows(), A.cols()); S.set_zero(); return grabM(S); }, [](const RM& A) { return RM(A.r, A.c); });
  return T;
}

static int NCD = 4;   // shapes in {0..NCD-1}^4 (thorough: 5)
static void nonconf_decode(long long idx, int& op, int& a, int& b, int& c, int& d) { d = idx % NCD; idx /= NCD; c = idx % NCD; idx /= NCD; b = idx % NCD; idx /= NCD; a = idx % NCD; idx /= NCD; op = (int)idx; }
static std::string nonconf_fmt(long long idx) {
  int op, a, b, c, d; nonconf_decode(idx, op, a, b, c, d);
  return std::string(binops()[op].name) + " shapes " + std::to_string(a) + "x" + std::to_string(b) + " , " + std::to_string(c) + "x" + std::to_string(d);
}
static void nonconf_case(long long idx) {
  int op, a, b, c, d; nonconf_decode(idx, op, a, b, c, d);
  const BinOp& o = binops()[op];
  // operand kinds restrict the enumerated shapes: vectors are n x 1, symmetric matrices d x d, unary operators ignore the second operand
  if (o.l == KV && b != 1) return;
  if (o.r == KV && d != 1) return;
  if (o.l == KS && a != b) return;
  if (o.r == KS && c != d) return;
  if (o.unary && (c != 0 || d != 0)) return;
  C("states"); C("evaluations"); C("transitions"); g_cls = "";
  bool conf = o.conform(a, b, c, d);
  RM out; std::string why;
  bool ok = o.run(a, b, c, d, out, why);
  std::string cls = conf ? "conforming" : "non-conforming";
  O(std::string(o.name) + ":" + cls + (ok ? ":returned" : ":exception"));
  if (!o.ref && std::string(o.name) == "Vec*TransMat") return;    // memory safety only
  if (!conf && ok) bad("nonconf", o.name, "non-conforming-accepted", nonconf_fmt(idx) + ": no exception");
  if (conf && !ok) bad("nonconf", o.name, "conforming-refused", nonconf_fmt(idx) + ": " + why);
  if (conf && ok && o.ref) {
    RM ref = o.ref(a, b, c, d);
    if (ref.r != out.r || ref.c != out.c || ref.a != out.a) bad("nonconf", o.name, "conforming-wrong-result", nonconf_fmt(idx) + ": got " + rstr(out) + " expected " + rstr(ref));
  }
}
#endif
