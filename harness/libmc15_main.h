// libmc15_main.h -- main() of the four parts of the C15 harness (a: operator algebra, b: symmetric/SVD, c: shape sweep, d: history BFS)
#ifndef LIBMC15_PART
#error "include from libmc15a/b/c/d.cpp"
#endif
#if LIBMC15_PART == 1
#include "libmc15_alg.h"
#elif LIBMC15_PART == 2
#include "libmc15_alg.h"
#include "libmc15_sym.h"
#include "libmc15_svd.h"
#elif LIBMC15_PART == 3
#include "libmc15_alg.h"
#include "libmc15_nonconf.h"
#else
#include "libmc15_alg.h"
#include "libmc15_bfs.h"
#endif

static std::string mfmt(int r, int c, long long k) { return rstr(dec(r, c, k)); }

#if LIBMC15_PART == 4
template <class T> static void bfs_unit(int N, int lvl, int wlimit, bool inpl = false, int wmax = 1) {
  std::string name = std::string("bfs.") + Tr<T>::name() + "." + std::to_string(N) + "." + std::to_string(lvl) + "." + std::to_string(wlimit) + (inpl ? "i" + std::to_string(wmax) : std::string());
  Unit u; u.name = name; u.total = 1; u.maxcrash = 1;
  u.f = [=](long long) { Bfs<T> b; b.N = N; b.lvl = lvl; b.wlimit = wlimit; b.inpl = inpl; b.wmax = wmax; b.uname = name; b.run(); };
  u.fmt = [=](long long) { return g_bfs_hist ? "#" + g_bfs_hist() + " :: aborted inside the last operation of this history of " + std::to_string(N) + " " + Tr<T>::name() + " objects" : std::string("search over ") + std::to_string(N) + " " + Tr<T>::name() + " objects"; };
  u.replay_extra = [=](const std::string& hist) { Bfs<T> b; b.N = N; b.lvl = lvl; b.wlimit = wlimit; b.inpl = inpl; b.wmax = wmax; b.uname = name; b.replay(hist, true); printf("# final state %s\n", b.last_shown.c_str()); };
  run_unit(u);
}
#endif

int main(int argc, char** argv) {
  setup(argc, argv, "C15");
  const bool th = thorough();
  if (th) DMAX = 4;
#if LIBMC15_PART == 4
  // ---- copy semantics: one single-process search per unit, the largest first
  if (th) bfs_unit<Mat>(3, 1, 9);
  bfs_unit<Mat>(3, 0, 9);
  // histories with in-place / state-caching operations (invert, inv, transpose, cholDec, solve, triDiag)
  bfs_unit<Mat>(2, th ? 4 : 2, 9, true, 1);
  bfs_unit<Mat>(3, 3, 9, true, 1);
  bfs_unit<SymMat>(2, 0, 9, true, 2);
  bfs_unit<CovMat>(2, 0, 9, true, 2);
  bfs_unit<BandMat>(2, 0, 9, true, 2);
  bfs_unit<BandMat>(2, 3, 3, true, 1);
  if (th) { bfs_unit<CovMat>(3, 1, 2); bfs_unit<BandMat>(3, 1, 2); bfs_unit<SymMat>(3, 1, 3); }
  bfs_unit<CovMat>(2, 1, 9);
  bfs_unit<BandMat>(2, 1, 9);
  bfs_unit<SymMat>(2, 1, 9);
  bfs_unit<CovMat>(3, 0, 9);
  bfs_unit<BandMat>(3, 0, 9);
  bfs_unit<Vec>(3, 0, 9);
  bfs_unit<SymMat>(3, 0, 9);
#endif
#if LIBMC15_PART == 1 || LIBMC15_PART == 2
  // ---- operator algebra (largest shapes first)
  for (int r = DMAX; r >= 0; r--) for (int c = DMAX; c >= 0; c--) {
    long long total = ipow(abase(r * c), r * c);
    int chunks = total > 100000 ? 128 : (total > 4096 ? 64 : (total > 256 ? 8 : 1));
    Unit u; u.total = total; u.fmt = [=](long long k) { return mfmt(r, c, k); };
#if LIBMC15_PART == 1
    u.name = "alg.prod." + shp(r, c); u.f = [=](long long k) { prod_case(r, c, k); }; run_unit(u, chunks * 4);
    u.name = "alg.unary." + shp(r, c); u.f = [=](long long k) { unary_case(r, c, k); }; run_unit(u, chunks);
    u.name = "alg.matvec." + shp(r, c); u.f = [=](long long k) { matvec_case(r, c, k, r >= c); }; run_unit(u, chunks);
#else
    if (r >= 1 && c >= 1) { u.name = "alg.svd." + shp(r, c); u.f = [=](long long k) { svd_case(r, c, k); }; run_unit(u, chunks * 2); }
#endif
  }
#endif
#if LIBMC15_PART == 1
  {
    Unit u; u.name = "alg.tvmb"; u.total = 50; u.maxcrash = 100;
    u.fmt = [](long long k) { return "TransVec*MatBase " + shp((int)(k / 2) / 5, (int)(k / 2) % 5) + (k % 2 ? " values -1,0,1" : " position coded"); };
    u.f = [](long long k) { int r = (int)(k / 2) / 5, c = (int)(k / 2) % 5; if (r <= DMAX && c <= DMAX) tvmb_case(r, c, k % 2); }; run_unit(u, 4);
  }
  { Unit u; u.name = "alg.tmtm"; u.total = 250; u.maxcrash = 400; u.fmt = tmtm_fmt; u.f = tmtm_case; run_unit(u, 8); }
  { Unit u; u.name = "alg.vec"; u.total = 1 + 16 + 256 + 4096 + (th ? 65536 : 0); u.fmt = [](long long i) { int d; long long a, b; vec_decode(i, d, a, b); return "v=" + rstr(colRM(decv(d, a))) + " w=" + rstr(colRM(decv(d, b))); }; u.f = vec_case; run_unit(u, th ? 32 : 4); }
#endif
#if LIBMC15_PART == 2
  if (th) SYM_BIG = true;
  for (int d = (th ? 5 : 4); d >= 0; d--) {
    Unit u; u.name = "alg.sym." + std::to_string(d); u.total = sym_total(d);
    u.fmt = [=](long long k) { return rstr(sym_dec(d, k)); }; u.f = [=](long long k) { sym_case(d, k); };
    run_unit(u, u.total > 500000 ? 512 : (u.total > 20000 ? 96 : (d == 3 ? 16 : 1)));
  }
  { Unit u; u.name = "alg.svd0"; u.total = 32; u.maxcrash = 64; u.fmt = svd0_fmt; u.f = svd0_case; run_unit(u, 2); }
  { Unit u; u.name = "alg.gsomn"; u.total = 24; u.maxcrash = 64; u.fmt = gsomn_fmt; u.f = gsomn_case; run_unit(u, 3); }
  for (int cfg = 0; cfg < 2; cfg++) {
    if (g().want_unit.empty() && cfg == 1 && !th) continue;      // the larger configuration runs in the thorough tier only (replayable in both)
    BI_CFG = cfg; Unit u; u.name = cfg ? "alg.bandinvx" : "alg.bandinv"; u.total = bandinv_total();
    u.fmt = [=](long long k) { BI_CFG = cfg; return bandinv_fmt(k); }; u.f = [=](long long k) { BI_CFG = cfg; bandinv_unit_case(k); }; run_unit(u, cfg ? 256 : 64);
  }
  { Unit u; u.name = "alg.idx"; u.total = idx_total(); u.fmt = idx_fmt; u.f = idx_case; run_unit(u, 4); }
  { Unit u; u.name = "alg.cond"; u.total = cond_total(); u.fmt = cond_fmt; u.f = cond_case; run_unit(u, 4); }
#endif
#if LIBMC15_PART == 3
  if (th) NCD = 5;
  { Unit u; u.name = "nonconf"; u.total = (long long)binops().size() * NCD * NCD * NCD * NCD; u.maxcrash = 100000; u.fmt = nonconf_fmt; u.comp = [](long long i) { int op, a, b, c, d; nonconf_decode(i, op, a, b, c, d); return std::string(binops()[op].name); }; u.f = nonconf_case; run_unit(u, 64); }
#endif
  return done();
}
