// gridmc: exhaustive enumeration of full grids on the real functions of
// /repo/lib (DESIGN.md section 3, C17 and C18).
//
//   --mode c17     critical values (Normal, Student, Chi_square, NormalDistribution)
//   --mode c18     ellipsoid round trips, angle strings/values, literal
//                  recognisers, bearing/distance
//   --mode c17ref  print reference quantiles on a coarse grid (scipy cross-check,
//                  informational only)
//
// case strings (also accepted by --case, which re-runs exactly that case):
//   c17:  acc;<fn>;<k>;<den>;<dof>          accuracy at alpha=k/den
//         mono;<fn>;<grid>;<idx>;<dof>      monotonicity between grid[idx-1], grid[idx]
//         sym;<fn>;<grid>;<idx>;<dof>       f(1-alpha) = -f(alpha)
//         fin;<fn>;<grid>;<idx>;<dof>       finiteness
//         inva;<grid>;<idx>                 NormalDistribution(Normal(alpha)) = 1-alpha
//         invx;<i>                          Normal(NormalDistribution(x)) = -x, x=(i-4000)/100
//     grid = A<den> (k/den, k=1..den-1, restricted to [0.0005,0.9995]), L (dyadic log grid) or F (2^-j, 1.5*2^-j, j=42..1021)
//   c18:  ell;<id>;<lat>;<lon>;<h>   pole;<id>;<sign>;<h>   elltab;<id>
//         hist;<e1>;<e2>;<switch 0..3>;<op1>;<op2>;<lat deg %.17g>   one object: set(e1), op1, switch to e2, op2 vs a fresh object
//         g2d;<gon %.17g>;<sign>;<prec>   s2s;<d>;<m>;<s>;<half>;<prec>
//         dms;<rad %.17g>                 dmslit;<d>;<m>;<s>          ll;<rad %.17g>;<prec>
//         lit;<fn>;<string, space written as _>
//         brg;<offset>;<spacing>;<i>;<j>
#include "vh.h"
#include <gnu_gama/statan.h>
#include <gnu_gama/ellipsoid.h>
#include <gnu_gama/ellipsoids.h>
#include <gnu_gama/gon2deg.h>
#include <gnu_gama/latlong.h>
#include <gnu_gama/radian.h>
#include <gnu_gama/intfloat.h>
#include <gnu_gama/local/bearing.h>
#include <gnu_gama/local/lpoint.h>
#include <cfloat>
using namespace vh;

// units are dealt to shards through a multiplicative scramble so that alternating unit kinds do not alias with the shard count
static bool take(uint64_t u) { return mine((u * 0x9E3779B97F4A7C15ULL) >> 40); }
static const LD PIl = 3.14159265358979323846264338327950288419716939937510L;

// =====================================================================
//  reference distributions (long double, written from the definitions)
// =====================================================================
namespace ref {

static const LD TINY = 1e-4000L;

// ---- safeguarded Newton for a strictly monotone f with a positive root.
// f(x, d) returns the value and sets d to the derivative.
template <class F> LD solve_pos(F f, LD x0, bool incr, bool& ok) {
  ok = true;
  if (!(x0 > 0) || !std::isfinite((double)x0)) x0 = 1.0L;
  LD d, f0 = f(x0, d);
  if (f0 == 0) return x0;
  LD lo = x0, hi = x0, flo = f0, fhi = f0;
  // root is to the right when (f0<0 && incr) || (f0>0 && !incr)
  bool right = (f0 < 0) == incr;
  for (int it = 0; it < 20000; it++) {
    if (right) { lo = hi; flo = fhi; hi = hi * 2 + 1e-30L; fhi = f(hi, d); if ((fhi < 0) != (flo < 0) || fhi == 0) break; }
    else       { hi = lo; fhi = flo; lo = lo / 2; flo = f(lo, d); if ((fhi < 0) != (flo < 0) || flo == 0) break; }
    if (it == 19999) { ok = false; return x0; }
  }
  if (flo == 0) return lo;
  if (fhi == 0) return hi;
  LD x = (x0 > lo && x0 < hi) ? x0 : 0.5L * (lo + hi);
  LD fx = f(x, d);
  for (int it = 0; it < 300; it++) {
    if (fx == 0) return x;
    if ((fx < 0) == (flo < 0)) { lo = x; flo = fx; } else { hi = x; fhi = fx; }
    LD xn = x - fx / d;
    if (!(xn > lo && xn < hi) || d == 0) xn = (hi / lo > 4) ? sqrtl(lo) * sqrtl(hi) : 0.5L * (lo + hi);
    if (fabsl(xn - x) <= 2e-18L * fabsl(xn) || hi - lo <= 2e-18L * hi) return xn;
    x = xn; fx = f(x, d);
  }
  ok = false;
  return x;
}

// ---- normal
inline LD ntail(LD x) { return 0.5L * erfcl(x * 0.70710678118654752440084436210484903928L); }
inline LD npdf(LD x) { return expl(-0.5L * x * x) * 0.39894228040143267793994605993438186848L; }
// upper critical value: P(X > q) = al, 0 < al <= 0.5
LD nq_half(LD al, bool& ok) {
  if (al == 0.5L) { ok = true; return 0; }
  LD t = sqrtl(-2 * logl(al));
  LD x0 = t - (2.515517L + 0.802853L * t + 0.010328L * t * t) / (1 + 1.432788L * t + 0.189269L * t * t + 0.001308L * t * t * t);
  LD la = logl(al);
  return solve_pos([&](LD q, LD& d) { LD T = ntail(q); d = -npdf(q) / T; return logl(T) - la; }, x0, false, ok);
}

// ---- regularised incomplete gamma P(a,x), Q(a,x)
void incgamma(LD a, LD x, LD& P, LD& Q) {
  if (x <= 0) { P = 0; Q = 1; return; }
  LD lg = a * logl(x) - x - lgammal(a);
  if (x < a + 1) {
    LD ap = a, del = 1 / a, sum = del;
    for (long n = 1; n < 50000000L; n++) { ap += 1; del *= x / ap; sum += del; if (fabsl(del) < fabsl(sum) * 1e-21L) break; }
    P = sum * expl(lg); Q = 1 - P;
  } else {
    LD b = x + 1 - a, c = 1 / TINY, d = 1 / b, h = d;
    for (long i = 1; i < 50000000L; i++) {
      LD an = -(LD)i * ((LD)i - a); b += 2;
      d = an * d + b; if (fabsl(d) < TINY) d = TINY;
      c = b + an / c; if (fabsl(c) < TINY) c = TINY;
      d = 1 / d; LD del = d * c; h *= del;
      if (fabsl(del - 1) < 1e-20L) break;
    }
    Q = expl(lg) * h; P = 1 - Q;
  }
}
inline LD chipdf(LD x, LD n) { LD a = 0.5L * n; return 0.5L * expl((a - 1) * logl(0.5L * x) - 0.5L * x - lgammal(a)); }
// upper critical value of chi-square: Q(n/2, x/2) = al ; al = k/den given exactly
LD chiq(LD al, LD alc /* = 1-al, exact */, LD n, bool& ok) {
  LD a = 0.5L * n;
  bool ok2; LD z = (al <= 0.5L) ? nq_half(al, ok2) : -nq_half(alc, ok2);
  LD w = 1 - 2 / (9 * n) + z * sqrtl(2 / (9 * n));
  LD x0 = n * w * w * w;
  if (!(x0 > 0) || w <= 0) x0 = expl((logl(alc) + lgammal(a + 1)) / a) * 2;   // small-x asymptote of P
  if (al <= 0.5L) {
    LD la = logl(al);
    return solve_pos([&](LD x, LD& d) { LD P, Q; incgamma(a, 0.5L * x, P, Q); d = -chipdf(x, n) / Q; return logl(Q) - la; }, x0, false, ok);
  } else {
    LD la = logl(alc);
    return solve_pos([&](LD x, LD& d) { LD P, Q; incgamma(a, 0.5L * x, P, Q); d = chipdf(x, n) / P; return logl(P) - la; }, x0, true, ok);
  }
}

// ---- regularised incomplete beta I_x(a,b); lx = log x, lxc = log(1-x) supplied accurately
static LD betacf(LD a, LD b, LD x) {
  LD qab = a + b, qap = a + 1, qam = a - 1, c = 1, d = 1 - qab * x / qap;
  if (fabsl(d) < TINY) d = TINY;
  d = 1 / d; LD h = d;
  for (long m = 1; m < 50000000L; m++) {
    LD m2 = 2 * (LD)m, aa = (LD)m * (b - m) * x / ((qam + m2) * (a + m2));
    d = 1 + aa * d; if (fabsl(d) < TINY) d = TINY; c = 1 + aa / c; if (fabsl(c) < TINY) c = TINY; d = 1 / d; h *= d * c;
    aa = -(a + m) * (qab + m) * x / ((a + m2) * (qap + m2));
    d = 1 + aa * d; if (fabsl(d) < TINY) d = TINY; c = 1 + aa / c; if (fabsl(c) < TINY) c = TINY; d = 1 / d;
    LD del = d * c; h *= del;
    if (fabsl(del - 1) < 1e-20L) break;
  }
  return h;
}
LD betai(LD a, LD b, LD x, LD xc, LD lx, LD lxc) {
  if (x <= 0) return 0;
  if (xc <= 0) return 1;
  LD bt = expl(lgammal(a + b) - lgammal(a) - lgammal(b) + a * lx + b * lxc);
  if (x < (a + 1) / (a + b + 2)) return bt * betacf(a, b, x) / a;
  return 1 - bt * betacf(b, a, xc) / b;
}
// Student upper tail P(T > t), t >= 0
LD ttail(LD t, LD n) {
  if (t <= 0) return 0.5L;
  LD u = t * t / n;                 // x = 1/(1+u), xc = u/(1+u)
  LD x = 1 / (1 + u), xc = u / (1 + u);
  LD lx = -log1pl(u), lxc = logl(u) - log1pl(u);
  return 0.5L * betai(0.5L * n, 0.5L, x, xc, lx, lxc);
}
inline LD tpdf(LD t, LD n) {
  return expl(lgammal(0.5L * (n + 1)) - lgammal(0.5L * n) - 0.5L * logl(n * PIl) - 0.5L * (n + 1) * log1pl(t * t / n));
}
// upper critical value of Student t, 0 < al <= 0.5
LD tq_half(LD al, LD n, bool& ok) {
  if (al == 0.5L) { ok = true; return 0; }
  bool ok2; LD z = nq_half(al, ok2);
  LD x0 = z + (z * z * z + z) / (4 * n) + (5 * powl(z, 5) + 16 * z * z * z + 3 * z) / (96 * n * n);
  LD la = logl(al);
  return solve_pos([&](LD t, LD& d) { LD T = ttail(t, n); d = -tpdf(t, n) / T; return logl(T) - la; }, x0, false, ok);
}

// closed forms used only by the self test
static bool close_to(LD a, LD b, LD rel) { return fabsl(a - b) <= rel * std::max(fabsl(a), fabsl(b)); }
std::string selftest() {
  bool ok;
  // normal tail by the incomplete gamma function: 2*ntail(x) = Q(1/2, x^2/2)
  for (LD x : {0.3L, 1.0L, 2.5L, 6.0L, 12.0L}) {
    LD P, Q; incgamma(0.5L, 0.5L * x * x, P, Q);
    if (!close_to(2 * ntail(x), Q, 1e-15L)) return "erfc vs Q(1/2,.) at " + str((double)x);
  }
  for (LD al : {0.0005L, 0.01L, 0.2L, 0.4999L}) {
    LD q = nq_half(al, ok); if (!ok || !close_to(ntail(q), al, 1e-15L)) return "nq_half residual";
  }
  // Student: n=1 (Cauchy), n=2, n=3 closed forms
  for (LD t : {0.01L, 0.5L, 1.0L, 7.0L, 600.0L}) {   // cancellation-free closed forms
    if (!close_to(ttail(t, 1), atanl(1 / t) / PIl, 1e-15L)) return "ttail n=1 t=" + str((double)t);
    LD s2 = sqrtl(2 + t * t);
    if (!close_to(ttail(t, 2), 1 / (s2 * (s2 + t)), 1e-15L)) return "ttail n=2 t=" + str((double)t);
    LD s3 = sqrtl(3.0L);
    if (t <= 7 && !close_to(ttail(t, 3), (atanl(s3 / t) - (t / s3) / (1 + t * t / 3)) / PIl, 1e-14L)) return "ttail n=3 t=" + str((double)t);
  }
  for (LD al : {0.0005L, 0.025L, 0.3L}) {
    LD q1 = tq_half(al, 1, ok); if (!ok || !close_to(q1, 1 / tanl(PIl * al), 1e-14L)) return "tq n=1";
    LD q2 = tq_half(al, 2, ok); if (!ok || !close_to(q2, (1 - 2 * al) / sqrtl(2 * al * (1 - al)), 1e-14L)) return "tq n=2";
    LD q6 = tq_half(al, 1e6L, ok); LD z = nq_half(al, ok);
    if (!close_to(q6, z + (z * z * z + z) / 4e6L, 1e-9L)) return "tq n=1e6 vs Cornish-Fisher";
    if (!close_to(ttail(q6, 1e6L), al, 1e-12L)) return "ttail(tq) n=1e6";
  }
  // chi-square: n=2, n=4 closed forms, n=1 via normal
  for (LD x : {1e-6L, 0.1L, 1.0L, 5.0L, 40.0L}) {
    LD P, Q; incgamma(1, 0.5L * x, P, Q);
    if (!close_to(Q, expl(-0.5L * x), 1e-15L) || !close_to(P, -expm1l(-0.5L * x), 1e-15L)) return "chi n=2 x=" + str((double)x);
    incgamma(2, 0.5L * x, P, Q);
    if (!close_to(Q, expl(-0.5L * x) * (1 + 0.5L * x), 1e-15L)) return "chi n=4 x=" + str((double)x);
  }
  for (int k : {1, 100, 1000, 1900, 1999}) {
    LD al = (LD)k / 2000, alc = (LD)(2000 - k) / 2000;
    LD q2 = chiq(al, alc, 2, ok); if (!ok || !close_to(q2, -2 * logl(al), 1e-14L)) return "chiq n=2";
    LD h = 0.5L * al; LD z = nq_half(h, ok); LD q1 = chiq(al, alc, 1, ok);
    if (!ok || !close_to(q1, z * z, 1e-13L)) return "chiq n=1 k=" + std::to_string(k);
    for (LD n : {3.0L, 37.0L, 1000.0L, 1e6L}) {
      LD q = chiq(al, alc, n, ok); LD P, Q; incgamma(0.5L * n, 0.5L * q, P, Q);
      if (!ok || !(close_to(Q, al, 1e-11L) || close_to(P, alc, 1e-11L))) return "chiq residual n=" + str((double)n) + " k=" + std::to_string(k);
      // Wilson-Hilferty must agree roughly for large n
      if (n >= 1000) { bool o; LD zz = (k <= 1000) ? nq_half(al, o) : -nq_half(alc, o); LD w = 1 - 2 / (9 * n) + zz * sqrtl(2 / (9 * n)); if (!close_to(q, n * w * w * w, 1e-3L)) return "chiq vs WH"; }
    }
  }
  return "";
}
}  // namespace ref

// =====================================================================
//  C17
// =====================================================================
static std::vector<int> dof_list() {
  std::vector<int> v;
  for (int n = 1; n <= 1000; n++) v.push_back(n);
  v.push_back(2000); v.push_back(10000); v.push_back(100000); v.push_back(1000000);
  return v;
}
static const char* dofclass(int n) {
  if (n <= 0) return "-";
  if (n == 1) return "dof=1"; if (n == 2) return "dof=2"; if (n <= 4) return "dof=3..4";
  if (n <= 30) return "dof=5..30"; if (n <= 1000) return "dof=31..1000"; return "dof>1000";
}
static const char* alphaclass(LD al) {
  LD t = std::min(al, 1 - al);
  if (t < 0.0005L) return "tail<0.0005"; if (t <= 0.01L) return "tail<=0.01"; if (t <= 0.1L) return "tail<=0.1"; return "central";
}
static std::string bucket(LD ratio) {
  if (!(ratio < 1)) return ">=1";
  if (ratio < 1e-6L) return "<1e-6"; if (ratio < 1e-3L) return "<1e-3"; if (ratio < 1e-2L) return "<0.01";
  if (ratio < 0.1L) return "<0.1"; if (ratio < 0.25L) return "<0.25"; if (ratio < 0.5L) return "<0.5";
  if (ratio < 0.75L) return "<0.75"; return "<1";
}
enum Fn { NORMAL = 0, STUDENT = 1, CHI2 = 2 };
static const char* FN[3] = {"normal", "student", "chi2"};
static const LD BOUND[3] = {1e-6L, 5e-4L, 5e-3L};
static int fn_of(const std::string& s) { for (int i = 0; i < 3; i++) if (s == FN[i]) return i; return -1; }

static double impl(int fn, double a, int n) {
  switch (fn) { case NORMAL: return GNU_gama::Normal(a); case STUDENT: return GNU_gama::Student(a, n); default: return GNU_gama::Chi_square(a, n); }
}
// reference upper critical value at alpha = k/den (exact rational)
static LD refq(int fn, long k, long den, int n, bool& ok) {
  LD al = (LD)k / den, alc = (LD)(den - k) / den;
  if (fn == CHI2) return ref::chiq(al, alc, n, ok);
  bool up = 2 * k <= den;
  LD h = up ? al : alc;
  LD q = fn == NORMAL ? ref::nq_half(h, ok) : ref::tq_half(h, n, ok);
  return up ? q : -q;
}

// dyadic log grid: alpha = m*2^-(j+4), m=8..15, j=1..40 (lower tail, 4.5e-13 .. 0.47), 0.5, and the exact complements
struct LGrid { std::vector<double> a; std::vector<int> comp; };
static const LGrid& lgrid() {
  static LGrid g;
  if (g.a.empty()) {
    std::vector<double> low;
    for (int j = 40; j >= 1; j--) for (int m = 8; m <= 15; m++) low.push_back(ldexp((double)m, -(j + 4)));
    // low is ascending: j=40 (smallest) first; within j ascending m.   (15*2^-(j+4) < 8*2^-(j+3))
    g.a = low; g.a.push_back(0.5);
    for (int i = (int)low.size() - 1; i >= 0; i--) g.a.push_back(1.0 - low[i]);   // exact
    int N = (int)g.a.size(); g.comp.resize(N);
    for (int i = 0; i < N; i++) g.comp[i] = N - 1 - i;
  }
  return g;
}

static void c17_acc(int fn, long k, long den, int n, double* val_out = nullptr) {
  double a = (double)((LD)k / den);
  double q = impl(fn, a, n);
  if (val_out) *val_out = q;
  std::string cs = std::string("acc;") + FN[fn] + ";" + std::to_string(k) + ";" + std::to_string(den) + ";" + std::to_string(n);
  C("evaluations"); C("distinct_nontrivial"); C("transitions");
  bool ok; LD r = refq(fn, k, den, n, ok);
  if (!ok) { fprintf(stderr, "reference solver did not converge: %s\n", cs.c_str()); exit(3); }
  LD err = fabsl((LD)q - r) / std::max((LD)1, fabsl(r));
  if (!std::isfinite(q)) err = 1e30L;
  LD ratio = err / BOUND[fn];
  O(std::string("acc|") + FN[fn] + "|" + dofclass(fn == NORMAL ? 0 : n) + "|err/bound" + bucket(ratio));
  if (ctx().verbose) printf("# %s alpha=%.17g impl=%.17g ref=%.20Lg err=%.4Lg bound=%.1Lg\n", cs.c_str(), a, q, r, err, BOUND[fn]);
  if (!(ratio < 1))
    V(std::string("C17|accuracy|") + FN[fn] + "|" + dofclass(fn == NORMAL ? 0 : n) + "|" + alphaclass((LD)k / den), cs,
      "alpha=" + str(a) + " dof=" + std::to_string(n) + " impl=" + str(q) + " reference=" + str((double)r) + " error=" + str((double)err) + " (relative, absolute where |q|<1) bound=" + str((double)BOUND[fn]));
}

// which formula of Chi_square() serves (alpha, n): mirrors the branch condition of statan.cpp, used only to classify signatures
static std::string chibranch(double a, int n) {
  if (n < 2) return "n=1(normal^2)"; if (n == 2) return "n=2(closed-form)";
  double t = GNU_gama::Normal(a);
  return n < (2 + int(4 * std::fabs(t))) ? "polynomial-A" : "polynomial-B";
}
// far grid F: alpha = 2^-j and 1.5*2^-j, j = 42 .. 1021 (2.3e-13 down to 4.5e-308, the whole normal double range), ascending
static const std::vector<double>& fgrid() {
  static std::vector<double> g;
  if (g.empty()) for (int j = 1021; j >= 42; j--) { g.push_back(ldexp(1.0, -j)); g.push_back(ldexp(1.5, -j)); }
  return g;
}
static double grid_alpha(const std::string& grid, long idx) {
  if (grid == "L") return lgrid().a.at(idx);
  if (grid == "F") return fgrid().at(idx);
  long den = atol(grid.c_str() + 1);
  return (double)((LD)idx / den);
}
static void c17_mono(int fn, const std::string& grid, long idx, int n, double vprev, double vcur) {
  C("evaluations");
  bool okm = vcur < vprev;   // strictly decreasing in alpha (upper-tail critical values)
  std::string cs = std::string("mono;") + FN[fn] + ";" + grid + ";" + std::to_string(idx) + ";" + std::to_string(n);
  if (ctx().verbose) printf("# %s a0=%.17g a1=%.17g f(a0)=%.17g f(a1)=%.17g\n", cs.c_str(), grid_alpha(grid, idx - 1), grid_alpha(grid, idx), vprev, vcur);
  if (!okm) {
    double a1 = grid_alpha(grid, idx);
    std::string cls = dofclass(fn == NORMAL ? 0 : n);
    if (fn == CHI2) { std::string b0 = chibranch(grid_alpha(grid, idx - 1), n), b1 = chibranch(a1, n); cls = b0 == b1 ? b1 : "branch-switch"; }
    V(std::string("C17|monotone|") + FN[fn] + "|" + cls + "|" + alphaclass(a1), cs,
      "alpha " + str(grid_alpha(grid, idx - 1)) + " -> " + str(a1) + " dof=" + std::to_string(n) + " values " + str(vprev) + " -> " + str(vcur) + " (must strictly decrease)");
  }
}
static void c17_fin(int fn, const std::string& grid, long idx, int n, double v) {
  C("evaluations");
  if (!std::isfinite(v)) {
    double a = grid_alpha(grid, idx);
    V(std::string("C17|finite|") + FN[fn] + "|" + dofclass(fn == NORMAL ? 0 : n) + "|" + alphaclass(a),
      std::string("fin;") + FN[fn] + ";" + grid + ";" + std::to_string(idx) + ";" + std::to_string(n), "alpha=" + str(a) + " value=" + str(v));
  }
}
static void c17_sym(int fn, const std::string& grid, long idx, long cidx, int n, double v, double vc, double tolrel) {
  C("evaluations");
  double sc = std::max(1.0, std::fabs(v));
  bool ok = std::fabs(v + vc) <= tolrel * sc;
  std::string cs = std::string("sym;") + FN[fn] + ";" + grid + ";" + std::to_string(idx) + ";" + std::to_string(n);
  if (ctx().verbose) printf("# %s a=%.17g 1-a=%.17g f(a)=%.17g f(1-a)=%.17g\n", cs.c_str(), grid_alpha(grid, idx), grid_alpha(grid, cidx), v, vc);
  if (!ok) V(std::string("C17|symmetry|") + FN[fn] + "|" + dofclass(fn == NORMAL ? 0 : n) + "|" + alphaclass(grid_alpha(grid, idx)), cs,
             "alpha=" + str(grid_alpha(grid, idx)) + " f(alpha)=" + str(v) + " f(1-alpha)=" + str(vc) + " sum=" + str(v + vc));
}
static const char* decade(LD t) {   // coarse class of a tail probability
  if (t >= 0.0005L) return "tail>=0.0005"; if (t >= 1e-12L) return "tail>=1e-12"; if (t >= 1e-16L) return "tail>=1e-16"; if (t >= 1e-100L) return "tail>=1e-100"; return "tail<1e-100";
}
static const LD UPPER_ABS = 4.5e-16L;   // absolute accuracy granted to D near 1: DBL_EPSILON (the stopping rule of the continued fraction) + 2 roundings
static const LD SNAP_TAIL = 5.1e-15L;   // class boundary of the listed finding "D snaps to exactly 1" (observed for 1-Phi(x) < 4.98e-15, x >= 7.74)
static void c17_inva(const std::string& grid, long idx) {
  double a = grid_alpha(grid, idx);
  double q = GNU_gama::Normal(a), D, f, Dl, fl;
  GNU_gama::NormalDistribution(q, D, f);
  GNU_gama::NormalDistribution(-std::fabs(q), Dl, fl);
  C("evaluations", 2); C("transitions", 3);
  std::string cs = "inva;" + grid + ";" + std::to_string(idx);
  // (1) D(Normal(alpha)) must equal 1-alpha: relative 1e-6 on the smaller tail, plus the absolute accuracy granted to D near 1
  LD want = 1 - (LD)a;
  LD t = std::min((LD)a, want);           // exact: the grids have exactly representable complements or alpha >= 0.0005
  LD tol = 1e-6L * t + UPPER_ABS;
  LD err = fabsl((LD)D - want);
  O(std::string("inverse-alpha|D(q)=1-alpha|err/tol") + bucket(err / tol));
  // (2) the same statement on the side where it is resolvable: the lower tail D(-|Normal(alpha)|) equals min(alpha, 1-alpha) to 1e-6 relative
  LD err2 = std::isfinite(q) ? fabsl((LD)Dl - t) / t : 1e30L;
  O(std::string("inverse-alpha|D(-|q|)=tail|") + decade(t) + "|err/1e-6" + bucket(err2 / 1e-6L));
  if (ctx().verbose) printf("# %s alpha=%.17g Normal=%.17g D(q)=%.17g 1-alpha=%.20Lg err=%.3Lg tol=%.3Lg ; D(-|q|)=%.17g tail=%.17Lg relerr=%.3Lg\n", cs.c_str(), a, q, D, want, err, tol, Dl, t, err2);
  if (!(err <= tol)) V(std::string("C17|inverse-alpha|NormalDistribution(Normal(alpha))|") + ((D == 1 || D == 0) && t < SNAP_TAIL ? "upper-snaps-to-1|tail<5.1e-15" : alphaclass(a)), cs,
                       "alpha=" + str(a) + " Normal=" + str(q) + " D=" + str(D) + " expected 1-alpha; error " + str((double)err) + " tol " + str((double)tol));
  if (!(err2 <= 1e-6L)) V(std::string("C17|inverse-alpha|NormalDistribution(-|Normal(alpha)|)=tail|") + decade(t), cs,
                          "alpha=" + str(a) + " Normal=" + str(q) + " D(-|q|)=" + str(Dl) + " expected " + str((double)t) + " relative error " + str((double)err2) + " (bound 1e-6)");
}
// x grid: (a) NormalDistribution(x) against the reference distribution function, (b) Normal(NormalDistribution(x)) = -x,
// both judged wherever the true value is representable (lower side: Phi(x) >= DBL_MIN, i.e. x >= -37.5; upper side: 1-Phi(x) >= 4.5e-16)
static void c17_invx(int i) {
  double x = (i - 4000) / 100.0;
  double D, f; GNU_gama::NormalDistribution(x, D, f);
  C("evaluations"); C("transitions");
  std::string cs = "invx;" + std::to_string(i);
  if (!std::isfinite(D) || D < 0 || D > 1) { V("C17|finite|NormalDistribution|x-grid", cs, "x=" + str(x) + " D=" + str(D)); return; }
  LD tail = ref::ntail(fabsl((LD)x));        // smaller tail at |x|
  bool lower = x <= 0;
  if (lower ? tail < (LD)DBL_MIN : tail < UPPER_ABS) {
    O(std::string("x-grid|not-representable|") + (lower ? "Phi(x)<DBL_MIN" : "1-Phi(x)<4.5e-16"));
    if (lower ? D > DBL_MIN : D < 1 - 2 * UPPER_ABS) V("C17|distribution-x|NormalDistribution|beyond-representable-range", cs, "x=" + str(x) + " D=" + str(D));
    return;
  }
  C("distinct_nontrivial");
  // (a) the distribution function itself
  LD refD = lower ? tail : 1 - tail;
  LD errD = fabsl((LD)D - refD), tolD = 1e-6L * tail + (lower ? 0 : UPPER_ABS);
  O(std::string("distribution-x|") + (lower ? "lower|" : "upper|") + decade(tail) + "|err/tol" + bucket(errD / tolD));
  if (!(errD <= tolD)) {
    std::string cls = lower ? (D == 0 ? "lower|returns-0" : "lower|relative-error") : (D == 1 ? (tail < SNAP_TAIL ? "upper-snaps-to-1|tail<5.1e-15" : "upper|returns-1") : "upper|error");
    V("C17|distribution-x|NormalDistribution|" + cls, cs, "x=" + str(x) + " D(x)=" + str(D) + " reference " + str((double)refD) + (lower ? " relative error " + str((double)(errD / tail)) + " (bound 1e-6)" : " error " + str((double)errD) + " (bound 1e-6 of the upper tail " + str((double)tail) + " + 4.5e-16)"));
  }
  // (b) the inverse pair
  double back = GNU_gama::Normal(D);
  C("evaluations"); C("transitions");
  LD allowance = lower ? 0 : UPPER_ABS / ref::npdf(x);   // what 4.5e-16 in D means in x
  LD tol = 1e-6L * std::max((LD)1, fabsl((LD)x)) + allowance;
  LD err = std::isfinite(back) ? fabsl((LD)back + (LD)x) : 1e30L;
  O(std::string("inverse-x|") + (lower ? "lower|" : "upper|") + decade(tail) + "|err/tol" + bucket(err / tol));
  if (ctx().verbose) printf("# %s x=%.17g D=%.17g reference=%.20Lg errD=%.3Lg tolD=%.3Lg ; Normal(D)=%.17g err=%.3Lg tol=%.3Lg\n", cs.c_str(), x, D, refD, errD, tolD, back, err, tol);
  if (!(err <= tol)) {
    std::string cls = D == 0 ? "D=0" : D == 1 ? (tail < SNAP_TAIL ? "upper-snaps-to-1|tail<5.1e-15" : "D=1") : (lower ? "x<=0" : "x>0");
    V("C17|inverse-x|Normal(NormalDistribution(x))|" + cls, cs,
      "x=" + str(x) + " D(x)=" + str(D) + " Normal(D)=" + str(back) + " expected " + str(-x) + " error " + str((double)err) + " tol " + str((double)tol));
  }
}

// one (fn, dof) unit on the accuracy grid A<den>, k in [k0,k1]
static void c17_unit_acc(int fn, int n, long den, long k0, long k1) {
  std::string grid = "A" + std::to_string(den);
  long kmin = (den / 2000), kmax = den - kmin;   // 0.0005 .. 0.9995
  double prev = 0; bool have = false;
  if (k0 > kmin) { prev = impl(fn, (double)((LD)(k0 - 1) / den), n); have = true; }
  for (long k = k0; k <= k1 && k <= kmax; k++) {
    double v;
    c17_acc(fn, k, den, n, &v);
    c17_fin(fn, grid, k, n, v);
    if (have) c17_mono(fn, grid, k, n, prev, v);
    if (fn != CHI2 && 2 * k < den) {   // complement on the same grid (1-alpha is the grid point den-k, not exactly 1-a)
      double vc = impl(fn, (double)((LD)(den - k) / den), n);
      c17_sym(fn, grid, k, den - k, n, v, vc, 1e-9);
    }
    prev = v; have = true;
  }
}
static void c17_unit_log(int fn, int n) {
  const LGrid& g = lgrid();
  int N = (int)g.a.size();
  std::vector<double> v(N);
  for (int i = 0; i < N; i++) { v[i] = impl(fn, g.a[i], n); C("transitions"); C("distinct_nontrivial"); }
  for (int i = 0; i < N; i++) {
    c17_fin(fn, "L", i, n, v[i]);
    if (i) c17_mono(fn, "L", i, n, v[i - 1], v[i]);
    if (fn != CHI2 && i < g.comp[i]) c17_sym(fn, "L", i, g.comp[i], n, v[i], v[g.comp[i]], 1e-12);
    if (fn == CHI2 && !(v[i] > 0)) O("info|chi2|non-positive-value-on-log-grid");
  }
}

static void c17_case(const std::string& cs) {
  auto f = split(cs, ';');
  if (f[0] == "acc") { int fn = fn_of(f[1]); c17_acc(fn, atol(f[2].c_str()), atol(f[3].c_str()), atoi(f[4].c_str())); }
  else if (f[0] == "mono" || f[0] == "sym" || f[0] == "fin") {
    int fn = fn_of(f[1]); std::string grid = f[2]; long idx = atol(f[3].c_str()); int n = atoi(f[4].c_str());
    double v = impl(fn, grid_alpha(grid, idx), n);
    if (f[0] == "fin") { printf("# value=%.17g\n", v); c17_fin(fn, grid, idx, n, v); }
    else if (f[0] == "mono") c17_mono(fn, grid, idx, n, impl(fn, grid_alpha(grid, idx - 1), n), v);
    else {
      long cidx; double tol;
      if (grid == "L") { cidx = lgrid().comp.at(idx); tol = 1e-12; } else { cidx = atol(grid.c_str() + 1) - idx; tol = 1e-9; }
      c17_sym(fn, grid, idx, cidx, n, v, impl(fn, grid_alpha(grid, cidx), n), tol);
    }
  }
  else if (f[0] == "inva") c17_inva(f[1], atol(f[2].c_str()));
  else if (f[0] == "invx") c17_invx(atoi(f[1].c_str()));
  else { fprintf(stderr, "unknown c17 case %s\n", cs.c_str()); exit(3); }
}

static int run_c17() {
  std::string st = ref::selftest();
  if (!st.empty()) { fprintf(stderr, "reference self test failed: %s\n", st.c_str()); return 3; }
  Ctx& c = ctx();
  if (!c.replay.empty()) { c17_case(c.replay); return finish(); }
  long den = c.opt.count("den") ? atol(c.opt["den"].c_str()) : (thorough() ? 20000 : 2000);
  long blk = 2000;
  std::vector<int> dofs = dof_list();
  if (c.opt.count("dofstep")) { int s = atoi(c.opt["dofstep"].c_str()); std::vector<int> d2; for (size_t i = 0; i < dofs.size(); i++) if (i % s == 0 || dofs[i] > 1000 || dofs[i] <= 30) d2.push_back(dofs[i]); dofs.swap(d2); }
  uint64_t unit = 0;
  long kmin = den / 2000, kmax = den - kmin;
  // normal: accuracy grid, log grid, inverse on both alpha grids, inverse on the x grid
  for (long k0 = kmin; k0 <= kmax; k0 += blk) if (take(unit++) && !expired()) {
    c17_unit_acc(NORMAL, 0, den, k0, std::min(kmax, k0 + blk - 1));
    for (long k = k0; k <= std::min(kmax, k0 + blk - 1); k++) c17_inva("A" + std::to_string(den), k);
  }
  if (take(unit++)) { c17_unit_log(NORMAL, 0); for (size_t i = 0; i < lgrid().a.size(); i++) c17_inva("L", (long)i); }
  if (take(unit++)) {   // far grid: Normal finite, strictly decreasing, and NormalDistribution(-Normal(alpha)) = alpha down to the smallest normal double
    const std::vector<double>& F = fgrid(); double prev = 0;
    for (size_t i = 0; i < F.size(); i++) {
      double v = GNU_gama::Normal(F[i]); C("transitions"); C("distinct_nontrivial");
      c17_fin(NORMAL, "F", (long)i, 0, v);
      if (i) c17_mono(NORMAL, "F", (long)i, 0, prev, v);
      c17_inva("F", (long)i);
      prev = v;
    }
  }
  for (int i0 = 0; i0 <= 8000; i0 += 500) if (take(unit++)) for (int i = i0; i < i0 + 500 && i <= 8000; i++) c17_invx(i);
  // Student and chi-square: every dof
  bool sampled = false;
  for (int fn = STUDENT; fn <= CHI2; fn++)
    for (int n : dofs) {
      for (long k0 = kmin; k0 <= kmax; k0 += blk) {
        if (!take(unit++)) continue;
        if (expired()) break;
        c17_unit_acc(fn, n, den, k0, std::min(kmax, k0 + blk - 1));
        if (!sampled && n >= 3 && fn == (ctx().shard_i % 2 ? CHI2 : STUDENT)) {
          sampled = true; bool ok; long k = k0 + 49; LD r = refq(fn, k, den, n, ok);
          X(std::string(FN[fn]) + "(alpha=" + str((double)((LD)k / den)) + ", dof=" + std::to_string(n) + ") = " + str(impl(fn, (double)((LD)k / den), n)) + " ; reference quantile " + str((double)r));
        }
      }
      if (take(unit++) && !expired()) c17_unit_log(fn, n);
    }
  return finish();
}

static int run_c17ref() {
  std::string st = ref::selftest();
  if (!st.empty()) { fprintf(stderr, "reference self test failed: %s\n", st.c_str()); return 3; }
  int dofs[] = {1, 2, 3, 4, 5, 7, 10, 17, 30, 61, 100, 333, 1000, 2000, 10000, 100000, 1000000};
  long ks[] = {1, 2, 10, 50, 100, 400, 800, 999, 1000, 1001, 1200, 1600, 1900, 1990, 1998, 1999};
  for (long k : ks) { bool ok; LD r = refq(NORMAL, k, 2000, 0, ok); printf("normal %ld 0 %.21Lg\n", k, r); }
  for (int n : dofs) for (long k : ks) for (int fn = STUDENT; fn <= CHI2; fn++) { bool ok; LD r = refq(fn, k, 2000, n, ok); printf("%s %ld %d %.21Lg\n", FN[fn], k, n, ok ? r : (LD)NAN); }
  return 0;
}

// =====================================================================
//  C18
// =====================================================================
// ---------------------------------------------------------------- ellipsoids
static const int NELL = GNU_gama::ellipsoid_wgs84;   // ids 1..NELL, 0 = default constructed (WGS 84)
static std::vector<double> lat_list() { std::vector<double> v; for (int i = -90; i <= 90; i++) v.push_back(i); v.push_back(89.999999); v.push_back(-89.999999); return v; }
static std::vector<double> lon_list() { std::vector<double> v; for (int i = -180; i <= 180; i += 15) v.push_back(i); v.push_back(179.999999); v.push_back(-179.999999); return v; }
static const double HLIST[6] = {-1e4, 0, 1, 9, 1e6, 2e7};   // metres: -10 km, 0, 1 m, 9 m, 1000 km, 20 000 km

static void ref_blh2xyz(LD a, LD b, LD lat, LD lon, LD h, LD& x, LD& y, LD& z) {
  LD e2 = (a * a - b * b) / (a * a);
  LD sb = sinl(lat), cb = cosl(lat);
  LD N = a / sqrtl(1 - e2 * sb * sb);
  x = (N + h) * cb * cosl(lon); y = (N + h) * cb * sinl(lon); z = (N * (1 - e2) + h) * sb;
}
static bool make_ell(int id, GNU_gama::Ellipsoid& E) {
  if (id == 0) return true;
  return GNU_gama::set(&E, (GNU_gama::gama_ellipsoid)id) == 0;
}
static const double ELL_TOL = 1e-4;   // 0.1 mm
static void c18_ell(int id, int ilat, int ilon, int ih) {
  static const std::vector<double> LAT = lat_list(), LON = lon_list();
  GNU_gama::Ellipsoid E; make_ell(id, E);
  double latd = LAT.at(ilat), lond = LON.at(ilon), h = HLIST[ih];
  double b = (double)((LD)latd * PIl / 180), l = (double)((LD)lond * PIl / 180);
  std::string cs = "ell;" + std::to_string(id) + ";" + std::to_string(ilat) + ";" + std::to_string(ilon) + ";" + std::to_string(ih);
  std::string hc = ih >= 4 ? "h>=1000km" : (ih == 0 ? "h=-10km" : "h-near-surface");
  std::string lc = std::fabs(latd) == 90 ? "pole" : (std::fabs(latd) > 89.9 ? "near-pole" : "lat-regular");
  std::string oc = std::fabs(lond) >= 179.9 ? "antimeridian" : "lon-regular";
  double x, y, z, b2, l2, h2;
  E.blh2xyz(b, l, h, x, y, z);
  E.xyz2blh(x, y, z, b2, l2, h2);
  C("evaluations"); C("distinct_nontrivial"); C("transitions", 2);
  LD rx, ry, rz; ref_blh2xyz(E.a(), E.b(), b, l, h, rx, ry, rz);
  LD e1 = sqrtl((x - rx) * (x - rx) + (y - ry) * (y - ry) + (z - rz) * (z - rz));
  bool fin = std::isfinite(b2) && std::isfinite(l2) && std::isfinite(h2);
  LD e2 = 1e30L, e3 = 1e30L;
  if (fin) {
    LD qx, qy, qz; ref_blh2xyz(E.a(), E.b(), b2, l2, h2, qx, qy, qz);
    e2 = sqrtl((x - qx) * (x - qx) + (y - qy) * (y - qy) + (z - qz) * (z - qz));       // returned blh describes the given point
    // starting values recovered: latitude and height directly, longitude modulo 2 pi scaled by the parallel radius
    LD dl = fabsl((LD)l2 - (LD)l); while (dl > PIl) dl = fabsl(dl - 2 * PIl);
    LD R = (LD)E.a() + fabsl((LD)h);
    e3 = std::max(std::max(fabsl((LD)b2 - (LD)b) * R, fabsl((LD)h2 - (LD)h)), dl * R * fabsl(cosl((LD)b)));
  }
  bool range = fin && std::fabs(b2) <= M_PI / 2 + 1e-15 && std::fabs(l2) <= M_PI + 1e-15;
  O("ellipsoid|" + lc + "|" + oc + "|" + hc + "|" + (!fin ? "not-finite" : e2 < 1e-8L ? "err<1e-8m" : e2 < 1e-6L ? "err<1e-6m" : e2 < 1e-4L ? "err<1e-4m" : "err>=0.1mm"));
  if (ctx().verbose) printf("# %s %s lat=%.9g lon=%.9g h=%g xyz=%.6f %.6f %.6f back: b=%.17g l=%.17g h=%.9f blh2xyz-vs-ref=%.3Lg roundtrip3d=%.3Lg start-values=%.3Lg m\n", cs.c_str(), id ? GNU_gama::gama_ellipsoid_id[id] : "default", latd, lond, h, x, y, z, b2, l2, h2, e1, e2, e3);
  std::string tail = std::string("|") + lc + "|" + oc + "|" + hc;
  if (!(e1 <= 1e-6L)) V("C18|ellipsoid|blh2xyz-vs-definition" + tail, cs, "blh2xyz differs from the closed formula by " + str((double)e1) + " m");
  if (!fin) V("C18|ellipsoid|xyz2blh-not-finite|" + lc, cs, std::string(id ? GNU_gama::gama_ellipsoid_id[id] : "default") + " lat=" + str(latd) + " lon=" + str(lond) + " h=" + str(h) + ": xyz2blh(blh2xyz(..)) gives b=" + str(b2) + " l=" + str(l2) + " h=" + str(h2));
  else if (!range) V("C18|ellipsoid|xyz2blh-range" + tail, cs, "b=" + str(b2) + " l=" + str(l2) + " h=" + str(h2));
  else if (!(e2 <= ELL_TOL) || !(e3 <= ELL_TOL))
    V("C18|ellipsoid|roundtrip" + tail, cs, std::string(id ? GNU_gama::gama_ellipsoid_id[id] : "default") + " lat=" + str(latd) + " lon=" + str(lond) + " h=" + str(h) + ": point of returned (b,l,h) is " + str((double)e2) + " m away; start values differ by " + str((double)e3) + " m (bound 1e-4 m)");
}
static void c18_pole(int id, int sgn, int ih) {
  GNU_gama::Ellipsoid E; make_ell(id, E);
  double h = HLIST[ih], z = sgn * (E.b() + h), b2, l2, h2;
  E.xyz2blh(0.0, 0.0, z, b2, l2, h2);
  C("evaluations"); C("distinct_nontrivial"); C("transitions");
  std::string cs = "pole;" + std::to_string(id) + ";" + std::to_string(sgn) + ";" + std::to_string(ih);
  LD e = std::max(fabsl((LD)h2 - h), fabsl((LD)b2 - sgn * PIl / 2) * ((LD)E.a() + fabsl((LD)h)));
  O(std::string("ellipsoid|exact-pole|") + (e < 1e-8L ? "err<1e-8m" : e <= 1e-4L ? "err<=1e-4m" : "err>0.1mm"));
  if (ctx().verbose) printf("# %s z=%.6f b=%.17g l=%.17g h=%.9f err=%.3Lg\n", cs.c_str(), z, b2, l2, h2, e);
  if (!(e <= ELL_TOL) || !std::isfinite(l2) || std::fabs(l2) > M_PI + 1e-15)
    V(std::string("C18|ellipsoid|roundtrip|exact-pole|") + (ih >= 4 ? "h>=1000km" : "h-near-surface"), cs, "xyz=(0,0," + str(z) + ") -> b=" + str(b2) + " l=" + str(l2) + " h=" + str(h2) + " expected h=" + str(h));
}
static void c18_elltab(int id) {
  GNU_gama::Ellipsoid E; E.id = -1;
  int rc = GNU_gama::set(&E, (GNU_gama::gama_ellipsoid)id);
  C("evaluations"); C("transitions");
  std::string cs = "elltab;" + std::to_string(id);
  const char* name = GNU_gama::gama_ellipsoid_id[id];
  bool ok = rc == 0 && E.id == id && GNU_gama::ellipsoid(name) == id && E.a() > E.b() && E.b() > 6.3e6 && E.a() < 6.4e6
            && std::fabs(E.f() - (E.a() - E.b()) / E.a()) < 1e-15 && 1 / E.f() > 150 && 1 / E.f() < 400;
  if (ctx().verbose) printf("# %s %s rc=%d id=%d a=%.6f b=%.6f 1/f=%.9f lookup=%d\n", cs.c_str(), name, rc, E.id, E.a(), E.b(), 1 / E.f(), (int)GNU_gama::ellipsoid(name));
  if (!ok) V("C18|ellipsoid|table-consistency", cs, std::string(name) + " rc=" + std::to_string(rc) + " a=" + str(E.a()) + " b=" + str(E.b()));
}

// ---------------------------------------------------------------- ellipsoids: history of one object
// One shared Ellipsoid object is driven through  [set(e1), op1(b), switch to e2, op2(b)]  and the result of op2 is compared bit for
// bit with the result of op2 on a fresh object that was only ever set to e2 (same setter, same arguments): the answer of an object
// may depend on its current parameters only.
//   e1, e2   0 = default constructed (WGS 84), 1..NELL table entries; all ordered pairs incl. e1 = e2
//   switch   0 set(&E, id) (id 0: set_af1 with the constructor's arguments), 1 set_ab(a, b), 2 set_af(a, f), 3 set_af1(a, 1/f)
//            with a, b, f read from a table object of e2
//   op       0 blh2xyz(b, l0, h0)  1 xyz2blh(point of geocentric latitude b; exact pole at +-90)  2 N(b) 3 M(b) 4 W(b) 5 V(b) 6 F(b)
static const int NHOP = 7, NHSET = 4;
static const char* HOP[NHOP] = {"blh2xyz", "xyz2blh", "N", "M", "W", "V", "F"};
static const char* HSET[NHSET] = {"set(id)", "set_ab", "set_af", "set_af1"};
struct HRes { double v[3]; };
static void hist_switch(GNU_gama::Ellipsoid& E, int id, int setter) {
  if (setter == 0) { if (id == 0) E.set_af1(6378137, 298.257223563); else GNU_gama::set(&E, (GNU_gama::gama_ellipsoid)id); return; }
  GNU_gama::Ellipsoid T; make_ell(id, T);
  if (setter == 1) E.set_ab(T.a(), T.b()); else if (setter == 2) E.set_af(T.a(), T.f()); else E.set_af1(T.a(), 1 / T.f());
}
static HRes hist_op(const GNU_gama::Ellipsoid& E, int op, double latd) {
  static const double l0 = (double)(15 * PIl / 180), h0 = 1000.0, R0 = 6379000.0;
  const double b = (double)((LD)latd * PIl / 180);
  HRes r; r.v[0] = r.v[1] = r.v[2] = 0;
  switch (op) {
    case 0: E.blh2xyz(b, l0, h0, r.v[0], r.v[1], r.v[2]); break;
    case 1: { double x = R0 * std::cos(b) * std::cos(l0), y = R0 * std::cos(b) * std::sin(l0), z = R0 * std::sin(b);
              if (std::fabs(latd) == 90) { x = y = 0; z = latd > 0 ? R0 : -R0; }
              E.xyz2blh(x, y, z, r.v[0], r.v[1], r.v[2]); break; }
    case 2: r.v[0] = E.N(b); break;
    case 3: r.v[0] = E.M(b); break;
    case 4: r.v[0] = E.W(b); break;
    case 5: r.v[0] = E.V(b); break;
    default: r.v[0] = E.F(b); break;
  }
  return r;
}
static bool hsame(const HRes& a, const HRes& b) { return std::memcmp(a.v, b.v, sizeof a.v) == 0; }
static long long g_hist_out[NHOP][2];      // [op2][result on e1 and e2 differ]: sequences whose history result equals the fresh one
// latitude grid of the histories: the grid of the round trips (1 deg + {+-89.999999}); thorough: 0.25 deg
static std::vector<double> hist_lat_list() { if (!thorough()) return lat_list(); std::vector<double> v; for (int i = -360; i <= 360; i++) v.push_back(i * 0.25); v.push_back(89.999999); v.push_back(-89.999999); return v; }
static void c18_hist(int e1, int e2, int setter, int op1, int op2, double latd) {
  GNU_gama::Ellipsoid E; make_ell(e1, E);
  HRes first = hist_op(E, op1, latd);
  hist_switch(E, e2, setter);
  HRes got = hist_op(E, op2, latd);
  GNU_gama::Ellipsoid Fr; hist_switch(Fr, e2, setter);
  HRes ref = hist_op(Fr, op2, latd);
  bool distinguishing;                                                    // does the answer of op2 on e1 differ from the answer on e2 at all
  if (op1 == op2) distinguishing = !hsame(first, ref);
  else { GNU_gama::Ellipsoid F1; make_ell(e1, F1); distinguishing = !hsame(hist_op(F1, op2, latd), ref); }
  const bool ok = hsame(got, ref);
  if (ok) g_hist_out[op2][distinguishing ? 1 : 0]++;
  if (ok && !ctx().verbose) return;
  std::string cs = "hist;" + std::to_string(e1) + ";" + std::to_string(e2) + ";" + std::to_string(setter) + ";" + std::to_string(op1) + ";" + std::to_string(op2) + ";" + str(latd);
  auto nm = [](int id) { return std::string(id ? GNU_gama::gama_ellipsoid_id[id] : "default"); };
  auto rs = [&](const HRes& r) { return op2 <= 1 ? "(" + str(r.v[0]) + ", " + str(r.v[1]) + ", " + str(r.v[2]) + ")" : str(r.v[0]); };
  std::string text = "one object: " + nm(e1) + ", " + HOP[op1] + "(lat " + str(latd) + "), " + HSET[setter] + " -> " + nm(e2) + ", " + HOP[op2] + "(lat " + str(latd) + ") = " + rs(got) + "; fresh object set once to " + nm(e2) + ": " + rs(ref);
  if (ctx().verbose) printf("# %s %s\n", cs.c_str(), text.c_str());
  if (!ok) {
    O(std::string("ellipsoid-history|") + HOP[op2] + "|differs-from-fresh-object");
    V(std::string("C18|ellipsoid|history-dependent|") + HOP[op2] + "|after-" + HSET[setter] + (e1 == e2 ? "|same-ellipsoid" : "|other-ellipsoid"), cs, text);
  }
}
static void c18_hist_unit(int e1, int setter) {
  static const std::vector<double> LAT = hist_lat_list();
  std::memset(g_hist_out, 0, sizeof g_hist_out);
  long long n = 0;
  for (int e2 = 0; e2 <= NELL; e2++) for (int op1 = 0; op1 < NHOP; op1++) for (int op2 = 0; op2 < NHOP; op2++)
    for (double latd : LAT) { c18_hist(e1, e2, setter, op1, op2, latd); n++; }
  C("evaluations", n); C("transitions", 6 * n);   // shared object: set(e1), op1, switch, op2; fresh object: switch, op2
  C("distinct_nontrivial", n);
  for (int op = 0; op < NHOP; op++) for (int d = 0; d < 2; d++) if (g_hist_out[op][d])
    O(std::string("ellipsoid-history|") + HOP[op] + "|same-as-fresh-object|" + (d ? "answers-of-e1-and-e2-differ" : "answers-of-e1-and-e2-equal"), g_hist_out[op][d]);
}

// ---------------------------------------------------------------- angles
struct Dms { bool ok = false, neg = false; long d = 0; int m = 0; double s = 0; int mdig = 0, sdec = -1; };
static Dms parse_dms(const std::string& str) {
  Dms r; size_t i = 0, n = str.size();
  while (i < n && str[i] == ' ') i++;
  if (i < n && str[i] == '-') { r.neg = true; i++; }
  while (i < n && str[i] == ' ') i++;
  size_t j = i; while (j < n && isdigit((unsigned char)str[j])) j++;
  if (j == i || j >= n || str[j] != '-') return r;
  r.d = atol(str.substr(i, j - i).c_str()); i = j + 1;
  j = i; while (j < n && isdigit((unsigned char)str[j])) j++;
  if (j == i || j >= n || str[j] != '-') return r;
  r.m = atoi(str.substr(i, j - i).c_str()); r.mdig = (int)(j - i); i = j + 1;
  j = i; while (j < n && isdigit((unsigned char)str[j])) j++;
  if (j == i) return r;
  size_t k = j; r.sdec = 0;
  if (k < n && str[k] == '.') { k++; size_t k0 = k; while (k < n && isdigit((unsigned char)str[k])) k++; r.sdec = (int)(k - k0); }
  if (k != n) return r;
  r.s = strtod(str.substr(i, k - i).c_str(), nullptr);
  r.ok = true; return r;
}
static const char* FIELD60 = "C18|angle-fields|gon2deg|seconds-field-printed-as-60";
// gon2deg(gon, sign, prec): fields valid, string parses back (deg2gon) to the value within half a unit of the last printed digit
static void c18_g2d(double gon, int sign, int prec, const char* origin = "g2d") {
  std::string s = GNU_gama::gon2deg(gon, sign, prec);
  C("evaluations"); C("transitions", 2);
  char buf[64]; snprintf(buf, sizeof buf, "%.17g", gon);
  std::string cs = std::string("g2d;") + buf + ";" + std::to_string(sign) + ";" + std::to_string(prec);
  Dms p = parse_dms(s);
  double back = 0; bool acc = GNU_gama::deg2gon(s, back);
  double want = (sign == 0) ? std::fabs(gon) : gon;
  LD tolsec = 0.5L * powl(10.0L, -prec) + 1e-8L;
  LD errsec = fabsl((LD)back - (LD)want) * 3240;
  if (ctx().verbose) printf("# %s [%s] parsed ok=%d neg=%d d=%ld m=%d s=%.9g ; deg2gon ok=%d value=%.17g err=%.3Lg\" tol=%.3Lg\"\n", cs.c_str(), s.c_str(), p.ok, p.neg, p.d, p.m, p.s, acc, back, errsec, tolsec);
  std::string pc = "prec=" + std::to_string(prec);
  if (!p.ok) { V(std::string("C18|angle-fields|gon2deg|unparsable-string|") + (gon == 0 && std::signbit(gon) ? "negative-zero-input" : "other"), cs, "gon2deg(" + std::string(buf) + ", " + std::to_string(sign) + ", " + std::to_string(prec) + ") = [" + s + "]"); return; }
  bool carry = false;
  if (p.m < 0 || p.m >= 60) { V("C18|angle-fields|gon2deg|minutes-out-of-range", cs, "[" + s + "]"); carry = true; }
  if (!(p.s >= 0) || p.s >= 60) { V(FIELD60, cs, "gon2deg(" + std::string(buf) + ", " + std::to_string(sign) + ", " + std::to_string(prec) + ") = [" + s + "]"); carry = true; }
  if (p.sdec != prec || p.mdig != 2) V("C18|angle-fields|gon2deg|wrong-number-of-digits", cs, "[" + s + "]");
  O(std::string("gon2deg|") + origin + "|" + (carry ? "field=60" : "fields-valid") + "|" + pc);
  if (!acc) { V("C18|angle-roundtrip|deg2gon-rejects-gon2deg-output|sign=" + std::to_string(sign), cs, "[" + s + "]"); return; }
  if (!(errsec <= tolsec)) V("C18|angle-roundtrip|gon2deg-deg2gon|value|sign=" + std::to_string(sign), cs, "[" + s + "] -> " + str(back) + " expected " + str(want) + " error " + str((double)errsec) + "\" tol " + str((double)tolsec) + "\"");
  if (sign != 0 && gon < 0 && back > 0) V("C18|angle-roundtrip|gon2deg-deg2gon|sign-lost|sign=" + std::to_string(sign), cs, "[" + s + "] -> " + str(back));
  if (sign != 0 && gon < 0 && s.find('-') >= s.find_first_of("0123456789")) V("C18|angle-fields|gon2deg|minus-sign-missing|sign=" + std::to_string(sign), cs, "[" + s + "]");
}
// canonical string d-mm-ss[.5] -> deg2gon -> gon2deg(prec) must reproduce the exact decimal rendering
static void c18_s2s(int d, int m, int s, int half, int prec) {
  char lit[64]; snprintf(lit, sizeof lit, half ? "%d-%02d-%02d.5" : "%d-%02d-%02d", d, m, s);
  std::string cs = "s2s;" + std::to_string(d) + ";" + std::to_string(m) + ";" + std::to_string(s) + ";" + std::to_string(half) + ";" + std::to_string(prec);
  double gon = 0; bool acc = GNU_gama::deg2gon(lit, gon);
  C("evaluations"); C("distinct_nontrivial"); C("transitions", 2);
  if (!acc) { V("C18|literal|deg2gon|rejects-documented-format", cs, lit); return; }
  LD exact = ((LD)d + (LD)m / 60 + ((LD)s + (half ? 0.5L : 0)) / 3600) / 0.9L;
  if (fabsl((LD)gon - exact) > 1e-13L * std::max((LD)1, exact)) V("C18|angle-value|deg2gon|wrong-value", cs, std::string(lit) + " -> " + str(gon) + " expected " + str((double)exact));
  std::string out = GNU_gama::gon2deg(gon, 3, prec);
  char want[64];
  if (prec == 0) snprintf(want, sizeof want, "%d-%02d-%03d", d, m, s);          // width 3+prec, zero filled (as the formatter does)
  else snprintf(want, sizeof want, "%d-%02d-%0*.*f", d, m, 3 + prec, prec, s + (half ? 0.5 : 0.0));
  Dms p = parse_dms(out);
  if (ctx().verbose) printf("# %s literal [%s] gon=%.17g gon2deg -> [%s] expected [%s]\n", cs.c_str(), lit, gon, out.c_str(), want);
  bool bad60 = p.ok && (p.s >= 60 || p.m >= 60);
  O(std::string("string-value-string|") + (out == want ? "identical" : bad60 ? "field=60" : "different") + "|prec=" + std::to_string(prec));
  if (bad60) V(FIELD60, cs, std::string("deg2gon(\"") + lit + "\") -> gon2deg(.., 3, " + std::to_string(prec) + ") = [" + out + "] expected [" + want + "]");
  else if (out != want) V("C18|angle-roundtrip|deg2gon-gon2deg|string-not-reproduced", cs, std::string("[") + lit + "] -> [" + out + "] expected [" + want + "]");
}
// latitude()/longitude() (latlong.cpp, used by gama-g3 output): valid fields, value within half a unit of the last digit
static void c18_ll(double rad, int prec, const char* origin) {
  std::string s = GNU_gama::latitude(rad, prec), s2 = GNU_gama::longitude(rad, prec);
  C("evaluations"); C("transitions", 2);
  char buf[64]; snprintf(buf, sizeof buf, "%.17g", rad);
  std::string cs = std::string("ll;") + buf + ";" + std::to_string(prec);
  Dms p = parse_dms(s);
  if (ctx().verbose) printf("# %s latitude=[%s] longitude=[%s] parsed ok=%d neg=%d d=%ld m=%d s=%.9g\n", cs.c_str(), s.c_str(), s2.c_str(), p.ok, p.neg, p.d, p.m, p.s);
  if (s != s2) V("C18|angle-fields|latlong|latitude-longitude-differ", cs, "[" + s + "] [" + s2 + "]");
  if (!p.ok) { V(std::string("C18|angle-fields|latlong|unparsable-string|") + (rad == 0 && std::signbit(rad) ? "negative-zero-input" : "other"), cs, "latitude(" + std::string(buf) + ", " + std::to_string(prec) + ") = [" + s + "]"); return; }
  bool bad = p.m >= 60 || !(p.s >= 0) || p.s >= 60;
  O(std::string("latlong|") + origin + "|" + (bad ? "field=60" : "fields-valid") + "|prec=" + std::to_string(prec));
  if (bad) V("C18|angle-fields|latlong|seconds-field-printed-as-60", cs, "latitude(" + std::string(buf) + ", " + std::to_string(prec) + ") = [" + s + "]");
  if (p.sdec != prec || p.mdig != 2) V("C18|angle-fields|latlong|wrong-number-of-digits", cs, "[" + s + "]");
  LD val = ((LD)p.d + (LD)p.m / 60 + (LD)p.s / 3600) * (p.neg ? -1 : 1);
  LD errsec = fabsl(val - (LD)rad * 180 / PIl) * 3600, tolsec = 0.5L * powl(10.0L, -prec) + 1e-8L;
  if (!(errsec <= tolsec)) V("C18|angle-roundtrip|latlong|value", cs, "[" + s + "] is " + str((double)errsec) + "\" away from the argument (tol " + str((double)tolsec) + "\")");
}
// rad -> rad2dms -> dms2rad
static void c18_dms(double rad) {
  double v = GNU_gama::rad2dms(rad);
  double back = GNU_gama::dms2rad(v);
  C("evaluations"); C("transitions", 2);
  char buf[64]; snprintf(buf, sizeof buf, "%.17g", rad);
  std::string cs = std::string("dms;") + buf;
  LD rn = fmodl((LD)rad, 2 * PIl); if (rn < 0) rn += 2 * PIl;
  // decode d.mmss robustly
  LD w = (LD)v * 10000;
  LD d = floorl((w + 1e-6L) / 10000), rem = w - d * 10000, m = floorl((rem + 1e-6L) / 100), s = rem - m * 100;
  bool fields = v >= 0 && d <= 360 && m < 60 && s < 60 + 1e-6L;
  LD val = (d + m / 60 + s / 3600) * PIl / 180;
  LD e1 = fabsl(val - rn); if (e1 > PIl) e1 = fabsl(e1 - 2 * PIl);
  LD e2 = fabsl((LD)back - rn); if (e2 > PIl) e2 = fabsl(e2 - 2 * PIl);
  if (ctx().verbose) printf("# %s rad2dms=%.17g (d=%Lg m=%Lg s=%.9Lg) value error=%.3Lg rad ; dms2rad(rad2dms)=%.17g error=%.3Lg rad (%.3Lg\")\n", cs.c_str(), v, d, m, s, e1, back, e2, e2 * 648000 / PIl);
  bool zs = fabsl(s) < 1e-6L || fabsl(s - 60) < 1e-6L;
  O(std::string("rad2dms-dms2rad|") + (zs ? "seconds=0" : "seconds>0") + "|" + (e2 <= 1e-9L ? "roundtrip-ok" : "roundtrip-off"));
  if (!fields || !(e1 <= 1e-9L)) V("C18|angle-fields|rad2dms|invalid-dmmss-value", cs, "rad2dms(" + std::string(buf) + ")=" + str(v));
  if (!(e2 <= 1e-9L)) V(std::string("C18|angle-roundtrip|rad2dms-dms2rad|") + (zs ? "whole-minute-value" : "other"), cs,
                        "rad2dms(" + std::string(buf) + ")=" + str(v) + " dms2rad(..)=" + str(back) + " error " + str((double)(e2 * 648000 / PIl)) + " arcsec");
}
// decimal literal d.mmss -> dms2rad
static void c18_dmslit(int d, int m, int s) {
  char lit[64]; snprintf(lit, sizeof lit, "%d.%02d%02d", d, m, s);
  double v = strtod(lit, nullptr);
  double back = GNU_gama::dms2rad(v);
  C("evaluations"); C("distinct_nontrivial"); C("transitions");
  LD exact = ((LD)d + (LD)m / 60 + (LD)s / 3600) * PIl / 180;
  LD e = fabsl((LD)back - exact);
  std::string cs = "dmslit;" + std::to_string(d) + ";" + std::to_string(m) + ";" + std::to_string(s);
  if (ctx().verbose) printf("# %s dms2rad(%s)=%.17g expected %.17Lg error %.3Lg\"\n", cs.c_str(), lit, back, exact, e * 648000 / PIl);
  O(std::string("dms2rad-literal|") + (s == 0 ? "seconds=0" : "seconds>0") + "|" + (e <= 1e-9L ? "ok" : "off"));
  if (!(e <= 1e-9L)) V(std::string("C18|angle-value|dms2rad|") + (s == 0 ? "whole-minute-literal" : "other"), cs,
                       "dms2rad(" + std::string(lit) + ") = " + str((double)(back * 180 / M_PI)) + " deg, expected " + str((double)(exact * 180 / PIl)) + " deg (error " + str((double)(e * 648000 / PIl)) + " arcsec)");
}

// ---------------------------------------------------------------- literals
static const char ALPHA[] = "01.-+eE x";
static std::string enc(const std::string& s) { std::string t = s; for (char& c : t) if (c == ' ') c = '_'; return t; }
static std::string dec(const std::string& s) { std::string t = s; for (char& c : t) if (c == '_') c = ' '; return t; }
// tiny matcher combinators over [p, e)
struct Cur { const char* p; const char* e; };
static bool dig(Cur& c) { if (c.p < c.e && *c.p >= '0' && *c.p <= '9') { c.p++; return true; } return false; }
static int digits(Cur& c) { int n = 0; while (dig(c)) n++; return n; }
static bool ch(Cur& c, char x) { if (c.p < c.e && *c.p == x) { c.p++; return true; } return false; }
static void sign(Cur& c) { if (!ch(c, '+')) ch(c, '-'); }
static void trim(Cur& c) { while (c.p < c.e && *c.p == ' ') c.p++; while (c.e > c.p && c.e[-1] == ' ') c.e--; }
// xs:integer / "integer": optional sign, one or more digits
static bool ref_integer(const std::string& s) { Cur c{s.data(), s.data() + s.size()}; trim(c); sign(c); return digits(c) > 0 && c.p == c.e; }
// unsigned decimal mantissa: D+ [. D*] | . D+
static bool mantissa(Cur& c) { int a = digits(c); if (ch(c, '.')) { int b = digits(c); return a + b > 0; } return a > 0; }
static bool exponent(Cur& c) { if (!(ch(c, 'e') || ch(c, 'E'))) return true; sign(c); return digits(c) > 0; }
// xs:double (without INF/NaN): sign? mantissa ([eE] sign? D+)?
static bool ref_float(const std::string& s) { Cur c{s.data(), s.data() + s.size()}; trim(c); sign(c); return mantissa(c) && exponent(c) && c.p == c.e; }
// sexagesimal literal, narrow reading of the manual: sign? D+ - D+ - D+ [. D+]   (no inner spaces)
static bool ref_dms_core(const std::string& s) {
  Cur c{s.data(), s.data() + s.size()}; trim(c); sign(c);
  if (!digits(c) || !ch(c, '-') || !digits(c) || !ch(c, '-') || !digits(c)) return false;
  if (ch(c, '.') && !digits(c)) return false;
  return c.p == c.e;
}
// widest defensible reading: spaces after the sign (gon2deg prints them itself), seconds any unsigned float
static bool ref_dms_wide(const std::string& s) {
  Cur c{s.data(), s.data() + s.size()}; trim(c); sign(c); while (ch(c, ' ')) {}
  if (!digits(c) || !ch(c, '-') || !digits(c) || !ch(c, '-')) return false;
  return mantissa(c) && exponent(c) && c.p == c.e;
}
static std::string litclass(const std::string& s) {   // structural class of a literal
  Cur c{s.data(), s.data() + s.size()}; trim(c);
  std::string t(c.p, c.e);
  if (t.empty()) return "empty";
  if (t == "+" || t == "-") return "sign-only";
  int signs = 0; size_t i = 0; while (i < t.size() && (t[i] == '+' || t[i] == '-')) { signs++; i++; }
  if (signs >= 2) return "double-sign";
  if (t.find(' ') != std::string::npos) return "inner-space";
  if (t.find('x') != std::string::npos) return "junk-char";
  if (t.find_first_of("eE") != std::string::npos) return "exponent-form";
  if (t.find_first_of("01") == std::string::npos) return "no-digit";
  return "other";
}
static void c18_lit(const std::string& fn, const std::string& s) {
  C("evaluations"); C("transitions");
  std::string cs = "lit;" + fn + ";" + enc(s);
  bool got, want, unspecified = false; double g = 0;
  if (fn == "IsFloat") { got = GNU_gama::IsFloat(s); want = ref_float(s); }
  else if (fn == "IsInteger") { got = GNU_gama::IsInteger(s); want = ref_integer(s); }
  else { got = GNU_gama::deg2gon(s, g); want = ref_dms_core(s); unspecified = !want && ref_dms_wide(s); }
  if (ctx().verbose) printf("# %s [%s] impl=%d reference=%d unspecified=%d class=%s\n", cs.c_str(), s.c_str(), got, want, unspecified, litclass(s).c_str());
  if (unspecified) { O(fn + "|unspecified-by-manual|" + (got ? "accepted" : "rejected")); return; }
  if (want) C("distinct_nontrivial");
  O(fn + "|" + (want ? "valid" : "invalid") + "|" + (got ? "accepted" : "rejected"));
  if (got != want) V("C18|literal|" + fn + "|" + (got ? "accepts-undocumented|" : "rejects-documented|") + litclass(s), cs, fn + "(\"" + s + "\") = " + (got ? "true" : "false") + ", reference grammar says " + (want ? "valid" : "invalid"));
}
// XML white space: blank, tab, line feed and carriage return are equivalent around a literal (xs:double / xs:integer are
// whitespace-collapsed; a DOS line end leaves a CR behind a value): the answer for a literal padded with ws must be the
// answer for the same literal padded with blanks.  ws: 0 tab 1 LF 2 CR; pos: 0 before 1 after 2 both
static void c18_litws(const std::string& fn, const std::string& s, int ws, int pos) {
  static const char WS[3] = {'\t', '\n', '\r'}; static const char* WSN[3] = {"tab", "lf", "cr"};
  C("evaluations"); C("transitions", 2);
  std::string cs = "litws;" + fn + ";" + std::to_string(ws) + ";" + std::to_string(pos) + ";" + enc(s);
  std::string a = s, b = s;
  if (pos != 1) { a = std::string(1, WS[ws]) + a; b = " " + b; }
  if (pos != 0) { a += WS[ws]; b += ' '; }
  bool ga, gb; double va = 0, vb = 0;
  if (fn == "IsFloat") { ga = GNU_gama::IsFloat(a); gb = GNU_gama::IsFloat(b); }
  else if (fn == "IsInteger") { ga = GNU_gama::IsInteger(a); gb = GNU_gama::IsInteger(b); }
  else { ga = GNU_gama::deg2gon(a, va); gb = GNU_gama::deg2gon(b, vb); }
  if (gb) C("distinct_nontrivial");
  O(fn + "|padded-with-" + WSN[ws] + "|" + (gb ? "valid" : "invalid") + "|" + (ga ? "accepted" : "rejected"));
  if (ga != gb || (ga && va != vb)) V("C18|literal|" + fn + "|xml-whitespace-not-equivalent|" + WSN[ws], cs, fn + " of [" + enc(s) + "] padded with " + WSN[ws] + (pos == 0 ? " before" : pos == 1 ? " after" : " on both sides") + " = " + (ga ? "true" : "false") + ", padded with blanks = " + (gb ? "true" : "false"));
}
static std::string nth_string(uint64_t idx, int len) { std::string s(len, ' '); for (int i = len - 1; i >= 0; i--) { s[i] = ALPHA[idx % 9]; idx /= 9; } return s; }

// ---------------------------------------------------------------- bearing / distance
static const double OFFS[3][2] = {{0.0, 0.0}, {-200.0, -200.0}, {1043000.125, 745000.375}};   // (x, y) of lattice node (0,0)
static const double SPAC[6] = {100.0, 0.01, 7919.123, 1e-3, 1e-4, 1e-5};   // down to 10 um: coincidence is |d| < 1 um
static void node(int off, int sp, int i, double& x, double& y) { x = OFFS[off][0] + (i / 5) * SPAC[sp]; y = OFFS[off][1] + (i % 5) * SPAC[sp]; }
static void c18_brg(int off, int sp, int i, int j) {
  using namespace GNU_gama::local;
  double xa, ya, xb, yb; node(off, sp, i, xa, ya); node(off, sp, j, xb, yb);
  std::string cs = "brg;" + std::to_string(off) + ";" + std::to_string(sp) + ";" + std::to_string(i) + ";" + std::to_string(j);
  LocalPoint A(xa, ya), B(xb, yb);
  double bab, dab, bba, dba, b2, d2;
  bearing_distance(A, B, bab, dab);
  bearing_distance(B, A, bba, dba);
  bearing_distance(ya, xa, yb, xb, b2, d2);
  double b3 = bearing(A, B), b4 = bearing(ya, xa, yb, xb), d3 = distance(A, B), d4 = distance(B, A);
  C("evaluations"); C("transitions", 7);
  LD dx = (LD)xb - xa, dy = (LD)yb - ya;
  if (ctx().verbose) printf("# %s A=(%.6f,%.6f) B=(%.6f,%.6f) bearing(A,B)=%.17g bearing(B,A)=%.17g d=%.17g/%.17g distance()=%.17g\n", cs.c_str(), xa, ya, xb, yb, bab, bba, dab, dba, d3);
  std::string q;
  if (i == j) {
    O("bearing|coincident-points->0,0");
    if (!(bab == 0 && dab == 0 && d3 == 0)) V("C18|bearing|coincident-points", cs, "bearing=" + str(bab) + " distance=" + str(dab));
    return;
  }
  C("distinct_nontrivial");
  q = dy == 0 ? (dx > 0 ? "north(dy=0,dx>0)" : "south(dy=0,dx<0)") : dx == 0 ? (dy > 0 ? "east" : "west") : (dx > 0 ? (dy > 0 ? "Q1" : "Q4") : (dy > 0 ? "Q2" : "Q3"));
  O("bearing|" + q);
  // by construction of the lattice dy is exactly 0 or far from 0, so the half-open interval is decidable
  if (!(dy == 0 || fabsl(dy) > 1e-9L * fabsl(dx))) { O("bearing|skipped-tiny-negative-dy"); return; }
  LD r = atan2l(dy, dx); if (r < 0) r += 2 * PIl;
  LD dref = sqrtl(dx * dx + dy * dy);
  auto angdiff = [](LD a, LD b) { LD d = fabsl(a - b); if (d > PIl) d = fabsl(d - 2 * PIl); return d; };
  if (!(bab >= 0 && bab < 2 * M_PI && bba >= 0 && bba < 2 * M_PI)) V("C18|bearing|range-0-2pi|" + q, cs, "bearing(a,b)=" + str(bab) + " bearing(b,a)=" + str(bba));
  if (!(angdiff(bab, r) <= 1e-14L)) V("C18|bearing|value-vs-atan2|" + q, cs, "bearing=" + str(bab) + " reference " + str((double)r));
  if (!(fabsl(fabsl((LD)bab - (LD)bba) - PIl) <= 1e-14L)) V("C18|bearing|antisymmetry|" + q, cs, "bearing(a,b)=" + str(bab) + " bearing(b,a)=" + str(bba) + " difference " + str(bab - bba));
  if (!(dab == dba && d3 == d4 && fabsl((LD)dab - dref) <= 4e-16L * dref && fabsl((LD)d3 - dref) <= 4e-16L * dref)) V("C18|distance|symmetry-or-value|" + q, cs, "d(a,b)=" + str(dab) + " d(b,a)=" + str(dba) + " distance()=" + str(d3) + "/" + str(d4) + " reference " + str((double)dref));
  LD ex = fabsl((LD)dab * cosl((LD)bab) - dx), ey = fabsl((LD)dab * sinl((LD)bab) - dy);
  if (!(ex <= 1e-13L * dref && ey <= 1e-13L * dref)) V("C18|bearing|polar-to-rectangular|" + q, cs, "d*cos-dx=" + str((double)ex) + " d*sin-dy=" + str((double)ey));
  if (!(b2 == bab && d2 == dab && b3 == bab && b4 == bab)) V("C18|bearing|overloads-disagree|" + q, cs, "point/coordinate overloads give different answers");
}

static void c18_case(const std::string& cs) {
  size_t p = cs.find(';');
  std::string k = cs.substr(0, p);
  auto f = split(cs, ';');
  auto I = [&](int i) { return atoi(f.at(i).c_str()); };
  if (k == "ell") c18_ell(I(1), I(2), I(3), I(4));
  else if (k == "pole") c18_pole(I(1), I(2), I(3));
  else if (k == "elltab") c18_elltab(I(1));
  else if (k == "hist") c18_hist(I(1), I(2), I(3), I(4), I(5), strtod(f.at(6).c_str(), nullptr));
  else if (k == "g2d") c18_g2d(strtod(f.at(1).c_str(), nullptr), I(2), I(3));
  else if (k == "s2s") c18_s2s(I(1), I(2), I(3), I(4), I(5));
  else if (k == "ll") c18_ll(strtod(f.at(1).c_str(), nullptr), I(2), "case");
  else if (k == "dms") c18_dms(strtod(f.at(1).c_str(), nullptr));
  else if (k == "dmslit") c18_dmslit(I(1), I(2), I(3));
  else if (k == "lit") { size_t q = cs.find(';', p + 1); c18_lit(cs.substr(p + 1, q - p - 1), dec(q == std::string::npos ? "" : cs.substr(q + 1))); }
  else if (k == "litws") { size_t q = p; for (int n = 0; n < 3; n++) q = cs.find(';', q + 1); c18_litws(f.at(1), dec(q == std::string::npos ? "" : cs.substr(q + 1)), I(2), I(3)); }
  else if (k == "brg") c18_brg(I(1), I(2), I(3), I(4));
  else { fprintf(stderr, "unknown c18 case %s\n", cs.c_str()); exit(3); }
}

static int run_c18() {
  Ctx& c = ctx();
  if (!c.replay.empty()) { c18_case(c.replay); return finish(); }
  const std::string part = c.opt.count("part") ? c.opt["part"] : "all";
  auto on = [&](const char* p) { return part == "all" || part == p; };
  uint64_t unit = 0;
  // --- ellipsoids: every table entry (and the default object) x full (lat, lon, h) grid
  if (on("ell")) {
    size_t NLAT = lat_list().size(), NLON = lon_list().size();
    for (int id = 0; id <= NELL; id++) {
      if (!take(unit++) || expired()) continue;
      if (id) c18_elltab(id);
      for (size_t a = 0; a < NLAT; a++) for (size_t o = 0; o < NLON; o++) for (int h = 0; h < 6; h++) c18_ell(id, (int)a, (int)o, h);
      for (int sg = -1; sg <= 1; sg += 2) for (int h = 0; h < 6; h++) c18_pole(id, sg, h);
      if (id == 6) {
        GNU_gama::Ellipsoid E; make_ell(id, E);
        double b0 = (double)(-89.999999L * PIl / 180), l0 = (double)PIl, h0 = 2e7, x, y, z, b2, l2, h2;
        E.blh2xyz(b0, l0, h0, x, y, z); E.xyz2blh(x, y, z, b2, l2, h2);
        X("bessel lat=-89.999999 lon=180 h=20000km: xyz=(" + str(x) + "," + str(y) + "," + str(z) + ") -> lat " + str(b2 * 180 / M_PI) + " lon " + str(l2 * 180 / M_PI) + " h " + str(h2) + " (one of " + std::to_string(NLAT * NLON * 6) + " grid points per ellipsoid)");
      }
    }
  }
  // --- ellipsoids: histories [set(e1), op1(b), switch(e2), op2(b)] of one shared object, all ordered pairs (e1, e2) x 4 ways to switch
  //     x all pairs of operations x the latitude grid (1 deg; thorough 0.25 deg)
  if (on("hist")) {
    for (int e1 = 0; e1 <= NELL; e1++) for (int st = 0; st < NHSET; st++) {
      if (!take(unit++) || expired()) continue;
      c18_hist_unit(e1, st);
    }
    if (mine(0)) {
      GNU_gama::Ellipsoid E; make_ell(6, E); double b = (double)(50 * PIl / 180); double n1 = E.N(b); GNU_gama::set(&E, GNU_gama::ellipsoid_wgs84); double n2 = E.N(b);
      GNU_gama::Ellipsoid Fr; double n3 = Fr.N(b);
      X("one object: bessel N(50 deg) = " + str(n1) + ", set(wgs84), N(50 deg) = " + str(n2) + "; fresh wgs84 object N(50 deg) = " + str(n3));
    }
  }
  // --- angles
  if (on("ang")) {
    // G1: k * 0.0001 gon, k = 0 .. 4 000 000 (quick: 1 000 000) ; sign mode 3 x all precisions on every k, the other sign modes and negatives on every 8th k (quick) / every k (thorough)
    const long K = c.opt.count("kmax") ? atol(c.opt["kmax"].c_str()) : (thorough() ? 4000000 : 1000000), BL = 20000;   // 0..400 gon (quick: 0..100 gon)
    for (long k0 = 0; k0 <= K; k0 += BL) {
      if (!take(unit++)) continue;
      if (expired()) break;
      for (long k = k0; k < k0 + BL && k <= K; k++) {
        double gon = k / 10000.0;
        C("distinct_nontrivial");
        for (int prec = 0; prec <= 6; prec++) c18_g2d(gon, 3, prec, "grid-0.0001gon");
        if (thorough() || k % 8 == 0) {
          for (int prec = 0; prec <= 6; prec++) { c18_g2d(-gon, 3, prec, "grid-0.0001gon"); for (int sg = 0; sg < 3; sg++) { c18_g2d(gon, sg, prec, "grid-0.0001gon"); c18_g2d(-gon, sg, prec, "grid-0.0001gon"); } }
        }
        c18_dms((double)((LD)k * PIl / 2000000));
        if (thorough() || k % 8 == 0) c18_dms(-(double)((LD)k * PIl / 2000000));
        if (k % 64 == 0) for (int turn = 1; turn <= 3; turn++) {        // the same angle one, two and three turns outside [0, 2pi), both ways
          c18_dms((double)((LD)k * PIl / 2000000 + turn * 2 * PIl)); c18_dms((double)((LD)k * PIl / 2000000 - (turn + 1) * 2 * PIl));
        }
      }
    }
    // G2: values whose seconds are 60 - j*0.1*10^-p (round up for j<=5) around a (d, m) set, every precision and sign mode, both signs
    if (take(unit++)) {
      static const int DD[] = {0, 1, 12, 59, 89, 90, 179, 180, 359}, MM[] = {0, 1, 34, 59};
      for (int d : DD) for (int m : MM) for (int p = 0; p <= 6; p++) for (int j = 1; j <= 12; j++) {
        LD s = 60 - j * 0.1L * powl(10.0L, -p);
        double gon = (double)(((LD)d + (LD)m / 60 + s / 3600) / 0.9L);
        C("distinct_nontrivial");
        for (int prec = 0; prec <= 6; prec++) for (int sg = 0; sg <= 3; sg++) { c18_g2d(gon, sg, prec, "near-60"); c18_g2d(-gon, sg, prec, "near-60"); }
        if (d <= 180) { double rad = (double)(((LD)d + (LD)m / 60 + s / 3600) * PIl / 180); for (int prec = 0; prec <= 7; prec++) { c18_ll(rad, prec, "near-60"); c18_ll(-rad, prec, "near-60"); } }
      }
      const double special[] = {0.0, 400.0, 399.99999, 100.0, 200.0, 300.0, 1e-7, 0.5, 13.97, (12 + 34 / 60.0 + 59.99996 / 3600) / 0.9};
      for (double g : special) for (int prec = 0; prec <= 6; prec++) for (int sg = 0; sg <= 3; sg++) { c18_g2d(g, sg, prec, "special"); c18_g2d(-g, sg, prec, "special"); }
      { std::string t = GNU_gama::gon2deg(13.97, 3, 2); double g = 0; bool ok = GNU_gama::deg2gon(t, g);
        X("gon2deg(13.97, 3, 2) = [" + t + "] ; deg2gon -> " + (ok ? str(g) : std::string("rejected")) + " ; deg2gon(\"12-47-00\") -> gon2deg(.., 3, 2) = [" + [&]() { double v = 0; GNU_gama::deg2gon("12-47-00", v); return GNU_gama::gon2deg(v, 3, 2); }() + "]"); }
    }
    // G3: canonical strings d-mm-ss[.5] -> value -> string, all minutes and seconds
    {
      static const int DD[] = {0, 1, 12, 89, 179, 359};
      for (int d : DD) for (int m = 0; m < 60; m++) {
        if (!take(unit++)) continue;
        for (int s = 0; s < 60; s++) for (int half = 0; half <= 1; half++) for (int prec = half ? 1 : 0; prec <= 6; prec++) c18_s2s(d, m, s, half, prec);
      }
      // latitude()/longitude(): every whole second of 8 degree values, 4 precisions, both signs
      static const int D3[] = {0, 1, 12, 49, 89, 90, 179, 180}, PR[] = {0, 1, 3, 7};
      for (int d : D3) for (int m = 0; m < 60; m++) {
        if (!take(unit++)) continue;
        for (int sc = 0; sc < 60; sc++) {
          double rad = (double)(((LD)d + (LD)m / 60 + (LD)sc / 3600) * PIl / 180);
          C("distinct_nontrivial");
          for (int pr : PR) { c18_ll(rad, pr, "whole-seconds"); c18_ll(-rad, pr, "whole-seconds"); }
        }
      }
      static const int D2[] = {0, 1, 12, 179, 359};
      for (int d : D2) { if (!take(unit++)) continue; for (int m = 0; m < 60; m++) for (int s = 0; s < 60; s++) c18_dmslit(d, m, s); }
    }
  }
  // --- literal recognisers: all strings over the 9 character alphabet
  if (on("lit")) {
    int maxlen = c.opt.count("maxlen") ? atoi(c.opt["maxlen"].c_str()) : 6;
    int maxlen_dms = c.opt.count("maxlendms") ? atoi(c.opt["maxlendms"].c_str()) : 7;
    for (int len = 0; len <= std::max(maxlen, maxlen_dms); len++) {
      uint64_t total = 1; for (int i = 0; i < len; i++) total *= 9;
      const uint64_t BL = 6561;
      for (uint64_t i0 = 0; i0 < total; i0 += BL) {
        if (!take(unit++)) continue;
        if (expired()) break;
        for (uint64_t i = i0; i < i0 + BL && i < total; i++) {
          std::string s = nth_string(i, len);
          if (len <= maxlen) { c18_lit("IsFloat", s); c18_lit("IsInteger", s); }
          if (len <= maxlen_dms) c18_lit("deg2gon", s);
        }
      }
    }
    // every string of length <= 4 (deg2gon: <= 6) x {tab, LF, CR} x {before, after, both} against the blank-padded twin
    for (int len = 0; len <= 6; len++) {
      uint64_t total = 1; for (int i = 0; i < len; i++) total *= 9;
      const uint64_t BL = 6561;
      for (uint64_t i0 = 0; i0 < total; i0 += BL) {
        if (!take(unit++)) continue;
        if (expired()) break;
        for (uint64_t i = i0; i < i0 + BL && i < total; i++) {
          std::string s = nth_string(i, len);
          for (int ws = 0; ws < 3; ws++) for (int pos = 0; pos < 3; pos++) {
            if (len <= 4) { c18_litws("IsFloat", s, ws, pos); c18_litws("IsInteger", s, ws, pos); }
            c18_litws("deg2gon", s, ws, pos);
          }
        }
      }
    }
    if (mine(0)) {
      std::string t;
      for (const char* w : {" +.1e-1", "1e", "1 1", "0x1", "-1."}) t += std::string("IsFloat(\"") + w + "\")=" + (GNU_gama::IsFloat(std::string(w)) ? "true" : "false") + "/reference " + (ref_float(w) ? "valid" : "invalid") + "  ";
      X(t);
    }
  }
  // --- bearing / distance: all ordered pairs (and the 25 coincident ones) of the 5 x 5 lattice, 3 offsets x 6 spacings (10 um .. 8 km)
  if (on("brg")) {
    for (int off = 0; off < 3; off++) for (int sp = 0; sp < 6; sp++) {
      if (!take(unit++)) continue;
      for (int i = 0; i < 25; i++) for (int j = 0; j < 25; j++) c18_brg(off, sp, i, j);
    }
  }
  return finish();
}

int main(int argc, char** argv) {
  parse_args(argc, argv);
  const std::string& m = ctx().mode;
  if (m == "c17") return run_c17();
  if (m == "c17ref") return run_c17ref();
  if (m == "c18") return run_c18();
  fprintf(stderr, "usage: gridmc --mode c17|c18|c17ref [--tier quick|thorough] [--shard i/n] [--case <string>]\n");
  return 3;
}
