#include <typeinfo>
// parsemc -- C11 engine: bounded exhaustive exploration of the gama-local input
// parser (GKFparser through the real xml_parse/expat path), in-process, built
// with ASan+UBSan.
//
//   --mode automaton  explicit-state BFS over well-formed event prefixes
//   --mode mutate     every prefix / single byte substitution / two-chunk split
//                     of the seed documents in --seeds DIR
//   --mode literals   all strings over a 9 letter alphabet up to a length bound
//                     in one numeric attribute of every class
//   --case <string>   re-run exactly one case verbosely (all modes)
//
// Output: the vh.h line protocol plus
//   A <tab> ...   an accepted document / mutant the driver must push through
//                 the real gama-local executable
//   R <tab> ...   a refused mutant with (class,line) for cross validation
//
// Private parser fields are read with -fno-access-control (DESIGN 2.5).
#include <unistd.h>
#include <fcntl.h>
#include <dirent.h>
#include <sys/wait.h>
#include <sys/mman.h>
#include <sys/stat.h>
#include <sys/time.h>
#include <signal.h>
#include <setjmp.h>
#include <fstream>
#include <iostream>
#include <unordered_map>
#include <unordered_set>
#include <memory>
#include <gnu_gama/xml/gkfparser.h>
#include <gnu_gama/local/language.h>
#include <gnu_gama/local/network.h>
#include <gnu_gama/local/cluster.h>
#include "vh.h"

using namespace vh;
using GNU_gama::local::GKFparser;
using GNU_gama::local::LocalNetwork;
typedef GNU_gama::local::ParserException PExc;

static const char* STATE_NAME[] = {
  "state_error", "state_start", "state_gama_xml", "state_network", "state_description",
  "state_parameters", "state_point_obs", "state_point", "state_obs", "state_obs_direction",
  "state_obs_distance", "state_obs_angle", "state_obs_sdistance", "state_obs_zangle",
  "state_obs_azimuth", "state_obs_cov", "state_obs_after_cov", "state_coords",
  "state_coords_point", "state_coords_cov", "state_coords_after_cov", "state_hdiffs",
  "state_hdiffs_dh", "state_hdiffs_cov", "state_hdiffs_after_cov", "state_vectors",
  "state_vectors_vec", "state_vectors_cov", "state_vectors_after_cov", "state_stop"};
static std::string sname(int s) {
  if (s >= 0 && s <= (int)GKFparser::state_stop) return STATE_NAME[s];
  return "state_" + std::to_string(s);
}

// ------------------------------------------------------------------ one parser
struct Snap {            // what an observer of the private fields sees
  int state = -1, errCode = 0, errLine = 0;
  std::string errString;
  bool in_error() const { return state == 0 || errCode != 0; }
};

struct Outcome {         // what a caller of xml_parse sees
  int cls = 0;           // 0 accepted, 1 parser (gkf) error, 2 expat error, 3 other exception, 4 hang
  int line = 0, code = 0;
  std::string msg;
  std::string str() const {
    if (cls == 0) return "accepted";
    return std::string(cls == 1 ? "gkf-error" : cls == 2 ? "xml-error" : cls == 4 ? "HANG" : "exception") +
           " line=" + std::to_string(line) + " msg=" + msg;
  }
  bool same(const Outcome& o) const { return cls == o.cls && line == o.line && msg == o.msg; }
};

// CPU time limit of one xml_parse call made by the harness.  An ordinary call costs
// 1-100 microseconds; a call that is still running after PARSE_CPU_LIMIT_US of CPU time
// is reported as a hang (the parser objects of that session are abandoned, not destroyed).
static long PARSE_CPU_LIMIT_US = 250000;
static sigjmp_buf HANG_JB;
static volatile sig_atomic_t hang_armed = 0;
static void on_vtalrm(int) { if (hang_armed) { hang_armed = 0; siglongjmp(HANG_JB, 1); } }
static void install_hang_guard() {
  struct sigaction sa; memset(&sa, 0, sizeof sa); sa.sa_handler = on_vtalrm; sa.sa_flags = SA_NODEFER;
  sigaction(SIGVTALRM, &sa, nullptr);
}
static void arm(long us) { struct itimerval tv; memset(&tv, 0, sizeof tv); tv.it_value.tv_sec = us / 1000000; tv.it_value.tv_usec = us % 1000000; setitimer(ITIMER_VIRTUAL, &tv, nullptr); }

struct Sess {
  std::unique_ptr<LocalNetwork> net;
  std::unique_ptr<GKFparser> p;
  bool dead = false;
  Sess() : net(new LocalNetwork), p(new GKFparser(*net)) {}
  ~Sess() { if (dead) { p.release(); net.release(); } }
  Snap snap() const {
    Snap s; s.state = p->state; s.errCode = p->errCode; s.errLine = p->errLineNumber;
    s.errString = p->errString; return s;
  }
  // feed one chunk; returns true if xml_parse threw, filling o
  bool feed(const char* d, int len, int fin, Outcome& o) {
    if (dead) { o.cls = 4; o.msg = "hang"; return true; }
    if (sigsetjmp(HANG_JB, 1)) { dead = true; o.cls = 4; o.line = 0; o.msg = "hang: xml_parse still running after " + std::to_string(PARSE_CPU_LIMIT_US / 1000) + " ms CPU"; return true; }
    hang_armed = 1; arm(PARSE_CPU_LIMIT_US);
    struct Disarm { ~Disarm() { hang_armed = 0; arm(0); } } disarm;
    try { p->xml_parse(d, len, fin); }
    catch (const PExc& e) {
      o.cls = e.error_code > 0 ? 2 : 1; o.line = e.line; o.code = e.error_code; o.msg = e.str;
      return true;
    }
    catch (const GNU_gama::Exception::base& e) { o.cls = 3; o.msg = e.what(); return true; }
    catch (const std::exception& e) { o.cls = 3; o.msg = e.what(); return true; }
    return false;
  }
};

// the reading loop of gama-local's main(): one chunk per input line
static Outcome parse_like_main(const std::string& doc) {
  Sess s; Outcome o;
  size_t pos = 0;
  for (;;) {
    size_t b = pos; bool hit_eof = false;
    for (;;) {                       // while (inxml->get(c)) { line += c; if (c == '\n') break; }
      if (pos >= doc.size()) { hit_eof = true; break; }
      char c = doc[pos++];
      if (c == '\n') break;
    }
    int fin = hit_eof ? 1 : 0;       // if (inxml->eof() || !inxml->good()) finish = 1;
    if (s.feed(doc.data() + b, (int)(pos - b), fin, o)) return o;
    if (fin) break;
  }
  return o;
}
static Outcome parse_whole(const std::string& doc) {
  Sess s; Outcome o; s.feed(doc.data(), (int)doc.size(), 1, o); return o;
}
// one line per cluster: kind, observations, covariance dimension, band, every element inside the band
static std::string cluster_table(LocalNetwork& net, bool& dims_ok) {
  std::ostringstream t; dims_ok = true;
  for (auto* c : net.OD.clusters) {
    const auto& C = c->covariance_matrix;
    const int n = (int)c->observation_list.size(), d = (int)C.dim(), b = (int)C.bandWidth();
    if (d != n) dims_ok = false;
    t << typeid(*c).name() << " n=" << n << " dim=" << d << " band=" << b << " :";
    char buf[40];
    for (int i = 1; i <= d; i++) for (int j = i; j <= d && j <= i + b; j++) { snprintf(buf, sizeof buf, " %.17g", (double)C(i, j)); t << buf; }
    t << "\n";
  }
  return t.str();
}
// the whole document in one call, with the parse-time covariance check on or off (library flag check_covariances)
static Outcome parse_whole_flag(const std::string& doc, bool check, std::string& table, bool& dims_ok) {
  Sess s; Outcome o; s.p->check_covariances(check);
  s.feed(doc.data(), (int)doc.size(), 1, o);
  dims_ok = true; table.clear();
  if (o.cls == 0) table = cluster_table(*s.net, dims_ok);
  return o;
}
static Outcome parse_split(const std::string& doc, size_t p) {
  Sess s; Outcome o;
  if (s.feed(doc.data(), (int)p, 0, o)) return o;
  s.feed(doc.data() + p, (int)(doc.size() - p), 1, o);
  return o;
}

static std::string ocls(const Outcome& o) { return o.cls == 0 ? "accepted" : o.cls == 1 ? "gkf-error" : o.cls == 2 ? "xml-error" : o.cls == 3 ? "exception" : "hang"; }
// structural class of a message: digits and quoted payload removed
static std::string msgclass(const std::string& m) {
  std::string r;
  for (char c : m) {
    if (isdigit((unsigned char)c)) { if (r.empty() || r.back() != '#') r += '#'; }
    else if ((unsigned char)c < 32 || (unsigned char)c > 126) { if (r.empty() || r.back() != '?') r += '?'; }
    else if (c == ' ') r += '_';        // signatures must not contain blanks
    else r += c;
  }
  if (r.size() > 48) r.resize(48);
  if (r.empty()) r = "(empty)";
  return r;
}

// =================================================================== automaton
struct Event {
  int kind;              // 0 open, 1 close, 2 text
  std::string tag, attrs, text, label;
};
static std::vector<Event> EV;
static int NOBS_CLIP = 4, TOK_CLIP = 7, DEPTH_CLIP = 7;

static void add_open(const std::string& tag, std::initializer_list<std::pair<const char*, const char*>> menu) {
  for (auto& m : menu) {
    Event e; e.kind = 0; e.tag = tag; e.attrs = m.second;
    e.label = "open(" + tag + ":" + m.first + ")";
    EV.push_back(e);
  }
}
static void build_alphabet(bool thorough_) {
  EV.clear();
  const char* NS = "xmlns=\"http://www.gnu.org/software/gama/gama-local\"";
  add_open("gama-local", {{"min", ""}, {"full", (std::string(NS) + " version=\"2.0\"").c_str()},
                          {"badns", "xmlns=\"http://example.org/x\""}, {"unk", "foo=\"1\""}});
  // (std::string temporaries above die at the end of the full expression: copy now)
  EV[1].attrs = std::string(NS) + " version=\"2.0\"";
  add_open("gama-xml", {{"min", ""}});
  add_open("network", {{"min", ""}, {"full", "axes-xy=\"en\" angles=\"left-handed\" epoch=\"1.5\""},
                       {"badenum", "axes-xy=\"zz\""}, {"badnum", "epoch=\"1.5x\""}, {"unk", "foo=\"1\""}});
  add_open("description", {{"min", ""}, {"unk", "foo=\"1\""}});
  add_open("parameters", {{"min", ""},
      {"full", "sigma-apr=\"1\" conf-pr=\"0.9\" tol-abs=\"100\" sigma-act=\"apriori\" algorithm=\"svd\" angular=\"360\" cov-band=\"0\" latitude=\"50\" ellipsoid=\"wgs84\""},
      {"badnum", "sigma-apr=\"x\""}, {"neg", "sigma-apr=\"-1\""}, {"badint", "cov-band=\"1.5\""},
      {"badenum", "angular=\"300\""}, {"badalgo", "algorithm=\"zzz\""}, {"dms", "latitude=\"50-30-00\" ellipsoid=\"zzz\""},
      {"docattr", "language=\"en\" encoding=\"utf-8\""}, {"conf95", "conf-pr=\"95\""}, {"unk", "foo=\"1\""}});
  add_open("points-observations", {{"min", ""},
      {"full", "distance-stdev=\"5 3 1\" direction-stdev=\"10\" angle-stdev=\"10\" zenith-angle-stdev=\"10\" azimuth-stdev=\"10\""},
      {"toomany", "distance-stdev=\"5 3 1 7\""}, {"badnum", "direction-stdev=\"x\""}, {"unk", "foo=\"1\""}});
  add_open("point", {{"Afix", "id=\"A\" x=\"0\" y=\"0\" z=\"0\" fix=\"xyz\""},
      {"Badj", "id=\"B\" x=\"100\" y=\"0\" z=\"10\" adj=\"xyz\""},
      {"Bxy", "id=\"B\" x=\"100\" y=\"0\""}, {"Bz", "id=\"B\" z=\"10\""},
      {"Conly", "id=\"C\""}, {"noid", "x=\"1\" y=\"2\""}, {"xnoy", "id=\"B\" x=\"1\""},
      {"badx", "id=\"B\" x=\"1e\" y=\"2\""}, {"badz", "id=\"B\" x=\"1\" y=\"2\" z=\"--1\""},
      {"badadj", "id=\"B\" adj=\"q\""}, {"unk", "id=\"B\" foo=\"1\""}});
  add_open("obs", {{"fromA", "from=\"A\""}, {"min", ""}, {"full", "from=\"A\" orientation=\"10\" from_dh=\"1.5\""},
      {"badnum", "from=\"A\" orientation=\"x\""}, {"baddh", "from=\"A\" from_dh=\"x\""}, {"unk", "foo=\"1\""}});
  add_open("direction", {{"ok", "to=\"B\" val=\"10\" stdev=\"10\""}, {"nostdev", "to=\"B\" val=\"10\""},
      {"dms", "to=\"B\" val=\"10-20-30\" stdev=\"10\""}, {"noto", "val=\"10\" stdev=\"10\""},
      {"noval", "to=\"B\" stdev=\"10\""}, {"badval", "to=\"B\" val=\"1-2\" stdev=\"10\""},
      {"badstdev", "to=\"B\" val=\"10\" stdev=\"x\""}, {"baddh", "to=\"B\" val=\"10\" stdev=\"10\" from_dh=\"x\""},
      {"self", "to=\"A\" val=\"10\" stdev=\"10\""}, {"huge", "to=\"B\" val=\"1e300\" stdev=\"10\""}, {"unk", "to=\"B\" val=\"10\" foo=\"1\""}});
  for (const char* t : {"distance", "s-distance"})
    add_open(t, {{"ok", "from=\"A\" to=\"B\" val=\"100\" stdev=\"5\""}, {"nofrom", "to=\"B\" val=\"100\" stdev=\"5\""},
      {"nostdev", "from=\"A\" to=\"B\" val=\"100\""}, {"noto", "from=\"A\" val=\"100\""},
      {"noval", "from=\"A\" to=\"B\""}, {"badval", "from=\"A\" to=\"B\" val=\"x\""},
      {"negval", "from=\"A\" to=\"B\" val=\"-5\" stdev=\"5\""},
      {"baddh", "from=\"A\" to=\"B\" val=\"100\" stdev=\"5\" to_dh=\"x\""}, {"unk", "from=\"A\" to=\"B\" val=\"100\" foo=\"1\""}});
  add_open("angle", {{"ok", "from=\"A\" bs=\"B\" fs=\"C\" val=\"50\" stdev=\"10\""}, {"nofrom", "bs=\"B\" fs=\"C\" val=\"50\" stdev=\"10\""},
      {"nobs", "from=\"A\" fs=\"C\" val=\"50\""}, {"nofs", "from=\"A\" bs=\"B\" val=\"50\""},
      {"noval", "from=\"A\" bs=\"B\" fs=\"C\""}, {"badval", "from=\"A\" bs=\"B\" fs=\"C\" val=\"x\""},
      {"baddh", "from=\"A\" bs=\"B\" fs=\"C\" val=\"50\" stdev=\"10\" fs_dh=\"x\""},
      {"same", "from=\"A\" bs=\"B\" fs=\"B\" val=\"50\" stdev=\"10\""}, {"unk", "from=\"A\" bs=\"B\" fs=\"C\" val=\"50\" foo=\"1\""}});
  for (const char* t : {"z-angle", "azimuth"})
    add_open(t, {{"ok", "from=\"A\" to=\"B\" val=\"90\" stdev=\"10\""}, {"nofrom", "to=\"B\" val=\"90\" stdev=\"10\""},
      {"noto", "from=\"A\" val=\"90\""}, {"noval", "from=\"A\" to=\"B\""}, {"badval", "from=\"A\" to=\"B\" val=\"x\""},
      {"badstdev", "from=\"A\" to=\"B\" val=\"90\" stdev=\"1e\""}, {"unk", "from=\"A\" to=\"B\" val=\"90\" foo=\"1\""}});
  add_open("height-differences", {{"min", ""}, {"unk", "foo=\"1\""}});
  add_open("dh", {{"ok", "from=\"A\" to=\"B\" val=\"10\" stdev=\"5\""}, {"dist", "from=\"A\" to=\"B\" val=\"10\" dist=\"1\""},
      {"nostdev", "from=\"A\" to=\"B\" val=\"10\""}, {"nofrom", "to=\"B\" val=\"10\" stdev=\"5\""},
      {"noto", "from=\"A\" val=\"10\""}, {"noval", "from=\"A\" to=\"B\""}, {"badval", "from=\"A\" to=\"B\" val=\"x\""},
      {"negdist", "from=\"A\" to=\"B\" val=\"10\" dist=\"-1\""}, {"badstdev", "from=\"A\" to=\"B\" val=\"10\" stdev=\"x\""},
      {"self", "from=\"A\" to=\"A\" val=\"10\" stdev=\"5\""}, {"unk", "from=\"A\" to=\"B\" val=\"10\" foo=\"1\""}});
  add_open("coordinates", {{"min", ""}, {"extern", "extern=\"e1\""}, {"unk", "foo=\"1\""}});
  add_open("vectors", {{"min", ""}, {"unk", "foo=\"1\""}});
  add_open("vec", {{"ok", "from=\"A\" to=\"B\" dx=\"100\" dy=\"0\" dz=\"10\""}, {"nofrom", "to=\"B\" dx=\"100\" dy=\"0\" dz=\"10\""},
      {"noto", "from=\"A\" dx=\"100\" dy=\"0\" dz=\"10\""}, {"nodx", "from=\"A\" to=\"B\" dy=\"0\" dz=\"10\""},
      {"baddx", "from=\"A\" to=\"B\" dx=\"x\" dy=\"0\" dz=\"10\""}, {"baddh", "from=\"A\" to=\"B\" dx=\"100\" dy=\"0\" dz=\"10\" from_dh=\"x\""},
      {"self", "from=\"A\" to=\"A\" dx=\"100\" dy=\"0\" dz=\"10\""}, {"unk", "from=\"A\" to=\"B\" dx=\"100\" dy=\"0\" dz=\"10\" foo=\"1\""}});
  add_open("cov-mat", {{"d1b0", "dim=\"1\" band=\"0\""}, {"d2b0", "dim=\"2\" band=\"0\""}, {"d2b1", "dim=\"2\" band=\"1\""},
      {"nodim", "band=\"0\""}, {"noband", "dim=\"1\""},
      {"baddim", "dim=\"1x\" band=\"0\""}, {"dim0", "dim=\"0\" band=\"0\""}, {"bandge", "dim=\"2\" band=\"2\""},
      {"fracdim", "dim=\"1.5\" band=\"0\""}, {"hugedim", "dim=\"99999999999\" band=\"0\""},
      {"hugeband", "dim=\"2\" band=\"99999999999\""}, {"unk", "dim=\"1\" band=\"0\" foo=\"1\""}});
  add_open("foo", {{"min", ""}});
  Event c; c.kind = 1; c.label = "close"; EV.push_back(c);
  auto text = [&](const char* lab, const char* t) { Event e; e.kind = 2; e.text = t; e.label = std::string("text(") + lab + ")"; EV.push_back(e); };
  text("ws", " ");
  text("nonws", "x");
  text("cov:1", "1 ");
  text("cov:-1", "-1 ");
  text("cov:.5", "0.5 ");
  text("cov:bad", "1e ");
  // thorough only; appended last so that event numbers (replay cases) do not depend on the tier
  if (thorough_) add_open("cov-mat", {{"d3b0", "dim=\"3\" band=\"0\""}, {"d3b1", "dim=\"3\" band=\"1\""}, {"d3b2", "dim=\"3\" band=\"2\""}});
}

struct Walk {            // a replayed history
  Sess s;
  int depth = 0; bool root_seen = false, root_closed = false;
  std::vector<std::string> stack;
  std::string doc;       // text fed so far (one event per line)
  int lines = 0;
  bool threw = false; Outcome last;     // of the last event
  bool enabled(const Event& e) const {
    if (e.kind == 0) return !root_closed;
    if (e.kind == 1) return depth > 0;
    if (e.text == " ") return true;
    return depth > 0;
  }
  void apply(const Event& e) {
    std::string t;
    if (e.kind == 0) { t = "<" + e.tag + (e.attrs.empty() ? "" : " " + e.attrs) + ">"; stack.push_back(e.tag); depth++; root_seen = true; }
    else if (e.kind == 1) { t = "</" + stack.back() + ">"; stack.pop_back(); depth--; if (depth == 0) root_closed = true; }
    else t = e.text;
    t += "\n";
    doc += t; lines++;
    last = Outcome();
    threw = s.feed(t.data(), (int)t.size(), 0, last);
  }
};

static int clusterkind(GNU_gama::Cluster<GNU_gama::local::Observation>* c) {
  using namespace GNU_gama::local;
  if (dynamic_cast<StandPoint*>(c)) return 1;
  if (dynamic_cast<Coordinates*>(c)) return 2;
  if (dynamic_cast<HeightDifferences*>(c)) return 3;
  if (dynamic_cast<Vectors*>(c)) return 4;
  return 0;
}

// A pending-cluster pointer of the parser is only dereferenced when it is one of the
// clusters owned by the network (GKFparser::heightdifferences is not initialised by
// the constructor, and in the muted region process_hdiffs can return before setting it).
typedef GNU_gama::Cluster<GNU_gama::local::Observation> ClusterT;
static ClusterT* owned(const Walk& w, const void* raw) {     // raw: no upcast of a possibly wild pointer
  for (auto* x : w.s.net->OD.clusters) if ((const void*)dynamic_cast<const void*>(x) == raw) return x;
  return nullptr;
}
static ClusterT* pending(const Walk& w) {
  const GKFparser& p = *w.s.p; int st = p.state;
  if (st >= GKFparser::state_obs && st <= GKFparser::state_obs_after_cov) return owned(w, (const void*)p.standpoint);
  if (st >= GKFparser::state_coords && st <= GKFparser::state_coords_after_cov) return owned(w, (const void*)p.coordinates);
  if (st >= GKFparser::state_hdiffs && st <= GKFparser::state_hdiffs_after_cov) return owned(w, (const void*)p.heightdifferences);
  if (st >= GKFparser::state_vectors && st <= GKFparser::state_vectors_after_cov) return owned(w, (const void*)p.vectors);
  return nullptr;
}

static std::string canon(const Walk& w) {
  const GKFparser& p = *w.s.p;
  std::ostringstream k;
  int dclip = std::min(w.depth, DEPTH_CLIP);
  if (p.state == 0) {     // error state: nothing but the error record can matter
    k << "ERR;ec=" << (p.errCode == 0 ? 0 : p.errCode < 0 ? -1 : 1) << ";msg=" << !p.errString.empty()
      << ";ln=" << (p.errLineNumber >= 1) << ";d=" << std::min(w.depth, 2) << ";rc=" << w.root_closed;
    return k.str();
  }
  if (p.errCode != 0) {
    // "muted" region: an error was recorded but the parser left the error state (only
    // reachable through the error-lost defect).  error() is a no-op from now on, the
    // parser's view and the real element stack drift apart.  Explored under a coarser
    // abstraction: enough to produce accepted documents of every cluster kind.
    int st = p.state; ClusterT* pend = pending(w);
    k << "MUTED:" << sname(st) << ";d=" << std::min(w.depth, 3) << ";rc=" << w.root_closed << ";idim=" << (p.idim != 0)
      << ";tok=" << !p.cov_mat_data.empty() << ";pend=" << (pend ? (pend->observation_list.empty() ? 0 : 1) : -1)
      << ";pts=" << (w.s.net->PD.size() >= 2);
    auto& cl = w.s.net->OD.clusters;
    if (!cl.empty()) { auto* c = cl.back(); int n = (int)c->observation_list.size();
      k << ";last=" << clusterkind(c) << "," << (n > 0) << "," << (c->covariance_matrix.dim() == n); }
    return k.str();
  }
  k << sname(p.state) << ";ec=" << (p.errCode == 0 ? 0 : p.errCode < 0 ? -1 : 1)
    << ";d=" << dclip << ";rs=" << w.root_seen << ";rc=" << w.root_closed;
  // covariance bookkeeping
  k << ";idim=" << std::min(p.idim, 9) << ";iband=" << (p.idim ? std::min(p.iband, 9) : 0);
  { int tok = 0, bad = 0; std::istringstream in(p.cov_mat_data); std::string t;
    while (in >> t) { tok++; if (!GNU_gama::IsFloat(t)) bad = 1; }
    k << ";tok=" << std::min(tok, TOK_CLIP) << bad; }
  { int z = 0; for (auto& s : p.sigma) if (s.first == 0) z = 1;
    k << ";sig=" << std::min<int>(p.sigma.size(), NOBS_CLIP) << z; }
  // pending cluster
  int st = p.state;
  { ClusterT* pc = pending(w); int n = pc ? std::min<int>(pc->observation_list.size(), NOBS_CLIP) : -1;
    if (st >= GKFparser::state_obs && st <= GKFparser::state_obs_after_cov) k << ";sp=" << n << ";spid=" << !p.standpoint_id.empty();
    else if (st >= GKFparser::state_coords && st <= GKFparser::state_vectors_after_cov) k << ";pend=" << n; }
  k << ";ppid=" << !p.pp_id.sid.empty();
  k << ";imp=" << (p.direction_stdev_ != 0) << (p.distance_stdev_ != 0) << (p.angle_stdev_ != 0)
    << (p.zenith_stdev_ != 0) << (p.azimuth_stdev_ != 0);
  // what the later stages will see: are there two points, and the LAST cluster
  k << ";pts=" << (w.s.net->PD.size() >= 2);
  { auto& cl = w.s.net->OD.clusters;
    if (!cl.empty()) { auto* c = cl.back();
      k << ";last=" << clusterkind(c) << "," << std::min<int>(c->observation_list.size(), NOBS_CLIP)
        << "," << std::min<int>(c->covariance_matrix.dim(), 9) << "," << std::min<int>(c->covariance_matrix.bandWidth(), 9); } }
  return k.str();
}

typedef std::vector<uint16_t> Hist;
static std::string hstr(const Hist& h) { std::string s; for (size_t i = 0; i < h.size(); i++) { if (i) s += ','; s += std::to_string(h[i]); } return s; }
static Hist hparse(const std::string& s) { Hist h; for (int v : ints(s)) h.push_back((uint16_t)v); return h; }
static std::string hlabels(const Hist& h) { std::string s; for (size_t i = 0; i < h.size(); i++) { if (i) s += ' '; s += EV[h[i]].label; } return s; }

static void replay(Walk& w, const Hist& h) { for (uint16_t e : h) w.apply(EV[e]); }

// invariants of one transition pre --e--> post; emits V lines into out
struct Sink { FILE* f; std::map<std::string, int> sigc; std::map<std::string, long long> cnt, outc; };
static void sinkV(Sink& k, const std::string& sig, const std::string& cs, const std::string& detail) {
  int& n = k.sigc[sig]; n++; k.cnt["violations_raw"]++;
  if (n <= 2) fprintf(k.f, "V\t%s\t%s\t%s\n", clean(sig).c_str(), clean(cs).c_str(), clean(detail).c_str());
}
static std::string evclass(const Event& e) {
  if (e.kind == 0) return "open(" + e.tag + ")";
  if (e.kind == 1) return "close";
  return e.label;
}
static void check_transition(Sink& k, const Snap& pre, const Walk& w, const Event& e, const Hist& h, bool verbose = false) {
  Snap post = w.s.snap();
  std::string cs = "automaton:" + hstr(h);
  std::string where = sname(pre.state) + "|" + evclass(e);
  if (w.threw && w.last.cls == 4) { sinkV(k, "automaton|hang|" + where, cs, w.last.msg + " after: " + hlabels(h)); return; }
  if (w.threw && w.last.cls == 3) { sinkV(k, "automaton|exception-through-expat|" + where + "|" + msgclass(w.last.msg), cs, "a handler threw '" + w.last.msg + "' through XML_Parse: no line, not a ParserException; after: " + hlabels(h)); return; }
  // (1) an error state tells what is wrong and where
  bool pre_mute_err = pre.state == 0 && (pre.errString.empty() || pre.errLine < 1);   // already reported when it was entered
  if (post.state == 0 && !pre_mute_err) {
    if (post.errString.empty() || post.errLine < 1)
      sinkV(k, "automaton|error-without-message|" + where, cs,
            "parser entered state_error with errCode=" + std::to_string(post.errCode) + " message='" + post.errString +
            "' line=" + std::to_string(post.errLine) + " after: " + hlabels(h));
  }
  // (1b) what the caller sees
  if (w.threw && !pre_mute_err && (w.last.line < 1 || w.last.msg.empty()) && !(post.errString.empty() || post.errLine < 1))
    sinkV(k, "automaton|exception-without-line|" + where, cs, w.last.str());
  if (w.threw != (post.state == 0))
    sinkV(k, "automaton|throw-mismatch|" + where, cs, "xml_parse threw=" + std::to_string(w.threw) + " but state=" + sname(post.state));
  if (post.errLine > w.lines + 1 || post.errLine < 0)
    sinkV(k, "automaton|line-out-of-input|" + where, cs, "line " + std::to_string(post.errLine) + " of " + std::to_string(w.lines));
  // (2) error signalled in this event but the parser is not in the error state
  if (pre.errCode == 0 && post.errCode != 0 && post.state != 0)
    sinkV(k, "automaton|error-lost|" + where, cs,
          "error('" + post.errString + "') was recorded (line " + std::to_string(post.errLine) + ") but state is " + sname(post.state) +
          ": xml_parse does not throw and every later error() is ignored; after: " + hlabels(h));
  // (3) absorbing
  if (pre.errCode != 0 && pre.state == 0) {
    if (post.state != 0)
      sinkV(k, "automaton|error-not-absorbing|" + where, cs, "left state_error to " + sname(post.state));
    if (post.errString != pre.errString || post.errLine != pre.errLine || post.errCode != pre.errCode)
      sinkV(k, "automaton|first-error-overwritten|" + where, cs, "'" + pre.errString + "'@" + std::to_string(pre.errLine) + " -> '" + post.errString + "'@" + std::to_string(post.errLine));
  }
  if (pre.errCode != 0 && post.errCode == 0)
    sinkV(k, "automaton|error-cleared|" + where, cs, "errCode reset");
  if (verbose) fprintf(stderr, "  %-34s -> %-24s errCode=%d line=%d msg='%s' threw=%d\n", e.label.c_str(), sname(post.state).c_str(), post.errCode, post.errLine, post.errString.c_str(), (int)w.threw);
}

struct Slot { int pos, ev, prestate, cls, muted; };    // progress of a worker, in shared memory
// A transition class (parser state, event, pending cluster empty?, muted region?) whose execution has
// produced a sanitizer report twice is not executed again (every execution costs a
// worker process); the skipped executions are counted.
static const int CRASH_TAB = 64 * 512 * 4;
static int crash_class(int prestate, int ev, bool empty, bool muted) { return ((prestate & 63) * 512 + (ev & 511)) * 4 + (empty ? 1 : 0) + (muted ? 2 : 0); }

static int run_automaton() {
  Ctx& c = ctx();
  bool th = thorough();
  if (c.opt.count("nobs")) NOBS_CLIP = atoi(c.opt["nobs"].c_str()); else NOBS_CLIP = th ? 4 : 3;
  if (c.opt.count("tok")) TOK_CLIP = atoi(c.opt["tok"].c_str()); else TOK_CLIP = th ? 7 : 4;
  build_alphabet(th);
  int J = c.opt.count("jobs") ? atoi(c.opt["jobs"].c_str()) : 16;
  int maxdepth = c.opt.count("maxdepth") ? atoi(c.opt["maxdepth"].c_str()) : 1000;
  std::string tmp = c.opt.count("tmp") ? c.opt["tmp"] : "/dev/shm";
  tmp += "/parsemc-" + std::to_string(getpid());
  mkdir(tmp.c_str(), 0700);

  std::vector<Hist> states; std::vector<std::string> keys;
  std::unordered_map<std::string, int> index;
  { Walk w; std::string k = canon(w); index[k] = 0; states.push_back(Hist()); keys.push_back(k); }
  std::vector<int> frontier{0};
  // classes known at the start of a level (master memory, inherited by fork) + the classes
  // this worker has hit itself in this level: what is executed does not depend on timing
  std::vector<unsigned char> crashtab(CRASH_TAB, 0);
  std::vector<std::set<int>> mycrash(J);
  int* hangcls = (int*)mmap(nullptr, sizeof(int) * J * 64, PROT_READ | PROT_WRITE, MAP_SHARED | MAP_ANONYMOUS, -1, 0);   // hang classes found by worker j in this level
  Slot* slots = (Slot*)mmap(nullptr, sizeof(Slot) * J, PROT_READ | PROT_WRITE, MAP_SHARED | MAP_ANONYMOUS, -1, 0);
  long long transitions = 0; int level = 0; int accepts = 0;
  std::map<std::string, int> mastersig;

  while (!frontier.empty()) {
    if (expired() || level >= maxdepth) { c.complete = false; break; }
    level++;
    const int Jmax = J;
    J = std::max(1, std::min<int>(Jmax, (int)frontier.size() / 6 + 1));      // a fork of an ASan process is not free
    struct RestoreJ { int& j; int v; ~RestoreJ() { j = v; } } restoreJ{J, Jmax};
    // ---- workers
    std::vector<pid_t> pid(J, 0); std::vector<int> start_pos(J, 0), start_ev(J, 0);
    auto spawn = [&](int j) {
      fflush(stdout);
      pid_t p = fork();
      if (p != 0) { pid[j] = p; return; }
      std::string of = tmp + "/out-" + std::to_string(j), ef = tmp + "/err-" + std::to_string(j);
      int efd = open(ef.c_str(), O_WRONLY | O_CREAT | O_TRUNC, 0600); dup2(efd, 2);
      Sink k; k.f = fopen(of.c_str(), "a"); setvbuf(k.f, nullptr, _IOLBF, 0);   // a dying worker must not lose lines
      std::unordered_set<std::string> local;
      for (int pos = start_pos[j]; pos < (int)frontier.size(); pos++) {
        if ((pos % J) != j) continue;
        const Hist& h = states[frontier[pos]];
        Snap pre; std::vector<char> en(EV.size(), 0); bool empty_pending = false;
        { Walk w; replay(w, h); pre = w.s.snap(); for (size_t e = 0; e < EV.size(); e++) en[e] = w.enabled(EV[e]);
          ClusterT* pc = pending(w); empty_pending = pc && pc->observation_list.empty();
        }
        for (int e = (pos == start_pos[j] ? start_ev[j] : 0); e < (int)EV.size(); e++) {
          if (!en[e]) continue;
          int cc = crash_class(pre.state, e, empty_pending, pre.errCode != 0 && pre.state != 0);
          if (crashtab[cc] >= 1 || mycrash[j].count(cc)) { k.cnt["transitions_skipped_known_sanitizer_class"]++; continue; }
          slots[j].pos = pos; slots[j].ev = e; slots[j].prestate = pre.state; slots[j].cls = cc; slots[j].muted = (pre.errCode != 0 && pre.state != 0);
          Hist h2 = h; h2.push_back((uint16_t)e);
          Walk w; replay(w, h2);
          k.cnt["transitions"]++;
          check_transition(k, pre, w, EV[e], h2);
          if (w.threw && (w.last.cls == 4 || w.last.cls == 3)) {     // the session is unusable: no successor state
            if (w.last.cls == 4) { mycrash[j].insert(cc); int& n = hangcls[j * 64]; if (n < 63) hangcls[j * 64 + 1 + n++] = cc; }
            k.outc[sname(pre.state) + " --open--> " + (w.last.cls == 4 ? "HANG" : "FOREIGN-EXCEPTION")]++;
            continue;
          }
          Snap post = w.s.snap();
          std::string oc = std::string(pre.errCode != 0 && pre.state != 0 ? "MUTED:" : "") + sname(pre.state) + " --" + (EV[e].kind == 0 ? "open" : EV[e].kind == 1 ? "close" : "text") + "--> " +
                           (post.state == 0 ? (post.errCode ? "error" : "error(no message)") : (post.errCode ? "MUTED:" : "") + sname(post.state));
          k.outc[oc]++;
          std::string key = canon(w);
          if (index.count(key) || local.count(key)) continue;
          local.insert(key);
          { Walk w2; replay(w2, h2); std::string key2 = canon(w2);     // canon-on-replay
            if (key2 != key) sinkV(k, "automaton|canon-on-replay|" + sname(post.state), "automaton:" + hstr(h2), "key1=" + key + " key2=" + key2); }
          fprintf(k.f, "N\t%s\t%s\n", key.c_str(), hstr(h2).c_str());
        }
        if (expired()) { fprintf(k.f, "E\t%d\n", pos); break; }
      }
      for (auto& kv : k.cnt) fprintf(k.f, "C\t%s\t%lld\n", kv.first.c_str(), kv.second);
      for (auto& kv : k.outc) fprintf(k.f, "O\t%s\t%lld\n", kv.first.c_str(), kv.second);
      fprintf(k.f, "F\n");
      fclose(k.f);
      _exit(0);
    };
    for (int j = 0; j < Jmax; j++) { mycrash[j].clear(); hangcls[j * 64] = 0; }
    for (int j = 0; j < J; j++) { unlink((tmp + "/out-" + std::to_string(j)).c_str()); start_pos[j] = 0; start_ev[j] = 0; spawn(j); }
    int alive = J;
    while (alive > 0) {
      int st; pid_t p = wait(&st);
      if (p <= 0) break;
      int j = -1; for (int i = 0; i < J; i++) if (pid[i] == p) j = i;
      if (j < 0) continue;
      if (WIFEXITED(st) && WEXITSTATUS(st) == 0) { alive--; continue; }
      // a worker died inside a transition: sanitizer report or crash.  Record, resume behind it.
      Slot s = slots[j];
      mycrash[j].insert(s.cls);
      std::string what = WIFSIGNALED(st) ? "signal " + std::to_string(WTERMSIG(st)) : "exit " + std::to_string(WEXITSTATUS(st));
      std::string rep, kind = "crash";
      { std::ifstream in(tmp + "/err-" + std::to_string(j)); std::string l;
        while (std::getline(in, l)) {
          size_t q;
          if ((q = l.find("ERROR: AddressSanitizer: ")) != std::string::npos) { kind = l.substr(q + 25); kind = kind.substr(0, kind.find(' ')); rep += l + " | "; }
          else if ((q = l.find("runtime error: ")) != std::string::npos) { kind = "ubsan"; rep += l + " | ";
            if (l.find("outside the range of representable values") != std::string::npos) kind = "float-cast-overflow";
            else if (l.find("null pointer passed as argument") != std::string::npos) kind = "nonnull-argument";
            else if (l.find("null pointer") != std::string::npos) kind = "null-deref"; }
          else if (l.find("    #0 ") != std::string::npos || l.find("    #1 ") != std::string::npos || l.find("    #2 ") != std::string::npos) { if (rep.size() < 900) rep += l + " | "; }
        } }
      Hist h2 = states[frontier[s.pos]]; h2.push_back((uint16_t)s.ev);
      std::string sig = s.muted ? "automaton|muted-region|sanitizer|" + kind
                                : "automaton|sanitizer|" + kind + "|" + sname(s.prestate) + "|" + evclass(EV[s.ev]);
      transitions++;
      O(std::string(s.muted ? "MUTED:" : "") + sname(s.prestate) + " --" + (EV[s.ev].kind == 0 ? "open" : EV[s.ev].kind == 1 ? "close" : "text") + "--> SANITIZER-REPORT");
      V(sig, "automaton:" + hstr(h2), "worker " + what + " in " + hlabels(h2) + " :: " + rep);
      start_pos[j] = s.pos; start_ev[j] = s.ev + 1;
      spawn(j);
    }
    // ---- merge
    for (int j = 0; j < J; j++) {
      for (int cc : mycrash[j]) crashtab[cc] = 1;
      for (int n = 0; n < hangcls[j * 64]; n++) crashtab[hangcls[j * 64 + 1 + n]] = 1;
    }
    std::vector<int> next;
    for (int j = 0; j < J; j++) {
      std::ifstream in(tmp + "/out-" + std::to_string(j)); std::string l; bool fin = false;
      while (std::getline(in, l)) {
        std::vector<std::string> f = split(l, '\t');
        if (f[0] == "N" && f.size() >= 3) {
          if (index.count(f[1])) continue;
          index[f[1]] = (int)states.size(); states.push_back(hparse(f[2])); keys.push_back(f[1]); next.push_back((int)states.size() - 1);
        } else if (f[0] == "V" && f.size() >= 4) { V(f[1], f[2], f[3]); }
        else if (f[0] == "C" && f.size() >= 3) { if (f[1] == "transitions") transitions += atoll(f[2].c_str()); else if (f[1] != "violations_raw") C(f[1], atoll(f[2].c_str())); }
        else if (f[0] == "O" && f.size() >= 3) O(f[1], atoll(f[2].c_str()));
        else if (f[0] == "E") c.complete = false;
        else if (f[0] == "F") fin = true;
      }
      if (!fin) c.complete = false;
    }
    if (c.verbose) fprintf(stderr, "[automaton] level %d: frontier %zu -> new %zu, states %zu, transitions %lld, %.1fs\n", level, frontier.size(), next.size(), states.size(), transitions, elapsed());
    frontier.swap(next);
  }
  // accepted end states: the document is complete and xml_parse never threw
  for (size_t i = 0; i < states.size(); i++) {
    if (keys[i].compare(0, 3, "ERR") == 0) continue;
    if (keys[i].find(";rc=1") == std::string::npos) continue;
    if (keys[i].find(";pts=1") == std::string::npos && keys[i].find(";last=") != std::string::npos) continue;   // a cluster but no points: ends at "no points" like the empty network
    Walk w; replay(w, states[i]);
    std::string d = w.doc, esc;
    for (char ch : d) { if (ch == '\n') esc += "\\n"; else if (ch == '\t') esc += ' '; else esc += ch; }
    printf("A\t%s\t%s\t%s\t%s\n", hstr(states[i]).c_str(), sname(w.s.p->state).c_str(), w.s.p->errCode ? "muted" : "clean", esc.c_str());
    accepts++;
  }
  if (c.opt.count("dumpkeys")) for (size_t i = 0; i < keys.size(); i++) fprintf(stderr, "K %s :: %s\n", keys[i].c_str(), hlabels(states[i]).c_str());
  C("states", (long long)states.size()); C("transitions", transitions); C("automaton_levels", level);
  C("automaton_events", (long long)EV.size()); C("automaton_accept_states", accepts);
  if (!states.empty()) X("automaton deepest history: " + hlabels(states.back()));
  std::string cmd = "rm -rf '" + tmp + "'"; if (system(cmd.c_str())) {}
  return finish();
}

static int case_automaton(const std::string& hs) {
  build_alphabet(true);
  if (ctx().opt.count("nobs")) NOBS_CLIP = atoi(ctx().opt["nobs"].c_str()); else NOBS_CLIP = thorough() ? 4 : 3;
  if (ctx().opt.count("tok")) TOK_CLIP = atoi(ctx().opt["tok"].c_str()); else TOK_CLIP = thorough() ? 7 : 4;
  Hist h = hparse(hs);
  Sink k; k.f = stdout;
  Walk w; Hist part;
  for (uint16_t e : h) {
    if (e >= EV.size() || !w.enabled(EV[e])) { fprintf(stderr, "event %d not enabled\n", (int)e); return 2; }
    Snap pre = w.s.snap();
    part.push_back(e);
    w.apply(EV[e]);
    check_transition(k, pre, w, EV[e], part, true);
  }
  fprintf(stderr, "key: %s\n--- document ---\n%s", canon(w).c_str(), w.doc.c_str());
  return finish();
}

// ====================================================================== mutate
static const unsigned char SUBST[12] = {'<', '>', '&', '"', '\'', '/', '0', '-', 'e', ' ', 0x00, 0xFF};

static std::vector<std::pair<std::string, std::string>> load_seeds(const std::string& dir) {
  std::vector<std::pair<std::string, std::string>> v;
  std::vector<std::string> names;
  if (DIR* d = opendir(dir.c_str())) {
    while (dirent* e = readdir(d)) { std::string n = e->d_name; if (n.size() > 4 && n.substr(n.size() - 4) == ".gkf") names.push_back(n); }
    closedir(d);
  }
  std::sort(names.begin(), names.end());
  for (auto& n : names) {
    std::ifstream in(dir + "/" + n, std::ios::binary); std::stringstream ss; ss << in.rdbuf();
    v.push_back({n, ss.str()});
  }
  return v;
}

static void check_outcome(const std::string& what, const std::string& cs, const Outcome& o, size_t nlines) {
  if (o.cls == 0) return;
  if (o.cls == 3) { V("mutate|" + what + "|exception-through-expat|" + msgclass(o.msg), cs, "a handler threw '" + o.msg + "' through XML_Parse: no line, not a ParserException"); return; }
  if (o.cls == 4) { V("mutate|" + what + "|hang", cs, o.msg); return; }
  if (o.line < 1 || o.msg.empty())
    V("mutate|" + what + "|error-without-line|" + (o.cls == 1 ? "gkf" : "xml"), cs, o.str());
  else if ((size_t)o.line > nlines + 1)
    V("mutate|" + what + "|line-out-of-input", cs, o.str());
}
static size_t count_lines(const std::string& d) { size_t n = 1; for (char c : d) if (c == '\n') n++; return n; }

static int run_mutate() {
  Ctx& c = ctx();
  auto seeds = load_seeds(c.opt["seeds"]);
  int stride = c.opt.count("stride") ? atoi(c.opt["stride"].c_str()) : 1;
  int xcheck = c.opt.count("xcheck") ? atoi(c.opt["xcheck"].c_str()) : 16;
  std::set<std::string> only; if (c.opt.count("only-seeds")) for (auto& s : split(c.opt["only-seeds"], ',')) only.insert(s);
  uint64_t unit = 0;
  for (auto& sd : seeds) {
    const std::string& name = sd.first; const std::string& doc = sd.second;
    bool bad = name.compare(0, 4, "bad-") == 0;
    if (!only.empty() && !only.count(name)) continue;
    size_t n = doc.size();
    Outcome base = parse_like_main(doc), whole = parse_whole(doc);
    if (mine(unit++)) {
      C("states"); C("transitions", 2);
      O(std::string("seed:") + (base.cls == 0 ? "accepted" : "refused"));
      if (!bad && base.cls != 0) V("mutate|seed-refused|" + name, "mutate:" + name + ":seed:0:0", base.str());
      if (bad && base.cls == 0) V("mutate|bad-seed-accepted|" + name, "mutate:" + name + ":seed:0:0", "accepted");
      if (!base.same(whole)) V("mutate|chunking|lines-vs-whole|" + ocls(whole) + "->" + ocls(base), "mutate:" + name + ":seed:0:0", base.str() + " vs " + whole.str());
      check_outcome("seed", "mutate:" + name + ":seed:0:0", base, count_lines(doc));
      if (!bad) {
        // configuration dimension: GKFparser::check_covariances(false) must change nothing for a valid document,
        // and every cluster must own a covariance matrix of its own size in both modes
        std::string t1, t0; bool ok1 = true, ok0 = true;
        Outcome o1 = parse_whole_flag(doc, true, t1, ok1), o0 = parse_whole_flag(doc, false, t0, ok0);
        C("transitions", 2);
        O(std::string("seed:nocheck-mode:") + ocls(o0));
        if (!ok1) V("mutate|cluster-cov-dimension|check-on|" + name, "mutate:" + name + ":seed:0:0", "a cluster's covariance matrix has another dimension than its observation list:\n" + t1);
        if (!ok0) V("mutate|cluster-cov-dimension|check-off|" + name, "mutate:" + name + ":seed:0:0", "with check_covariances(false) a cluster's covariance matrix has another dimension than its observation list:\n" + t0);
        if (o1.cls == 0 && (o0.cls != 0 || t0 != t1)) V("mutate|check-covariances-flag-changes-result|" + name, "mutate:" + name + ":seed:0:0", "with the flag off: " + o0.str() + "\n" + t0 + "with the flag on:\n" + t1);
      }
    }
    // every two-chunk split of the unmodified document
    for (size_t p = 1; p < n; p++) {
      if (!mine(unit++)) continue;
      if (expired()) return finish();
      std::string cs = "mutate:" + name + ":split:" + std::to_string(p) + ":0";
      L(cs);
      Outcome o = parse_split(doc, p);
      C("states"); C("transitions");
      O("split:" + ocls(o) + (o.same(whole) ? "" : ":DIFFERS"));
      check_outcome("split", cs, o, count_lines(doc));
      if (!o.same(whole))
        V("mutate|split-differs|" + ocls(whole) + "->" + ocls(o) + "|" + msgclass(o.msg),
          cs, "unsplit: " + whole.str() + " ; split at " + std::to_string(p) + ": " + o.str());
    }
    if (bad) continue;
    // every prefix
    for (size_t p = 0; p < n; p++) {
      if (!mine(unit++)) continue;
      if (stride > 1 && (p % stride) != 0 && p + 64 < n) continue;   // quick tier: stride, but always the last 64
      if (expired()) return finish();
      std::string cs = "mutate:" + name + ":prefix:" + std::to_string(p) + ":0";
      L(cs);
      std::string m = doc.substr(0, p);
      Outcome o = parse_like_main(m);
      C("states"); C("transitions");
      O("prefix:" + ocls(o) + (o.cls == 2 ? ":" + msgclass(o.msg) : ""));
      check_outcome("prefix", cs, o, count_lines(m));
      if (o.cls == 0) printf("A\t%s\tprefix\t%zu\t0\n", name.c_str(), p);
      else if (xcheck && (p % xcheck) == 0) printf("R\t%s\tprefix\t%zu\t0\t%d\t%d\n", name.c_str(), p, o.cls, o.line);
    }
    // every position x 12 substitute bytes
    for (size_t p = 0; p < n; p++) {
      if (stride > 1 && (p % stride) != 0) { unit += 12; continue; }
      for (int b = 0; b < 12; b++) {
        if (!mine(unit++)) continue;
        if ((unsigned char)doc[p] == SUBST[b]) { C("subst_identity"); continue; }
        if (expired()) return finish();
        std::string cs = "mutate:" + name + ":subst:" + std::to_string(p) + ":" + std::to_string(b);
        L(cs);
        std::string m = doc; m[p] = (char)SUBST[b];
        Outcome o = parse_like_main(m);
        C("states"); C("transitions");
        O("subst:" + ocls(o) + (o.cls == 0 || o.cls == 4 ? "" : ":" + msgclass(o.msg).substr(0, 28)));
        check_outcome("subst", cs, o, count_lines(m));
        if (o.cls == 0) printf("A\t%s\tsubst\t%zu\t%d\n", name.c_str(), p, b);
        else if (xcheck && ((p * 12 + b) % xcheck) == 0) printf("R\t%s\tsubst\t%zu\t%d\t%d\t%d\n", name.c_str(), p, b, o.cls, o.line);
      }
    }
  }
  return finish();
}

static int case_mutate(const std::string& cs) {   // <seed>:<kind>:<pos>:<byte>  (needs --seeds)
  std::vector<std::string> f = split(cs, ':');
  auto seeds = load_seeds(ctx().opt["seeds"]);
  for (auto& sd : seeds) if (sd.first == f[0]) {
    std::string doc = sd.second; size_t p = f.size() > 2 ? atoi(f[2].c_str()) : 0; int b = f.size() > 3 ? atoi(f[3].c_str()) : 0;
    Outcome o, whole = parse_whole(doc);
    if (f[1] == "split") { o = parse_split(doc, p); printf("unsplit: %s\nsplit@%zu: %s\n", whole.str().c_str(), p, o.str().c_str());
      if (!o.same(whole)) V("mutate|split-differs", cs, o.str()); check_outcome("split", cs, o, count_lines(doc)); }
    else { if (f[1] == "prefix") doc = doc.substr(0, p); else if (f[1] == "subst") doc[p] = (char)SUBST[b];
      o = parse_like_main(doc); printf("%s\n", o.str().c_str()); check_outcome(f[1], cs, o, count_lines(doc)); }
    return finish();
  }
  fprintf(stderr, "no such seed %s\n", f[0].c_str());
  return 2;
}

// ==================================================================== literals
static const char LIT_ALPHA[9] = {'0', '1', '.', '-', '+', 'e', 'E', ' ', 'x'};

// Reference recognisers, written from xml/gama-local.xsd (XML Schema part 2
// lexical spaces; whitespace facet "collapse" => leading/trailing blanks are
// not part of the literal) and doc/gama-local-input.texi ("degrees, minutes
// and seconds separated by dashes with optional leading sign; spaces are not
// allowed inside the string").
static void trim(const std::string& s, size_t& b, size_t& e) { b = 0; e = s.size(); while (b < e && s[b] == ' ') b++; while (e > b && s[e - 1] == ' ') e--; }
static size_t digits(const std::string& s, size_t i, size_t e) { while (i < e && isdigit((unsigned char)s[i])) i++; return i; }
static bool ref_decimal_at(const std::string& s, size_t& i, size_t e, bool sign) {   // [sign] (d+ [. d*] | . d+)
  if (sign && i < e && (s[i] == '+' || s[i] == '-')) i++;
  size_t a = digits(s, i, e); bool id = a > i; i = a;
  if (i < e && s[i] == '.') { i++; size_t f = digits(s, i, e); bool fd = f > i; i = f; return id || fd; }
  return id;
}
static bool ref_double(const std::string& s) {         // xs:double without INF/NaN
  size_t b, e; trim(s, b, e); if (b == e) return false;
  size_t i = b; if (!ref_decimal_at(s, i, e, true)) return false;
  if (i == e) return true;
  if (s[i] != 'e' && s[i] != 'E') return false;
  i++; if (i < e && (s[i] == '+' || s[i] == '-')) i++;
  size_t d = digits(s, i, e); return d > i && d == e;
}
static bool ref_integer(const std::string& s, long long* v = nullptr) {   // xs:integer
  size_t b, e; trim(s, b, e); if (b == e) return false;
  size_t i = b; if (s[i] == '+' || s[i] == '-') i++;
  size_t d = digits(s, i, e); if (d == i || d != e) return false;
  if (v) *v = atoll(s.substr(b, e - b).c_str());
  return true;
}
static bool ref_nonneg(const std::string& s, long long* v = nullptr) {    // xs:nonNegativeInteger
  long long x; if (!ref_integer(s, &x) || x < 0) return false;
  size_t b, e; trim(s, b, e); if (s[b] == '-' && x != 0) return false;
  if (v) *v = x; return true;
}
static bool ref_sexagesimal(const std::string& s) {    // [sign] D-M-S, S decimal starting with a digit
  size_t b, e; trim(s, b, e); if (b == e) return false;
  size_t i = b; if (s[i] == '+' || s[i] == '-') i++;
  size_t d = digits(s, i, e); if (d == i) return false; i = d;
  if (i >= e || s[i] != '-') return false; i++;
  d = digits(s, i, e); if (d == i) return false; i = d;
  if (i >= e || s[i] != '-') return false; i++;
  if (i >= e || !isdigit((unsigned char)s[i])) return false;
  if (!ref_decimal_at(s, i, e, false)) return false;
  return i == e;
}
// structural shape of a literal for signatures: digits -> d (runs collapsed)
static std::string shape(const std::string& s0) {
  size_t b, e; trim(s0, b, e); std::string s = s0.substr(b, e - b);     // surrounding blanks are not part of the literal
  std::string r;
  for (char c : s) { char k = isdigit((unsigned char)c) ? 'd' : c == ' ' ? '_' : c; if (k == 'd' && !r.empty() && r.back() == 'd') continue; r += k; }
  return r;
}

static const char* LIT_HEAD =
  "<?xml version=\"1.0\"?>\n<gama-local xmlns=\"http://www.gnu.org/software/gama/gama-local\">\n<network>\n";
static std::string lit_doc(const std::string& cls, const std::string& lit, bool& expect, std::string& why) {
  std::string d = LIT_HEAD; long long v = 0;
  if (cls == "double") {
    expect = ref_double(lit); why = "xs:double";
    d += "<points-observations>\n<point id=\"A\" y=\"0\" x=\"" + lit + "\"/>\n</points-observations>\n";
  } else if (cls == "integer") {
    expect = ref_integer(lit); why = "xs:integer";
    d += "<parameters cov-band=\"" + lit + "\"/>\n";
  } else if (cls == "dim") {
    expect = ref_nonneg(lit, &v) && v == 1; why = "xs:nonNegativeInteger equal to the number of observations (1)";
    d += "<points-observations>\n<coordinates>\n<point id=\"A\" z=\"1\"/>\n<cov-mat dim=\"" + lit + "\" band=\"0\">1</cov-mat>\n</coordinates>\n</points-observations>\n";
  } else if (cls == "band") {
    bool ok = ref_nonneg(lit, &v); expect = ok && v <= 2; why = "xs:nonNegativeInteger less than dim (3)";
    int band = expect ? (int)v : 0; int el = 3 * (band + 1) - band * (band + 1) / 2;
    d += "<points-observations>\n<coordinates>\n<point id=\"A\" z=\"1\"/>\n<point id=\"B\" z=\"1\"/>\n<point id=\"C\" z=\"1\"/>\n<cov-mat dim=\"3\" band=\"" + lit + "\">";
    // band storage by rows: diagonal 1, off-diagonals 0
    for (int r = 1; r <= 3; r++) for (int cc = r; cc <= std::min(3, r + band); cc++) d += (cc == r ? " 1" : " 0");
    (void)el;
    d += "</cov-mat>\n</coordinates>\n</points-observations>\n";
  } else if (cls == "angle") {
    expect = ref_double(lit) || ref_sexagesimal(lit); why = "decimal gon value or [sign]D-M-S";
    d += "<points-observations>\n<obs from=\"A\">\n<direction to=\"B\" stdev=\"10\" val=\"" + lit + "\"/>\n</obs>\n</points-observations>\n";
  }
  d += "</network>\n</gama-local>\n";
  return d;
}
static const char* LIT_CLASSES[] = {"double", "integer", "dim", "band", "angle"};
// boundary literals beyond the length bound (overflow of the int cast in toIndex, of atoi, of atof)
static std::vector<std::string> lit_long(const std::string& cls) {
  if (cls == "double") return {"1e999", "-1e999", "1e-999", "00000000001", "0.00000000000000000001", "99999999999999999999"};
  if (cls == "integer") return {"2147483647", "2147483648", "-2147483649", "99999999999"};
  if (cls == "dim" || cls == "band") return {"00000000001", "2147483647", "2147483648", "4294967297", "99999999999", "99999999999999999999"};
  return {"1e999", "99999999999999999999", "0-0-0.00000000001"};     // angle
}

static void one_literal(const std::string& cls, const std::string& lit) {
  bool expect; std::string why;
  std::string doc = lit_doc(cls, lit, expect, why);
  std::string hex; for (unsigned char ch : lit) { char b[4]; snprintf(b, 4, "%02x", ch); hex += b; }
  std::string cs = "literal:" + cls + ":" + hex;
  L(cs);
  Outcome o = parse_like_main(doc);
  C("states"); C("transitions");
  bool acc = o.cls == 0;
  O("literal:" + cls + (expect ? ":documented" : ":undocumented") + (acc ? ":accepted" : ":refused"));
  if (ctx().verbose) printf("%s '%s' expect=%d (%s) got: %s\n", cls.c_str(), lit.c_str(), (int)expect, why.c_str(), o.str().c_str());
  if (o.cls == 4) { V("literal|" + cls + "|hang|" + shape(lit), cs, "'" + lit + "': " + o.msg); return; }
  if (o.cls == 3) { V("literal|" + cls + "|exception-through-expat|" + shape(lit), cs, "'" + lit + "': " + o.msg); return; }
  if (!acc && (o.line < 1 || o.msg.empty())) V("literal|" + cls + "|error-without-line", cs, o.str());
  // a lexically valid double whose value is not representable (strtod overflows to infinity) may be
  // accepted or refused with a located diagnostic: the manual defines no value for it
  bool overflow = (cls == "double" || cls == "angle") && ref_double(lit) && std::isinf(strtod(lit.c_str(), nullptr));
  if (overflow) { O("literal:" + cls + ":overflowing-literal" + (acc ? ":accepted" : ":refused")); if (!acc) return; }
  if (expect && !acc) V("literal|" + cls + "|documented-refused|" + shape(lit), cs, "'" + lit + "' is a valid " + why + " but: " + o.str());
  if (!expect && acc) V("literal|" + cls + "|undocumented-accepted|" + shape(lit), cs, "'" + lit + "' is not a valid " + why + " but the document is accepted");
}

// Run f in a child process: a sanitizer report inside f must not take the shard down.
static bool in_child(const std::function<void()>& f, std::string& kind, std::string& rep) {
  fflush(stdout);
  int pfd[2]; if (pipe(pfd)) return true;
  pid_t p = fork();
  if (p == 0) {
    close(pfd[0]); dup2(pfd[1], 2);
    ctx().counters.clear(); ctx().outcomes.clear();
    f();
    for (auto& kv : ctx().counters) printf("C\t%s\t%lld\n", kv.first.c_str(), kv.second);
    for (auto& kv : ctx().outcomes) printf("O\t%s\t%lld\n", clean(kv.first).c_str(), kv.second);
    fflush(stdout); _exit(0);
  }
  close(pfd[1]);
  std::string err; char buf[4096]; ssize_t n;
  while ((n = read(pfd[0], buf, sizeof buf)) > 0) if (err.size() < 20000) err.append(buf, n);
  close(pfd[0]);
  int st = 0; waitpid(p, &st, 0);
  if (WIFEXITED(st) && WEXITSTATUS(st) == 0) return true;
  kind = WIFSIGNALED(st) ? "signal-" + std::to_string(WTERMSIG(st)) : "exit-" + std::to_string(WEXITSTATUS(st));
  std::istringstream in(err); std::string l;
  while (std::getline(in, l)) {
    size_t q;
    if ((q = l.find("ERROR: AddressSanitizer: ")) != std::string::npos) { kind = l.substr(q + 25); kind = kind.substr(0, kind.find(' ')); rep += l + " | "; }
    else if (l.find("runtime error: ") != std::string::npos) { rep += l + " | ";
      if (l.find("outside the range of representable values") != std::string::npos) kind = "float-cast-overflow";
      else if (l.find("null pointer passed as argument") != std::string::npos) kind = "nonnull-argument";
      else if (l.find("null pointer") != std::string::npos) kind = "null-deref";
      else kind = "ubsan"; }
    else if (l.find("    #0 ") != std::string::npos || l.find("    #1 ") != std::string::npos) { if (rep.size() < 700) rep += l + " | "; }
  }
  return false;
}

static int run_literals() {
  int maxlen = ctx().opt.count("maxlen") ? atoi(ctx().opt["maxlen"].c_str()) : (thorough() ? 6 : 5);
  uint64_t unit = 0;
  for (const char* cls : LIT_CLASSES) {
    for (int len = 0; len <= maxlen; len++) {
      uint64_t total = 1; for (int i = 0; i < len; i++) total *= 9;
      for (uint64_t k = 0; k < total; k++) {
        if (!mine(unit++)) continue;
        if ((k & 1023) == 0 && expired()) return finish();
        std::string lit(len, ' '); uint64_t q = k;
        for (int i = len - 1; i >= 0; i--) { lit[i] = LIT_ALPHA[q % 9]; q /= 9; }
        one_literal(cls, lit);
      }
    }
    for (const std::string& l : lit_long(cls)) {
      if (!mine(unit++)) continue;
      std::string kind, rep, c2 = cls, l2 = l;
      if (!in_child([&] { one_literal(c2, l2); }, kind, rep)) {
        std::string hex; for (unsigned char ch : l2) { char b[4]; snprintf(b, 4, "%02x", ch); hex += b; }
        C("states"); C("transitions"); O("literal:" + c2 + ":SANITIZER-REPORT");
        V("literal|" + c2 + "|sanitizer|" + kind, "literal:" + c2 + ":" + hex, "'" + l2 + "': " + rep);
      }
    }
  }
  return finish();
}
static int case_literal(const std::string& cs) {    // <class>:<hex>
  std::vector<std::string> f = split(cs, ':');
  std::string lit; for (size_t i = 0; f.size() > 1 && i + 1 < f[1].size(); i += 2) lit += (char)strtol(f[1].substr(i, 2).c_str(), nullptr, 16);
  one_literal(f[0], lit);
  return finish();
}

// classify one document given on a file (used by the driver to bind its models to the code)
static int run_file() {
  std::ifstream in(ctx().opt["file"], std::ios::binary); std::stringstream ss; ss << in.rdbuf();
  Outcome o = parse_like_main(ss.str());
  printf("%s\n", o.str().c_str());
  return 0;
}

int main(int argc, char** argv) {
  parse_args(argc, argv);
  GNU_gama::local::set_gama_language(GNU_gama::local::en);
  install_hang_guard();
  if (ctx().opt.count("cpu-limit-ms")) PARSE_CPU_LIMIT_US = 1000L * atol(ctx().opt["cpu-limit-ms"].c_str());
  Ctx& c = ctx();
  if (!c.replay.empty()) {
    size_t q = c.replay.find(':');
    std::string m = c.replay.substr(0, q), rest = q == std::string::npos ? "" : c.replay.substr(q + 1);
    if (m == "automaton") return case_automaton(rest);
    if (m == "mutate") return case_mutate(rest);
    if (m == "literal") return case_literal(rest);
    fprintf(stderr, "unknown case %s\n", c.replay.c_str()); return 2;
  }
  if (c.mode == "automaton") return run_automaton();
  if (c.mode == "mutate") return run_mutate();
  if (c.mode == "literals") return run_literals();
  if (c.mode == "file") return run_file();
  fprintf(stderr, "usage: parsemc --mode automaton|mutate|literals|file [--tier quick|thorough] [--shard i/n] | --case <case>\n");
  return 2;
}
