// refobs.h -- reference observation functions of gama-local, written from their
// geometric definition, plus a numerical differentiator.
//
// Self-contained (only <cmath>/<string>), header only, nothing of /repo is
// included: this file is the *independent* model the engines compare gama with
// (linmc: Jacobian and misclosure; network engines: generator of consistent
// observations; C07: world-frame meaning of axes-xy / angles).
//
// ---------------------------------------------------------------------------
// 1. Frames (doc/gama-local-input.texi, <network axes-xy=".." angles="..">)
//
//  axes-xy = two letters out of n,e,s,w: the first gives the world direction
//            of the +x axis, the second the world direction of the +y axis
//            ("ne": x north, y east).  ne, sw, es, wn are left-handed
//            systems (y is 90 deg CLOCKWISE from x, seen from above), en, nw,
//            se, ws are right-handed.  Here handedness is computed from the
//            two unit vectors, not from a table.
//  angles  = "left-handed": horizontal angles, directions and azimuths grow
//            CLOCKWISE; "right-handed": counter-clockwise.
//
//  A frame is *consistent* when left-handed axes go with left-handed
//  (clockwise) angles or right with right.  In a consistent frame the angle
//  from the +x axis to a sight, measured in the sense of `angles`, is
//  atan2(dy, dx).  gama-local makes an inconsistent input consistent by
//  changing the sign of every y (LocalNetwork::remove_inconsistency(): y of
//  all points, values of observed y and dy); its unknowns are then
//  (x, y_int = y_sign*y, z) with y_sign = -1, and results are printed with the
//  sign reverted.
//
// 2. Observation functions (user frame coordinates, metres / radians)
//
//  world position      (E,N) = x*ux + y*uy      (ux,uy: axis unit vectors)
//  world azimuth       az(P->Q) = atan2(dE, dN)  clockwise from north
//  bearing             beta(P->Q) = s*(az(P->Q) - az(+x axis)),  s=+1 cw, -1 ccw
//                      (= gama's "bearing": angle from +x in the sense of `angles`)
//  direction           beta(from->to) - orientation            mod 2pi
//                      (orientation = bearing of the zero of the circle,
//                       doc: direction + orientation shift = bearing)
//  angle               s*(az(from->fs) - az(from->bs))          mod 2pi
//  azimuth             s*az(from->to)                           mod 2pi
//                      (doc: angle from the North to the target, cw or ccw)
//  distance            hypot(dx,dy)
//  s-distance          hypot(dx,dy, dz + to_dh - from_dh)   instrument -> target
//  z-angle             atan2(hypot(dx,dy), dz + to_dh - from_dh)  in [0,pi]
//  dh                  z_to - z_from
//  x, y, z             the coordinate itself (observed coordinates)
//  dx, dy, dz          coordinate differences to - from (vectors)
//
//  from_dh / to_dh (instrument / target height) only enter s-distance and
//  z-angle (gama defines "reductions" for these two types only).
//
//  Zenith angles read in the second face: gama-local takes an observed
//  z-angle v > 200 gon as the face-II reading of 400 gon - v
//  (local_linearization.cpp: `if (obs->value() > M_PI) za = 2*M_PI - za`).
//  value() has a `face2` switch for it: f = 2pi - z.
//
// 3. Units.  gama's internal units are millimetres for lengths and
//  centesimal seconds (cc, 1 gon = 10^4 cc) for angles; the unknowns are
//  corrections in mm (coordinates) and cc (orientations).  A derivative
//  d(angle)/d(coordinate) in rad/m becomes  * (200e4/pi)/1000 = 10*R2G  cc/mm,
//  a length derivative is dimensionless, d(direction)/d(orientation) = -1 cc/cc.
//  The right-hand side is (observed - computed) * 1000 [mm] or * 200e4/pi [cc].
//
// 4. Differentiation: central differences with Richardson extrapolation in
//  long double; differences of angular functions are wrapped to (-pi,pi].
// ---------------------------------------------------------------------------
#ifndef VERIF_REFOBS_H
#define VERIF_REFOBS_H
#include <cmath>
#include <string>

namespace refobs {

typedef long double LD;

static const LD PI     = 3.141592653589793238462643383279502884L;
static const LD TWO_PI = 6.283185307179586476925286766559005768L;
static const LD RHO_CC = 2000000.0L / PI;   // cc per radian
static const LD RHO_GON = 200.0L / PI;      // gon per radian

inline LD gon2rad(LD g) { return g * PI / 200.0L; }
inline LD rad2gon(LD r) { return r * 200.0L / PI; }
inline LD rad2cc(LD r)  { return r * RHO_CC; }
inline LD cc2rad(LD c)  { return c / RHO_CC; }
// into [0, 2pi)
inline LD norm2pi(LD a) { a = fmodl(a, TWO_PI); if (a < 0) a += TWO_PI; if (a >= TWO_PI) a -= TWO_PI; return a; }
// into (-pi, pi]
inline LD wrap_pi(LD a) { a = fmodl(a, TWO_PI); if (a > PI) a -= TWO_PI; if (a <= -PI) a += TWO_PI; return a; }

// ------------------------------------------------------------------ types
enum Type { DIRECTION = 0, DISTANCE, ANGLE, AZIMUTH, S_DISTANCE, Z_ANGLE, H_DIFF,
            X, Y, Z, XDIFF, YDIFF, ZDIFF, NTYPES };

inline const char* type_name(Type t) {   // element / attribute names of the input XML
  static const char* n[] = { "direction", "distance", "angle", "azimuth", "s-distance", "z-angle", "dh",
                             "x", "y", "z", "dx", "dy", "dz" };
  return n[t];
}
inline Type type_from_name(const std::string& s) {
  for (int t = 0; t < NTYPES; t++) if (s == type_name((Type)t)) return (Type)t;
  return NTYPES;
}
inline bool angular(Type t) { return t == DIRECTION || t == ANGLE || t == AZIMUTH || t == Z_ANGLE; }
// number of points the function depends on (1: from; 2: from,to; 3: from,bs,fs)
inline int  npoints(Type t) { return (t == X || t == Y || t == Z) ? 1 : (t == ANGLE ? 3 : 2); }
inline bool has_orientation(Type t) { return t == DIRECTION; }
// does the function depend on the horizontal / vertical part of its points
inline bool uses_xy(Type t) { return !(t == H_DIFF || t == Z || t == ZDIFF); }
inline bool uses_z(Type t)  { return t == S_DISTANCE || t == Z_ANGLE || t == H_DIFF || t == Z || t == ZDIFF; }
inline bool uses_dh(Type t) { return t == S_DISTANCE || t == Z_ANGLE; }
// the function is singular when a sight has zero horizontal length
inline bool needs_horizontal_sight(Type t) { return t == DIRECTION || t == DISTANCE || t == ANGLE || t == AZIMUTH || t == Z_ANGLE; }
// observed y and dy change sign together with the y axis when gama mirrors an inconsistent frame
inline bool mirrored_with_y(Type t) { return t == Y || t == YDIFF; }

// ------------------------------------------------------------------ frame
struct Frame {
  int  axes;       // index into axes_tag(): gama's enum order en nw se ws | ne sw es wn
  bool clockwise;  // angles="left-handed"
  Frame(int a = 4, bool cw = true) : axes(a), clockwise(cw) {}
  static const char* axes_tag(int i) { static const char* t[] = { "en", "nw", "se", "ws", "ne", "sw", "es", "wn" }; return t[i]; }
  const char* axes_str() const { return axes_tag(axes); }
  const char* angles_str() const { return clockwise ? "left-handed" : "right-handed"; }
  std::string str() const { return std::string(axes_str()) + "/" + (clockwise ? "L" : "R"); }
  static void unit(char c, LD& E, LD& N) {
    E = 0; N = 0;
    if (c == 'n') N = 1; else if (c == 's') N = -1; else if (c == 'e') E = 1; else E = -1;
  }
  void x_axis(LD& E, LD& N) const { unit(axes_str()[0], E, N); }
  void y_axis(LD& E, LD& N) const { unit(axes_str()[1], E, N); }
  // y axis 90 deg clockwise from x axis (seen from above)
  bool left_handed_axes() const {
    LD xe, xn, ye, yn; x_axis(xe, xn); y_axis(ye, yn);
    return xe * yn - xn * ye < 0;    // cross product (E,N plane, N up, E right): >0 = counter-clockwise = right-handed
  }
  bool consistent() const { return left_handed_axes() == clockwise; }
  int  y_sign() const { return consistent() ? 1 : -1; }
  void to_world(LD x, LD y, LD& E, LD& N) const {
    LD xe, xn, ye, yn; x_axis(xe, xn); y_axis(ye, yn);
    E = x * xe + y * ye; N = x * xn + y * yn;
  }
  // clockwise azimuth (from north) of the +x axis
  LD azimuth_of_x() const { LD e, n; x_axis(e, n); return norm2pi(atan2l(e, n)); }
  // sense of angular observations in terms of clockwise azimuths
  int sense() const { return clockwise ? 1 : -1; }
  // the constant gama adds to an azimuth to get a bearing (PointData::xNorthAngle):
  // bearing = s*(az - az_x) = azimuth_obs - s*az_x
  LD x_north_angle() const { return norm2pi(-sense() * azimuth_of_x()); }
};
// all 16 frames, f = 0..15: axes = f%8, clockwise = f<8
inline Frame frame_no(int f) { return Frame(f % 8, f < 8); }

struct P3 { LD x, y, z; P3(LD a = 0, LD b = 0, LD c = 0) : x(a), y(b), z(c) {} };

// clockwise world azimuth of the sight a->b, radians in (-pi,pi]
inline LD world_azimuth(const Frame& f, const P3& a, const P3& b) {
  LD E, N; f.to_world(b.x - a.x, b.y - a.y, E, N);
  return atan2l(E, N);
}
// gama's bearing: angle from the +x axis to the sight in the sense of `angles`, [0,2pi)
inline LD bearing(const Frame& f, const P3& a, const P3& b) {
  return norm2pi(f.sense() * (world_azimuth(f, a, b) - f.azimuth_of_x()));
}
inline LD hdist(const P3& a, const P3& b) { return hypotl(b.x - a.x, b.y - a.y); }

// ------------------------------------------------------------------ observation function
struct Spec {
  Type type;
  LD from_dh, to_dh;     // instrument / target height (s-distance, z-angle)
  bool face2;            // z-angle read in the second face: f = 2pi - z
  Spec(Type t = DISTANCE, LD fd = 0, LD td = 0, bool f2 = false) : type(t), from_dh(fd), to_dh(td), face2(f2) {}
};
struct Geo {
  P3 p[3];               // p[0] from, p[1] to (bs for angles), p[2] fs
  LD ori;                // orientation of the station (radians), directions only
  Geo() : ori(0) {}
};

// value of the observation function: radians in [0,2pi) for angular types, metres otherwise
inline LD value(const Frame& f, const Spec& s, const Geo& g) {
  const P3& a = g.p[0]; const P3& b = g.p[1]; const P3& c = g.p[2];
  switch (s.type) {
    case DIRECTION:  return norm2pi(bearing(f, a, b) - g.ori);
    case DISTANCE:   return hdist(a, b);
    case ANGLE:      return norm2pi(f.sense() * (world_azimuth(f, a, c) - world_azimuth(f, a, b)));
    case AZIMUTH:    return norm2pi(f.sense() * world_azimuth(f, a, b));
    case S_DISTANCE: { LD dz = (b.z + s.to_dh) - (a.z + s.from_dh); return hypotl(hdist(a, b), dz); }
    case Z_ANGLE:    { LD dz = (b.z + s.to_dh) - (a.z + s.from_dh); LD z = atan2l(hdist(a, b), dz); return s.face2 ? TWO_PI - z : z; }
    case H_DIFF:     return b.z - a.z;
    case X:          return a.x;
    case Y:          return a.y;
    case Z:          return a.z;
    case XDIFF:      return b.x - a.x;
    case YDIFF:      return b.y - a.y;
    case ZDIFF:      return b.z - a.z;
    default:         return 0;
  }
}

// is the function defined and differentiable at g?  (exact for lattice coordinates)
inline bool regular(const Spec& s, const Geo& g) {
  const P3& a = g.p[0]; const P3& b = g.p[1]; const P3& c = g.p[2];
  if (needs_horizontal_sight(s.type)) {
    if (b.x == a.x && b.y == a.y) return false;
    if (s.type == ANGLE && c.x == a.x && c.y == a.y) return false;
  }
  if (s.type == S_DISTANCE) {
    LD dz = (b.z + s.to_dh) - (a.z + s.from_dh);
    if (b.x == a.x && b.y == a.y && dz == 0) return false;
  }
  return true;
}

// ------------------------------------------------------------------ differentiation
struct Deriv { LD value, err; };   // err: difference of the last two extrapolation levels

// d f / d t at t = 0 of a scalar function phi(t), central differences with steps
// h, h/2, ... h/2^(levels-1) and Richardson extrapolation of the h^2, h^4, ... terms.
// If `wrap`, the differences phi(+h)-phi(-h) are reduced to (-pi,pi] (angles).
template <class F>
inline Deriv richardson(F phi, LD h, int levels = 5, bool wrap = false) {
  LD T[8][8];
  if (levels > 8) levels = 8;
  if (levels < 1) levels = 1;
  for (int i = 0; i < levels; i++) {
    LD d = phi(h) - phi(-h);
    if (wrap) d = wrap_pi(d);
    T[0][i] = d / (2 * h);
    h /= 2;
  }
  LD p4 = 1;
  for (int k = 1; k < levels; k++) {
    p4 *= 4;
    for (int i = 0; i + k < levels; i++) T[k][i] = (p4 * T[k - 1][i + 1] - T[k - 1][i]) / (p4 - 1);
  }
  Deriv r; r.value = T[levels - 1][0];
  r.err = levels > 1 ? fabsl(T[levels - 1][0] - T[levels - 2][0]) : fabsl(T[0][0]);
  return r;
}

// variables: 3*k+0/1/2 = x/y/z of point k (k = 0 from, 1 to/bs, 2 fs), 9 = orientation
enum { VAR_ORI = 9, NVARS = 10 };
inline LD& var_ref(Geo& g, int v) {
  if (v == VAR_ORI) return g.ori;
  P3& p = g.p[v / 3];
  return v % 3 == 0 ? p.x : (v % 3 == 1 ? p.y : p.z);
}
// does the function structurally depend on variable v
inline bool depends(Type t, int v) {
  if (v == VAR_ORI) return has_orientation(t);
  int k = v / 3, ax = v % 3;
  if (k >= npoints(t)) return false;
  switch (t) {
    case DIRECTION: case DISTANCE: case ANGLE: case AZIMUTH: return ax < 2;
    case S_DISTANCE: case Z_ANGLE: return true;
    case H_DIFF: case Z: case ZDIFF: return ax == 2;
    case X: case XDIFF: return ax == 0;
    case Y: case YDIFF: return ax == 1;
    default: return false;
  }
}

// partial derivative of the observation function with respect to variable v in
// the USER frame, rad/m (angular), m/m (linear), rad/rad (orientation).
// h: step in metres (a power of two keeps x+h exact next to large offsets);
// choose it well below the shortest sight (h <= d_min/32 gives ~1e-15 relative).
inline Deriv partial(const Frame& f, const Spec& s, const Geo& g0, int v, LD h = 2.0L, int levels = 5) {
  Geo g = g0;
  LD x0 = var_ref(g, v);
  if (v == VAR_ORI) h = 0.03125L;   // radians
  auto phi = [&](LD t) -> LD { var_ref(g, v) = x0 + t; return value(f, s, g); };
  return richardson(phi, h, levels, angular(s.type));
}

// ------------------------------------------------------------------ gama's internal units
// factor turning d(value)/d(coordinate) [rad/m | m/m] into gama's coefficient [cc/mm | mm/mm]
inline LD coef_unit(Type t) { return angular(t) ? RHO_CC / 1000.0L : 1.0L; }
// factor turning (observed - computed) [rad | m] into gama's right-hand side [cc | mm]
inline LD rhs_unit(Type t)  { return angular(t) ? RHO_CC : 1000.0L; }
// natural magnitude of a coordinate coefficient of the row (for absolute floors):
// angular: rho/1000/d with d the shortest sight involved; linear: 1
inline LD coef_scale(const Spec& s, const Geo& g) {
  switch (s.type) {
    case DIRECTION: case AZIMUTH: return coef_unit(s.type) / hdist(g.p[0], g.p[1]);
    case ANGLE: { LD d1 = hdist(g.p[0], g.p[1]), d2 = hdist(g.p[0], g.p[2]); return coef_unit(s.type) / (d1 < d2 ? d1 : d2); }
    case Z_ANGLE: { Spec t(S_DISTANCE, s.from_dh, s.to_dh); return coef_unit(s.type) / value(Frame(), t, g); }
    default: return 1.0L;
  }
}

// One row of the linearised observation equations in gama's internal frame and
// units for the unknowns (x, y_int = y_sign*y, z) of each point and the
// orientation: coefficient[v] for v = 0..9 (0 where the function does not
// depend on v).  For observed y and dy in an inconsistent frame gama adjusts
// the mirrored observation (-value), so the whole row (and rhs) changes sign:
// `row_sign` returns that factor.
inline int row_sign(const Frame& f, Type t) { return mirrored_with_y(t) ? f.y_sign() : 1; }
inline void reference_row(const Frame& f, const Spec& s, const Geo& g, LD coef[NVARS], LD* maxerr = 0, LD h = 2.0L) {
  LD me = 0;
  for (int v = 0; v < NVARS; v++) {
    coef[v] = 0;
    if (!depends(s.type, v)) continue;
    Deriv d = partial(f, s, g, v, h);
    LD c = d.value, e = d.err;
    if (v == VAR_ORI) { /* cc per cc */ }
    else {
      c *= coef_unit(s.type); e *= coef_unit(s.type);
      if (v % 3 == 1) c *= f.y_sign();          // unknown is y_int = y_sign * y
    }
    c *= row_sign(f, s.type);
    coef[v] = c;
    if (e > me) me = e;
  }
  if (maxerr) *maxerr = me;
}
// reference right-hand side (observed - computed) in cc / mm, angular values reduced to (-200,200] gon
inline LD reference_rhs(const Frame& f, const Spec& s, const Geo& g, LD observed) {
  LD d = observed - value(f, s, g);
  if (angular(s.type)) d = wrap_pi(d);
  return d * rhs_unit(s.type) * row_sign(f, s.type);
}

}  // namespace refobs
#endif
