// libmc15_base.h -- types and comparison helpers of the C15 harness
#ifndef VERIF_LIBMC15_BASE_H
#define VERIF_LIBMC15_BASE_H
#include "libmc.h"
#include <matvec/matvec.h>
#include <matvec/symmat.h>
#include <matvec/covmat.h>
#include <matvec/bandmat.h>
#include <matvec/svd.h>
#include <matvec/pinv.h>
#include <matvec/gso.h>
#include <matvec/hilbert.h>
#include <matvec/sortvec.h>
using namespace lm;

typedef GNU_gama::Exception::matvec Exc;
typedef GNU_gama::Mat<double, int, Exc> Mat;
typedef GNU_gama::MatBase<double, int, Exc> MatBase;
typedef GNU_gama::TransMat<double, int, Exc> TMat;
typedef GNU_gama::Vec<double, int, Exc> Vec;
typedef GNU_gama::TransVec<double, int, Exc> TVec;
typedef GNU_gama::SymMat<double, int, Exc> SymMat;
typedef GNU_gama::CovMat<double, int, Exc> CovMat;
typedef GNU_gama::BandMat<double, int, Exc> BandMat;
namespace GE = GNU_gama::Exception;

static const int ALPHA4[4] = {-1, 0, 1, 2};
static const int ALPHA3[3] = {-1, 0, 1};

static inline long long ipow(long long b, int e) { long long r = 1; while (e-- > 0) r *= b; return r; }

static std::string CS() { return g().unit + "#" + std::to_string(g().cur) + " :: " + (g().fmt ? g().fmt(g().cur) : std::string()); }
static std::string g_cls;   // structural class of the operands of the current case (used when the caller gives none)
static void setcls2(int r, int c, int r2, int c2) { g_cls = (r == 0 || c == 0 || r2 == 0 || c2 == 0) ? "dim0" : ((r == c && r2 == c2) ? "square" : "nonsquare"); }
static void setcls(int r, int c) { g_cls = (r == 0 || c == 0) ? "dim0" : (r == c ? "square" : "nonsquare"); }
static void bad(const std::string& clause, const std::string& comp, const std::string& cls0, const std::string& detail) {
  const std::string& cls = cls0.empty() ? g_cls : cls0;
  V("C15|" + clause + "|" + nospace(comp) + (cls.empty() ? "" : "|" + nospace(cls)), CS(), detail);
  if (ctx().verbose) printf("# VIOLATION %s|%s|%s: %s\n", clause.c_str(), comp.c_str(), cls.c_str(), detail.c_str());
}

static const int ALPHA2[2] = {0, 1};
// alphabet of a shape: {-1,0,1,2} up to 9 cells, {-1,0,1} up to 12 cells, {0,1} beyond (thorough tier shapes with a dimension 4)
static int abase(int cells) { return cells <= 9 ? 4 : (cells <= 12 ? 3 : 2); }
static const int* aalpha(int cells) { return cells <= 9 ? ALPHA4 : (cells <= 12 ? ALPHA3 : ALPHA2); }
static RM dec(int r, int c, long long k, int base = 0, const int* alpha = nullptr) {
  RM A(r, c);
  if (!base) { base = abase(r * c); alpha = aalpha(r * c); }
  for (int t = 0; t < r * c; t++) { A.a[t] = alpha[k % base]; k /= base; }
  return A;
}
// symmetric matrix from the index of its lower triangle
static RM decsym(int d, long long k, int base, const int* alpha) {
  RM A(d, d);
  for (int i = 0; i < d; i++) for (int j = 0; j <= i; j++) { A(i, j) = A(j, i) = alpha[k % base]; k /= base; }
  return A;
}
static Mat toMat(const RM& A) { Mat M(A.r, A.c); for (int i = 0; i < A.r; i++) for (int j = 0; j < A.c; j++) M(i + 1, j + 1) = A(i, j); return M; }
static Vec toVec(const std::vector<double>& v) { Vec x((int)v.size()); for (size_t i = 0; i < v.size(); i++) x((int)i + 1) = v[i]; return x; }
static RM colRM(const std::vector<double>& v) { RM R((int)v.size(), 1); R.a = v; return R; }

template <class M> static bool eqm(const M& X, const RM& R, std::string* why) {
  if (X.rows() != R.r || X.cols() != R.c) { *why = "shape " + std::to_string(X.rows()) + "x" + std::to_string(X.cols()) + " expected " + std::to_string(R.r) + "x" + std::to_string(R.c); return false; }
  for (int i = 0; i < R.r; i++) for (int j = 0; j < R.c; j++) { double x = X(i + 1, j + 1); if (!(x == R(i, j))) { *why = "element (" + std::to_string(i + 1) + "," + std::to_string(j + 1) + ") = " + str(x) + " expected " + str(R(i, j)); return false; } }
  return true;
}
template <class VV> static bool eqv(const VV& X, const std::vector<double>& R, std::string* why) {
  if (X.dim() != (int)R.size()) { *why = "dim " + std::to_string(X.dim()) + " expected " + std::to_string(R.size()); return false; }
  for (size_t i = 0; i < R.size(); i++) { double x = X((int)i + 1); if (!(x == R[i])) { *why = "element " + std::to_string(i + 1) + " = " + str(x) + " expected " + str(R[i]); return false; } }
  return true;
}
template <class M> static double maxdiff(const M& X, const LMat& R) {
  if (X.rows() != R.r || X.cols() != R.c) return 1e300;
  long double e = 0; for (int i = 0; i < R.r; i++) for (int j = 0; j < R.c; j++) { long double d = fabsl((long double)X(i + 1, j + 1) - R(i, j)); if (!(d <= e)) e = d; if (std::isnan((double)d)) return 1e300; }
  return (double)e;
}
template <class M> static LMat fromM(const M& X) { LMat R(X.rows(), X.cols()); for (int i = 0; i < R.r; i++) for (int j = 0; j < R.c; j++) R(i, j) = X(i + 1, j + 1); return R; }
static LMat eyeL(int n) { LMat R(n, n); for (int i = 0; i < n; i++) R(i, i) = 1; return R; }
static long double maxdiffL(const LMat& A, const LMat& B) {
  if (A.r != B.r || A.c != B.c) return 1e300L;
  long double e = 0; for (size_t i = 0; i < A.a.size(); i++) { long double d = fabsl(A.a[i] - B.a[i]); if (std::isnan((double)d)) return 1e300L; if (d > e) e = d; }
  return e;
}

// evaluate f(), expect exactly ref and no exception.  The body is compiled once; per call site only a small thunk.
struct MThunk { void* o; bool (*call)(void*, const RM&, std::string*);
  template <class F> MThunk(F& f) : o((void*)&f), call([](void* p, const RM& r, std::string* w) { auto X = (*(F*)p)(); return eqm(X, r, w); }) {} };
struct VThunk { void* o; bool (*call)(void*, const std::vector<double>&, std::string*);
  template <class F> VThunk(F& f) : o((void*)&f), call([](void* p, const std::vector<double>& r, std::string* w) { auto X = (*(F*)p)(); return eqv(X, r, w); }) {} };
static void expect_m_impl(const char* op, const RM& ref, MThunk f, const char* cls) {
  CT();
  try { std::string why; if (!f.call(f.o, ref, &why)) bad("algebra", op, cls, why + "; expected " + rstr(ref)); }
  catch (const Exc& e) { bad("algebra", op, "unexpected-exception", std::string(e.what()) + " error " + std::to_string(e.error())); }
}
static void expect_v_impl(const char* op, const std::vector<double>& ref, VThunk f, const char* cls) {
  CT();
  try { std::string why; if (!f.call(f.o, ref, &why)) bad("algebra", op, cls, why); }
  catch (const Exc& e) { bad("algebra", op, "unexpected-exception", std::string(e.what()) + " error " + std::to_string(e.error())); }
}
template <class F> static inline void expect_m(const char* op, const RM& ref, F f, const char* cls = "") { expect_m_impl(op, ref, MThunk(f), cls); }
template <class F> static inline void expect_v(const char* op, const std::vector<double>& ref, F f, const char* cls = "") { expect_v_impl(op, ref, VThunk(f), cls); }
static std::vector<double> rmulv(const RM& A, const std::vector<double>& v) { std::vector<double> r(A.r, 0.0); for (int i = 0; i < A.r; i++) for (int j = 0; j < A.c; j++) r[i] += A(i, j) * v[j]; return r; }
static std::vector<double> vmulr(const std::vector<double>& v, const RM& A) { std::vector<double> r(A.c, 0.0); for (int j = 0; j < A.c; j++) for (int i = 0; i < A.r; i++) r[j] += v[i] * A(i, j); return r; }
static RM radd(const RM& A, const RM& B, double sb = 1) { RM R(A.r, A.c); for (size_t i = 0; i < A.a.size(); i++) R.a[i] = A.a[i] + sb * B.a[i]; return R; }
static RM rscale(const RM& A, double f) { RM R(A.r, A.c); for (size_t i = 0; i < A.a.size(); i++) R.a[i] = A.a[i] * f; return R; }

// basis + one mixed matrix of a shape (bilinear operators are decided by a basis of one operand)
static std::vector<RM> basisM(int r, int c) {
  std::vector<RM> B;
  for (int i = 0; i < r; i++) for (int j = 0; j < c; j++) { RM E(r, c); E(i, j) = 1; B.push_back(E); }
  RM X(r, c); for (int t = 0; t < r * c; t++) X.a[t] = (t * 2 % 5) - 2 + (t == 0 ? 3 : 0); B.push_back(X);
  return B;
}
static std::vector<std::vector<double>> basisV(int n) {
  std::vector<std::vector<double>> B;
  for (int i = 0; i < n; i++) { std::vector<double> e(n, 0.0); e[i] = 1; B.push_back(e); }
  std::vector<double> x(n); for (int i = 0; i < n; i++) x[i] = (i % 2 ? -1.0 : 1.0) * (i + 2); B.push_back(x);
  return B;
}
static std::vector<RM> basisSym(int d) {
  std::vector<RM> B;
  for (int i = 0; i < d; i++) for (int j = 0; j <= i; j++) { RM E(d, d); E(i, j) = E(j, i) = 1; B.push_back(E); }
  RM X(d, d); int t = 0; for (int i = 0; i < d; i++) for (int j = 0; j <= i; j++, t++) X(i, j) = X(j, i) = (t * 2 % 5) - 2 + (t == 0 ? 3 : 0); B.push_back(X);
  return B;
}
static SymMat toSym(const RM& A) { SymMat S(A.r); for (int i = 0; i < A.r; i++) for (int j = 0; j <= i; j++) { if ((i + j) & 1) S(j + 1, i + 1) = A(i, j); else S(i + 1, j + 1) = A(i, j); } return S; }
#endif
