// linmc -- C05: linearised observation equations = true Jacobian and misclosure.
//
// Stage A (single observations, LocalLinearization through accept()):
//   13 observation types x every placement of from / to (/ fs) on a point
//   lattice minus exactly singular placements x coordinate offsets x frames
//   (axes-xy / angles; inconsistent ones go through
//   LocalNetwork::remove_inconsistency) x instrument/target heights (s-distance,
//   z-angle; through refine_obsdh_reductions as in gama-local) x station
//   orientation menu (directions) x observed value = true value + menu x every
//   status combination free / fixed / constrained of the xy and z part of each
//   point involved.
// Stage B (small networks, GKFparser -> remove_inconsistency -> Acord2 ->
//   refine_obsdh_reductions -> LocalNetwork::project_equations(A,b,w), i.e. the
//   route of gama-local): 5 points -- A, B, C with xy and z, D with a height
//   only (adj="z"|"Z"|fix="z"), E with xy only -- and 32 observations of all 13
//   types in 7 clusters (two stations with directions = two orientation
//   unknowns); placements on {0,100}^2 x heights x every status combination
//   (9^3 x 3 x 3, written as fix=/adj= attributes) x frames x offsets x
//   4 algorithms x 2 value variants x 2 sigma-apr (see stageB()).  Every network
//   is then RE-LINEARISED ON THE SAME OBJECT after update_points(),
//   update_observations(), update_residuals(), solve()+refine_approx_coordinates()
//   and set_algorithm(next), in an order rotating with the status code; the whole
//   oracle (column owners a bijection onto 1..unknowns(), no index on fixed or
//   absent coordinate parts, gama's list of unknowns, every row against the
//   reference row at the current approximate coordinates, rhs, weights, rows of a
//   LocalLinearization started from scratch) is evaluated after every build.
//   project_equations(A,b,w) is first probed in a forked child per algorithm
//   (it used to dereference a null pointer with the envelope algorithm).
// Oracle: harness/refobs.h (observation functions from their geometric
//   definition in long double, Richardson-extrapolated central differences).
//
// Case strings (for --case):
//   A:<lat>:<type>:<frame>:<off>:<i>:<j>:<k>:<dh>:<ori>:<menu>:<status>
//   B:<lat>:<frame>:<off>:<i>:<j>:<k>:<status>:<alg>:<variant>:<m0>
#include "vh.h"
#include "refobs.h"

#include <gnu_gama/local/network.h>
#include <gnu_gama/local/local_linearization.h>
#include <gnu_gama/local/test_linearization_visitor.h>
#include <gnu_gama/local/acord/acord2.h>
#include <gnu_gama/xml/gkfparser.h>
#include <array>
#include <memory>
#include <unistd.h>
#include <sys/wait.h>

using namespace GNU_gama::local;
namespace ro = refobs;
typedef long double LD;

// ------------------------------------------------------------------ alphabets
struct Lattice {
  char tag;
  std::vector<std::array<int, 3>> pts;
  Lattice(char t, std::vector<int> xy, std::vector<int> zs) : tag(t) {
    for (int x : xy) for (int y : xy) for (int z : zs) pts.push_back({{x, y, z}});
  }
};
static const Lattice& lattice(char tag) {
  static Lattice T('T', {-200, -100, 0, 100, 200}, {-30, 0, 40});   // 75 points
  static Lattice Q('Q', {-100, 0, 100}, {-30, 0, 40});              // 27 points
  static Lattice S('S', {0, 100}, {-30, 0, 40});                    // 12 points (networks, quick)
  static Lattice N('N', {-100, 0, 100}, {0, 40});                   // 18 points (networks, thorough)
  switch (tag) { case 'T': return T; case 'Q': return Q; case 'S': return S; default: return N; }
}
static bool inner(const std::array<int, 3>& p) { return abs(p[0]) <= 100 && abs(p[1]) <= 100; }

static const long OFFS[3][3] = { {0, 0, 0}, {100000, 200000, 300}, {5000000, 1000000, 1000} };

// frames used for every type (2 consistent, 2 inconsistent); azimuths use all 16
static const int FRAMES4[4] = { 4 /*ne/L*/, 8 /*en/R*/, 12 /*ne/R*/, 0 /*en/L*/ };

static const LD CC = ro::PI / 2000000.0L, GON = ro::PI / 200.0L;
static const int NANG = 9, NLIN = 3;
static LD ang_delta(int m) {
  switch (m) {
    case 0: return 0; case 1: return 10 * CC; case 2: return 100 * GON; case 3: return -100 * GON;
    case 4: return 200 * GON - CC; case 5: return 200 * GON + CC; case 6: return -200 * GON + CC;
    case 7: return -200 * GON - CC; default: return 399.9999L * GON;
  }
}
static LD lin_delta(int m) { return m == 0 ? 0.0L : (m == 1 ? 0.003L : -0.003L); }
static const LD ORI[3] = { 0.0L, 123.4567L * GON, 399.9999L * GON };
static const double DH[3][2] = { {0, 0}, {1.5, 1.5}, {1.6, 0.2} };
static const char* dh_class(int d) { return d == 0 ? "dh0" : (d == 1 ? "dh-equal" : "dh-unequal"); }

static void set_status(LocalPoint& p, int sxy, int sz) {
  if (sxy == 0) p.set_free_xy(); else if (sxy == 1) p.set_fixed_xy(); else p.set_constrained_xy();
  if (sz == 0) p.set_free_z(); else if (sz == 1) p.set_fixed_z(); else p.set_constrained_z();
}
static const char* VARN[10] = { "from.x", "from.y", "from.z", "to.x", "to.y", "to.z", "fs.x", "fs.y", "fs.z", "orientation" };

// ------------------------------------------------------------------ shared row check
struct RowResult { bool ok; std::string clause, detail; };

// got: coefficient per variable (0 where absent), present: variable has an entry in the row
static void compare_coeffs(ro::Type t, const bool expect[10], const LD ref[10], const double got[10], LD scale,
                           RowResult& r) {
  for (int v = 0; v < 10; v++) {
    if (!expect[v]) continue;
    LD tol = 1e-6L * fabsl(ref[v]) + 1e-9L * (v == ro::VAR_ORI ? 1.0L : scale);
    LD d = fabsl((LD)got[v] - ref[v]);
    if (!(d <= tol)) {
      r.ok = false;
      bool sign = fabsl((LD)got[v] + ref[v]) <= tol;
      r.clause = sign ? "coeff-sign" : "coeff";
      r.detail = std::string(VARN[v]) + ": gama " + vh::str(got[v]) + " reference " + vh::str((double)ref[v]) +
                 " (tol " + vh::str((double)tol) + ")";
      return;
    }
  }
}
static void compare_rhs(ro::Type t, LD ref, double got, RowResult& r, LD slack = 0) {
  LD tol = 1e-7L + 1e-12L * fabsl(ref) + slack;
  LD d = (LD)got - ref;
  if (ro::angular(t)) {
    d = fmodl(d, 4000000.0L); if (d > 2000000.0L) d -= 4000000.0L; if (d <= -2000000.0L) d += 4000000.0L;
    if (!(fabs(got) <= 2000000.0)) {
      r.ok = false; r.clause = "rhs-range";
      r.detail = "|rhs| = " + vh::str(got) + " cc exceeds 200 gon";
      return;
    }
  }
  if (!(fabsl(d) <= tol)) {
    r.ok = false; r.clause = "rhs";
    r.detail = "rhs gama " + vh::str(got) + " reference (observed-computed) " + vh::str((double)ref) +
               (ro::angular(t) ? " cc (compared mod 400 gon)" : " mm");
  }
}

// ================================================================== stage A
struct Rig {
  LocalNetwork ln;
  LocalPoint* P[3];
  StandPoint* sp;
  Observation* obs;
  Rig(const ro::Frame& f) : obs(0) {
    ln.PD.local_coordinate_system = LocalCoordinateSystem::string2locos(f.axes_str());
    if (f.clockwise) ln.PD.setAngularObservations_Lefthanded(); else ln.PD.setAngularObservations_Righthanded();
    const char* ids[3] = { "A", "B", "C" };
    for (int k = 0; k < 3; k++) { ln.PD[ids[k]] = LocalPoint(0, 0, 0); }
    for (int k = 0; k < 3; k++) P[k] = &ln.PD[ids[k]];
    sp = new StandPoint(&ln.OD);
    sp->station = "A";
    ln.OD.clusters.push_back(sp);
  }
  void drop() {
    if (obs) { sp->observation_list.clear(); delete obs; obs = 0; }
  }
  void put(Observation* o) { drop(); obs = o; sp->observation_list.push_back(o); sp->update(); }
};

static Observation* make_obs(ro::Type t, double v) {
  switch (t) {
    case ro::DIRECTION:  return new Direction("A", "B", v);
    case ro::DISTANCE:   return new Distance("A", "B", v);
    case ro::ANGLE:      return new Angle("A", "B", "C", v);
    case ro::AZIMUTH:    return new Azimuth("A", "B", v);
    case ro::S_DISTANCE: return new S_Distance("A", "B", v);
    case ro::Z_ANGLE:    return new Z_Angle("A", "B", v);
    case ro::H_DIFF:     return new H_Diff("A", "B", v);
    case ro::X:          return new X("A", v);
    case ro::Y:          return new Y("A", v);
    case ro::Z:          return new Z("A", v);
    case ro::XDIFF:      return new Xdiff("A", "B", v);
    case ro::YDIFF:      return new Ydiff("A", "B", v);
    case ro::ZDIFF:      return new Zdiff("A", "B", v);
    default: return 0;
  }
}

struct Pin { int type, frame, off, i, j, k, dh, ori, menu, status; char lat;
  Pin() : type(-1), frame(-1), off(-1), i(-1), j(-1), k(-1), dh(-1), ori(-1), menu(-1), status(-1), lat(0) {} };

struct StatsA {
  long long evals, nontrivial, excluded, refused, ambiguous, placements, refrows;
  long long oc[ro::NTYPES][7][5];
  StatsA() { memset(this, 0, sizeof *this); }
};
static StatsA SA;

static int rhs_class(ro::Type t, double rhs) {
  double a = fabs(rhs);
  if (a < 1e-4) return 0;
  if (a < 1e3) return 1;
  if (ro::angular(t) && a > 1.99e6) return 4;
  return rhs > 0 ? 2 : 3;
}
static const char* RHSC[5] = { "zero", "small", "big+", "big-", "edge200gon" };

static std::vector<int> status_set(int np, bool full) {
  std::vector<int> s;
  if (np == 1) { for (int c = 0; c < 9; c++) s.push_back(c); }
  else if (np == 2) { for (int c = 0; c < 81; c++) s.push_back(c); }
  else if (full) { for (int c = 0; c < 729; c++) s.push_back(c); }
  else {   // every xy assignment x the three uniform z assignments
    for (int a = 0; a < 3; a++) for (int b = 0; b < 3; b++) for (int c = 0; c < 3; c++) for (int z = 0; z < 3; z++)
      s.push_back((3 * a + z) + 9 * (3 * b + z) + 81 * (3 * c + z));
  }
  return s;
}

static std::string caseA(char lat, int t, int f, int off, int i, int j, int k, int dh, int ori, int menu, int st) {
  std::ostringstream o;
  o << "A:" << lat << ":" << ro::type_name((ro::Type)t) << ":" << f << ":" << off << ":" << i << ":" << j << ":" << k
    << ":" << dh << ":" << ori << ":" << menu << ":" << st;
  return o.str();
}

// everything below one (type, frame, offset, from, to) unit
static void unitA(Rig& R, const Lattice& L, ro::Type t, int fno, int off, int i, int j, const Pin& pin, bool angle_full_inner) {
  const bool verbose = vh::ctx().verbose;
  const ro::Frame F = ro::frame_no(fno);
  const int np = ro::npoints(t);
  const int kN = (np == 3) ? (int)L.pts.size() : 1;
  const int ndh = ro::uses_dh(t) ? 3 : 1, nori = ro::has_orientation(t) ? 3 : 1;
  const int nmenu = ro::angular(t) ? NANG : NLIN;
  static const std::vector<int> ST1 = status_set(1, true), ST2 = status_set(2, true), ST3f = status_set(3, true), ST3r = status_set(3, false);

  for (int k = 0; k < kN; k++) {
    if (pin.k >= 0 && np == 3 && k != pin.k) continue;
    if (np == 3 && k == i) continue;
    ro::Geo g;
    const int idx[3] = { i, np >= 2 ? j : i, np == 3 ? k : i };
    for (int q = 0; q < 3; q++) {
      const std::array<int, 3>& p = L.pts[idx[q]];
      g.p[q] = ro::P3((LD)(p[0] + OFFS[off][0]), (LD)(p[1] + OFFS[off][1]), (LD)(p[2] + OFFS[off][2]));
    }
    // exactly singular placements are not in the alphabet (integer test)
    {
      ro::Spec s0(t);
      if (!ro::regular(s0, g)) { SA.excluded++; continue; }
    }
    SA.placements++;
    const std::vector<int>* sts = np == 1 ? &ST1 : (np == 2 ? &ST2 : &ST3r);
    if (np == 3 && angle_full_inner && inner(L.pts[i]) && inner(L.pts[j]) && inner(L.pts[k])) sts = &ST3f;
    std::vector<int> one;
    if (pin.status >= 0) { one.push_back(pin.status); sts = &one; }

    for (int dh = 0; dh < ndh; dh++) {
      if (pin.dh >= 0 && dh != pin.dh) continue;
      ro::Spec s1(t, DH[dh][0], DH[dh][1], false), s2(t, DH[dh][0], DH[dh][1], true);
      LD row1[10], row2[10], err1 = 0, err2 = 0;
      g.ori = 0;
      ro::reference_row(F, s1, g, row1, &err1);
      SA.refrows++;
      if (t == ro::Z_ANGLE) { ro::reference_row(F, s2, g, row2, &err2); SA.refrows++; }
      const LD scale = ro::coef_scale(s1, g);
      if (err1 > 1e-9L * scale || err2 > 1e-9L * scale) {   // the reference itself must be converged
        vh::V("harness|reference-not-converged|" + std::string(ro::type_name(t)), caseA(L.tag, t, fno, off, i, j, k, dh, 0, 0, 0),
              "Richardson error estimate " + vh::str((double)std::max(err1, err2)));
        continue;
      }
      const LD f0 = ro::value(F, s1, g);   // ori = 0

      for (int oi = 0; oi < nori; oi++) {
        if (pin.ori >= 0 && oi != pin.ori) continue;
        const double ori_d = (double)ORI[oi];
        g.ori = (LD)ori_d;
        for (int m = 0; m < nmenu; m++) {
          if (pin.menu >= 0 && m != pin.menu) continue;
          // observed value handed to gama (a double)
          LD ov = (t == ro::DIRECTION ? f0 - g.ori : f0) + (ro::angular(t) ? ang_delta(m) : lin_delta(m));
          if (t == ro::Z_ANGLE) ov = ro::norm2pi(ov);     // the domain of an observed zenith angle is (0,400) gon
          const double obs_d = (double)ov;
          Observation* o = 0;
          try { o = make_obs(t, obs_d); }
          catch (const GNU_gama::local::Exception& e) {
            if ((t == ro::Z_ANGLE || t == ro::DISTANCE || t == ro::S_DISTANCE) && obs_d <= 0) { SA.refused++; continue; }
            vh::V(std::string("C05|constructor-throws|") + ro::type_name(t), caseA(L.tag, t, fno, off, i, j, k, dh, oi, m, 0), e.what());
            continue;
          }
          o->set_from_dh(DH[dh][0]); o->set_to_dh(DH[dh][1]);
          R.put(o);
          for (int q = 0; q < 3; q++) { R.P[q]->set_xy((double)g.p[q].x, (double)g.p[q].y); R.P[q]->set_z((double)g.p[q].z); }
          R.sp->set_orientation(ori_d);
          // the route of the executable
          R.ln.remove_inconsistency();
          if (ro::uses_dh(t)) refine_obsdh_reductions(&R.ln);

          bool face2 = false;
          if (t == ro::Z_ANGLE) {
            // gama's convention: a zenith angle above 200 gon is a face-II reading.  The decision must
            // be unambiguous (raw and reduced value on the same side, not within rounding of 200 gon).
            double red = o->value();
            if (fabs(obs_d - M_PI) < 1e-9 || fabs(red - M_PI) < 1e-9 || ((obs_d > M_PI) != (red > M_PI))) {
              SA.ambiguous++; R.ln.return_inconsistency(); continue;
            }
            face2 = obs_d > M_PI;
          }
          const LD* ref = face2 ? row2 : row1;
          const LD rhs_ref = ro::reference_rhs(F, face2 ? s2 : s1, g, (LD)obs_d);

          for (size_t si = 0; si < sts->size(); si++) {
            const int code = (*sts)[si];
            int st[3][2]; { int c = code; for (int q = 0; q < 3; q++) { st[q][0] = (c % 9) / 3; st[q][1] = c % 3; c /= 9; } }
            for (int q = 0; q < 3; q++) {
              if (q < np) set_status(*R.P[q], st[q][0], st[q][1]); else set_status(*R.P[q], 1, 1);
              R.P[q]->index_x() = R.P[q]->index_y() = R.P[q]->index_z() = 0;
            }
            R.sp->index_orientation(0);
            LocalLinearization lin(R.ln.PD, 10.0);
            RowResult rr; rr.ok = true;
            try { o->accept(&lin); }
            catch (const GNU_gama::local::Exception& e) { rr.ok = false; rr.clause = "throws"; rr.detail = e.what(); }
            SA.evals++;
            if (rr.ok) {
              int iv[10]; bool expect[10]; double got[10]; int nexp = 0;
              for (int q = 0; q < 3; q++) { iv[3 * q] = R.P[q]->index_x(); iv[3 * q + 1] = R.P[q]->index_y(); iv[3 * q + 2] = R.P[q]->index_z(); }
              iv[9] = R.sp->index_orientation();
              for (int v = 0; v < 10; v++) {
                got[v] = 0;
                expect[v] = ro::depends(t, v) && (v == 9 || st[v / 3][v % 3 == 2 ? 1 : 0] != 1);
                if (expect[v]) nexp++;
              }
              const int U = lin.unknowns();
              unsigned seen = 0;
              for (int v = 0; v < 10 && rr.ok; v++) {
                if (expect[v] != (iv[v] != 0)) {
                  rr.ok = false; rr.clause = expect[v] ? "index-missing" : "index-of-fixed-or-unrelated";
                  rr.detail = std::string(VARN[v]) + " index " + std::to_string(iv[v]);
                } else if (iv[v]) {
                  if (iv[v] < 1 || iv[v] > U || (seen & (1u << iv[v]))) { rr.ok = false; rr.clause = "index-bijection"; rr.detail = std::string(VARN[v]) + " index " + std::to_string(iv[v]) + " unknowns " + std::to_string(U); }
                  else seen |= 1u << iv[v];
                }
              }
              if (rr.ok && U != nexp) { rr.ok = false; rr.clause = "index-bijection"; rr.detail = "unknowns() " + std::to_string(U) + " expected " + std::to_string(nexp); }
              if (rr.ok && lin.size != nexp) { rr.ok = false; rr.clause = "row-size"; rr.detail = "size " + std::to_string(lin.size) + " expected " + std::to_string(nexp); }
              bool used[10] = { 0 };
              for (long e = 0; e < lin.size && rr.ok; e++) {
                int v = -1;
                for (int w = 0; w < 10; w++) if (iv[w] && iv[w] == lin.index[e]) v = w;
                if (v < 0 || used[v]) { rr.ok = false; rr.clause = "row-index"; rr.detail = "entry " + std::to_string(e) + " index " + std::to_string(lin.index[e]); }
                else { used[v] = true; got[v] = lin.coeff[e]; }
              }
              if (rr.ok) compare_coeffs(t, expect, ref, got, scale, rr);
              if (rr.ok) compare_rhs(t, rhs_ref, lin.rhs, rr);
              if (nexp > (ro::has_orientation(t) ? 1 : 0)) SA.nontrivial++;
              if (vh::ctx().samples < 1 && rr.ok && lin.size >= 4 && m == 4 && !F.consistent()) {
                std::ostringstream x; x.precision(12);
                x << caseA(L.tag, t, fno, off, i, j, k, dh, oi, m, code) << " = " << ro::type_name(t) << " frame " << F.str() << " (inconsistent) from (" << (double)g.p[0].x << "," << (double)g.p[0].y << "," << (double)g.p[0].z
                  << ") to (" << (double)g.p[1].x << "," << (double)g.p[1].y << "," << (double)g.p[1].z << ") observed " << obs_d << (ro::angular(t) ? " rad" : " m") << ": rhs " << lin.rhs << " (reference " << (double)rhs_ref << "), coefficients";
                for (int v = 0; v < 10; v++) if (expect[v]) x << " " << VARN[v] << " " << got[v] << " (ref " << (double)ref[v] << ")";
                vh::X(x.str());
              }
              SA.oc[t][std::min<long>(lin.size, 6)][rhs_class(t, lin.rhs)]++;
              if (verbose) {
                printf("# %s frame %s %s | from (%.0Lf %.0Lf %.0Lf) to (%.0Lf %.0Lf %.0Lf) fs (%.0Lf %.0Lf %.0Lf) dh %g/%g ori %.10g rad\n",
                       ro::type_name(t), F.str().c_str(), F.consistent() ? "consistent" : "inconsistent",
                       g.p[0].x, g.p[0].y, g.p[0].z, g.p[1].x, g.p[1].y, g.p[1].z, g.p[2].x, g.p[2].y, g.p[2].z, DH[dh][0], DH[dh][1], ori_d);
                printf("# observed %.17g (value() with reduction %.17g)%s  rhs gama %.10g reference %.10Lg\n", obs_d, o->value(), face2 ? " face II" : "", lin.rhs, rhs_ref);
                for (int v = 0; v < 10; v++) if (ro::depends(t, v))
                  printf("#   %-12s status %s index %d  gama %.12g  reference %.12Lg\n", VARN[v],
                         v == 9 ? "-" : (st[v / 3][v % 3 == 2 ? 1 : 0] == 0 ? "free" : st[v / 3][v % 3 == 2 ? 1 : 0] == 1 ? "fixed" : "constr"), iv[v], got[v], ref[v]);
              }
            }
            if (!rr.ok) {
              std::string sig = "C05|" + rr.clause + "|" + ro::type_name(t);
              if (t == ro::Z_ANGLE) sig += face2 ? "|face2" : "|face1";
              if (ro::uses_dh(t)) sig += std::string("|") + dh_class(dh);
              sig += F.consistent() ? "|consistent" : "|inconsistent";
              vh::V(sig, caseA(L.tag, t, fno, off, i, j, k, dh, oi, m, code), rr.detail);
            }
          }
          R.ln.return_inconsistency();
        }
      }
    }
  }
  R.drop();
}

static void stageA(const Pin& pin) {
  const bool th = vh::thorough();
  const char lat = pin.lat ? pin.lat : (th ? 'T' : 'Q');
  const Lattice& L = lattice(lat);
  const int N = (int)L.pts.size();
  std::map<int, std::unique_ptr<Rig>> rigs;
  uint64_t unit = 0;
  std::vector<int> offs = th ? std::vector<int>{0, 1, 2} : std::vector<int>{2};
  if (pin.off >= 0) offs = std::vector<int>{pin.off};
  for (int t = 0; t < ro::NTYPES; t++) {
    if (pin.type >= 0 && t != pin.type) continue;
    std::vector<int> frames;
    if (pin.frame >= 0) frames.push_back(pin.frame);
    else if (t == ro::AZIMUTH) for (int f = 0; f < 16; f++) frames.push_back(f);
    else for (int f : FRAMES4) frames.push_back(f);
    const int np = ro::npoints((ro::Type)t);
    for (int f : frames) {
      if (!rigs.count(f)) rigs[f].reset(new Rig(ro::frame_no(f)));
      Rig& R = *rigs[f];
      for (int off : offs)
        for (int i = 0; i < N; i++) {
          if (pin.i >= 0 && i != pin.i) continue;
          for (int j = 0; j < (np == 1 ? 1 : N); j++) {
            if (np > 1 && pin.j >= 0 && j != pin.j) continue;
            if (np > 1 && j == i) continue;
            unit++;
            if (pin.type < 0 && !vh::mine(unit)) continue;
            if (vh::expired()) goto done;
            unitA(R, L, (ro::Type)t, f, off, i, j, pin, th);
          }
        }
    }
  }
done:
  vh::C("evaluations", SA.evals);
  vh::C("linearisations", SA.evals);
  vh::C("distinct_nontrivial", SA.nontrivial);
  vh::C("placements", SA.placements);
  vh::C("reference_rows", SA.refrows);
  vh::C("excluded_singular_placements", SA.excluded);
  vh::C("refused_nonpositive_value", SA.refused);
  vh::C("excluded_ambiguous_face", SA.ambiguous);
  for (int t = 0; t < ro::NTYPES; t++) for (int s = 0; s < 7; s++) for (int c = 0; c < 5; c++)
    if (SA.oc[t][s][c]) vh::O(std::string("A|") + ro::type_name((ro::Type)t) + "|coefficients=" + std::to_string(s) + "|rhs=" + RHSC[c], SA.oc[t][s][c]);
}

// ================================================================== stage B
// Networks of 5 points: A, B, C with horizontal position and height (any of the 9 statuses each),
// D with a height only (adj="z" | adj="Z" | fix="z", no xy: a levelled benchmark) and E with a horizontal
// position only (adj="xy" | adj="XY" | fix="xy", no z).  32 observations of all 13 types in 7 clusters.
// Every network is linearised, and then re-linearised ON THE SAME OBJECT in every way the API offers
// (update_points / update_observations / update_residuals, solve + refine_approx_coordinates, set_algorithm);
// the whole oracle is evaluated after every build at the then current approximate coordinates.
struct GObs {            // one generated observation, in the order of the input file
  ro::Type t; int from, to, fs; double fdh, tdh; LD obs; /* rad | m as written */ LD parsed; /* what the parser makes of the text */ double stdev; int station; /* cluster no of the <obs> */
};
static const char* ALGS[4] = { "envelope", "gso", "svd", "cholesky" };
enum { NPB = 5, MAXU = 40 };
static const char* PID[NPB] = { "A", "B", "C", "D", "E" };
static const bool HASXY[NPB] = { true, true, true, false, true };
static const bool HASZ[NPB]  = { true, true, true, true, false };
static const int NSTATUS_B = 729 * 9;

static std::string num(LD v) { char b[64]; snprintf(b, sizeof b, "%.17g", (double)v); return b; }

struct NetB {
  std::string xml; std::vector<GObs> G; ro::P3 given[NPB]; ro::Frame F; double m0;
};

static std::string status_attr(int sxy, int sz) {   // sxy / sz: 0 free, 1 fixed, 2 constrained, -1 no such part
  std::string fix, adj;
  if (sxy == 1) fix += "xy";
  if (sz == 1) fix += "z";
  if (sxy == 0 && sz == 0) adj = "xyz"; else if (sxy == 2 && sz == 2) adj = "XYZ";
  else if (sxy == 2 && sz == 0) adj = "XYz"; else if (sxy == 0 && sz == 2) adj = "xyZ";
  else if (sxy == 0) adj = "xy"; else if (sxy == 2) adj = "XY";
  else if (sz == 0) adj = "z"; else if (sz == 2) adj = "Z";
  std::string s;
  if (!fix.empty()) s += " fix=\"" + fix + "\"";
  if (!adj.empty()) s += " adj=\"" + adj + "\"";
  return s;
}
static void status_of(int status, int q, int& sxy, int& sz) {
  if (q < 3) { int c = status; for (int r = 0; r < q; r++) c /= 9; c %= 9; sxy = c / 3; sz = c % 3; }
  else if (q == 3) { sxy = -1; sz = (status / 729) % 3; }
  else { sxy = (status / 2187) % 3; sz = -1; }
}

static ro::Geo geo_of(const ro::P3 pts[NPB], const GObs& o) {
  ro::Geo g; g.p[0] = pts[o.from]; g.p[1] = pts[o.to < 0 ? o.from : o.to]; g.p[2] = pts[o.fs < 0 ? o.from : o.fs]; g.ori = 0;
  return g;
}

static NetB build_net(const Lattice& L, int fno, int off, const int pi[3], int status, int alg, int variant, int m0i) {
  NetB n; n.F = ro::frame_no(fno); n.m0 = m0i ? 1.0 : 10.0;
  for (int q = 0; q < 3; q++) {
    const std::array<int, 3>& p = L.pts[pi[q]];
    n.given[q] = ro::P3((LD)(p[0] + OFFS[off][0]), (LD)(p[1] + OFFS[off][1]), (LD)(p[2] + OFFS[off][2]));
  }
  {  // E: the corner of {0,100}^2 not taken by A, B, C (the first free one); D: a height only
    int ex = 0, ey = 0; bool found = false;
    for (int cx = 0; cx <= 100 && !found; cx += 100) for (int cy = 0; cy <= 100 && !found; cy += 100) {
      bool taken = false;
      for (int q = 0; q < 3; q++) if (L.pts[pi[q]][0] == cx && L.pts[pi[q]][1] == cy) taken = true;
      if (!taken) { ex = cx; ey = cy; found = true; }
    }
    n.given[3] = ro::P3(0, 0, (LD)(20 + OFFS[off][2]));
    n.given[4] = ro::P3((LD)(ex + OFFS[off][0]), (LD)(ey + OFFS[off][1]), 0);
  }
  // variant 0: observations consistent with a geometry displaced by up to 0.3 m from the approximate
  //            coordinates (so that solve + refine_approx_coordinates moves the free points);
  // variant 1: observations = value at the approximate coordinates + menu (wraps, +-3 mm)
  ro::P3 gen[NPB];
  static const double DISP[NPB][3] = { {0, 0, 0}, {0.21, -0.13, 0.08}, {-0.17, 0.24, -0.11}, {0, 0, 0.15}, {0.12, 0.19, 0} };
  for (int q = 0; q < NPB; q++) {
    gen[q] = n.given[q];
    if (variant == 0) { gen[q].x += DISP[q][0]; gen[q].y += DISP[q][1]; gen[q].z += DISP[q][2]; }
  }
  int cnt = 0;
  auto add = [&](ro::Type t, int a, int b, int c, double fdh, double tdh, int station) -> GObs {
    GObs o; o.t = t; o.from = a; o.to = b; o.fs = c; o.fdh = fdh; o.tdh = tdh; o.station = station;
    ro::Geo g = geo_of(gen, o);
    ro::Spec s(t, fdh, tdh);
    LD v = ro::value(n.F, s, g);
    // directions: the circle of a station is turned by a station dependent angle (the harness never tells gama)
    if (t == ro::DIRECTION) v = ro::norm2pi(v - (LD)(0.7 + 1.1 * a));
    if (variant == 1) {
      static const int AM[5] = { 1, 3, 4, 6, 8 };
      if (t == ro::Z_ANGLE) v += 10 * CC;
      else if (ro::angular(t)) v += ang_delta(AM[cnt % 5]);
      else v += lin_delta(1 + cnt % 2);
    } else if (ro::angular(t) && t != ro::Z_ANGLE && cnt % 3 == 1) v -= ro::TWO_PI;   // same angle, written unnormalised
    o.obs = v; o.stdev = 3.0 + cnt; cnt++;
    {  // the observed value as parsed: the text written -> double -> (gon to rad)
      const double written = strtod(num(ro::angular(t) ? ro::rad2gon(v) : v).c_str(), 0);
      o.parsed = ro::angular(t) ? (LD)written * ro::PI / 200.0L : (LD)written;
    }
    n.G.push_back(o);
    return o;
  };
  std::ostringstream x;
  x << "<?xml version=\"1.0\" ?>\n<gama-local xmlns=\"http://www.gnu.org/software/gama/gama-local\">\n"
    << "<network axes-xy=\"" << n.F.axes_str() << "\" angles=\"" << n.F.angles_str() << "\">\n"
    << "<parameters sigma-apr=\"" << num(n.m0) << "\" sigma-act=\"apriori\" tol-abs=\"1e12\"";
  if (alg > 0) x << " algorithm=\"" << ALGS[alg] << "\"";
  x << "/>\n<points-observations>\n";
  auto val = [&](const GObs& o) -> std::string { return num(ro::angular(o.t) ? ro::rad2gon(o.obs) : o.obs); };
  // observed coordinates first: a <point> inside <coordinates> also sets the approximate coordinates,
  // the <point> elements below then set them to the placement under test
  {
    GObs cx = add(ro::X, 2, -1, -1, 0, 0, -1), cy = add(ro::Y, 2, -1, -1, 0, 0, -1), cz = add(ro::Z, 2, -1, -1, 0, 0, -1);
    GObs ax = add(ro::X, 0, -1, -1, 0, 0, -1), ay = add(ro::Y, 0, -1, -1, 0, 0, -1);
    GObs dz = add(ro::Z, 3, -1, -1, 0, 0, -1);
    x << "<coordinates>\n<point id=\"C\" x=\"" << val(cx) << "\" y=\"" << val(cy) << "\" z=\"" << val(cz) << "\"/>\n"
      << "<point id=\"A\" x=\"" << val(ax) << "\" y=\"" << val(ay) << "\"/>\n<point id=\"D\" z=\"" << val(dz) << "\"/>\n<cov-mat dim=\"6\" band=\"0\">";
    for (const GObs* o : { &cx, &cy, &cz, &ax, &ay, &dz }) x << " " << num(o->stdev * o->stdev);
    x << "</cov-mat>\n</coordinates>\n";
  }
  for (int q = 0; q < NPB; q++) {
    int sxy, sz; status_of(status, q, sxy, sz);
    x << "<point id=\"" << PID[q] << "\"";
    if (HASXY[q]) x << " x=\"" << num(n.given[q].x) << "\" y=\"" << num(n.given[q].y) << "\"";
    if (HASZ[q]) x << " z=\"" << num(n.given[q].z) << "\"";
    x << status_attr(sxy, sz) << "/>\n";
  }
  auto emit = [&](const GObs& o) {
    x << "<" << ro::type_name(o.t);
    if (o.t == ro::ANGLE) x << " bs=\"" << PID[o.to] << "\" fs=\"" << PID[o.fs] << "\"";
    else x << " to=\"" << PID[o.to] << "\"";
    if (o.fdh) x << " from_dh=\"" << num(o.fdh) << "\"";
    if (o.tdh) x << " to_dh=\"" << num(o.tdh) << "\"";
    x << " val=\"" << val(o) << "\" stdev=\"" << num(o.stdev) << "\"/>\n";
  };
  x << "<obs from=\"A\">\n";
  emit(add(ro::DIRECTION, 0, 1, -1, 0, 0, 0)); emit(add(ro::DIRECTION, 0, 2, -1, 0, 0, 0)); emit(add(ro::DIRECTION, 0, 4, -1, 0, 0, 0));
  emit(add(ro::DISTANCE, 0, 1, -1, 0, 0, 0)); emit(add(ro::ANGLE, 0, 1, 2, 0, 0, 0));
  emit(add(ro::AZIMUTH, 0, 2, -1, 0, 0, 0)); emit(add(ro::S_DISTANCE, 0, 2, -1, 1.6, 0.2, 0));
  emit(add(ro::Z_ANGLE, 0, 1, -1, 1.25, 1.25, 0));
  x << "</obs>\n<obs from=\"B\">\n";
  emit(add(ro::DIRECTION, 1, 0, -1, 0, 0, 1)); emit(add(ro::DIRECTION, 1, 2, -1, 0, 0, 1));
  emit(add(ro::DISTANCE, 1, 2, -1, 0, 0, 1)); emit(add(ro::Z_ANGLE, 1, 2, -1, 0, 0, 1));
  emit(add(ro::S_DISTANCE, 1, 0, -1, 0, 0, 1)); emit(add(ro::AZIMUTH, 1, 0, -1, 0, 0, 1)); emit(add(ro::DISTANCE, 1, 4, -1, 0, 0, 1));
  x << "</obs>\n<obs from=\"C\">\n";
  emit(add(ro::ANGLE, 2, 0, 1, 0, 0, 2)); emit(add(ro::DISTANCE, 2, 0, -1, 0, 0, 2));
  emit(add(ro::ANGLE, 2, 0, 4, 0, 0, 2)); emit(add(ro::DISTANCE, 2, 4, -1, 0, 0, 2));
  x << "</obs>\n<height-differences>\n";
  static const int HD[4][2] = { {0, 1}, {1, 2}, {0, 3}, {3, 2} };
  for (int e = 0; e < 4; e++) {
    GObs o = add(ro::H_DIFF, HD[e][0], HD[e][1], -1, 0, 0, -1);
    x << "<dh from=\"" << PID[o.from] << "\" to=\"" << PID[o.to] << "\" val=\"" << val(o) << "\" stdev=\"" << num(o.stdev) << "\"/>\n";
  }
  x << "</height-differences>\n<vectors>\n";
  {
    GObs dx = add(ro::XDIFF, 0, 2, -1, 0, 0, -1), dy = add(ro::YDIFF, 0, 2, -1, 0, 0, -1), dz = add(ro::ZDIFF, 0, 2, -1, 0, 0, -1);
    x << "<vec from=\"A\" to=\"C\" dx=\"" << val(dx) << "\" dy=\"" << val(dy) << "\" dz=\"" << val(dz) << "\"/>\n<cov-mat dim=\"3\" band=\"0\">";
    for (const GObs* o : { &dx, &dy, &dz }) x << " " << num(o->stdev * o->stdev);
    x << "</cov-mat>\n</vectors>\n";
  }
  x << "</points-observations>\n</network>\n</gama-local>\n";
  n.xml = x.str();
  return n;
}

struct StatsB { long long nets, builds, rows, nontrivial, removed, moved; long long occ[ro::NTYPES][7][5]; std::map<std::string, long long> oc;
  StatsB() : nets(0), builds(0), rows(0), nontrivial(0), removed(0), moved(0) { memset(occ, 0, sizeof occ); } };
static StatsB SB_;

static ro::Type dyn_type(Observation* o) {
  if (dynamic_cast<Direction*>(o)) return ro::DIRECTION;
  if (dynamic_cast<Distance*>(o)) return ro::DISTANCE;
  if (dynamic_cast<Angle*>(o)) return ro::ANGLE;
  if (dynamic_cast<Azimuth*>(o)) return ro::AZIMUTH;
  if (dynamic_cast<S_Distance*>(o)) return ro::S_DISTANCE;
  if (dynamic_cast<Z_Angle*>(o)) return ro::Z_ANGLE;
  if (dynamic_cast<H_Diff*>(o)) return ro::H_DIFF;
  if (dynamic_cast<X*>(o)) return ro::X;
  if (dynamic_cast<Y*>(o)) return ro::Y;
  if (dynamic_cast<Z*>(o)) return ro::Z;
  if (dynamic_cast<Xdiff*>(o)) return ro::XDIFF;
  if (dynamic_cast<Ydiff*>(o)) return ro::YDIFF;
  if (dynamic_cast<Zdiff*>(o)) return ro::ZDIFF;
  return ro::NTYPES;
}

struct RefRowB { LD ref[10]; LD scale; };
static std::string refkeyB;
static std::vector<RefRowB> refrowsB;      // reference rows at the given (lattice) coordinates of the current placement

static bool reference_rows_B(const ro::Frame& F, const std::vector<GObs>& G, const ro::P3 pts[NPB], std::vector<RefRowB>& out) {
  out.assign(G.size(), RefRowB());
  for (size_t r = 0; r < G.size(); r++) {
    ro::Geo go = geo_of(pts, G[r]);
    ro::Spec s(G[r].t, G[r].fdh, G[r].tdh);
    LD err = 0;
    ro::reference_row(F, s, go, out[r].ref, &err);
    out[r].scale = ro::coef_scale(s, go);
    if (err > 1e-9L * out[r].scale) return false;
  }
  return true;
}

// project_equations(A,b,w) of the current state of the object (probed once per algorithm in a forked child:
// the failure mode on record was a null pointer dereference with the envelope algorithm)
static bool build_B(LocalNetwork* ln, int alg, Mat& A, Vec& b, Vec& w, const std::string& cstr) {
  static const bool prof = vh::ctx().opt.count("prof") > 0;
  double tp0 = prof ? vh::elapsed() : 0;
  ln->project_equations();
  static int usable[4] = { -1, -1, -1, -1 };
  static std::string how[4];
  if (usable[alg] < 0) {
    fflush(stdout);
    pid_t pid = fork();
    if (pid == 0) {
      try { Mat A2; Vec b2, w2; ln->project_equations(A2, b2, w2); } catch (...) { _exit(3); }
      _exit(0);
    }
    int st = 0; waitpid(pid, &st, 0);
    usable[alg] = (WIFEXITED(st) && WEXITSTATUS(st) == 0) ? 1 : 0;
    how[alg] = WIFSIGNALED(st) ? "killed by signal " + std::to_string(WTERMSIG(st)) : "exit status " + std::to_string(WEXITSTATUS(st));
  }
  if (!usable[alg]) {
    vh::V(std::string("C05|project_equations(A,b,w)|crash|") + ALGS[alg], cstr,
          "LocalNetwork::project_equations(Mat&,Vec&,Vec&) in a forked probe: " + how[alg] + " (member Asp is " + (ln->Asp ? "set" : "null") +
          " after project_equations()); rows taken from AdjInputData::mat() instead");
    const GNU_gama::SparseMatrix<>* M = ln->Asp ? ln->Asp : ln->input.mat();
    if (!M) { vh::V("C05|project_equations(A,b,w)|no-design-matrix", cstr, "neither Asp nor input.mat()"); return false; }
    A.reset(M->rows(), M->columns()); A.set_zero(); b.reset(M->rows()); w.reset(M->rows());
    for (int i = 1; i <= (int)M->rows(); i++) {
      double* nb = M->begin(i); double* ne = M->end(i); int* ib = M->ibegin(i);
      while (nb != ne) A(i, *ib++) = *nb++;
      b(i) = ln->rhs(i); w(i) = ln->weight_obs(i);
    }
  } else {
    ln->project_equations(A, b, w);
  }
  if (prof) vh::C("prof_us_projeq", (long long)((vh::elapsed() - tp0) * 1e6));
  SB_.builds++;
  return true;
}

// The whole oracle on one build.  `moved`: the approximate coordinates may differ from the given ones
// (after refine_approx_coordinates); the reference rows are then computed at the current coordinates.
static bool oracle_B(LocalNetwork* ln, const NetB& n, const Mat& A, const Vec& b, const Vec& w, const char* step, int alg_now,
                     bool moved, const std::string& cstr, bool sample) {
  const bool verbose = vh::ctx().verbose;
  static const bool prof = vh::ctx().opt.count("prof") > 0;
  double tp0 = prof ? vh::elapsed() : 0;
  const ro::Frame& F = n.F;
  const std::string cls = std::string(ALGS[alg_now]) + (F.consistent() ? "|consistent|" : "|inconsistent|") + step;
  if (verbose) printf("# ---- %s (%s)\n", step, ALGS[alg_now]);
  if (!ln->removed_points.empty()) { SB_.removed++; SB_.oc["B|point-removed|" + cls]++; return false; }

  // linearisation point: the approximate coordinates of the object, turned back into the frame of the input
  ro::P3 cur[NPB];
  LocalPoint* P[NPB];
  for (int q = 0; q < NPB; q++) {
    P[q] = &ln->PD[PID[q]];
    cur[q] = ro::P3(HASXY[q] ? (LD)P[q]->x() : 0.0L, HASXY[q] ? (LD)(F.y_sign() * P[q]->y()) : 0.0L, HASZ[q] ? (LD)P[q]->z() : 0.0L);
    if (P[q]->test_xy() != HASXY[q] || P[q]->test_z() != HASZ[q] || P[q]->active_xy() != HASXY[q] || P[q]->active_z() != HASZ[q]) {
      vh::V("C05|net-point-parts|" + cls, cstr, std::string("point ") + PID[q] + " does not have exactly the coordinate parts / status parts of the input"); return false;
    }
    LD dmax = std::max(std::max(fabsl(cur[q].x - n.given[q].x), fabsl(cur[q].y - n.given[q].y)), fabsl(cur[q].z - n.given[q].z));
    if (!moved && dmax != 0) {
      vh::V("C05|net-approximate-coordinates|" + cls, cstr, std::string("point ") + PID[q] + " is not at the given coordinates (y mirrored iff inconsistent)");
      return false;
    }
    if (moved && !(dmax <= 5.0L)) { SB_.moved++; SB_.oc["B|refined-coordinates-left-the-alphabet(>5m)|" + cls]++; return false; }
  }
  std::vector<RefRowB> local;
  const std::vector<RefRowB>* rows = &refrowsB;
  if (moved) {
    if (!reference_rows_B(F, n.G, cur, local)) { vh::V("harness|reference-not-converged|net", cstr, step); return false; }
    rows = &local;
  }
  std::vector<StandPoint*> sps;
  for (auto c : ln->OD.clusters) if (StandPoint* s = dynamic_cast<StandPoint*>(c)) sps.push_back(s);
  const int m = A.rows(), U = A.cols();
  if (U > MAXU) { vh::V("C05|net-unknowns-count|" + cls, cstr, "A has " + std::to_string(U) + " columns"); return false; }
  if (m != (int)n.G.size()) { vh::V("C05|net-row-count|" + cls, cstr, "rows " + std::to_string(m) + " observations written " + std::to_string(n.G.size())); return false; }
  if ((int)sps.size() != 3) { vh::V("harness|standpoints", cstr, std::to_string(sps.size())); return false; }
  if (U != ln->unknowns_count()) { vh::V("C05|net-unknowns-count|" + cls, cstr, "A has " + std::to_string(U) + " columns, unknowns_count() " + std::to_string(ln->unknowns_count())); return false; }

  // owner of every column: every index a point / station carries must be a column of its own;
  // a coordinate that is fixed (or a part the point does not have) must not carry an index.
  // owner code: 3*q + axis for coordinates of point q, 100 + s for the orientation of station s
  int owner[MAXU + 1];
  for (int c = 0; c <= U; c++) owner[c] = -1;
  auto oname = [&](int code) -> std::string {
    if (code < 0) return "nobody";
    if (code >= 100) return std::string("ori.") + sps[code - 100]->station.str();
    return std::string(PID[code / 3]) + "." + "xyz"[code % 3];
  };
  bool okcols = true;
  auto claim = [&](int idx, int code, bool may_have) {
    if (idx == 0) return;
    if (!may_have) { okcols = false; vh::V("C05|net-index-of-fixed-or-absent|" + cls, cstr, oname(code) + " is not an unknown but carries index " + std::to_string(idx)); return; }
    if (idx < 1 || idx > U || owner[idx] >= 0) { okcols = false; vh::V("C05|net-index-bijection|" + cls, cstr, oname(code) + " has index " + std::to_string(idx) + (idx >= 1 && idx <= U ? " already owned by " + oname(owner[idx]) : " outside 1.." + std::to_string(U))); }
    else owner[idx] = code;
  };
  for (int q = 0; q < NPB && okcols; q++) {
    claim(P[q]->index_x(), 3 * q, HASXY[q] && P[q]->free_xy());
    if (okcols) claim(P[q]->index_y(), 3 * q + 1, HASXY[q] && P[q]->free_xy());
    if (okcols) claim(P[q]->index_z(), 3 * q + 2, HASZ[q] && P[q]->free_z());
  }
  for (int s = 0; s < 3 && okcols; s++) claim(sps[s]->index_orientation(), 100 + s, true);
  for (int c = 1; c <= U && okcols; c++) if (owner[c] < 0) { okcols = false; vh::V("C05|net-index-bijection|" + cls, cstr, "column " + std::to_string(c) + " of " + std::to_string(U) + " has no owner"); }
  if (!okcols) return false;
  // gama's own list of unknowns must name the same owners
  static const PointID PIDS[NPB] = { PointID("A"), PointID("B"), PointID("C"), PointID("D"), PointID("E") };
  for (int c = 1; c <= U; c++) {
    const char ty = ln->unknown_type(c);
    const int code = owner[c];
    bool same;
    if (code >= 100) same = ty == 'R' && ln->unknown_standpoint(c) == sps[code - 100] && ln->unknown_pointid(c) == sps[code - 100]->station;
    else same = ty == "XYZ"[code % 3] && ln->unknown_pointid(c) == PIDS[code / 3];
    if (!same) { vh::V("C05|net-unknown-list|" + cls, cstr, "column " + std::to_string(c) + " owner " + oname(code) + " listed as " + ln->unknown_pointid(c).str() + "/" + std::string(1, ty)); return false; }
  }

  bool allok = true;
  for (int r = 1; r <= m; r++) {
    const GObs& o = n.G[r - 1];
    Observation* po = ln->ptr_obs(r);
    SB_.rows++;
    RowResult rr; rr.ok = true;
    ro::Type dt = dyn_type(po);
    const bool same = dt == o.t && po->from() == PIDS[o.from] && (ro::npoints(o.t) < 2 || po->to() == PIDS[o.to]) &&
                      (o.t != ro::ANGLE || static_cast<Angle*>(po)->fs() == PIDS[o.fs]);
    if (!same) { vh::V("C05|net-row-order|" + cls, cstr, "row " + std::to_string(r) + " is not the " + std::to_string(r) + "-th observation of the input"); return false; }
    ro::Geo go = geo_of(cur, o);
    StandPoint* sp = o.station >= 0 ? sps[o.station] : 0;
    ro::Spec s(o.t, o.fdh, o.tdh);
    const LD* ref = (*rows)[r - 1].ref;
    const LD scale = (*rows)[r - 1].scale;
    if (o.t == ro::DIRECTION) go.ori = (LD)sp->orientation();
    const LD rhs_ref = ro::reference_rhs(F, s, go, o.parsed);
    // expected columns
    const int pidx[3] = { o.from, o.to < 0 ? o.from : o.to, o.fs < 0 ? o.from : o.fs };
    LD exp[MAXU + 1]; char may[MAXU + 1];
    for (int c = 0; c <= U; c++) { exp[c] = 0; may[c] = 0; }
    int nexp = 0;
    for (int v = 0; v < 10; v++) {
      if (!ro::depends(o.t, v)) continue;
      int col = 0;
      if (v == 9) col = sp->index_orientation();
      else {
        LocalPoint* p = P[pidx[v / 3]];
        bool freev = v % 3 == 2 ? p->free_z() : p->free_xy();
        if (!freev) continue;
        col = v % 3 == 0 ? p->index_x() : (v % 3 == 1 ? p->index_y() : p->index_z());
      }
      if (col < 1) { rr.ok = false; rr.clause = "net-index-missing"; rr.detail = std::string(VARN[v]) + " of row " + std::to_string(r) + " has no column"; break; }
      exp[col] += ref[v]; may[col] = 1; nexp++;
    }
    for (int c = 1; c <= U && rr.ok; c++) {
      LD tol = may[c] ? 1e-6L * fabsl(exp[c]) + 1e-9L * (owner[c] >= 100 ? 1.0L : scale) : 0.0L;
      LD d = fabsl((LD)A(r, c) - exp[c]);
      if (!(d <= tol)) {
        rr.ok = false;
        rr.clause = !may[c] ? "net-coeff-of-fixed-or-unrelated" : (fabsl((LD)A(r, c) + exp[c]) <= tol ? "net-coeff-sign" : "net-coeff");
        rr.detail = "row " + std::to_string(r) + " column " + oname(owner[c]) + ": gama " + vh::str(A(r, c)) + " reference " + vh::str((double)exp[c]);
      }
    }
    if (rr.ok) {
      // after a refinement the from_dh/to_dh reduction is only renewed when it changes by more than the
      // documented tolerance of refine_obsdh_reductions (1e-6 m, 0.1 cc): that much slack for those rows, then
      LD slack = (moved && ro::uses_dh(o.t) && o.fdh != o.tdh) ? (ro::angular(o.t) ? 0.1L : 1e-3L) : 0.0L;
      compare_rhs(o.t, rhs_ref, b(r), rr, slack);
      if (!rr.ok) rr.clause = "net-" + rr.clause;
    }
    if (rr.ok) {
      LD wref = ((LD)n.m0 / (LD)o.stdev) * ((LD)n.m0 / (LD)o.stdev);
      if (!(fabsl((LD)w(r) - wref) <= 1e-12L * wref)) { rr.ok = false; rr.clause = "net-weight"; rr.detail = "row " + std::to_string(r) + " weight " + vh::str(w(r)) + " expected (m0/sigma)^2 = " + vh::str((double)wref); }
    }
    if (rr.ok && ln->rhs(r) != b(r)) { rr.ok = false; rr.clause = "net-rhs-accessor"; rr.detail = "rhs(i) differs from b(i)"; }
    if (nexp > (o.t == ro::DIRECTION ? 1 : 0)) SB_.nontrivial++;
    SB_.occ[o.t][std::min(nexp, 6)][rhs_class(o.t, b(r))]++;
    if (verbose) {
      printf("# row %d %s %s->%s rhs %.10g (ref %.10Lg) w %.10g :", r, ro::type_name(o.t), PID[o.from], o.to < 0 ? "-" : PID[o.to], b(r), rhs_ref, w(r));
      for (int c = 1; c <= U; c++) if (A(r, c) != 0 || may[c]) printf("  %s %.10g (ref %.10Lg)", oname(owner[c]).c_str(), A(r, c), exp[c]);
      printf("\n");
    }
    if (sample && vh::ctx().samples < 2 && rr.ok && o.t == ro::ANGLE && nexp == 6) {
      std::ostringstream x; x.precision(12);
      x << cstr << " " << step << " row " << r << " (angle at " << PID[o.from] << " from " << PID[o.to] << " to " << PID[o.fs] << ", " << ALGS[alg_now] << ", frame " << F.str() << ") b " << b(r) << " (reference " << (double)rhs_ref << ") w " << w(r) << " coefficients";
      for (int c = 1; c <= U; c++) if (may[c]) x << " " << oname(owner[c]) << " " << A(r, c) << " (ref " << (double)exp[c] << ")";
      vh::X(x.str());
    }
    if (!rr.ok) {
      allok = false;
      std::string sig = "C05|" + rr.clause + "|" + ro::type_name(o.t);
      if (ro::uses_dh(o.t)) sig += std::string("|") + (o.fdh == 0 && o.tdh == 0 ? "dh0" : (o.fdh == o.tdh ? "dh-equal" : "dh-unequal"));
      vh::V(sig + "|" + cls, cstr, rr.detail);
    }
  }

  // the same rows from a LocalLinearization run by the harness over the same observations
  {
    std::vector<int> saved;
    for (int q = 0; q < NPB; q++) { saved.push_back(P[q]->index_x()); saved.push_back(P[q]->index_y()); saved.push_back(P[q]->index_z()); P[q]->index_x() = P[q]->index_y() = P[q]->index_z() = 0; }
    for (int s = 0; s < 3; s++) { saved.push_back(sps[s]->index_orientation()); sps[s]->index_orientation(0); }
    LocalLinearization lin(ln->PD, n.m0);
    bool ok = true;
    for (int r = 1; r <= m && ok; r++) {
      ln->ptr_obs(r)->accept(&lin);
      double row[MAXU + 1];
      for (int c = 0; c <= U; c++) row[c] = 0;
      for (long e = 0; e < lin.size; e++) { if (lin.index[e] < 1 || lin.index[e] > U) { ok = false; break; } row[lin.index[e]] += lin.coeff[e]; }
      for (int c = 1; c <= U && ok; c++) if (row[c] != A(r, c)) ok = false;
      if (ok && lin.rhs != b(r)) ok = false;
      if (!ok) { allok = false; vh::V("C05|net-row-differs-from-LocalLinearization|" + cls, cstr, "row " + std::to_string(r)); }
    }
    std::vector<int> now;
    for (int q = 0; q < NPB; q++) { now.push_back(P[q]->index_x()); now.push_back(P[q]->index_y()); now.push_back(P[q]->index_z()); }
    for (int s = 0; s < 3; s++) now.push_back(sps[s]->index_orientation());
    if (ok && (now != saved || lin.unknowns() != U)) { allok = false; vh::V("C05|net-index-assignment-not-reproducible|" + cls, cstr, "indices after a linearisation from scratch differ from those of the object"); }
  }
  if (prof) vh::C("prof_us_oracle", (long long)((vh::elapsed() - tp0) * 1e6));
  (void)allok;
  return true;    // row level violations are reported; the history goes on (false = structure broken, stop)
}

static void checkB(const Lattice& L, int fno, int off, const int pi[3], int status, int alg, int variant, int m0i) {
  const bool verbose = vh::ctx().verbose;
  std::ostringstream cs;
  cs << "B:" << L.tag << ":" << fno << ":" << off << ":" << pi[0] << ":" << pi[1] << ":" << pi[2] << ":" << status << ":" << alg << ":" << variant << ":" << m0i;
  const std::string cstr = cs.str();
  static const bool prof = vh::ctx().opt.count("prof") > 0;
  double tp0 = prof ? vh::elapsed() : 0;
  NetB n = build_net(L, fno, off, pi, status, alg, variant, m0i);
  if (prof) { double t = vh::elapsed(); vh::C("prof_us_build", (long long)((t - tp0) * 1e6)); tp0 = t; }
  const ro::Frame& F = n.F;
  const std::string cls0 = std::string(ALGS[alg]) + (F.consistent() ? "|consistent" : "|inconsistent");
  if (verbose) printf("%s\n", n.xml.c_str());
  SB_.nets++;
  // reference rows at the given coordinates: once per (frame, offset, placement)
  {
    std::ostringstream k; k << L.tag << ":" << fno << ":" << off << ":" << pi[0] << ":" << pi[1] << ":" << pi[2];
    if (k.str() != refkeyB) {
      refkeyB = k.str();
      if (!reference_rows_B(F, n.G, n.given, refrowsB)) { vh::V("harness|reference-not-converged|net", cstr, "given coordinates"); refkeyB.clear(); return; }
    }
  }
  std::unique_ptr<LocalNetwork> ln(new LocalNetwork);
  try {
    GKFparser gkf(*ln);
    gkf.xml_parse(n.xml.c_str(), (int)n.xml.size(), 1);
  } catch (const GNU_gama::local::ParserException& e) {
    vh::V("harness|generated-input-rejected", cstr, std::string(e.what()) + " line " + std::to_string(e.line)); return;
  } catch (const GNU_gama::local::Exception& e) {
    vh::V("harness|generated-input-rejected", cstr, e.what()); return;
  }
  if (prof) { double t = vh::elapsed(); vh::C("prof_us_parse", (long long)((t - tp0) * 1e6)); tp0 = t; }
  Mat A; Vec b, w;
  int alg_now = alg;
  const char* step = "first";
  try {
    // the route of gama-local
    if (!ln->has_algorithm()) ln->set_algorithm();
    ln->remove_inconsistency();
    Acord2 acord2(ln->PD, ln->OD);
    acord2.execute();
    refine_obsdh_reductions(ln.get());
    if (prof) { double t = vh::elapsed(); vh::C("prof_us_acord", (long long)((t - tp0) * 1e6)); tp0 = t; }
    if (!build_B(ln.get(), alg_now, A, b, w, cstr)) return;
    if (!oracle_B(ln.get(), n, A, b, w, step, alg_now, false, cstr, true)) return;

    // re-linearisations of the same object; the order of the five ways rotates with the status code
    bool moved = false;
    for (int e = 0; e < 5; e++) {
      switch ((e + status) % 5) {
        case 0: step = "after-update_points"; ln->update_points(); break;
        case 1: step = "after-update_observations"; ln->update_observations(); break;
        case 2: step = "after-update_residuals"; ln->update_residuals(); break;
        case 3:
          if (variant != 0) continue;     // variant 1 carries gross (+-100, 200 gon) misclosures: its solution is not a refinement
          step = "after-refine_approx_coordinates";
          try { ln->solve(); }
          catch (const GNU_gama::Exception::base& ex) { SB_.oc[std::string("B|solve-refused|") + cls0]++; continue; }
          ln->refine_approx_coordinates();
          refine_obsdh_reductions(ln.get());     // as LocalNetwork::refine_adjustment() does before the next linearisation
          moved = true;
          break;
        default:
          step = "after-set_algorithm"; alg_now = (alg_now + 1) % 4; ln->set_algorithm(ALGS[alg_now]); break;
      }
      if (!build_B(ln.get(), alg_now, A, b, w, cstr)) return;
      if (!oracle_B(ln.get(), n, A, b, w, step, alg_now, moved, cstr, false)) return;
    }
  } catch (const GNU_gama::local::Exception& e) {
    vh::V("C05|network-throws|" + cls0 + "|" + step, cstr, e.what()); return;
  } catch (const GNU_gama::Exception::base& e) {
    vh::V("C05|network-throws|" + cls0 + "|" + step, cstr, e.what()); return;
  }
}

// Placement sets of stage B on lattice S = {0,100}^2 x {-30,0,40}, A, B, C horizontally distinct:
//   P2   = A at (0,0), B at (0,100), C at (100,0) or (100,100), heights (0, 40, -30)
//   P24  = every ordered triple of corners, heights (0, 40, -30)
//   P648 = every ordered triple of corners with any heights
// status sets: S6561 = 9^3 (A,B,C) x 3 (D: z only) x 3 (E: xy only); S729 = 9^3 with D and E free
static void stageB() {
  const bool th = vh::thorough();
  const Lattice& L = lattice('S');
  const int N = (int)L.pts.size();
  uint64_t unit = 1000003;
  for (int pass = 0; pass < (th ? 2 : 1); pass++) {
    // quick           : P2  x S6561 x frames {ne/L, ne/R}, algorithm cycling with the status code
    // thorough pass 0 : P24 x S6561 x 4 frames x 4 algorithms
    // thorough pass 1 : P648 \ P24 x S729 x frames {ne/L, ne/R} x algorithms {envelope, gso} (the sparse and a dense route)
    // offset, value variant and sigma-apr cycle with status + algorithm + placement (quick and pass 1: offset (5e6,1e6,1000))
    for (int fi = 0; fi < 4; fi++)
      for (int i = 0; i < N; i++) for (int j = 0; j < N; j++) for (int k = 0; k < N; k++) {
        const int f = FRAMES4[fi];
        if ((!th || pass == 1) && fi % 2 == 1) continue;
        const auto &a = L.pts[i], &b = L.pts[j], &c = L.pts[k];
        if ((a[0] == b[0] && a[1] == b[1]) || (a[0] == c[0] && a[1] == c[1]) || (b[0] == c[0] && b[1] == c[1])) continue;
        const bool p24 = a[2] == 0 && b[2] == 40 && c[2] == -30;
        if ((pass == 0) != p24) continue;
        if (!th && !(a[0] == 0 && a[1] == 0 && b[0] == 0 && b[1] == 100)) continue;
        const int pi[3] = { i, j, k };
        const int nstat = pass == 0 ? NSTATUS_B : 729;
        for (int blk = 0; blk * 81 < nstat; blk++) {
          unit++;
          if (!vh::mine(unit)) continue;
          if (vh::expired()) return;
          for (int status = blk * 81; status < (blk + 1) * 81; status++)
            for (int alg = 0; alg < (pass == 1 ? 2 : 4); alg++) {
              if (!th && alg != (status + fi / 2) % 4) continue;      // quick: the algorithm cycles with the status code
              int h = status + alg + i + j + k;
              int off = (th && pass == 0) ? (h / 4) % 3 : 2;
              checkB(L, f, off, pi, status, alg, h & 1, (h >> 1) & 1);
            }
        }
      }
  }
}

int main(int argc, char** argv) {
  vh::parse_args(argc, argv);
  vh::Ctx& c = vh::ctx();
  if (!c.replay.empty()) {
    std::vector<std::string> f = vh::split(c.replay, ':');
    if (f.size() == 12 && f[0] == "A") {
      Pin p; p.lat = f[1][0]; p.type = ro::type_from_name(f[2]);
      p.frame = atoi(f[3].c_str()); p.off = atoi(f[4].c_str()); p.i = atoi(f[5].c_str()); p.j = atoi(f[6].c_str()); p.k = atoi(f[7].c_str());
      p.dh = atoi(f[8].c_str()); p.ori = atoi(f[9].c_str()); p.menu = atoi(f[10].c_str()); p.status = atoi(f[11].c_str());
      if (p.type >= ro::NTYPES) { fprintf(stderr, "bad type\n"); return 2; }
      stageA(p);
    } else if (f.size() == 11 && f[0] == "B") {
      const Lattice& L = lattice(f[1][0]);
      int pi[3] = { atoi(f[4].c_str()), atoi(f[5].c_str()), atoi(f[6].c_str()) };
      checkB(L, atoi(f[2].c_str()), atoi(f[3].c_str()), pi, atoi(f[7].c_str()), atoi(f[8].c_str()), atoi(f[9].c_str()), atoi(f[10].c_str()));
    } else { fprintf(stderr, "bad case string\n"); return 2; }
  } else {
    std::string stage = c.opt.count("stage") ? c.opt["stage"] : "AB";
    if (stage.find('A') != std::string::npos) stageA(Pin());
    if (stage.find('B') != std::string::npos) stageB();
  }
  vh::C("networks", SB_.nets);
  vh::C("network_builds", SB_.builds);
  vh::C("networks_refined_out_of_alphabet", SB_.moved);
  vh::C("network_rows", SB_.rows);
  vh::C("evaluations", SB_.rows);
  vh::C("distinct_nontrivial", SB_.nontrivial);
  vh::C("networks_with_removed_point", SB_.removed);
  for (auto& kv : SB_.oc) vh::O(kv.first, kv.second);
  for (int t = 0; t < ro::NTYPES; t++) for (int k = 0; k < 7; k++) for (int c = 0; c < 5; c++)
    if (SB_.occ[t][k][c]) vh::O(std::string("B|") + ro::type_name((ro::Type)t) + "|coefficients=" + std::to_string(k) + "|rhs=" + RHSC[c], SB_.occ[t][k][c]);
  return vh::finish();
}
