// linmc -- C05: linearised observation equations = true Jacobian and misclosure.
//
// Stage A (single observations, LocalLinearization through accept()):
//   13 observation types x every placement of from / to (/ fs) on a point
//   lattice minus exactly singular placements x coordinate offsets x frames
//   (axes-xy / angles; inconsistent ones go through
//   LocalNetwork::remove_inconsistency) x instrument/target heights (s-distance,
//   z-angle; through refine_obsdh_reductions as in gama-local) x station
//   orientation menu (directions) x observed value = true value + menu x every
//   status combination free / fixed / constrained of the xy and z part of each
//   point involved.
// Stage B (small networks, GKFparser -> remove_inconsistency -> Acord2 ->
//   refine_obsdh_reductions -> LocalNetwork::project_equations(A,b,w), i.e. the
//   route of gama-local): 3 points, 25 observations of all 13 types in 6
//   clusters (two stations with directions = two orientation unknowns), every
//   ordered triple of horizontally distinct points of {0,100}^2 (x heights) x
//   all 729 status combinations (written as fix=/adj= attributes) x frames x
//   offsets x 4 algorithms x 2 value variants x 2 sigma-apr (see stageB()).
//   project_equations(A,b,w) is first probed in a forked child per algorithm
//   (it is known to dereference a null pointer with the envelope algorithm).
// Oracle: harness/refobs.h (observation functions from their geometric
//   definition in long double, Richardson-extrapolated central differences).
//
// Case strings (for --case):
//   A:<lat>:<type>:<frame>:<off>:<i>:<j>:<k>:<dh>:<ori>:<menu>:<status>
//   B:<lat>:<frame>:<off>:<i>:<j>:<k>:<status>:<alg>:<variant>:<m0>
#include "vh.h"
#include "refobs.h"

#include <gnu_gama/local/network.h>
#include <gnu_gama/local/local_linearization.h>
#include <gnu_gama/local/test_linearization_visitor.h>
#include <gnu_gama/local/acord/acord2.h>
#include <gnu_gama/xml/gkfparser.h>
#include <array>
#include <memory>
#include <unistd.h>
#include <sys/wait.h>

using namespace GNU_gama::local;
namespace ro = refobs;
typedef long double LD;

// ------------------------------------------------------------------ alphabets
struct Lattice {
  char tag;
  std::vector<std::array<int, 3>> pts;
  Lattice(char t, std::vector<int> xy, std::vector<int> zs) : tag(t) {
    for (int x : xy) for (int y : xy) for (int z : zs) pts.push_back({{x, y, z}});
  }
};
static const Lattice& lattice(char tag) {
  static Lattice T('T', {-200, -100, 0, 100, 200}, {-30, 0, 40});   // 75 points
  static Lattice Q('Q', {-100, 0, 100}, {-30, 0, 40});              // 27 points
  static Lattice S('S', {0, 100}, {-30, 0, 40});                    // 12 points (networks, quick)
  static Lattice N('N', {-100, 0, 100}, {0, 40});                   // 18 points (networks, thorough)
  switch (tag) { case 'T': return T; case 'Q': return Q; case 'S': return S; default: return N; }
}
static bool inner(const std::array<int, 3>& p) { return abs(p[0]) <= 100 && abs(p[1]) <= 100; }

static const long OFFS[3][3] = { {0, 0, 0}, {100000, 200000, 300}, {5000000, 1000000, 1000} };

// frames used for every type (2 consistent, 2 inconsistent); azimuths use all 16
static const int FRAMES4[4] = { 4 /*ne/L*/, 8 /*en/R*/, 12 /*ne/R*/, 0 /*en/L*/ };

static const LD CC = ro::PI / 2000000.0L, GON = ro::PI / 200.0L;
static const int NANG = 9, NLIN = 3;
static LD ang_delta(int m) {
  switch (m) {
    case 0: return 0; case 1: return 10 * CC; case 2: return 100 * GON; case 3: return -100 * GON;
    case 4: return 200 * GON - CC; case 5: return 200 * GON + CC; case 6: return -200 * GON + CC;
    case 7: return -200 * GON - CC; default: return 399.9999L * GON;
  }
}
static LD lin_delta(int m) { return m == 0 ? 0.0L : (m == 1 ? 0.003L : -0.003L); }
static const LD ORI[3] = { 0.0L, 123.4567L * GON, 399.9999L * GON };
static const double DH[3][2] = { {0, 0}, {1.5, 1.5}, {1.6, 0.2} };
static const char* dh_class(int d) { return d == 0 ? "dh0" : (d == 1 ? "dh-equal" : "dh-unequal"); }

static void set_status(LocalPoint& p, int sxy, int sz) {
  if (sxy == 0) p.set_free_xy(); else if (sxy == 1) p.set_fixed_xy(); else p.set_constrained_xy();
  if (sz == 0) p.set_free_z(); else if (sz == 1) p.set_fixed_z(); else p.set_constrained_z();
}
static const char* VARN[10] = { "from.x", "from.y", "from.z", "to.x", "to.y", "to.z", "fs.x", "fs.y", "fs.z", "orientation" };

// ------------------------------------------------------------------ shared row check
struct RowResult { bool ok; std::string clause, detail; };

// got: coefficient per variable (0 where absent), present: variable has an entry in the row
static void compare_coeffs(ro::Type t, const bool expect[10], const LD ref[10], const double got[10], LD scale,
                           RowResult& r) {
  for (int v = 0; v < 10; v++) {
    if (!expect[v]) continue;
    LD tol = 1e-6L * fabsl(ref[v]) + 1e-9L * (v == ro::VAR_ORI ? 1.0L : scale);
    LD d = fabsl((LD)got[v] - ref[v]);
    if (!(d <= tol)) {
      r.ok = false;
      bool sign = fabsl((LD)got[v] + ref[v]) <= tol;
      r.clause = sign ? "coeff-sign" : "coeff";
      r.detail = std::string(VARN[v]) + ": gama " + vh::str(got[v]) + " reference " + vh::str((double)ref[v]) +
                 " (tol " + vh::str((double)tol) + ")";
      return;
    }
  }
}
static void compare_rhs(ro::Type t, LD ref, double got, RowResult& r) {
  LD tol = 1e-7L + 1e-12L * fabsl(ref);
  LD d = (LD)got - ref;
  if (ro::angular(t)) {
    d = fmodl(d, 4000000.0L); if (d > 2000000.0L) d -= 4000000.0L; if (d <= -2000000.0L) d += 4000000.0L;
    if (!(fabs(got) <= 2000000.0)) {
      r.ok = false; r.clause = "rhs-range";
      r.detail = "|rhs| = " + vh::str(got) + " cc exceeds 200 gon";
      return;
    }
  }
  if (!(fabsl(d) <= tol)) {
    r.ok = false; r.clause = "rhs";
    r.detail = "rhs gama " + vh::str(got) + " reference (observed-computed) " + vh::str((double)ref) +
               (ro::angular(t) ? " cc (compared mod 400 gon)" : " mm");
  }
}

// ================================================================== stage A
struct Rig {
  LocalNetwork ln;
  LocalPoint* P[3];
  StandPoint* sp;
  Observation* obs;
  Rig(const ro::Frame& f) : obs(0) {
    ln.PD.local_coordinate_system = LocalCoordinateSystem::string2locos(f.axes_str());
    if (f.clockwise) ln.PD.setAngularObservations_Lefthanded(); else ln.PD.setAngularObservations_Righthanded();
    const char* ids[3] = { "A", "B", "C" };
    for (int k = 0; k < 3; k++) { ln.PD[ids[k]] = LocalPoint(0, 0, 0); }
    for (int k = 0; k < 3; k++) P[k] = &ln.PD[ids[k]];
    sp = new StandPoint(&ln.OD);
    sp->station = "A";
    ln.OD.clusters.push_back(sp);
  }
  void drop() {
    if (obs) { sp->observation_list.clear(); delete obs; obs = 0; }
  }
  void put(Observation* o) { drop(); obs = o; sp->observation_list.push_back(o); sp->update(); }
};

static Observation* make_obs(ro::Type t, double v) {
  switch (t) {
    case ro::DIRECTION:  return new Direction("A", "B", v);
    case ro::DISTANCE:   return new Distance("A", "B", v);
    case ro::ANGLE:      return new Angle("A", "B", "C", v);
    case ro::AZIMUTH:    return new Azimuth("A", "B", v);
    case ro::S_DISTANCE: return new S_Distance("A", "B", v);
    case ro::Z_ANGLE:    return new Z_Angle("A", "B", v);
    case ro::H_DIFF:     return new H_Diff("A", "B", v);
    case ro::X:          return new X("A", v);
    case ro::Y:          return new Y("A", v);
    case ro::Z:          return new Z("A", v);
    case ro::XDIFF:      return new Xdiff("A", "B", v);
    case ro::YDIFF:      return new Ydiff("A", "B", v);
    case ro::ZDIFF:      return new Zdiff("A", "B", v);
    default: return 0;
  }
}

struct Pin { int type, frame, off, i, j, k, dh, ori, menu, status; char lat;
  Pin() : type(-1), frame(-1), off(-1), i(-1), j(-1), k(-1), dh(-1), ori(-1), menu(-1), status(-1), lat(0) {} };

struct StatsA {
  long long evals, nontrivial, excluded, refused, ambiguous, placements, refrows;
  long long oc[ro::NTYPES][7][5];
  StatsA() { memset(this, 0, sizeof *this); }
};
static StatsA SA;

static int rhs_class(ro::Type t, double rhs) {
  double a = fabs(rhs);
  if (a < 1e-4) return 0;
  if (a < 1e3) return 1;
  if (ro::angular(t) && a > 1.99e6) return 4;
  return rhs > 0 ? 2 : 3;
}
static const char* RHSC[5] = { "zero", "small", "big+", "big-", "edge200gon" };

static std::vector<int> status_set(int np, bool full) {
  std::vector<int> s;
  if (np == 1) { for (int c = 0; c < 9; c++) s.push_back(c); }
  else if (np == 2) { for (int c = 0; c < 81; c++) s.push_back(c); }
  else if (full) { for (int c = 0; c < 729; c++) s.push_back(c); }
  else {   // every xy assignment x the three uniform z assignments
    for (int a = 0; a < 3; a++) for (int b = 0; b < 3; b++) for (int c = 0; c < 3; c++) for (int z = 0; z < 3; z++)
      s.push_back((3 * a + z) + 9 * (3 * b + z) + 81 * (3 * c + z));
  }
  return s;
}

static std::string caseA(char lat, int t, int f, int off, int i, int j, int k, int dh, int ori, int menu, int st) {
  std::ostringstream o;
  o << "A:" << lat << ":" << ro::type_name((ro::Type)t) << ":" << f << ":" << off << ":" << i << ":" << j << ":" << k
    << ":" << dh << ":" << ori << ":" << menu << ":" << st;
  return o.str();
}

// everything below one (type, frame, offset, from, to) unit
static void unitA(Rig& R, const Lattice& L, ro::Type t, int fno, int off, int i, int j, const Pin& pin, bool angle_full_inner) {
  const bool verbose = vh::ctx().verbose;
  const ro::Frame F = ro::frame_no(fno);
  const int np = ro::npoints(t);
  const int kN = (np == 3) ? (int)L.pts.size() : 1;
  const int ndh = ro::uses_dh(t) ? 3 : 1, nori = ro::has_orientation(t) ? 3 : 1;
  const int nmenu = ro::angular(t) ? NANG : NLIN;
  static const std::vector<int> ST1 = status_set(1, true), ST2 = status_set(2, true), ST3f = status_set(3, true), ST3r = status_set(3, false);

  for (int k = 0; k < kN; k++) {
    if (pin.k >= 0 && np == 3 && k != pin.k) continue;
    if (np == 3 && k == i) continue;
    ro::Geo g;
    const int idx[3] = { i, np >= 2 ? j : i, np == 3 ? k : i };
    for (int q = 0; q < 3; q++) {
      const std::array<int, 3>& p = L.pts[idx[q]];
      g.p[q] = ro::P3((LD)(p[0] + OFFS[off][0]), (LD)(p[1] + OFFS[off][1]), (LD)(p[2] + OFFS[off][2]));
    }
    // exactly singular placements are not in the alphabet (integer test)
    {
      ro::Spec s0(t);
      if (!ro::regular(s0, g)) { SA.excluded++; continue; }
    }
    SA.placements++;
    const std::vector<int>* sts = np == 1 ? &ST1 : (np == 2 ? &ST2 : &ST3r);
    if (np == 3 && angle_full_inner && inner(L.pts[i]) && inner(L.pts[j]) && inner(L.pts[k])) sts = &ST3f;
    std::vector<int> one;
    if (pin.status >= 0) { one.push_back(pin.status); sts = &one; }

    for (int dh = 0; dh < ndh; dh++) {
      if (pin.dh >= 0 && dh != pin.dh) continue;
      ro::Spec s1(t, DH[dh][0], DH[dh][1], false), s2(t, DH[dh][0], DH[dh][1], true);
      LD row1[10], row2[10], err1 = 0, err2 = 0;
      g.ori = 0;
      ro::reference_row(F, s1, g, row1, &err1);
      SA.refrows++;
      if (t == ro::Z_ANGLE) { ro::reference_row(F, s2, g, row2, &err2); SA.refrows++; }
      const LD scale = ro::coef_scale(s1, g);
      if (err1 > 1e-9L * scale || err2 > 1e-9L * scale) {   // the reference itself must be converged
        vh::V("harness|reference-not-converged|" + std::string(ro::type_name(t)), caseA(L.tag, t, fno, off, i, j, k, dh, 0, 0, 0),
              "Richardson error estimate " + vh::str((double)std::max(err1, err2)));
        continue;
      }
      const LD f0 = ro::value(F, s1, g);   // ori = 0

      for (int oi = 0; oi < nori; oi++) {
        if (pin.ori >= 0 && oi != pin.ori) continue;
        const double ori_d = (double)ORI[oi];
        g.ori = (LD)ori_d;
        for (int m = 0; m < nmenu; m++) {
          if (pin.menu >= 0 && m != pin.menu) continue;
          // observed value handed to gama (a double)
          LD ov = (t == ro::DIRECTION ? f0 - g.ori : f0) + (ro::angular(t) ? ang_delta(m) : lin_delta(m));
          if (t == ro::Z_ANGLE) ov = ro::norm2pi(ov);     // the domain of an observed zenith angle is (0,400) gon
          const double obs_d = (double)ov;
          Observation* o = 0;
          try { o = make_obs(t, obs_d); }
          catch (const GNU_gama::local::Exception& e) {
            if ((t == ro::Z_ANGLE || t == ro::DISTANCE || t == ro::S_DISTANCE) && obs_d <= 0) { SA.refused++; continue; }
            vh::V(std::string("C05|constructor-throws|") + ro::type_name(t), caseA(L.tag, t, fno, off, i, j, k, dh, oi, m, 0), e.what());
            continue;
          }
          o->set_from_dh(DH[dh][0]); o->set_to_dh(DH[dh][1]);
          R.put(o);
          for (int q = 0; q < 3; q++) { R.P[q]->set_xy((double)g.p[q].x, (double)g.p[q].y); R.P[q]->set_z((double)g.p[q].z); }
          R.sp->set_orientation(ori_d);
          // the route of the executable
          R.ln.remove_inconsistency();
          if (ro::uses_dh(t)) refine_obsdh_reductions(&R.ln);

          bool face2 = false;
          if (t == ro::Z_ANGLE) {
            // gama's convention: a zenith angle above 200 gon is a face-II reading.  The decision must
            // be unambiguous (raw and reduced value on the same side, not within rounding of 200 gon).
            double red = o->value();
            if (fabs(obs_d - M_PI) < 1e-9 || fabs(red - M_PI) < 1e-9 || ((obs_d > M_PI) != (red > M_PI))) {
              SA.ambiguous++; R.ln.return_inconsistency(); continue;
            }
            face2 = obs_d > M_PI;
          }
          const LD* ref = face2 ? row2 : row1;
          const LD rhs_ref = ro::reference_rhs(F, face2 ? s2 : s1, g, (LD)obs_d);

          for (size_t si = 0; si < sts->size(); si++) {
            const int code = (*sts)[si];
            int st[3][2]; { int c = code; for (int q = 0; q < 3; q++) { st[q][0] = (c % 9) / 3; st[q][1] = c % 3; c /= 9; } }
            for (int q = 0; q < 3; q++) {
              if (q < np) set_status(*R.P[q], st[q][0], st[q][1]); else set_status(*R.P[q], 1, 1);
              R.P[q]->index_x() = R.P[q]->index_y() = R.P[q]->index_z() = 0;
            }
            R.sp->index_orientation(0);
            LocalLinearization lin(R.ln.PD, 10.0);
            RowResult rr; rr.ok = true;
            try { o->accept(&lin); }
            catch (const GNU_gama::local::Exception& e) { rr.ok = false; rr.clause = "throws"; rr.detail = e.what(); }
            SA.evals++;
            if (rr.ok) {
              int iv[10]; bool expect[10]; double got[10]; int nexp = 0;
              for (int q = 0; q < 3; q++) { iv[3 * q] = R.P[q]->index_x(); iv[3 * q + 1] = R.P[q]->index_y(); iv[3 * q + 2] = R.P[q]->index_z(); }
              iv[9] = R.sp->index_orientation();
              for (int v = 0; v < 10; v++) {
                got[v] = 0;
                expect[v] = ro::depends(t, v) && (v == 9 || st[v / 3][v % 3 == 2 ? 1 : 0] != 1);
                if (expect[v]) nexp++;
              }
              const int U = lin.unknowns();
              unsigned seen = 0;
              for (int v = 0; v < 10 && rr.ok; v++) {
                if (expect[v] != (iv[v] != 0)) {
                  rr.ok = false; rr.clause = expect[v] ? "index-missing" : "index-of-fixed-or-unrelated";
                  rr.detail = std::string(VARN[v]) + " index " + std::to_string(iv[v]);
                } else if (iv[v]) {
                  if (iv[v] < 1 || iv[v] > U || (seen & (1u << iv[v]))) { rr.ok = false; rr.clause = "index-bijection"; rr.detail = std::string(VARN[v]) + " index " + std::to_string(iv[v]) + " unknowns " + std::to_string(U); }
                  else seen |= 1u << iv[v];
                }
              }
              if (rr.ok && U != nexp) { rr.ok = false; rr.clause = "index-bijection"; rr.detail = "unknowns() " + std::to_string(U) + " expected " + std::to_string(nexp); }
              if (rr.ok && lin.size != nexp) { rr.ok = false; rr.clause = "row-size"; rr.detail = "size " + std::to_string(lin.size) + " expected " + std::to_string(nexp); }
              bool used[10] = { 0 };
              for (long e = 0; e < lin.size && rr.ok; e++) {
                int v = -1;
                for (int w = 0; w < 10; w++) if (iv[w] && iv[w] == lin.index[e]) v = w;
                if (v < 0 || used[v]) { rr.ok = false; rr.clause = "row-index"; rr.detail = "entry " + std::to_string(e) + " index " + std::to_string(lin.index[e]); }
                else { used[v] = true; got[v] = lin.coeff[e]; }
              }
              if (rr.ok) compare_coeffs(t, expect, ref, got, scale, rr);
              if (rr.ok) compare_rhs(t, rhs_ref, lin.rhs, rr);
              if (nexp > (ro::has_orientation(t) ? 1 : 0)) SA.nontrivial++;
              if (vh::ctx().samples < 1 && rr.ok && lin.size >= 4 && m == 4 && !F.consistent()) {
                std::ostringstream x; x.precision(12);
                x << caseA(L.tag, t, fno, off, i, j, k, dh, oi, m, code) << " = " << ro::type_name(t) << " frame " << F.str() << " (inconsistent) from (" << (double)g.p[0].x << "," << (double)g.p[0].y << "," << (double)g.p[0].z
                  << ") to (" << (double)g.p[1].x << "," << (double)g.p[1].y << "," << (double)g.p[1].z << ") observed " << obs_d << (ro::angular(t) ? " rad" : " m") << ": rhs " << lin.rhs << " (reference " << (double)rhs_ref << "), coefficients";
                for (int v = 0; v < 10; v++) if (expect[v]) x << " " << VARN[v] << " " << got[v] << " (ref " << (double)ref[v] << ")";
                vh::X(x.str());
              }
              SA.oc[t][std::min<long>(lin.size, 6)][rhs_class(t, lin.rhs)]++;
              if (verbose) {
                printf("# %s frame %s %s | from (%.0Lf %.0Lf %.0Lf) to (%.0Lf %.0Lf %.0Lf) fs (%.0Lf %.0Lf %.0Lf) dh %g/%g ori %.10g rad\n",
                       ro::type_name(t), F.str().c_str(), F.consistent() ? "consistent" : "inconsistent",
                       g.p[0].x, g.p[0].y, g.p[0].z, g.p[1].x, g.p[1].y, g.p[1].z, g.p[2].x, g.p[2].y, g.p[2].z, DH[dh][0], DH[dh][1], ori_d);
                printf("# observed %.17g (value() with reduction %.17g)%s  rhs gama %.10g reference %.10Lg\n", obs_d, o->value(), face2 ? " face II" : "", lin.rhs, rhs_ref);
                for (int v = 0; v < 10; v++) if (ro::depends(t, v))
                  printf("#   %-12s status %s index %d  gama %.12g  reference %.12Lg\n", VARN[v],
                         v == 9 ? "-" : (st[v / 3][v % 3 == 2 ? 1 : 0] == 0 ? "free" : st[v / 3][v % 3 == 2 ? 1 : 0] == 1 ? "fixed" : "constr"), iv[v], got[v], ref[v]);
              }
            }
            if (!rr.ok) {
              std::string sig = "C05|" + rr.clause + "|" + ro::type_name(t);
              if (t == ro::Z_ANGLE) sig += face2 ? "|face2" : "|face1";
              if (ro::uses_dh(t)) sig += std::string("|") + dh_class(dh);
              sig += F.consistent() ? "|consistent" : "|inconsistent";
              vh::V(sig, caseA(L.tag, t, fno, off, i, j, k, dh, oi, m, code), rr.detail);
            }
          }
          R.ln.return_inconsistency();
        }
      }
    }
  }
  R.drop();
}

static void stageA(const Pin& pin) {
  const bool th = vh::thorough();
  const char lat = pin.lat ? pin.lat : (th ? 'T' : 'Q');
  const Lattice& L = lattice(lat);
  const int N = (int)L.pts.size();
  std::map<int, std::unique_ptr<Rig>> rigs;
  uint64_t unit = 0;
  std::vector<int> offs = th ? std::vector<int>{0, 1, 2} : std::vector<int>{2};
  if (pin.off >= 0) offs = std::vector<int>{pin.off};
  for (int t = 0; t < ro::NTYPES; t++) {
    if (pin.type >= 0 && t != pin.type) continue;
    std::vector<int> frames;
    if (pin.frame >= 0) frames.push_back(pin.frame);
    else if (t == ro::AZIMUTH) for (int f = 0; f < 16; f++) frames.push_back(f);
    else for (int f : FRAMES4) frames.push_back(f);
    const int np = ro::npoints((ro::Type)t);
    for (int f : frames) {
      if (!rigs.count(f)) rigs[f].reset(new Rig(ro::frame_no(f)));
      Rig& R = *rigs[f];
      for (int off : offs)
        for (int i = 0; i < N; i++) {
          if (pin.i >= 0 && i != pin.i) continue;
          for (int j = 0; j < (np == 1 ? 1 : N); j++) {
            if (np > 1 && pin.j >= 0 && j != pin.j) continue;
            if (np > 1 && j == i) continue;
            unit++;
            if (pin.type < 0 && !vh::mine(unit)) continue;
            if (vh::expired()) goto done;
            unitA(R, L, (ro::Type)t, f, off, i, j, pin, th);
          }
        }
    }
  }
done:
  vh::C("evaluations", SA.evals);
  vh::C("linearisations", SA.evals);
  vh::C("distinct_nontrivial", SA.nontrivial);
  vh::C("placements", SA.placements);
  vh::C("reference_rows", SA.refrows);
  vh::C("excluded_singular_placements", SA.excluded);
  vh::C("refused_nonpositive_value", SA.refused);
  vh::C("excluded_ambiguous_face", SA.ambiguous);
  for (int t = 0; t < ro::NTYPES; t++) for (int s = 0; s < 7; s++) for (int c = 0; c < 5; c++)
    if (SA.oc[t][s][c]) vh::O(std::string("A|") + ro::type_name((ro::Type)t) + "|coefficients=" + std::to_string(s) + "|rhs=" + RHSC[c], SA.oc[t][s][c]);
}

// ================================================================== stage B
struct GObs {            // one generated observation, in the order of the input file
  ro::Type t; int from, to, fs; double fdh, tdh; LD obs; /* rad | m as written */ double stdev; int station; /* cluster no of the <obs> */
};
static const char* ALGS[4] = { "envelope", "gso", "svd", "cholesky" };
static const char* PID[3] = { "A", "B", "C" };

static std::string num(LD v) { char b[64]; snprintf(b, sizeof b, "%.17g", (double)v); return b; }

struct NetB {
  std::string xml; std::vector<GObs> G; ro::Geo truth; ro::Frame F; double m0;
};

static std::string status_attr(int sxy, int sz) {
  std::string fix, adj;
  if (sxy == 1) fix += "xy";
  if (sz == 1) fix += "z";
  if (sxy == 0 && sz == 0) adj = "xyz"; else if (sxy == 2 && sz == 2) adj = "XYZ";
  else if (sxy == 2 && sz == 0) adj = "XYz"; else if (sxy == 0 && sz == 2) adj = "xyZ";
  else if (sxy == 0) adj = "xy"; else if (sxy == 2) adj = "XY";
  else if (sz == 0) adj = "z"; else if (sz == 2) adj = "Z";
  std::string s;
  if (!fix.empty()) s += " fix=\"" + fix + "\"";
  if (!adj.empty()) s += " adj=\"" + adj + "\"";
  return s;
}

static NetB build_net(const Lattice& L, int fno, int off, const int pi[3], int status, int alg, int variant, int m0i) {
  NetB n; n.F = ro::frame_no(fno); n.m0 = m0i ? 1.0 : 10.0;
  for (int q = 0; q < 3; q++) {
    const std::array<int, 3>& p = L.pts[pi[q]];
    n.truth.p[q] = ro::P3((LD)(p[0] + OFFS[off][0]), (LD)(p[1] + OFFS[off][1]), (LD)(p[2] + OFFS[off][2]));
  }
  int cnt = 0;
  auto add = [&](ro::Type t, int a, int b, int c, double fdh, double tdh, int station) -> GObs& {
    GObs o; o.t = t; o.from = a; o.to = b; o.fs = c; o.fdh = fdh; o.tdh = tdh; o.station = station;
    ro::Geo g; g.p[0] = n.truth.p[a]; g.p[1] = n.truth.p[b < 0 ? a : b]; g.p[2] = n.truth.p[c < 0 ? a : c]; g.ori = 0;
    ro::Spec s(t, fdh, tdh);
    LD v = ro::value(n.F, s, g);
    // directions: the circle of a station is turned by a station dependent angle (the harness never tells gama)
    if (t == ro::DIRECTION) v = ro::norm2pi(v - (LD)(0.7 + 1.1 * a));
    if (variant == 1) {
      static const int AM[5] = { 1, 3, 4, 6, 8 };
      if (t == ro::Z_ANGLE) v += 10 * CC;
      else if (ro::angular(t)) v += ang_delta(AM[cnt % 5]);
      else v += lin_delta(1 + cnt % 2);
    } else if (ro::angular(t) && t != ro::Z_ANGLE && cnt % 3 == 1) v -= ro::TWO_PI;   // same angle, written unnormalised
    o.obs = v; o.stdev = 3.0 + cnt; cnt++;
    n.G.push_back(o);
    return n.G.back();
  };
  std::ostringstream x;
  x << "<?xml version=\"1.0\" ?>\n<gama-local xmlns=\"http://www.gnu.org/software/gama/gama-local\">\n"
    << "<network axes-xy=\"" << n.F.axes_str() << "\" angles=\"" << n.F.angles_str() << "\">\n"
    << "<parameters sigma-apr=\"" << num(n.m0) << "\" sigma-act=\"apriori\" tol-abs=\"1e12\"";
  if (alg > 0) x << " algorithm=\"" << ALGS[alg] << "\"";
  x << "/>\n<points-observations>\n";
  auto val = [&](const GObs& o) -> std::string { return num(ro::angular(o.t) ? ro::rad2gon(o.obs) : o.obs); };
  // observed coordinates first: a <point> inside <coordinates> also sets the approximate coordinates,
  // the <point> elements below then set them to the placement under test
  {
    GObs cx = add(ro::X, 2, -1, -1, 0, 0, -1), cy = add(ro::Y, 2, -1, -1, 0, 0, -1), cz = add(ro::Z, 2, -1, -1, 0, 0, -1);
    GObs ax = add(ro::X, 0, -1, -1, 0, 0, -1), ay = add(ro::Y, 0, -1, -1, 0, 0, -1);
    x << "<coordinates>\n<point id=\"C\" x=\"" << val(cx) << "\" y=\"" << val(cy) << "\" z=\"" << val(cz) << "\"/>\n"
      << "<point id=\"A\" x=\"" << val(ax) << "\" y=\"" << val(ay) << "\"/>\n<cov-mat dim=\"5\" band=\"0\">";
    for (const GObs* o : { &cx, &cy, &cz, &ax, &ay }) x << " " << num(o->stdev * o->stdev);
    x << "</cov-mat>\n</coordinates>\n";
  }
  for (int q = 0; q < 3; q++) {
    int c = status; for (int r = 0; r < q; r++) c /= 9; c %= 9;
    x << "<point id=\"" << PID[q] << "\" x=\"" << num(n.truth.p[q].x) << "\" y=\"" << num(n.truth.p[q].y) << "\" z=\"" << num(n.truth.p[q].z)
      << "\"" << status_attr(c / 3, c % 3) << "/>\n";
  }
  auto emit = [&](const GObs& o) {
    x << "<" << ro::type_name(o.t);
    if (o.t == ro::ANGLE) x << " bs=\"" << PID[o.to] << "\" fs=\"" << PID[o.fs] << "\"";
    else x << " to=\"" << PID[o.to] << "\"";
    if (o.fdh) x << " from_dh=\"" << num(o.fdh) << "\"";
    if (o.tdh) x << " to_dh=\"" << num(o.tdh) << "\"";
    x << " val=\"" << val(o) << "\" stdev=\"" << num(o.stdev) << "\"/>\n";
  };
  x << "<obs from=\"A\">\n";
  emit(add(ro::DIRECTION, 0, 1, -1, 0, 0, 0)); emit(add(ro::DIRECTION, 0, 2, -1, 0, 0, 0));
  emit(add(ro::DISTANCE, 0, 1, -1, 0, 0, 0)); emit(add(ro::ANGLE, 0, 1, 2, 0, 0, 0));
  emit(add(ro::AZIMUTH, 0, 2, -1, 0, 0, 0)); emit(add(ro::S_DISTANCE, 0, 2, -1, 1.6, 0.2, 0));
  emit(add(ro::Z_ANGLE, 0, 1, -1, 1.25, 1.25, 0));
  x << "</obs>\n<obs from=\"B\">\n";
  emit(add(ro::DIRECTION, 1, 0, -1, 0, 0, 1)); emit(add(ro::DIRECTION, 1, 2, -1, 0, 0, 1));
  emit(add(ro::DISTANCE, 1, 2, -1, 0, 0, 1)); emit(add(ro::Z_ANGLE, 1, 2, -1, 0, 0, 1));
  emit(add(ro::S_DISTANCE, 1, 0, -1, 0, 0, 1)); emit(add(ro::AZIMUTH, 1, 0, -1, 0, 0, 1));
  x << "</obs>\n<obs from=\"C\">\n";
  emit(add(ro::ANGLE, 2, 0, 1, 0, 0, 2)); emit(add(ro::DISTANCE, 2, 0, -1, 0, 0, 2));
  x << "</obs>\n<height-differences>\n";
  for (int e = 0; e < 2; e++) {
    GObs o = add(ro::H_DIFF, e, e + 1, -1, 0, 0, -1);
    x << "<dh from=\"" << PID[o.from] << "\" to=\"" << PID[o.to] << "\" val=\"" << val(o) << "\" stdev=\"" << num(o.stdev) << "\"/>\n";
  }
  x << "</height-differences>\n<vectors>\n";
  {
    GObs dx = add(ro::XDIFF, 0, 2, -1, 0, 0, -1), dy = add(ro::YDIFF, 0, 2, -1, 0, 0, -1), dz = add(ro::ZDIFF, 0, 2, -1, 0, 0, -1);
    x << "<vec from=\"A\" to=\"C\" dx=\"" << val(dx) << "\" dy=\"" << val(dy) << "\" dz=\"" << val(dz) << "\"/>\n<cov-mat dim=\"3\" band=\"0\">";
    for (const GObs* o : { &dx, &dy, &dz }) x << " " << num(o->stdev * o->stdev);
    x << "</cov-mat>\n</vectors>\n";
  }
  x << "</points-observations>\n</network>\n</gama-local>\n";
  n.xml = x.str();
  return n;
}

struct StatsB { long long nets, rows, nontrivial, removed; std::map<std::string, long long> oc; StatsB() : nets(0), rows(0), nontrivial(0), removed(0) {} };
static StatsB SB_;

static ro::Type dyn_type(Observation* o) {
  if (dynamic_cast<Direction*>(o)) return ro::DIRECTION;
  if (dynamic_cast<Distance*>(o)) return ro::DISTANCE;
  if (dynamic_cast<Angle*>(o)) return ro::ANGLE;
  if (dynamic_cast<Azimuth*>(o)) return ro::AZIMUTH;
  if (dynamic_cast<S_Distance*>(o)) return ro::S_DISTANCE;
  if (dynamic_cast<Z_Angle*>(o)) return ro::Z_ANGLE;
  if (dynamic_cast<H_Diff*>(o)) return ro::H_DIFF;
  if (dynamic_cast<X*>(o)) return ro::X;
  if (dynamic_cast<Y*>(o)) return ro::Y;
  if (dynamic_cast<Z*>(o)) return ro::Z;
  if (dynamic_cast<Xdiff*>(o)) return ro::XDIFF;
  if (dynamic_cast<Ydiff*>(o)) return ro::YDIFF;
  if (dynamic_cast<Zdiff*>(o)) return ro::ZDIFF;
  return ro::NTYPES;
}

struct RefRowB { LD ref[10]; LD scale; };
static std::string refkeyB;
static std::vector<RefRowB> refrowsB;

static void checkB(const Lattice& L, int fno, int off, const int pi[3], int status, int alg, int variant, int m0i) {
  const bool verbose = vh::ctx().verbose;
  std::ostringstream cs;
  cs << "B:" << L.tag << ":" << fno << ":" << off << ":" << pi[0] << ":" << pi[1] << ":" << pi[2] << ":" << status << ":" << alg << ":" << variant << ":" << m0i;
  const std::string cstr = cs.str();
  static const bool prof = vh::ctx().opt.count("prof") > 0;
  double tp0 = prof ? vh::elapsed() : 0;
  NetB n = build_net(L, fno, off, pi, status, alg, variant, m0i);
  if (prof) { double t = vh::elapsed(); vh::C("prof_us_build", (long long)((t - tp0) * 1e6)); tp0 = t; }
  const ro::Frame& F = n.F;
  const std::string cls = std::string(ALGS[alg]) + (F.consistent() ? "|consistent" : "|inconsistent");
  if (verbose) printf("%s\n", n.xml.c_str());
  SB_.nets++;
  std::unique_ptr<LocalNetwork> ln(new LocalNetwork);
  try {
    GKFparser gkf(*ln);
    gkf.xml_parse(n.xml.c_str(), (int)n.xml.size(), 1);
  } catch (const GNU_gama::local::ParserException& e) {
    vh::V("harness|generated-input-rejected", cstr, std::string(e.what()) + " line " + std::to_string(e.line)); return;
  } catch (const GNU_gama::local::Exception& e) {
    vh::V("harness|generated-input-rejected", cstr, e.what()); return;
  }
  if (prof) { double t = vh::elapsed(); vh::C("prof_us_parse", (long long)((t - tp0) * 1e6)); tp0 = t; }
  Mat A; Vec b, w;
  try {
    if (!ln->has_algorithm()) ln->set_algorithm();
    ln->remove_inconsistency();
    Acord2 acord2(ln->PD, ln->OD);
    acord2.execute();
    refine_obsdh_reductions(ln.get());
    if (prof) { double t = vh::elapsed(); vh::C("prof_us_acord", (long long)((t - tp0) * 1e6)); tp0 = t; }
    ln->project_equations();
    if (prof) { double t = vh::elapsed(); vh::C("prof_us_projeq", (long long)((t - tp0) * 1e6)); tp0 = t; }
    // Is project_equations(A,b,w) usable with this algorithm?  Probed once per algorithm in a forked
    // child, because the failure mode on record is a null pointer dereference (SIGSEGV).
    static int usable[4] = { -1, -1, -1, -1 };
    static std::string how[4];
    if (usable[alg] < 0) {
      fflush(stdout);
      pid_t pid = fork();
      if (pid == 0) {
        try { Mat A2; Vec b2, w2; ln->project_equations(A2, b2, w2); } catch (...) { _exit(3); }
        _exit(0);
      }
      int st = 0; waitpid(pid, &st, 0);
      usable[alg] = (WIFEXITED(st) && WEXITSTATUS(st) == 0) ? 1 : 0;
      how[alg] = WIFSIGNALED(st) ? "killed by signal " + std::to_string(WTERMSIG(st)) : "exit status " + std::to_string(WEXITSTATUS(st));
    }
    if (!usable[alg]) {
      vh::V(std::string("C05|project_equations(A,b,w)|crash|") + ALGS[alg], cstr,
            "LocalNetwork::project_equations(Mat&,Vec&,Vec&) in a forked probe: " + how[alg] + " (member Asp is " + (ln->Asp ? "set" : "null") +
            " after project_equations()); rows taken from AdjInputData::mat() instead");
      const GNU_gama::SparseMatrix<>* M = ln->Asp ? ln->Asp : ln->input.mat();
      if (!M) { vh::V("C05|project_equations(A,b,w)|no-design-matrix", cstr, "neither Asp nor input.mat()"); return; }
      A.reset(M->rows(), M->columns()); A.set_zero(); b.reset(M->rows()); w.reset(M->rows());
      for (int i = 1; i <= (int)M->rows(); i++) {
        double* nb = M->begin(i); double* ne = M->end(i); int* ib = M->ibegin(i);
        while (nb != ne) A(i, *ib++) = *nb++;
        b(i) = ln->rhs(i); w(i) = ln->weight_obs(i);
      }
    } else {
      ln->project_equations(A, b, w);
    }
  } catch (const GNU_gama::local::Exception& e) {
    vh::V("C05|network-throws|" + cls, cstr, e.what()); return;
  } catch (const GNU_gama::Exception::base& e) {
    vh::V("C05|network-throws|" + cls, cstr, e.what()); return;
  }
  if (prof) { double t = vh::elapsed(); vh::C("prof_us_projeq2", (long long)((t - tp0) * 1e6)); tp0 = t; }
  if (!ln->removed_points.empty()) { SB_.removed++; SB_.oc["B|point-removed|" + cls]++; return; }

  // linearisation point = what the input file said (the harness's truth), in gama's internal frame
  ro::Geo g = n.truth;
  LocalPoint* P[3];
  for (int q = 0; q < 3; q++) {
    P[q] = &ln->PD[PID[q]];
    if (P[q]->x() != (double)g.p[q].x || P[q]->y() != (double)(F.y_sign() * g.p[q].y) || P[q]->z() != (double)g.p[q].z) {
      vh::V("C05|net-approximate-coordinates|" + cls, cstr, std::string("point ") + PID[q] + " is not at the given coordinates (y mirrored iff inconsistent)");
      return;
    }
  }
  std::vector<StandPoint*> sps;
  for (auto c : ln->OD.clusters) if (StandPoint* s = dynamic_cast<StandPoint*>(c)) sps.push_back(s);
  const int m = A.rows(), U = A.cols();
  if (m != (int)n.G.size()) { vh::V("C05|net-row-count|" + cls, cstr, "rows " + std::to_string(m) + " observations written " + std::to_string(n.G.size())); return; }
  if ((int)sps.size() != 3) { vh::V("harness|standpoints", cstr, std::to_string(sps.size())); return; }

  // owner of every column
  std::vector<std::string> owner(U + 1);
  bool okcols = true;
  auto claim = [&](int idx, const std::string& who) {
    if (idx == 0) return;
    if (idx < 1 || idx > U || !owner[idx].empty()) { okcols = false; vh::V("C05|net-index-bijection|" + cls, cstr, who + " has index " + std::to_string(idx) + (idx >= 1 && idx <= U ? " already owned by " + owner[idx] : " outside 1..unknowns")); }
    else owner[idx] = who;
  };
  for (int q = 0; q < 3; q++) {
    claim(P[q]->index_x(), std::string(PID[q]) + ".x"); claim(P[q]->index_y(), std::string(PID[q]) + ".y"); claim(P[q]->index_z(), std::string(PID[q]) + ".z");
  }
  for (int s = 0; s < 3; s++) claim(sps[s]->index_orientation(), std::string("ori.") + sps[s]->station.str());
  for (int c = 1; c <= U && okcols; c++) if (owner[c].empty()) { okcols = false; vh::V("C05|net-index-bijection|" + cls, cstr, "column " + std::to_string(c) + " of " + std::to_string(U) + " has no owner"); }
  if (!okcols) return;
  // gama's own list of unknowns must name the same owners
  for (int c = 1; c <= U; c++) {
    char ty = ln->unknown_type(c);
    std::string who = (ty == 'R' ? std::string("ori.") : ln->unknown_pointid(c).str() + ".") + (ty == 'R' ? ln->unknown_pointid(c).str() : std::string(1, (char)tolower(ty)));
    if (who != owner[c]) { vh::V("C05|net-unknown-list|" + cls, cstr, "column " + std::to_string(c) + " owner " + owner[c] + " listed as " + who); return; }
  }

  // reference rows depend on (frame, offset, placement, observation) only: computed once per placement
  {
    std::ostringstream k; k << L.tag << ":" << fno << ":" << off << ":" << pi[0] << ":" << pi[1] << ":" << pi[2];
    if (k.str() != refkeyB) {
      refkeyB = k.str(); refrowsB.assign(n.G.size(), RefRowB());
      for (size_t r = 0; r < n.G.size(); r++) {
        const GObs& o = n.G[r];
        ro::Geo go; go.p[0] = g.p[o.from]; go.p[1] = g.p[o.to < 0 ? o.from : o.to]; go.p[2] = g.p[o.fs < 0 ? o.from : o.fs]; go.ori = 0;
        ro::Spec s(o.t, o.fdh, o.tdh);
        LD err = 0;
        ro::reference_row(F, s, go, refrowsB[r].ref, &err);
        refrowsB[r].scale = ro::coef_scale(s, go);
        if (err > 1e-9L * refrowsB[r].scale) { vh::V("harness|reference-not-converged|net", cstr, "row " + std::to_string(r + 1)); refkeyB.clear(); return; }
      }
    }
  }
  for (int r = 1; r <= m; r++) {
    const GObs& o = n.G[r - 1];
    Observation* po = ln->ptr_obs(r);
    SB_.rows++;
    RowResult rr; rr.ok = true;
    ro::Type dt = dyn_type(po);
    const bool same = dt == o.t && po->from().str() == PID[o.from] && (ro::npoints(o.t) < 2 || po->to().str() == PID[o.to]) &&
                      (o.t != ro::ANGLE || static_cast<Angle*>(po)->fs().str() == PID[o.fs]);
    if (!same) { vh::V("C05|net-row-order|" + cls, cstr, "row " + std::to_string(r) + " is not the " + std::to_string(r) + "-th observation of the input"); return; }
    // reference row
    ro::Geo go; go.p[0] = g.p[o.from]; go.p[1] = g.p[o.to < 0 ? o.from : o.to]; go.p[2] = g.p[o.fs < 0 ? o.from : o.fs];
    StandPoint* sp = o.station >= 0 ? sps[o.station] : 0;
    go.ori = 0;
    ro::Spec s(o.t, o.fdh, o.tdh);
    const LD* ref = refrowsB[r - 1].ref;
    const LD scale = refrowsB[r - 1].scale;
    if (o.t == ro::DIRECTION) go.ori = (LD)sp->orientation();
    // the observed value as parsed: the text written -> double -> (gon to rad)
    const double written = strtod(num(ro::angular(o.t) ? ro::rad2gon(o.obs) : o.obs).c_str(), 0);
    const LD observed = ro::angular(o.t) ? (LD)written * ro::PI / 200.0L : (LD)written;
    const LD rhs_ref = ro::reference_rhs(F, s, go, observed);
    // expected columns
    const int pidx[3] = { o.from, o.to < 0 ? o.from : o.to, o.fs < 0 ? o.from : o.fs };
    std::vector<LD> exp(U + 1, 0.0L); std::vector<char> may(U + 1, 0);
    int nexp = 0;
    for (int v = 0; v < 10; v++) {
      if (!ro::depends(o.t, v)) continue;
      int col = 0;
      if (v == 9) col = sp->index_orientation();
      else {
        LocalPoint* p = P[pidx[v / 3]];
        bool freev = v % 3 == 2 ? p->free_z() : p->free_xy();
        if (!freev) continue;
        col = v % 3 == 0 ? p->index_x() : (v % 3 == 1 ? p->index_y() : p->index_z());
      }
      if (col < 1) { rr.ok = false; rr.clause = "net-index-missing"; rr.detail = std::string(VARN[v]) + " of row " + std::to_string(r) + " has no column"; break; }
      exp[col] += ref[v]; may[col] = 1; nexp++;
    }
    for (int c = 1; c <= U && rr.ok; c++) {
      LD tol = may[c] ? 1e-6L * fabsl(exp[c]) + 1e-9L * (owner[c].compare(0, 4, "ori.") == 0 ? 1.0L : scale) : 0.0L;
      LD d = fabsl((LD)A(r, c) - exp[c]);
      if (!(d <= tol)) {
        rr.ok = false;
        rr.clause = !may[c] ? "net-coeff-of-fixed-or-unrelated" : (fabsl((LD)A(r, c) + exp[c]) <= tol ? "net-coeff-sign" : "net-coeff");
        rr.detail = "row " + std::to_string(r) + " column " + owner[c] + ": gama " + vh::str(A(r, c)) + " reference " + vh::str((double)exp[c]);
      }
    }
    if (rr.ok) { compare_rhs(o.t, rhs_ref, b(r), rr); if (!rr.ok) rr.clause = "net-" + rr.clause; }
    if (rr.ok) {
      LD wref = ((LD)n.m0 / (LD)o.stdev) * ((LD)n.m0 / (LD)o.stdev);
      if (!(fabsl((LD)w(r) - wref) <= 1e-12L * wref)) { rr.ok = false; rr.clause = "net-weight"; rr.detail = "row " + std::to_string(r) + " weight " + vh::str(w(r)) + " expected (m0/sigma)^2 = " + vh::str((double)wref); }
    }
    if (rr.ok && ln->rhs(r) != b(r)) { rr.ok = false; rr.clause = "net-rhs-accessor"; rr.detail = "rhs(i) differs from b(i)"; }
    if (nexp > (o.t == ro::DIRECTION ? 1 : 0)) SB_.nontrivial++;
    SB_.oc[std::string("B|") + ro::type_name(o.t) + "|coefficients=" + std::to_string(nexp) + "|rhs=" + RHSC[rhs_class(o.t, b(r))]]++;
    if (verbose) {
      printf("# row %d %s %s->%s rhs %.10g (ref %.10Lg) w %.10g :", r, ro::type_name(o.t), PID[o.from], o.to < 0 ? "-" : PID[o.to], b(r), rhs_ref, w(r));
      for (int c = 1; c <= U; c++) if (A(r, c) != 0 || may[c]) printf("  %s %.10g (ref %.10Lg)", owner[c].c_str(), A(r, c), exp[c]);
      printf("\n");
    }
    if (vh::ctx().samples < 2 && rr.ok && r == 9 && nexp == 6) {
      std::ostringstream x; x.precision(12);
      x << cstr << " row 9 (angle at A from B to C, " << ALGS[alg] << ", frame " << F.str() << ") b " << b(r) << " (reference " << (double)rhs_ref << ") w " << w(r) << " coefficients";
      for (int c = 1; c <= U; c++) if (may[c]) x << " " << owner[c] << " " << A(r, c) << " (ref " << (double)exp[c] << ")";
      vh::X(x.str());
    }
    if (!rr.ok) {
      std::string sig = "C05|" + rr.clause + "|" + ro::type_name(o.t);
      if (ro::uses_dh(o.t)) sig += std::string("|") + (o.fdh == 0 && o.tdh == 0 ? "dh0" : (o.fdh == o.tdh ? "dh-equal" : "dh-unequal"));
      vh::V(sig + "|" + cls, cstr, rr.detail);
    }
  }

  if (prof) { double t = vh::elapsed(); vh::C("prof_us_oracle", (long long)((t - tp0) * 1e6)); tp0 = t; }
  // the same rows from a LocalLinearization run by the harness over the same observations
  {
    std::vector<int> saved;
    for (int q = 0; q < 3; q++) { saved.push_back(P[q]->index_x()); saved.push_back(P[q]->index_y()); saved.push_back(P[q]->index_z()); P[q]->index_x() = P[q]->index_y() = P[q]->index_z() = 0; }
    for (int s = 0; s < 3; s++) { saved.push_back(sps[s]->index_orientation()); sps[s]->index_orientation(0); }
    LocalLinearization lin(ln->PD, n.m0);
    bool ok = true;
    for (int r = 1; r <= m && ok; r++) {
      ln->ptr_obs(r)->accept(&lin);
      std::vector<double> row(U + 1, 0.0);
      for (long e = 0; e < lin.size; e++) { if (lin.index[e] < 1 || lin.index[e] > U) { ok = false; break; } row[lin.index[e]] += lin.coeff[e]; }
      for (int c = 1; c <= U && ok; c++) if (row[c] != A(r, c)) ok = false;
      if (ok && lin.rhs != b(r)) ok = false;
      if (!ok) vh::V("C05|net-row-differs-from-LocalLinearization|" + cls, cstr, "row " + std::to_string(r));
    }
    std::vector<int> now;
    for (int q = 0; q < 3; q++) { now.push_back(P[q]->index_x()); now.push_back(P[q]->index_y()); now.push_back(P[q]->index_z()); }
    for (int s = 0; s < 3; s++) now.push_back(sps[s]->index_orientation());
    if (ok && (now != saved || lin.unknowns() != U)) vh::V("C05|net-index-assignment-not-reproducible|" + cls, cstr, "indices after a second linearisation differ");
  }
}

// Placement sets of stage B on lattice S = {0,100}^2 x {-30,0,40}: P24 = every ordered triple of
// horizontally distinct points with the heights (0, 40, -30); P648 = every such triple with any heights.
static void stageB() {
  const bool th = vh::thorough();
  const Lattice& L = lattice('S');
  const int N = (int)L.pts.size();
  uint64_t unit = 1000003;
  for (int pass = 0; pass < (th ? 2 : 1); pass++) {
    // pass 0: P24 x statuses x frames x algorithms x {offsets, variants, sigma-apr}: quick: offset 5e6, (variant, sigma-apr)
    //         cycling with status+algorithm; thorough: all 3 offsets x 2 variants x 2 sigma-apr
    // pass 1 (thorough): P648 \ P24 x statuses x frames x algorithms, offset 5e6, (variant, sigma-apr) cycling
    std::vector<int> offs = (pass == 0 && th) ? std::vector<int>{0, 1, 2} : std::vector<int>{2};
    for (int fi = 0; fi < 4; fi++) for (int off : offs)
      for (int i = 0; i < N; i++) for (int j = 0; j < N; j++) for (int k = 0; k < N; k++) {
        const int f = FRAMES4[fi];
        if ((!th || pass == 1) && fi % 2 == 1) continue;     // quick and pass 1: ne/L (consistent) and ne/R (inconsistent)
        const auto &a = L.pts[i], &b = L.pts[j], &c = L.pts[k];
        if ((a[0] == b[0] && a[1] == b[1]) || (a[0] == c[0] && a[1] == c[1]) || (b[0] == c[0] && b[1] == c[1])) continue;
        const bool p24 = a[2] == 0 && b[2] == 40 && c[2] == -30;
        if ((pass == 0) != p24) continue;
        const int pi[3] = { i, j, k };
        for (int blk = 0; blk < 9; blk++) {
          unit++;
          if (!vh::mine(unit)) continue;
          if (vh::expired()) return;
          for (int status = blk * 81; status < (blk + 1) * 81; status++)
            for (int alg = 0; alg < 4; alg++) {
              if (pass == 0 && th) {
                for (int vm = 0; vm < 4; vm++) checkB(L, f, off, pi, status, alg, vm / 2, vm % 2);
              } else {
                int h = status + alg + i + j + k;
                checkB(L, f, off, pi, status, alg, h & 1, (h >> 1) & 1);
              }
            }
        }
      }
  }
}

int main(int argc, char** argv) {
  vh::parse_args(argc, argv);
  vh::Ctx& c = vh::ctx();
  if (!c.replay.empty()) {
    std::vector<std::string> f = vh::split(c.replay, ':');
    if (f.size() == 12 && f[0] == "A") {
      Pin p; p.lat = f[1][0]; p.type = ro::type_from_name(f[2]);
      p.frame = atoi(f[3].c_str()); p.off = atoi(f[4].c_str()); p.i = atoi(f[5].c_str()); p.j = atoi(f[6].c_str()); p.k = atoi(f[7].c_str());
      p.dh = atoi(f[8].c_str()); p.ori = atoi(f[9].c_str()); p.menu = atoi(f[10].c_str()); p.status = atoi(f[11].c_str());
      if (p.type >= ro::NTYPES) { fprintf(stderr, "bad type\n"); return 2; }
      stageA(p);
    } else if (f.size() == 11 && f[0] == "B") {
      const Lattice& L = lattice(f[1][0]);
      int pi[3] = { atoi(f[4].c_str()), atoi(f[5].c_str()), atoi(f[6].c_str()) };
      checkB(L, atoi(f[2].c_str()), atoi(f[3].c_str()), pi, atoi(f[7].c_str()), atoi(f[8].c_str()), atoi(f[9].c_str()), atoi(f[10].c_str()));
    } else { fprintf(stderr, "bad case string\n"); return 2; }
  } else {
    std::string stage = c.opt.count("stage") ? c.opt["stage"] : "AB";
    if (stage.find('A') != std::string::npos) stageA(Pin());
    if (stage.find('B') != std::string::npos) stageB();
  }
  vh::C("networks", SB_.nets);
  vh::C("network_rows", SB_.rows);
  vh::C("evaluations", SB_.rows);
  vh::C("distinct_nontrivial", SB_.nontrivial);
  vh::C("networks_with_removed_point", SB_.removed);
  for (auto& kv : SB_.oc) vh::O(kv.first, kv.second);
  return vh::finish();
}
