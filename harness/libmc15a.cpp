// part a of the C15 harness (see libmc15.cpp and libmc15_main.h)
#define LIBMC15_PART 1
#include "libmc15_main.h"
