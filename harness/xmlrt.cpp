// xmlrt: gama's own result readers, in process (check C12).
//
//   xmlrt [--case] (xml|html|xml2|html2) <file> [(xml|html|xml2|html2) <file> ...]
//   (xml2 / html2: the same results object reads the file twice)
//
// For every file: LocalNetworkAdjustmentResults::read_xml / read_html on the
// file, then EVERY field of the results data structure is dumped in a
// canonical text form, one "key<TAB>value" line per field, between
//   BEGIN <kind> <file>     and     END ok | END exception <line> <code> <text>
// Strings are escaped (\\ \t \n \r, other control bytes \xHH); UTF-8 bytes are
// passed through.  Doubles are printed with 17 significant digits.
// The driver (checks/c12.py) compares the dump field by field with its own
// python parse of the same file.  --shard/--tier are accepted and ignored
// (the enumeration lives in the driver); `--case <kind>:<file>` dumps one file.
#include "vh.h"
#include <fstream>
#include <iostream>
#include <gnu_gama/xml/localnetwork_adjustment_results.h>
#include <gnu_gama/exception.h>
#include <matvec/inderr.h>

using GNU_gama::LocalNetworkAdjustmentResults;

static std::string esc(const std::string& s) {
  std::string t;
  for (unsigned char c : s) {
    if (c == '\\') t += "\\\\";
    else if (c == '\t') t += "\\t";
    else if (c == '\n') t += "\\n";
    else if (c == '\r') t += "\\r";
    else if (c < 0x20 || c == 0x7f) { char b[8]; snprintf(b, sizeof b, "\\x%02X", c); t += b; }
    else t += (char)c;
  }
  return t;
}
static void S(const std::string& k, const std::string& v) { printf("%s\t%s\n", k.c_str(), esc(v).c_str()); }
static void I(const std::string& k, long long v) { printf("%s\t%lld\n", k.c_str(), v); }
static void F(const std::string& k, double v) { printf("%s\t%.17g\n", k.c_str(), v); }

static void points(const char* name, const LocalNetworkAdjustmentResults::PointList& L) {
  I(std::string(name) + ".n", (long long)L.size());
  for (size_t i = 0; i < L.size(); i++) {
    const auto& p = L[i];
    std::string k = std::string(name) + "." + std::to_string(i) + ".";
    S(k + "id", p.id);
    F(k + "x", p.x); F(k + "y", p.y); F(k + "z", p.z);
    I(k + "hxy", p.hxy); I(k + "hz", p.hz); I(k + "cxy", p.cxy); I(k + "cz", p.cz);
    I(k + "indx", p.indx); I(k + "indy", p.indy); I(k + "indz", p.indz);
  }
}

static void dump(const LocalNetworkAdjustmentResults& r) {
  I("gons", r.gons);
  S("description", r.description);
  S("err.category", r.xmlerror.getCategory());
  I("err.ndesc", (long long)r.xmlerror.getDescription().size());
  const auto& g = r.network_general_parameters;
  S("gp.gama-local-version", g.gama_local_version);
  S("gp.gama-local-algorithm", g.gama_local_algorithm);
  S("gp.gama-local-compiler", g.gama_local_compiler);
  S("gp.axes-xy", g.axes_xy);
  S("gp.angles", g.angles);
  S("gp.epoch", g.epoch);
  S("gp.latitude", g.latitude);
  S("gp.ellipsoid", g.ellipsoid);
  const auto& c = r.coordinates_summary;
  I("cs.adjusted.xyz", c.adjusted.xyz); I("cs.adjusted.xy", c.adjusted.xy); I("cs.adjusted.z", c.adjusted.z);
  I("cs.constrained.xyz", c.constrained.xyz); I("cs.constrained.xy", c.constrained.xy); I("cs.constrained.z", c.constrained.z);
  I("cs.fixed.xyz", c.fixed.xyz); I("cs.fixed.xy", c.fixed.xy); I("cs.fixed.z", c.fixed.z);
  const auto& o = r.observations_summary;
  I("os.distances", o.distances); I("os.directions", o.directions); I("os.angles", o.angles);
  I("os.xyz-coords", o.xyz_coords); I("os.h-diffs", o.h_diffs); I("os.z-angles", o.z_angles);
  I("os.s-dists", o.s_dists); I("os.vectors", o.vectors); I("os.azimuths", o.azimuths);
  const auto& e = r.project_equations;
  I("pe.equations", e.equations); I("pe.unknowns", e.unknowns);
  I("pe.degrees-of-freedom", e.degrees_of_freedom); I("pe.defect", e.defect);
  F("pe.sum-of-squares", e.sum_of_squares); I("pe.connected", e.connected_network);
  I("pe.linearization-iterations", e.linearization_iterations);
  const auto& s = r.standard_deviation;
  F("sd.apriori", s.apriori); F("sd.aposteriori", s.aposteriori); I("sd.using-aposteriori", s.using_aposteriori);
  F("sd.probability", s.probability); F("sd.ratio", s.ratio); F("sd.lower", s.lower); F("sd.upper", s.upper);
  S("sd.status", s.status == LocalNetworkAdjustmentResults::Status::passed ? "passed" :
                 s.status == LocalNetworkAdjustmentResults::Status::failed ? "failed" : "not-applicable");
  F("sd.confidence-scale", s.confidence_scale);
  points("fixed", r.fixed_points);
  points("approximate", r.approximate_points);
  points("adjusted", r.adjusted_points);
  I("ellipse.n", (long long)r.ellipses.size());
  for (size_t i = 0; i < r.ellipses.size(); i++) {
    std::string k = "ellipse." + std::to_string(i) + ".";
    S(k + "id", r.ellipses[i].id); F(k + "major", r.ellipses[i].major);
    F(k + "minor", r.ellipses[i].minor); F(k + "alpha", r.ellipses[i].alpha);
  }
  I("ori.n", (long long)r.orientations.size());
  for (size_t i = 0; i < r.orientations.size(); i++) {
    std::string k = "ori." + std::to_string(i) + ".";
    S(k + "id", r.orientations[i].id); F(k + "approx", r.orientations[i].approx);
    F(k + "adj", r.orientations[i].adj); I(k + "index", r.orientations[i].index);
  }
  I("cov.dim", r.cov.dim()); I("cov.band", r.cov.bandWidth());
  {
    long long n = 0;
    for (const double* b = r.cov.begin(); b != r.cov.end(); ++b, ++n) F("cov." + std::to_string(n), *b);
    I("cov.n", n);
  }
  I("oi.n", (long long)r.original_index.size());
  for (size_t i = 0; i < r.original_index.size(); i++) I("oi." + std::to_string(i), r.original_index[i]);
  I("obs.n", (long long)r.obslist.size());
  for (size_t i = 0; i < r.obslist.size(); i++) {
    const auto& b = r.obslist[i];
    std::string k = "obs." + std::to_string(i) + ".";
    S(k + "tag", b.xml_tag); S(k + "from", b.from); S(k + "to", b.to); S(k + "left", b.left); S(k + "right", b.right);
    F(k + "obs", b.obs); F(k + "adj", b.adj); F(k + "stdev", b.stdev); F(k + "qrr", b.qrr); F(k + "f", b.f);
    F(k + "std-residual", b.std_residual); S(k + "err-obs", b.err_obs); S(k + "err-adj", b.err_adj);
    F(k + "residual", b.residual());
  }
}

static void one(const std::string& kind, const std::string& file) {
  printf("BEGIN\t%s\t%s\n", kind.c_str(), esc(file).c_str());
  std::ifstream in(file.c_str(), std::ios::binary);
  if (!in) { printf("END\tnofile\n"); fflush(stdout); return; }
  LocalNetworkAdjustmentResults* r = new LocalNetworkAdjustmentResults;
  std::string end = "ok";
  try {
    if (kind == "xml" || kind == "xml2") r->read_xml(in); else r->read_html(in);
    if (kind == "xml2" || kind == "html2") {
      // the same object reads the same file a second time: the result must be the one of a fresh object
      std::ifstream again(file.c_str(), std::ios::binary);
      if (kind == "xml2") r->read_xml(again); else r->read_html(again);
    }
  } catch (const GNU_gama::Exception::parser& p) {
    end = "exception\t" + std::to_string(p.line) + "\t" + std::to_string(p.error_code) + "\t" + esc(p.str);
  } catch (const GNU_gama::Exception::matvec& m) {
    end = std::string("exception\t0\t-2\tmatvec ") + esc(m.what());
  } catch (const std::exception& x) {
    end = std::string("exception\t0\t-3\tstd ") + esc(x.what());
  } catch (...) {
    end = "exception\t0\t-4\tunknown";
  }
  // what the reader has stored is dumped in every case (after an exception:
  // the part read so far); the driver only compares dumps that ended "ok".
  try { dump(*r); } catch (...) { printf("DUMP-FAILED\n"); }
  printf("END\t%s\n", end.c_str());
  fflush(stdout);
  delete r;
}

int main(int argc, char** argv) {
  std::vector<std::pair<std::string, std::string>> jobs;
  for (int i = 1; i < argc; i++) {
    std::string a = argv[i];
    if (a == "--shard" || a == "--tier") { i++; continue; }
    if (a == "--case") {
      if (i + 1 < argc) { std::string c = argv[++i]; size_t p = c.find(':'); if (p != std::string::npos) jobs.push_back({c.substr(0, p), c.substr(p + 1)}); }
      continue;
    }
    if ((a == "xml" || a == "html" || a == "xml2" || a == "html2") && i + 1 < argc) { jobs.push_back({a, argv[++i]}); continue; }
    fprintf(stderr, "usage: xmlrt (xml|html) file ...\n");
    return 2;
  }
  for (auto& j : jobs) one(j.first, j.second);
  printf("D\t1\n");
  return 0;
}
