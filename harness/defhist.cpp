// defhist: object histories of GNU_gama::local::GamaLocalDeformation (check C12, deformation clause).
// usage: defhist first.xml second1.xml [second2.xml ...]
// Pairs p_k = (first, second_k).  Every sequence of at most three pairs is given to ONE object
// (check_arguments + write_txt per step, as the command line program does once); after every step the text
// must be byte-identical to the text a fresh object writes for the pair of that step.  Output: one line
// "DIFF <history of pair indexes> :: <first differing line of the object> :: <line of the fresh object>" per
// disagreement, then "DONE sequences=<n> steps=<n>".
#include <gnu_gama/local/deformation.h>
#include <cstdio>
#include <iostream>
#include <sstream>
#include <string>
#include <vector>
using GNU_gama::local::GamaLocalDeformation;

static std::string step(GamaLocalDeformation& d, const std::string& a, const std::string& b) {
  std::vector<std::string> s = {"defhist", a, b}; std::vector<char*> av; for (auto& x : s) av.push_back(&x[0]);
  std::ostringstream err, out;
  int st = 0;
  try { st = d.check_arguments(err, (int)av.size(), av.data()); } catch (...) { return "exception in check_arguments\n"; }
  if (st != 0) return "status " + std::to_string(st) + "\n";
  std::streambuf* old = std::cout.rdbuf(out.rdbuf());
  try { d.write_txt(); } catch (...) { std::cout.rdbuf(old); return "exception in write_txt\n"; }
  std::cout.rdbuf(old);
  return out.str();
}
static std::string firstdiff(const std::string& a, const std::string& b) {
  std::istringstream x(a), y(b); std::string l, m;
  for (;;) { bool p = (bool)std::getline(x, l), q = (bool)std::getline(y, m); if (!p && !q) return "(none)"; if (!p) l = "<end>"; if (!q) m = "<end>"; if (l != m) return l + " :: " + m; }
}
int main(int argc, char** argv) {
  if (argc < 3) return 2;
  std::vector<std::string> sec(argv + 2, argv + argc); const std::string first = argv[1];
  const int K = (int)sec.size();
  std::vector<std::string> ref(K);
  for (int k = 0; k < K; k++) { GamaLocalDeformation d; step(d, first, sec[k]); }          // stream flags settle
  for (int k = 0; k < K; k++) { GamaLocalDeformation d; ref[k] = step(d, first, sec[k]); }
  long seqs = 0, steps = 0;
  for (int i = 0; i < K; i++) for (int j = 0; j < K; j++) for (int k = -1; k < K; k++) {
    GamaLocalDeformation d; seqs++;
    std::vector<int> h = {i, j}; if (k >= 0) h.push_back(k);
    std::string hs;
    for (size_t t = 0; t < h.size(); t++) {
      hs += (t ? "," : "") + std::to_string(h[t]);
      std::string r = step(d, first, sec[h[t]]); steps++;
      if (r != ref[h[t]]) { printf("DIFF %s :: %s\n", hs.c_str(), firstdiff(r, ref[h[t]]).c_str()); break; }
    }
  }
  printf("DONE sequences=%ld steps=%ld\n", seqs, steps);
  return 0;
}
