// libmc15_svd.h -- SVD, pinv, GSO, conditioning families (C15)
#ifndef VERIF_LIBMC15_SVD_H
#define VERIF_LIBMC15_SVD_H
#include "libmc15_base.h"
typedef GNU_gama::SVD<double, int, Exc> SVDc;
typedef GNU_gama::GSO<double, int, Exc> GSOc;

// Moore-Penrose inverse by exact null spaces in long double: reference for pinv / minimum norm solutions
static LMat ref_pinv(const RM& A) {
  // A+ = lim; computed as  V (B'B)^-1 B' with rank factorisation A = C B:  A+ = B'(BB')^-1 (C'C)^-1 C'
  IMat Ai = toI(A); IMat R = Ai; std::vector<int> piv = rref(R);
  int r = (int)piv.size(); int m = A.r, n = A.c;
  if (r == 0) return LMat(n, m);
  LMat Cm(m, r), Bm(r, n);
  for (int k = 0; k < r; k++) for (int i = 0; i < m; i++) Cm(i, k) = A(i, piv[k]);
  for (int k = 0; k < r; k++) { long double p = (long double)R(k, piv[k]); for (int j = 0; j < n; j++) Bm(k, j) = (long double)R(k, j) / p; }
  LMat CtC = mul(tr(Cm), Cm), BBt = mul(Bm, tr(Bm)), I1, I2; inverse(CtC, I1); inverse(BBt, I2);
  return mul(mul(tr(Bm), I2), mul(I1, tr(Cm)));
}

// GSO on the augmented matrix ( A -b ; I 0 ) agrees with the minimum norm least squares solution
static void gso_part(const RM& A, int r, int c, const LMat& P, int nul, const std::string& cls) {
      std::vector<double> b = basisV(r).back();
      Mat G(r + c, c + 1); G.set_zero();
      for (int i = 0; i < r; i++) { for (int j = 0; j < c; j++) G(i + 1, j + 1) = A(i, j); G(i + 1, c + 1) = -b[i]; }
      for (int i = 0; i < c; i++) G(r + i + 1, i + 1) = 1;
      C("transitions");
      GSOc gso(G, r, c); gso.min_x(); gso.gso1();
      int gd = gso.defect(); int gl = 0; for (int i = 1; i <= c; i++) if (gso.lindep(i)) gl++;
      gso.gso2();
      if (gd != nul || gl != nul) bad("gso", "GSO::defect", cls, "defect " + std::to_string(gd) + " flags " + std::to_string(gl) + " exact " + std::to_string(nul) + " for " + rstr(A));
      else {
        long double ee = 0, er = 0; std::vector<long double> xs(c, 0);
        for (int i = 0; i < c; i++) { for (int j = 0; j < r; j++) xs[i] += P(i, j) * b[j]; ee = std::max(ee, fabsl(xs[i] - G(r + i + 1, c + 1))); }
        for (int i = 0; i < r; i++) { long double s = -b[i]; for (int j = 0; j < c; j++) s += A(i, j) * xs[j]; er = std::max(er, fabsl(s - G(i + 1, c + 1))); }
        if (!(ee <= 1e-9) || !(er <= 1e-9)) bad("gso", "GSO", "x!=pinv*b|" + cls, "max dx " + str((double)ee) + " max dr " + str((double)er) + " for " + rstr(A));
      }
}

static void svd_case(int r, int c, long long k) {
  RM A = dec(r, c, k); setcls(r, c);
  C("states"); C("evaluations");
  IMat Ai = toI(A); int rk = r && c ? rank(Ai) : 0; int nul = c - rk;
  std::string cls = (nul ? "rank-deficient" : "full-rank") + std::string(r < c ? "|m<n" : "|m>=n");
  Mat M = toMat(A); LMat AL = toL(A);
  C("transitions");
  try {
    SVDc svd(M); svd.decompose();
    const Mat& U = svd.SVD_U(); const Vec& W = svd.SVD_W(); const Mat& Vm = svd.SVD_V();
    O("svd:" + cls);
    if (U.rows() != r || U.cols() != c || W.dim() != c || Vm.rows() != c || Vm.cols() != c) { bad("svd", "SVD", "shape", "factor shapes wrong"); return; }
    LMat UL = fromM(U), VL = fromM(Vm), WL(c, c);
    bool neg = false; for (int i = 0; i < c; i++) { WL(i, i) = W(i + 1); if (!(W(i + 1) >= 0)) neg = true; }
    if (neg) bad("svd", "SVD", "W<0|" + cls, "negative or NaN singular value");
    long double e = maxdiffL(mul(mul(UL, WL), tr(VL)), AL);
    if (!(e <= 1e-12)) bad("svd", "SVD", "UWV'!=A|" + cls, "max diff " + str((double)e) + " for " + rstr(A));
    e = maxdiffL(mul(tr(VL), VL), eyeL(c));
    if (!(e <= 1e-12)) bad("svd", "SVD", "V'V!=I|" + cls, "max diff " + str((double)e) + " for " + rstr(A));
    // columns of U that belong to non-zero singular values are orthonormal; all of U when m >= n and full rank
    {
      LMat UtU = mul(tr(UL), UL); long double eo = 0;
      for (int i = 0; i < c; i++) for (int j = 0; j < c; j++) if (W(i + 1) > 1e-9 && W(j + 1) > 1e-9) eo = std::max(eo, fabsl(UtU(i, j) - (i == j ? 1 : 0)));
      if (!(eo <= 1e-12)) bad("svd", "SVD", "U'U!=I|" + cls, "max diff " + str((double)eo) + " for " + rstr(A));
      if (r >= c) { long double ea = maxdiffL(UtU, eyeL(c)); O(ea <= 1e-12 ? "svd:U-fully-orthonormal" : "svd:U-null-columns-not-orthonormal"); }
    }
    int nz = 0; for (int i = 1; i <= c; i++) if (svd.lindep(i)) nz++;
    if (svd.nullity() != nul || nz != nul) bad("svd", "SVD::nullity", cls, "nullity " + std::to_string(svd.nullity()) + " lindep flags " + std::to_string(nz) + " exact " + std::to_string(nul));
    // minimum norm least squares solution and cofactors
    LMat P = ref_pinv(A);
    for (auto& b : basisV(r)) {
      C("transitions");
      Vec rhs = toVec(b), x; svd.solve(rhs, x);
      long double ee = 0; for (int i = 0; i < c; i++) { long double s = 0; for (int j = 0; j < r; j++) s += P(i, j) * b[j]; ee = std::max(ee, fabsl(s - x(i + 1))); }
      if (!(ee <= 1e-11)) bad("svd", "SVD::solve", "x!=pinv*b|" + cls, "max diff " + str((double)ee) + " for " + rstr(A));
    }
    { LMat Q = mul(P, tr(P)); long double ee = 0; C("transitions"); for (int i = 0; i < c; i++) for (int j = 0; j < c; j++) ee = std::max(ee, fabsl(Q(i, j) - svd.q_xx(i + 1, j + 1))); if (!(ee <= 1e-10)) bad("svd", "SVD::q_xx", cls, "max diff to (A'A)^+ " + str((double)ee) + " for " + rstr(A)); }
    // pinv: the four Moore-Penrose conditions
    C("transitions");
    Mat Pi = GNU_gama::pinv(M);
    if (Pi.rows() != c || Pi.cols() != r) { bad("pinv", "pinv", "shape", "wrong shape"); }
    else {
      LMat X = fromM(Pi); LMat AX = mul(AL, X), XA = mul(X, AL);
      long double e1 = maxdiffL(mul(AX, AL), AL), e2 = maxdiffL(mul(XA, X), X), e3 = maxdiffL(tr(AX), AX), e4 = maxdiffL(tr(XA), XA), e5 = maxdiffL(X, P);
      if (!(e1 <= 1e-11)) bad("pinv", "pinv", "AXA!=A|" + cls, str((double)e1) + " for " + rstr(A));
      if (!(e2 <= 1e-11)) bad("pinv", "pinv", "XAX!=X|" + cls, str((double)e2) + " for " + rstr(A));
      if (!(e3 <= 1e-11)) bad("pinv", "pinv", "(AX)'!=AX|" + cls, str((double)e3) + " for " + rstr(A));
      if (!(e4 <= 1e-11)) bad("pinv", "pinv", "(XA)'!=XA|" + cls, str((double)e4) + " for " + rstr(A));
      if (!(e5 <= 1e-11)) bad("pinv", "pinv", "!=reference|" + cls, str((double)e5) + " for " + rstr(A));
    }
    if (r >= c) gso_part(A, r, c, P, nul, cls);   // more unknowns than rows: unit alg.gsomn (GSO::gso2 writes out of bounds there)
  } catch (const Exc& e) { bad("svd", "SVD/pinv/GSO", "unexpected-exception|" + cls, std::string(e.what()) + " for " + rstr(A)); }
}

static const int GSOMN[3][2] = {{1, 2}, {1, 3}, {2, 3}};
static void gsomn_decode(long long idx, int& r, int& c, long long& k) { r = GSOMN[idx / 8][0]; c = GSOMN[idx / 8][1]; k = ((idx % 8) * 2654435761LL + 7) % ipow(4, r * c); }
static std::string gsomn_fmt(long long idx) { int r, c; long long k; gsomn_decode(idx, r, c, k); return "GSO " + rstr(dec(r, c, k)); }
static void gsomn_case(long long idx) {
  int r, c; long long k; gsomn_decode(idx, r, c, k); RM A = dec(r, c, k); setcls(r, c);
  C("states"); C("evaluations");
  int nul = c - rank(toI(A));
  try { gso_part(A, r, c, ref_pinv(A), nul, "rank-deficient|m<n"); } catch (const Exc& e) { bad("gso", "GSO", "unexpected-exception|m<n", e.what()); }
}

// zero-dimensional operands of SVD / pinv / GSO (own unit: each case may abort)
static void svd0_case(long long idx) {
  int r = (int)(idx / 8) % 4, c = (int)(idx / 2) % 4, what = (int)(idx % 2);
  if (r > 0 && c > 0) return;
  C("states"); C("evaluations"); C("transitions");
  Mat M(r, c); M.set_all(1);
  try {
    if (what == 0) { SVDc svd(M); svd.decompose(); O("svd0:returned"); if (svd.SVD_W().dim() != c) bad("svd", "SVD", "shape|dim0", "W dim"); }
    else { Mat P = GNU_gama::pinv(M); O("pinv0:returned"); if (P.rows() != c || P.cols() != r) bad("pinv", "pinv", "shape|dim0", "wrong shape"); }
  } catch (const Exc& e) { O("svd0:exception"); }
}
static std::string svd0_fmt(long long idx) { return std::string(idx % 2 ? "pinv " : "SVD ") + std::to_string((idx / 8) % 4) + "x" + std::to_string((idx / 2) % 4); }

// ------------------------------------------------------------------ deterministic conditioning families
static void check_inverse_pair(const char* comp, const std::string& cls, const LMat& B, const LMat& X, long double kappa) {
  long double e = maxdiffL(mul(X, B), eyeL(B.r));
  long double tol = 1e-13L * kappa * B.r * 10;
  if (!(e <= tol)) bad("conditioning", comp, cls, "max|XA-I| " + str((double)e) + " allowed " + str((double)tol) + " kappa " + str((double)kappa));
}
static long double maxnorm(const LMat& A) { long double m = 0; for (int i = 0; i < A.r; i++) { long double s = 0; for (int j = 0; j < A.c; j++) s += fabsl(A(i, j)); m = std::max(m, s); } return m; }
static const int NHILB = 8;
static const int CONDBASE[4][9] = {{2, -1, 0, -1, 2, -1, 0, -1, 2}, {1, 2, 0, -1, 1, 2, 2, 0, 1}, {2, 1, 1, 1, 2, 1, 1, 1, 2}, {0, 1, 2, 1, 0, -1, 2, 2, 1}};
static long long cond_total() { return NHILB + 4 * 21 * 2; }
static std::string cond_fmt(long long idx) {
  if (idx < NHILB) return "Hilbert(" + std::to_string(idx + 1) + ")";
  idx -= NHILB; int base = (int)(idx / 42), s = (int)(idx % 42) / 2 - 10, graded = (int)(idx % 2);
  return "base " + std::to_string(base) + (graded ? " rows scaled 2^(" : " scaled 2^(") + std::to_string(s) + (graded ? "*i)" : ")");
}
static void cond_case(long long idx) {
  g_cls = "";
  C("states"); C("evaluations");
  if (idx < NHILB) {
    int n = (int)idx + 1;
    Mat H = GNU_gama::Hilbert<double, int, Exc>(n), HI = GNU_gama::InvHilbert<double, int, Exc>(n);
    LMat HL(n, n); for (int i = 0; i < n; i++) for (int j = 0; j < n; j++) HL(i, j) = 1.0L / (i + j + 1);
    LMat XL = fromM(HI);
    long double kappa = maxnorm(HL) * maxnorm(XL);
    O("hilbert:n=" + std::to_string(n));
    C("transitions", 4);
    { long double e = maxdiffL(mul(XL, HL), eyeL(n)); if (!(e <= 1e-15L * kappa * 10 + 1e-12L)) bad("conditioning", "InvHilbert", "n=" + std::to_string(n), "exact inverse formula off by " + str((double)e)); }
    try { Mat X = GNU_gama::inv(H); check_inverse_pair("inv(Mat)", "Hilbert", fromM(H), fromM(X), kappa); }
    catch (const Exc& e) { bad("conditioning", "inv(Mat)", "Hilbert-refused", std::string(e.what()) + " n=" + std::to_string(n)); }
    try {
      SymMat S = GNU_gama::Lower(H); SymMat F = S; F.cholDec();
      if (F.nullity()) bad("conditioning", "SymMat::cholDec", "Hilbert-refused", "nullity " + std::to_string(F.nullity()) + " n=" + std::to_string(n));
      else {
        LMat X(n, n);
        for (int k = 0; k < n; k++) { Vec e(n); e.set_zero(); e(k + 1) = 1; F.solve(e); for (int i = 0; i < n; i++) X(i, k) = e(i + 1); }
        check_inverse_pair("SymMat::solve", "Hilbert", fromM(H), X, kappa);
      }
      SymMat I2 = GNU_gama::inv(S); check_inverse_pair("inv(SymMat)", "Hilbert", fromM(H), fromM(I2), kappa);
    } catch (const Exc& e) { bad("conditioning", "SymMat", "Hilbert-exception", std::string(e.what()) + " n=" + std::to_string(n)); }
    try {
      SVDc svd(H); svd.decompose(); LMat U = fromM(svd.SVD_U()), Vv = fromM(svd.SVD_V()), W(n, n); for (int i = 0; i < n; i++) W(i, i) = svd.SVD_W()(i + 1);
      long double e = maxdiffL(mul(mul(U, W), tr(Vv)), fromM(H));
      if (!(e <= 1e-14L * n)) bad("conditioning", "SVD", "Hilbert|UWV'!=A", str((double)e));
      e = std::max(maxdiffL(mul(tr(U), U), eyeL(n)), maxdiffL(mul(tr(Vv), Vv), eyeL(n)));
      if (!(e <= 1e-13L * n)) bad("conditioning", "SVD", "Hilbert|orthonormal", str((double)e));
      if (n <= 6) { Mat P = GNU_gama::pinv(H); check_inverse_pair("pinv", "Hilbert", fromM(H), fromM(P), kappa); }
    } catch (const Exc& e) { bad("conditioning", "SVD", "Hilbert-exception", std::string(e.what()) + " n=" + std::to_string(n)); }
    return;
  }
  idx -= NHILB; int base = (int)(idx / 42), s = (int)(idx % 42) / 2 - 10, graded = (int)(idx % 2);
  RM A(3, 3); for (int t = 0; t < 9; t++) A.a[t] = CONDBASE[base][t];
  RM B(3, 3); for (int i = 0; i < 3; i++) for (int j = 0; j < 3; j++) B(i, j) = ldexp(A(i, j), graded ? (s * i) / 2 : s);
  LMat BL = toL(B), XL; inverse(toL(A), XL);
  LMat Xref(3, 3); for (int i = 0; i < 3; i++) for (int j = 0; j < 3; j++) Xref(i, j) = ldexpl(XL(i, j), -(graded ? (s * j) / 2 : s));
  long double kappa = maxnorm(BL) * maxnorm(Xref);
  O(std::string("scaled:") + (graded ? "graded" : "uniform"));
  C("transitions", 3);
  try { Mat X = GNU_gama::inv(toMat(B)); check_inverse_pair("inv(Mat)", graded ? "scaled-graded" : "scaled-uniform", BL, fromM(X), kappa); }
  catch (const Exc& e) { bad("conditioning", "inv(Mat)", "scaled-refused", std::string(e.what()) + " " + cond_fmt(idx + NHILB)); }
  try {
    Mat Bm = toMat(B); SVDc svd(Bm); svd.decompose(); LMat U = fromM(svd.SVD_U()), Vv = fromM(svd.SVD_V()), W(3, 3); for (int i = 0; i < 3; i++) W(i, i) = svd.SVD_W()(i + 1);
    long double e = maxdiffL(mul(mul(U, W), tr(Vv)), BL);
    if (!(e <= 1e-14L * maxnorm(BL))) bad("conditioning", "SVD", "scaled|UWV'!=A", str((double)e));
    if (!graded) { Mat P = GNU_gama::pinv(Bm); check_inverse_pair("pinv", "scaled-uniform", BL, fromM(P), kappa); }
  } catch (const Exc& e) { bad("conditioning", "SVD", "scaled-exception", e.what()); }
}
#endif
