// Common helpers of the C++ harnesses (see lib/vlib.py for the line protocol).
#ifndef VERIF_VH_H
#define VERIF_VH_H
#include <cstdio>
#include <cstdlib>
#include <cstring>
#include <cstdint>
#include <cmath>
#include <string>
#include <vector>
#include <map>
#include <set>
#include <sstream>
#include <chrono>
#include <algorithm>
#include <functional>

namespace vh {

struct Ctx {
  int shard_i = 0, shard_n = 1;
  double deadline_s = 1e18;
  std::chrono::steady_clock::time_point t0 = std::chrono::steady_clock::now();
  std::map<std::string, long long> counters;
  std::map<std::string, long long> outcomes;
  std::map<std::string, int> sigcount;
  int samples = 0;
  bool complete = true;
  std::string tier = "quick";
  std::string replay;     // --case <string>
  std::string mode;
  std::map<std::string, std::string> opt;
  bool verbose = false;
};
inline Ctx& ctx() { static Ctx c; return c; }

inline void parse_args(int argc, char** argv) {
  Ctx& c = ctx();
  if (const char* d = getenv("VERIF_DEADLINE_S")) c.deadline_s = atof(d);
  for (int i = 1; i < argc; i++) {
    std::string a = argv[i];
    auto next = [&]() -> std::string { return (i + 1 < argc) ? argv[++i] : ""; };
    if (a == "--shard") { std::string s = next(); sscanf(s.c_str(), "%d/%d", &c.shard_i, &c.shard_n); }
    else if (a == "--tier") c.tier = next();
    else if (a == "--case") { c.replay = next(); c.verbose = true; }
    else if (a == "--mode") c.mode = next();
    else if (a == "-v") c.verbose = true;
    else if (a.rfind("--", 0) == 0) c.opt[a.substr(2)] = next();
  }
}
inline bool thorough() { return ctx().tier == "thorough"; }
inline bool mine(uint64_t k) { return (int)(k % (uint64_t)ctx().shard_n) == ctx().shard_i; }
inline double elapsed() {
  return std::chrono::duration<double>(std::chrono::steady_clock::now() - ctx().t0).count();
}
inline bool expired() {
  if (elapsed() > ctx().deadline_s) { ctx().complete = false; return true; }
  return false;
}
inline std::string clean(std::string s) {
  for (char& ch : s) if (ch == '\t' || ch == '\n' || ch == '\r') ch = ' ';
  return s;
}
inline void C(const std::string& k, long long n = 1) { ctx().counters[k] += n; }
inline void O(const std::string& k, long long n = 1) { ctx().outcomes[k] += n; }
inline void X(const std::string& s) {
  if (ctx().samples < 3) { ctx().samples++; printf("X\t%s\n", clean(s).c_str()); }
}
// L: remember the case being executed so that a crash can be attributed
inline void L(const std::string& s) { printf("L\t%s\n", clean(s).c_str()); fflush(stdout); }
inline void V(const std::string& sig, const std::string& cs, const std::string& detail) {
  int& n = ctx().sigcount[sig];
  n++;
  C("violations_raw");
  if (n <= 3) { printf("V\t%s\t%s\t%s\n", clean(sig).c_str(), clean(cs).c_str(), clean(detail).c_str()); fflush(stdout); }
}
inline int finish() {
  for (auto& kv : ctx().counters) printf("C\t%s\t%lld\n", kv.first.c_str(), kv.second);
  for (auto& kv : ctx().outcomes) printf("O\t%s\t%lld\n", clean(kv.first).c_str(), kv.second);
  printf("D\t%d\n", ctx().complete ? 1 : 0);
  fflush(stdout);
  return 0;
}

template <class T> std::string str(const T& t) { std::ostringstream o; o.precision(17); o << t; return o.str(); }
inline std::string join(const std::vector<int>& v, const char* sep = ",") {
  std::string s; for (size_t i = 0; i < v.size(); i++) { if (i) s += sep; s += std::to_string(v[i]); } return s;
}
inline std::vector<int> ints(const std::string& s, char sep = ',') {
  std::vector<int> v; std::string t; std::istringstream in(s);
  while (std::getline(in, t, sep)) if (!t.empty()) v.push_back(atoi(t.c_str()));
  return v;
}
inline std::vector<std::string> split(const std::string& s, char sep) {
  std::vector<std::string> v; std::string t; std::istringstream in(s);
  while (std::getline(in, t, sep)) v.push_back(t);
  return v;
}
inline uint64_t fnv(const void* p, size_t n, uint64_t h = 1469598103934665603ULL) {
  const unsigned char* c = (const unsigned char*)p;
  for (size_t i = 0; i < n; i++) { h ^= c[i]; h *= 1099511628211ULL; }
  return h;
}
inline uint64_t hround(double v, uint64_t h, double q = 1e-9) {
  if (std::isnan(v)) { long long k = 0x7ff8dead; return fnv(&k, sizeof k, h); }
  if (std::isinf(v)) { long long k = v > 0 ? 0x7ff0beef : 0x7ff0feed; return fnv(&k, sizeof k, h); }
  long long k = llround(v / q);
  return fnv(&k, sizeof k, h);
}

// ---------------------------------------------------------------- exact linear algebra
typedef long long I64;
inline I64 gcdll(I64 a, I64 b) { a = a < 0 ? -a : a; b = b < 0 ? -b : b; while (b) { I64 t = a % b; a = b; b = t; } return a; }

struct IMat {
  int r = 0, c = 0; std::vector<I64> a;
  IMat() {}
  IMat(int r_, int c_) : r(r_), c(c_), a((size_t)r_ * c_, 0) {}
  I64& operator()(int i, int j) { return a[(size_t)i * c + j]; }
  I64 operator()(int i, int j) const { return a[(size_t)i * c + j]; }
};

// Row reduce (fraction free with gcd normalisation); returns pivot columns.
inline std::vector<int> rref(IMat& M) {
  std::vector<int> piv; int row = 0;
  for (int col = 0; col < M.c && row < M.r; col++) {
    int p = -1;
    for (int i = row; i < M.r; i++) if (M(i, col) != 0) { p = i; break; }
    if (p < 0) continue;
    if (p != row) for (int j = 0; j < M.c; j++) std::swap(M(p, j), M(row, j));
    for (int i = 0; i < M.r; i++) if (i != row && M(i, col) != 0) {
      I64 a = M(row, col), b = M(i, col); I64 g = gcdll(a, b); a /= g; b /= g;
      I64 gg = 0;
      for (int j = 0; j < M.c; j++) { M(i, j) = M(i, j) * a - M(row, j) * b; gg = gcdll(gg, M(i, j)); }
      if (gg > 1) for (int j = 0; j < M.c; j++) M(i, j) /= gg;
    }
    piv.push_back(col); row++;
  }
  return piv;
}
inline int rank(IMat M) { return (int)rref(M).size(); }
// integer basis of the null space of M (columns space dimension c)
inline std::vector<std::vector<I64>> nullspace(IMat M) {
  std::vector<int> piv = rref(M);
  std::vector<char> isp(M.c, 0); for (int p : piv) isp[p] = 1;
  std::vector<std::vector<I64>> B;
  for (int f = 0; f < M.c; f++) if (!isp[f]) {
    // x_f = L (lcm of pivots), x_piv = -M(row,f)*L/M(row,piv)
    I64 L = 1;
    for (size_t k = 0; k < piv.size(); k++) { I64 d = M((int)k, piv[k]); d = d < 0 ? -d : d; L = L / gcdll(L, d) * d; }
    std::vector<I64> v(M.c, 0); v[f] = L;
    for (size_t k = 0; k < piv.size(); k++) v[piv[k]] = -M((int)k, f) * (L / M((int)k, piv[k]));
    I64 g = 0; for (I64 t : v) g = gcdll(g, t);
    if (g > 1) for (I64& t : v) t /= g;
    B.push_back(v);
  }
  return B;
}

// ---------------------------------------------------------------- long double dense helpers
typedef long double LD;
struct LMat {
  int r = 0, c = 0; std::vector<LD> a;
  LMat() {}
  LMat(int r_, int c_) : r(r_), c(c_), a((size_t)r_ * c_, 0.0L) {}
  LD& operator()(int i, int j) { return a[(size_t)i * c + j]; }
  LD operator()(int i, int j) const { return a[(size_t)i * c + j]; }
};
inline LMat mul(const LMat& A, const LMat& B) {
  LMat R(A.r, B.c);
  for (int i = 0; i < A.r; i++) for (int k = 0; k < A.c; k++) { LD a = A(i, k); if (a == 0) continue; for (int j = 0; j < B.c; j++) R(i, j) += a * B(k, j); }
  return R;
}
inline LMat tr(const LMat& A) { LMat R(A.c, A.r); for (int i = 0; i < A.r; i++) for (int j = 0; j < A.c; j++) R(j, i) = A(i, j); return R; }
// Gauss-Jordan inverse with partial pivoting; returns false if singular
inline bool inverse(LMat A, LMat& R) {
  int n = A.r; R = LMat(n, n); for (int i = 0; i < n; i++) R(i, i) = 1;
  for (int c = 0; c < n; c++) {
    int p = c; for (int i = c + 1; i < n; i++) if (fabsl(A(i, c)) > fabsl(A(p, c))) p = i;
    if (fabsl(A(p, c)) < 1e-14L) return false;
    if (p != c) for (int j = 0; j < n; j++) { std::swap(A(p, j), A(c, j)); std::swap(R(p, j), R(c, j)); }
    LD d = A(c, c);
    for (int j = 0; j < n; j++) { A(c, j) /= d; R(c, j) /= d; }
    for (int i = 0; i < n; i++) if (i != c) { LD f = A(i, c); if (f == 0) continue; for (int j = 0; j < n; j++) { A(i, j) -= f * A(c, j); R(i, j) -= f * R(c, j); } }
  }
  return true;
}
inline LD maxabs(const LMat& A) { LD m = 0; for (LD v : A.a) m = std::max(m, fabsl(v)); return m; }
// symmetric Jacobi eigenvalues
inline std::vector<LD> eigsym(LMat A) {
  int n = A.r;
  for (int sweep = 0; sweep < 60; sweep++) {
    LD off = 0; for (int i = 0; i < n; i++) for (int j = i + 1; j < n; j++) off += A(i, j) * A(i, j);
    if (off < 1e-34L) break;
    for (int p = 0; p < n; p++) for (int q = p + 1; q < n; q++) {
      if (fabsl(A(p, q)) < 1e-40L) continue;
      LD th = (A(q, q) - A(p, p)) / (2 * A(p, q));
      LD t = (th >= 0 ? 1 : -1) / (fabsl(th) + sqrtl(th * th + 1));
      LD c = 1 / sqrtl(t * t + 1), s = t * c;
      for (int k = 0; k < n; k++) { LD akp = A(k, p), akq = A(k, q); A(k, p) = c * akp - s * akq; A(k, q) = s * akp + c * akq; }
      for (int k = 0; k < n; k++) { LD apk = A(p, k), aqk = A(q, k); A(p, k) = c * apk - s * aqk; A(q, k) = s * apk + c * aqk; }
    }
  }
  std::vector<LD> e(n); for (int i = 0; i < n; i++) e[i] = A(i, i);
  std::sort(e.begin(), e.end());
  return e;
}

}  // namespace vh
#endif
