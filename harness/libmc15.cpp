// libmc15: C15 "dense matrix library obeys the algebra it implements"
// Bounded exhaustive exploration of lib/matvec on the real headers (asan build).
// Units (see libmc.h for the unit / fork / replay mechanics):
//   alg.unary.RxC   all matrices over {-1,0,1,2}: storage, trans, scalar ops, sums with itself, inv / Singular
//   alg.prod.RxC    all matrices x basis(+mixed) of every conforming shape: every product / sum operator variant
//   alg.matvec.RxC  all matrices x basis vectors: Mat*Vec, MatBase*Vec, TransMat*Vec, TransVec*Mat(,Base)
//   alg.tvmb        TransVec*MatBase on position coded matrices of all shapes (reads out of bounds when rows < cols)
//   alg.vec         all pairs of vectors over {-1,0,1,2} up to dim 3
//   alg.sym.D       all symmetric matrices (dim<=3: {-1,0,1,2}; dim 4: {-1,0,1}): SymMat, CovMat, BandMat for all band widths, Cholesky
//   alg.bandinv     BandMat::invBand: all strictly diagonally dominant band matrices over {-1,0,1} (dim<=5, all bands; larger dims while
//                   the band has <= 10 cells) + structured fillings up to dim 9 band 5, x result band b..b+3 and the default call
//   alg.svd.RxC     SVD, pinv, GSO on all matrices;   alg.svd0  zero dimensional operands;   alg.cond  Hilbert / scaled families
//   nonconf         every binary operator x all shapes in {0..3}^4
//   bfs.<Class>.<N>.<lvl>.<w>   copy/assign/move/reset histories, BFS to fixpoint
//
// This file is only the dispatcher: the harness is compiled in four parts (libmc15a: operator algebra, libmc15b:
// symmetric / SVD / conditioning, libmc15c: shape sweep, libmc15d: history BFS; all from libmc15_main.h) so that the
// parts build in parallel.  `libmc15 --shard i/n ...` runs shard i of the union: i mod 8 selects the part
// (0-3: a, 4-5: b, 6: c, 7: d), i div 8 is the shard inside the part (of n div 8).  `--case <unit>#...` goes to the
// part that owns the unit.
#include <cstdio>
#include <cstdlib>
#include <cstring>
#include <string>
#include <vector>
#include <unistd.h>
int main(int argc, char** argv) {
  std::string self = argv[0]; std::string part; int si = 0, sn = 1; std::string cs;
  std::vector<std::string> args;
  for (int i = 1; i < argc; i++) {
    std::string a = argv[i];
    if (a == "--shard" && i + 1 < argc) { sscanf(argv[++i], "%d/%d", &si, &sn); continue; }
    if (a == "--case" && i + 1 < argc) cs = argv[i + 1];
    if (a == "--part" && i + 1 < argc) { part = argv[++i]; continue; }
    args.push_back(a);
  }
  static const char PARTS[8] = {'a', 'a', 'a', 'a', 'b', 'b', 'c', 'd'};
  std::vector<std::string> run;      // parts to run one after the other (only when not sharded in multiples of 8)
  int psi = 0, psn = 1;
  if (!cs.empty()) {
    if (cs.compare(0, 4, "bfs.") == 0) part = "d"; else if (cs.compare(0, 7, "nonconf") == 0) part = "c";
    else if (cs.compare(0, 8, "alg.sym.") == 0 || cs.compare(0, 7, "alg.svd") == 0 || cs.compare(0, 9, "alg.gsomn") == 0 || cs.compare(0, 8, "alg.cond") == 0 || cs.compare(0, 11, "alg.bandinv") == 0) part = "b"; else part = "a";
    run.push_back(part);
  } else if (!part.empty()) { run.push_back(part); psi = si; psn = sn; }
  else if (sn % 8 == 0) {
    char p = PARTS[si % 8]; int cnt = 0, idx = 0; for (int k = 0; k < 8; k++) if (PARTS[k] == p) { if (k == si % 8) idx = cnt; cnt++; }
    run.push_back(std::string(1, p)); psn = (sn / 8) * cnt; psi = (si / 8) * cnt + idx;
  } else { run = {"d", "a", "b", "c"}; psi = si; psn = sn; }
  // all but the last part as child processes, the last by exec
  for (size_t k = 0; k < run.size(); k++) {
    std::string exe = self + run[k];
    std::vector<std::string> a = args; a.insert(a.begin(), exe);
    if (cs.empty()) { a.push_back("--shard"); a.push_back(std::to_string(psi) + "/" + std::to_string(psn)); }
    std::vector<char*> av; for (auto& s : a) av.push_back((char*)s.c_str()); av.push_back(nullptr);
    if (k + 1 < run.size()) {
      // the parts print their own D line; a missing D of an earlier part is visible to the driver as a non-zero exit
      std::string cmd; for (auto& s : a) { cmd += "'"; for (char c : s) { if (c == '\'') cmd += "'\\''"; else cmd += c; } cmd += "' "; }
      fflush(stdout); int rc = system(cmd.c_str()); if (rc != 0) return 97;
    } else { fflush(stdout); execv(exe.c_str(), av.data()); perror("execv"); return 96; }
  }
  return 0;
}
