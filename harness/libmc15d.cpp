// part d of the C15 harness (see libmc15.cpp and libmc15_main.h)
#define LIBMC15_PART 4
#include "libmc15_main.h"
