// libmc15_alg.h -- operator algebra over all small integer matrices (C15)
#ifndef VERIF_LIBMC15_ALG_H
#define VERIF_LIBMC15_ALG_H
#include "libmc15_base.h"

static int DMAX = 3;   // largest operand dimension (thorough: 4)
static std::string shp(int r, int c) { return std::to_string(r) + "x" + std::to_string(c); }

// ------------------------------------------------------------------ unary / scalar / inverse
static void unary_case(int r, int c, long long k) {
  RM A = dec(r, c, k); setcls(r, c);
  C("states"); C("evaluations");
  Mat M(r, c);
  for (int i = 0; i < r; i++) for (int j = 0; j < c; j++) M(i + 1, j + 1) = A(i, j);
  const Mat& CM = M;
  C("transitions");
  if (M.rows() != r || M.cols() != c || M.size() != r * c) bad("algebra", "Mat(r,c)", "shape", "rows/cols/size wrong");
  for (int i = 0; i < r; i++) for (int j = 0; j < c; j++) {
    if (M.begin()[i * c + j] != A(i, j)) bad("algebra", "Mat::operator()", "layout", "row-major storage differs at " + std::to_string(i) + "," + std::to_string(j));
    if (CM(i + 1, j + 1) != A(i, j)) bad("algebra", "Mat::operator()const", "readback", "const read differs");
  }
  RM At = rtr(A), Z(r, c);
  expect_m("Mat(Mat)", A, [&] { return Mat(M); });
  expect_m("trans(Mat)", At, [&] { return trans(M); });
  expect_m("Mat(TransMat)", At, [&] { return Mat(trans(M)); });
  expect_m("trans(TransMat)", A, [&] { TMat T = trans(M); return trans(T); });
  expect_m("Mat::transpose", At, [&] { Mat X = M; X.transpose(); return X; });
  Mat Mt = toMat(At);      // trans(Mt) is a TransMat that represents A
  static const double F[3] = {2, -1, 0.5};
  for (double f : F) {
    RM Af = rscale(A, f);
    expect_m("Mat*f", Af, [&] { return M * f; });
    expect_m("f*Mat", Af, [&] { return f * M; });
    expect_m("Mat*=f", Af, [&] { Mat X = M; X *= f; return X; });
    expect_m("Mat/=f", rscale(A, 1 / f), [&] { Mat X = M; X /= f; return X; });
    // TransMat::operator*(Float) / operator*(Float, TransMat) cannot be instantiated (transmat.h: unqualified call of the
    // dependent base member mul): a compile time defect, reported in the engine report, not testable at run time.
  }
  RM A2 = rscale(A, 2);
  expect_m("Mat+Mat", A2, [&] { return M + M; });
  expect_m("Mat-Mat", Z, [&] { return M - M; });
  expect_m("MatBase+MatBase", A2, [&] { return static_cast<const MatBase&>(M) + static_cast<const MatBase&>(M); });
  expect_m("MatBase-MatBase", Z, [&] { return static_cast<const MatBase&>(M) - static_cast<const MatBase&>(M); });
  expect_m("TransMat+TransMat", A2, [&] { TMat T = trans(Mt); return T + T; });
  expect_m("TransMat-TransMat", Z, [&] { TMat T = trans(Mt); return T - T; });
  expect_m("Mat+TransMat", A2, [&] { return M + trans(Mt); });
  expect_m("TransMat+Mat", A2, [&] { return trans(Mt) + M; });
  expect_m("Mat-TransMat", Z, [&] { return M - trans(Mt); });
  expect_m("TransMat-Mat", Z, [&] { return trans(Mt) - M; });
  expect_m("set_zero", Z, [&] { Mat X = M; X.set_zero(); return X; });
  { RM T3(r, c); for (double& x : T3.a) x = 3; expect_m("set_all", T3, [&] { Mat X = M; X.set_all(3); return X; }); }
  { RM I(r, c); for (int i = 0; i < std::min(r, c); i++) I(i, i) = 1; expect_m("set_identity", I, [&] { Mat X = M; X.set_identity(); return X; }); }
  if (r == c) {
    // SymMat conversions
    RM Lo(r, r), Up(r, r);
    for (int i = 0; i < r; i++) for (int j = 0; j < r; j++) { Lo(i, j) = i >= j ? A(i, j) : A(j, i); Up(i, j) = i <= j ? A(i, j) : A(j, i); }
    expect_m("Lower(Mat)", Lo, [&] { return GNU_gama::Lower(M); });
    expect_m("Upper(Mat)", Up, [&] { return GNU_gama::Upper(M); });
    // inverse
    IMat Ai = toI(A); I64 det = idet(Ai);
    C("transitions");
    try {
      Mat Inv = GNU_gama::inv(M);
      if (ctx().samples < 3 && r == 3 && k % 50021 == 17) X("inv(" + rstr(A) + ") exact det " + std::to_string(det) + (det ? " -> inverse compared with the long double reference" : " -> no exception"));
      if (det == 0 && r > 0) { O("inv:singular-accepted"); bad("inverse", "inv(Mat)", "singular-accepted", "exact determinant 0 but no Singular exception"); }
      else {
        O("inv:regular");
        LMat L = toL(A), R; inverse(L, R);
        double e1 = maxdiff(Inv, R);
        LMat P = mul(fromM(Inv), L); long double e2 = maxdiffL(P, eyeL(r));
        Mat IA = Inv * M; long double e3 = maxdiffL(fromM(IA), eyeL(r));
        if (e1 > 1e-12 || e2 > 1e-12 || e3 > 1e-12) bad("inverse", "inv(Mat)", "inv(A)A!=I", "max|inv-ref| " + str(e1) + " max|inv*A-I| " + str((double)e2));
      }
    } catch (const Exc& e) {
      if (ctx().samples < 3 && r == 3 && k % 50021 == 17) X("inv(" + rstr(A) + ") exact det " + std::to_string(det) + " -> exception " + e.what());
      if (e.error() == GE::Singular && det == 0) O("inv:Singular");
      else { O("inv:regular-refused"); bad("inverse", "inv(Mat)", det == 0 ? "wrong-exception" : "regular-refused", std::string(e.what()) + " error " + std::to_string(e.error()) + " det " + std::to_string(det)); }
    }
  } else {
    C("transitions");
    try { Mat X = M; X.invert(); bad("nonconf", "Mat::invert", "nonsquare-accepted", "no exception for " + shp(r, c)); }
    catch (const Exc& e) { O("invert-nonsquare:exception"); }
  }
}

// ------------------------------------------------------------------ products and sums against a basis
struct ProdCache { int r = -1, c = -1; std::vector<std::vector<RM>> right, left; std::vector<std::vector<Mat>> rightM, rightMt, leftM, leftMt; std::vector<RM> same; std::vector<Mat> sameM, sameMt; };
static ProdCache& pcache(int r, int c) {
  static ProdCache P;
  if (P.r == r && P.c == c) return P;
  P = ProdCache(); P.r = r; P.c = c;
  for (int k = 0; k <= DMAX; k++) {
    P.right.push_back(basisM(c, k)); P.left.push_back(basisM(k, r));
    std::vector<Mat> a, at, b, bt;
    for (auto& B : P.right.back()) { a.push_back(toMat(B)); at.push_back(toMat(rtr(B))); }
    for (auto& B : P.left.back()) { b.push_back(toMat(B)); bt.push_back(toMat(rtr(B))); }
    P.rightM.push_back(a); P.rightMt.push_back(at); P.leftM.push_back(b); P.leftMt.push_back(bt);
  }
  P.same = basisM(r, c);
  for (auto& B : P.same) { P.sameM.push_back(toMat(B)); P.sameMt.push_back(toMat(rtr(B))); }
  return P;
}
static void prod_case(int r, int c, long long k) {
  RM A = dec(r, c, k); setcls(r, c);
  C("states"); C("evaluations");
  ProdCache& P = pcache(r, c);
  Mat M = toMat(A), Mt = toMat(rtr(A));
  const MatBase& MB = M;
  for (int kk = 0; kk <= DMAX; kk++) {
    for (size_t b = 0; b < P.right[kk].size(); b++) {
      RM ref = rmul(A, P.right[kk][b]); const Mat& B = P.rightM[kk][b]; const Mat& Bt = P.rightMt[kk][b]; setcls2(r, c, c, kk);
      expect_m("Mat*Mat", ref, [&] { return M * B; });
      expect_m("MatBase*MatBase", ref, [&] { return MB * static_cast<const MatBase&>(B); });
      expect_m("TransMat*Mat", ref, [&] { return trans(Mt) * B; });
      expect_m("Mat*TransMat", ref, [&] { return M * trans(Bt); });
      if (c == kk) expect_m("TransMat*TransMat", ref, [&] { return trans(Mt) * trans(Bt); });   // non-square right operand: unit alg.tmtm
    }
    for (size_t b = 0; b < P.left[kk].size(); b++) {
      RM ref = rmul(P.left[kk][b], A); const Mat& B = P.leftM[kk][b]; const Mat& Bt = P.leftMt[kk][b]; setcls2(kk, r, r, c);
      expect_m("Mat*Mat", ref, [&] { return B * M; });
      expect_m("MatBase*MatBase", ref, [&] { return static_cast<const MatBase&>(B) * MB; });
      expect_m("TransMat*Mat", ref, [&] { return trans(Bt) * M; });
      expect_m("Mat*TransMat", ref, [&] { return B * trans(Mt); });
      if (r == c) expect_m("TransMat*TransMat", ref, [&] { return trans(Bt) * trans(Mt); });
    }
  }
  setcls(r, c);
  for (size_t b = 0; b < P.same.size(); b++) {
    RM s = radd(A, P.same[b]), d = radd(A, P.same[b], -1), d2 = radd(P.same[b], A, -1);
    const Mat& B = P.sameM[b]; const Mat& Bt = P.sameMt[b];
    expect_m("Mat+Mat", s, [&] { return M + B; });
    expect_m("Mat-Mat", d, [&] { return M - B; });
    expect_m("MatBase+MatBase", s, [&] { return MB + static_cast<const MatBase&>(B); });
    expect_m("MatBase-MatBase", d, [&] { return MB - static_cast<const MatBase&>(B); });
    expect_m("Mat+TransMat", s, [&] { return M + trans(Bt); });
    expect_m("Mat-TransMat", d, [&] { return M - trans(Bt); });
    expect_m("TransMat+Mat", s, [&] { return trans(Bt) + M; });
    expect_m("TransMat-Mat", d2, [&] { return trans(Bt) - M; });
    expect_m("TransMat+TransMat", s, [&] { return trans(Mt) + trans(Bt); });
    expect_m("TransMat-TransMat", d, [&] { return trans(Mt) - trans(Bt); });
  }
}

// ------------------------------------------------------------------ matrix * vector
// generic == false leaves out TransVec*MatBase (own unit, because it is known to read out of bounds)
static void matvec_case(int r, int c, long long k, bool with_generic_tv) {
  RM A = dec(r, c, k); setcls(r, c);
  C("states"); C("evaluations");
  Mat M = toMat(A), Mt = toMat(rtr(A));
  for (auto& v : basisV(c)) {
    std::vector<double> ref = rmulv(A, v); Vec x = toVec(v);
    expect_v("Mat*Vec", ref, [&] { return M * x; });
    expect_v("MatBase*Vec", ref, [&] { return static_cast<const MatBase&>(M) * x; });
    expect_v("TransMat*Vec", ref, [&] { return trans(Mt) * x; });
  }
  for (auto& w : basisV(r)) {
    std::vector<double> ref = vmulr(w, A); Vec x = toVec(w);
    expect_v("TransVec*Mat", ref, [&] { return trans(x) * M; });
    if (with_generic_tv) expect_v("TransVec*MatBase", ref, [&] { return trans(x) * static_cast<const MatBase&>(M); }, r == c ? "square" : "nonsquare");
  }
}
static void tvmb_case(int r, int c, long long k) {   // TransVec * MatBase (generic overload) on position coded matrices
  RM A(r, c); for (int t = 0; t < r * c; t++) A.a[t] = (k == 0) ? 1 + t : (t % 3) - 1;
  C("states"); C("evaluations"); setcls(r, c);
  Mat M = toMat(A); TMat T = trans(M);   // T is c x r
  RM At = rtr(A);
  for (auto& w : basisV(r)) { Vec x = toVec(w); expect_v("TransVec*MatBase", vmulr(w, A), [&] { return trans(x) * static_cast<const MatBase&>(M); }, r == c ? "square" : "nonsquare"); }
  for (auto& w : basisV(c)) { Vec x = toVec(w); expect_v("TransVec*MatBase", vmulr(w, At), [&] { return trans(x) * T; }, r == c ? "square" : "nonsquare"); }
}

// TransMat * TransMat with a non-square right operand (own unit: reads out of bounds); position coded operands, all shapes
static void tmtm_case(long long idx) {
  int r = idx % 5, c = (idx / 5) % 5, k = (idx / 25) % 5, fam = (int)(idx / 125);
  if (r > DMAX || c > DMAX || k > DMAX) return;
  RM A(r, c), B(c, k);
  for (int t = 0; t < r * c; t++) A.a[t] = fam ? (t % 3) - 1 : 1 + t;
  for (int t = 0; t < c * k; t++) B.a[t] = fam ? ((t + 1) % 3) - 1 : 2 * t - 3;
  C("states"); C("evaluations"); setcls2(r, c, c, k);
  Mat At = toMat(rtr(A)), Bt = toMat(rtr(B));
  expect_m("TransMat*TransMat", rmul(A, B), [&] { return trans(At) * trans(Bt); });
}
static std::string tmtm_fmt(long long idx) { return "TransMat*TransMat " + shp(idx % 5, (idx / 5) % 5) + " * " + shp((idx / 5) % 5, (idx / 25) % 5) + (idx / 125 ? " values -1,0,1" : " position coded"); }

// ------------------------------------------------------------------ vectors
static std::vector<double> decv(int d, long long k) { std::vector<double> v(d); for (int i = 0; i < d; i++) { v[i] = ALPHA4[k % 4]; k /= 4; } return v; }
static void vec_decode(long long idx, int& d, long long& k1, long long& k2) {
  for (d = 0; d <= 4; d++) { long long n = ipow(16, d); if (idx < n) { k1 = idx % ipow(4, d); k2 = idx / ipow(4, d); return; } idx -= n; }
}
static void vec_case(long long idx) {
  int d; long long k1, k2; vec_decode(idx, d, k1, k2);
  std::vector<double> v = decv(d, k1), w = decv(d, k2); g_cls = d ? "dim>0" : "dim0";
  C("states"); C("evaluations");
  Vec x = toVec(v), y = toVec(w);
  std::vector<double> s(d), df(d); double dot = 0, l1 = 0, li = 0, ss = 0;
  for (int i = 0; i < d; i++) { s[i] = v[i] + w[i]; df[i] = v[i] - w[i]; dot += v[i] * w[i]; l1 += fabs(v[i]); li = std::max(li, fabs(v[i])); ss += v[i] * v[i]; }
  expect_v("Vec+Vec", s, [&] { return x + y; });
  expect_v("Vec-Vec", df, [&] { return x - y; });
  expect_v("Vec+=Vec", s, [&] { Vec t = x; t += y; return t; });
  expect_v("Vec-=Vec", df, [&] { Vec t = x; t -= y; return t; });
  expect_v("TransVec+TransVec", s, [&] { return trans(x) + trans(y); });
  expect_v("TransVec-TransVec", df, [&] { return trans(x) - trans(y); });
  expect_v("trans(trans(Vec))", v, [&] { TVec t = trans(x); return trans(t); });
  for (double f : {2.0, -1.0, 0.5}) {
    std::vector<double> vf(d); for (int i = 0; i < d; i++) vf[i] = v[i] * f;
    expect_v("Vec*f", vf, [&] { return x * f; });
    expect_v("f*Vec", vf, [&] { return f * x; });
    expect_v("Vec*=f", vf, [&] { Vec t = x; t *= f; return t; });
    expect_v("f*TransVec", vf, [&] { return f * trans(x); });
  }
  C("transitions", 5);
  try {
    if (x.dot(y) != dot) bad("algebra", "Vec::dot", "", "dot " + str(x.dot(y)) + " expected " + str(dot));
    if (trans(x) * y != dot) bad("algebra", "TransVec*Vec", "", "value differs from the dot product");
    if (x.norm_L1() != l1) bad("algebra", "Vec::norm_L1", "", "differs");
    if (x.norm_Linf() != li) bad("algebra", "Vec::norm_Linf", "", "differs");
    if (fabs(x.norm_L2() - sqrt(ss)) > 1e-15 * (1 + sqrt(ss))) bad("algebra", "Vec::norm_L2", "", "differs");
  } catch (const Exc& e) { bad("algebra", "Vec::dot/norm", "unexpected-exception", e.what()); }
  { std::vector<double> so = v; std::sort(so.begin(), so.end()); expect_v("sort(Vec)", so, [&] { Vec t = x; GNU_gama::sort(t); return t; }); }
}
#endif
