// libmc.h -- common part of the libmc engine (harness/libmc15.cpp, libmc16.cpp)
//
// Every piece of work is a *unit*: a named, finite, indexed family of cases
// (name, total, f(idx), fmt(idx)).  A unit is executed in a forked child whose
// stdout/stderr are captured by the parent, so that a sanitizer abort inside
// the library under test
//   * becomes a violation `<PID>|memory-safety|<kind>|<function>` whose replay
//     case is `<unit>#<idx>`, and
//   * does not end the enumeration: the parent restarts the unit at idx+1.
// Recoverable UBSan reports (the harness is built with
// -fsanitize-recover=nonnull-attribute) are collected from the child's stderr
// and reported as `<PID>|ub|<kind>|<function>`.
// `--case "<unit>#<idx>[#extra]"` re-runs exactly one case in-process, verbose.
#ifndef VERIF_LIBMC_H
#define VERIF_LIBMC_H
#include "vh.h"
#include <unistd.h>
#include <signal.h>
#include <poll.h>
#include <sys/wait.h>

#if defined(__has_feature)
#if __has_feature(address_sanitizer)
#define LIBMC_ASAN 1
#endif
#endif
#ifdef LIBMC_ASAN
extern "C" void __sanitizer_set_death_callback(void (*)(void));
#endif

namespace lm {
using namespace vh;

struct G {
  std::string pid = "C15";
  long long cur = -1;
  std::function<std::string(long long)> fmt;
  std::string unit;
  bool child = false;
  uint64_t unit_no = 0;
  std::string want_unit; long long want_idx = -1; std::string want_extra; bool found = false;
  std::set<std::string> only;      // --units a,b,c  (prefix match)
};
inline G& g() { static G x; return x; }

// counters are zeroed, never erased: CT() keeps a reference into the map
inline void zero_counters() { for (auto& kv : ctx().counters) kv.second = 0; ctx().outcomes.clear(); }
inline void dump_counters() {
  for (auto& kv : ctx().counters) if (kv.second) printf("C\t%s\t%lld\n", kv.first.c_str(), kv.second);
  for (auto& kv : ctx().outcomes) printf("O\t%s\t%lld\n", clean(kv.first).c_str(), kv.second);
  zero_counters();
}
inline void CT(long long n = 1) { static long long& r = ctx().counters["transitions"]; r += n; }
inline void on_death() {
  if (!g().child) return;
  g().child = false;
  std::string cs = g().fmt ? g().fmt(g().cur) : std::string();
  printf("Z\t%lld\t%s\n", g().cur, clean(cs).c_str());
  dump_counters();
  fflush(stdout);
}
inline void on_abort(int) { on_death(); _exit(134); }

inline std::string nospace(std::string s) { for (char& c : s) if (c == ' ' || c == '\t') c = '_'; return s; }

// "GNU_gama::Vec<double, int, X> GNU_gama::operator*<double, int, X>(GNU_gama::Mat<...> const&, ...)"  ->  "Vec operator*(Mat const&, ...)"
inline std::string simplify_func(const std::string& f) {
  std::string o; int depth = 0;
  for (size_t i = 0; i < f.size(); i++) {
    char c = f[i];
    if (c == '<') {
      // keep operator<, operator<<, operator<=
      if (o.size() >= 8 && o.compare(o.size() - 8, 8, "operator") == 0) { o += c; if (i + 1 < f.size() && (f[i + 1] == '<' || f[i + 1] == '=')) { o += f[++i]; } continue; }
      depth++; continue;
    }
    if (c == '>' && depth > 0) { depth--; continue; }
    if (depth == 0) o += c;
  }
  std::string r; const std::string ns = "GNU_gama::";
  for (size_t i = 0; i < o.size();) { if (o.compare(i, ns.size(), ns) == 0) i += ns.size(); else r += o[i++]; }
  return r;
}

struct SanRep { std::string kind, func, where; };
// parse the sanitizer report starting at position pos of err
inline SanRep parse_report(const std::string& err, size_t pos, bool ub) {
  SanRep r;
  if (ub) {
    size_t e = err.find('\n', pos); std::string line = err.substr(pos, e == std::string::npos ? std::string::npos : e - pos);
    size_t k = line.find("runtime error: "); std::string t = k == std::string::npos ? line : line.substr(k + 15);
    std::string kk; int words = 0;
    for (char c : t) { if (c == ' ') { if (++words >= 5) break; kk += '-'; } else if (!isdigit((unsigned char)c) && c != ',') kk += c; }
    r.kind = kk;
    // location "<path>/lib/<file>:line:col: runtime error" is compiled in: usable without a symbolizer
    size_t lb = line.find("/lib/"), ce = line.find(':');
    if (lb != std::string::npos && ce != std::string::npos && ce > lb) { r.where = line.substr(lb + 5, ce - lb - 5); r.func = r.where; }
  } else {
    size_t k = err.find("Sanitizer: ", pos);
    if (k != std::string::npos) {
      k += 11; size_t e = k; while (e < err.size() && err[e] != ' ' && err[e] != '\n') e++; r.kind = err.substr(k, e - k);
      if (r.kind == "attempting") { size_t e2 = e + 1; while (e2 < err.size() && err[e2] != ' ' && err[e2] != '\n') e2++; r.kind = err.substr(e + 1, e2 - e - 1); }   // "attempting double-free"
    }
  }
  if (ub) return r;
  // crash: outermost library frame (the API function the harness called)
  size_t p = pos; int frames = 0; std::string first;
  while (frames < 40) {
    size_t h = err.find("    #", p); if (h == std::string::npos) break;
    size_t e = err.find('\n', h); if (e == std::string::npos) e = err.size();
    std::string line = err.substr(h, e - h); p = e; frames++;
    if (frames > 1 && line.compare(0, 7, "    #0 ") == 0) break;    // next report
    size_t in = line.find(" in "); if (in == std::string::npos) continue;
    std::string rest = line.substr(in + 4);
    size_t sl = rest.rfind(" /"); std::string fn = sl == std::string::npos ? rest : rest.substr(0, sl);
    { size_t mp = fn.find(" (/"); if (mp != std::string::npos) fn = fn.substr(0, mp); }   // frames without source: "func (/path/module+0x..) (BuildId: ..)"
    std::string file = sl == std::string::npos ? "" : rest.substr(sl + 1);
    if (first.empty()) first = simplify_func(fn);
    if (file.find("/verif/harness/") != std::string::npos) { if (!r.func.empty()) break; else continue; }
    if (file.find("/lib/matvec/") != std::string::npos || file.find("/lib/gnu_gama/") != std::string::npos) {
      r.func = simplify_func(fn);
      size_t b = file.find("/lib/"); r.where = file.substr(b + 5);
      if (ub) break;
    }
  }
  if (r.func.empty()) r.func = first;
  return r;
}

inline bool crashed0(int st) { return !(WIFEXITED(st) && WEXITSTATUS(st) == 0); }
struct Unit {
  std::string name; long long total;
  std::function<void(long long)> f;
  std::function<std::string(long long)> fmt;
  std::function<void(const std::string&)> replay_extra;   // optional: replay from the extra string
  std::function<std::string(long long)> comp;           // optional: component name of case idx for crash / UB signatures
  int maxcrash = 12;                                     // give up the unit after this many aborted children
};

inline bool unit_selected(const std::string& name) {
  if (g().only.empty()) return true;
  for (auto& p : g().only) if (name.compare(0, p.size(), p) == 0) return true;
  return false;
}

inline void run_range(const Unit& u, long long lo, long long hi) {
  long long start = lo; int crashes = 0;
  std::set<std::string> ubseen;
  while (start < hi) {
    fflush(stdout); fflush(stderr);
    int po[2], pe[2];
    if (pipe(po) || pipe(pe)) { perror("pipe"); exit(3); }
    pid_t p = fork();
    if (p < 0) { perror("fork"); exit(3); }
    if (p == 0) {
      dup2(po[1], 1); dup2(pe[1], 2); close(po[0]); close(po[1]); close(pe[0]); close(pe[1]);
      Ctx& c = ctx(); zero_counters(); c.sigcount.clear(); c.samples = 2;
      g().child = true; g().fmt = u.fmt; g().unit = u.name;
#ifdef LIBMC_ASAN
      __sanitizer_set_death_callback(on_death);
#endif
      signal(SIGABRT, on_abort);
      for (long long i = start; i < hi; i++) { if (expired()) break; g().cur = i; u.f(i); }
      g().child = false;
      dump_counters();
      if (!c.complete) printf("D\t0\n");
      fflush(stdout);
      _exit(0);
    }
    close(po[1]); close(pe[1]);
    std::string out, err; bool oo = true, eo = true; char buf[65536];
    while (oo || eo) {
      struct pollfd fds[2]; int n = 0; int io = -1, ie = -1;
      if (oo) { fds[n].fd = po[0]; fds[n].events = POLLIN; io = n++; }
      if (eo) { fds[n].fd = pe[0]; fds[n].events = POLLIN; ie = n++; }
      if (poll(fds, n, -1) < 0) { if (errno == EINTR) continue; break; }
      if (io >= 0 && (fds[io].revents & (POLLIN | POLLHUP | POLLERR))) { ssize_t k = read(po[0], buf, sizeof buf); if (k > 0) out.append(buf, k); else oo = false; }
      if (ie >= 0 && (fds[ie].revents & (POLLIN | POLLHUP | POLLERR))) { ssize_t k = read(pe[0], buf, sizeof buf); if (k > 0) { if (err.size() < (1u << 20)) err.append(buf, k); } else eo = false; }
    }
    close(po[0]); close(pe[0]);
    int st = 0; waitpid(p, &st, 0);
    // relay child's protocol lines; pick up the Z line
    long long zidx = -1; std::string zcase;
    {
      size_t b = 0;
      while (b < out.size()) {
        size_t e = out.find('\n', b); if (e == std::string::npos) e = out.size();
        if (out.compare(b, 2, "Z\t") == 0) {
          std::string line = out.substr(b, e - b); auto f = split(line, '\t');
          if (f.size() >= 2) zidx = atoll(f[1].c_str()); if (f.size() >= 3) zcase = f[2];
        } else if (out.compare(b, 2, "D\t") == 0) { ctx().complete = false; }
        else { fwrite(out.data() + b, 1, e - b, stdout); fputc('\n', stdout); }
        b = e + 1;
      }
    }
    bool crashed = !(WIFEXITED(st) && WEXITSTATUS(st) == 0);
    // recovered UB reports
    for (size_t q = err.find("runtime error: "); q != std::string::npos; q = err.find("runtime error: ", q + 1)) {
      size_t ls = err.rfind('\n', q); ls = ls == std::string::npos ? 0 : ls + 1;
      SanRep r = parse_report(err, ls, true);
      // the last report of a crashed child is the fatal one: reported below as memory-safety/ub-fatal
      std::string fam = u.name.substr(0, u.name.find('.', u.name.find('.') + 1));
      std::string comp = (crashed0(st) && zidx >= 0 && u.comp) ? u.comp(zidx) : fam;
      std::string sig = g().pid + "|ub|" + nospace(r.kind) + "|" + nospace(r.func) + "|" + nospace(comp);
      if (ubseen.insert(sig).second) {
        size_t e = err.find('\n', q); std::string line = err.substr(ls, (e == std::string::npos ? err.size() : e) - ls);
        V(sig, u.name + "#" + std::to_string(zidx >= 0 ? zidx : start) + " :: " + (zidx >= 0 ? zcase : std::string("(first report while running this unit; see detail)")), "unit " + u.name + ": " + line + " [" + r.where + "]");
      }
    }
    if (!crashed) break;
    crashes++;
    size_t q = err.find("ERROR: AddressSanitizer"); bool asan = q != std::string::npos;
    std::string sig, detail;
    if (asan) {
      SanRep r = parse_report(err, q, false);
      sig = g().pid + "|memory-safety|" + nospace(r.kind) + "|" + nospace(r.func);
      size_t e = err.find("\n\n", q); detail = err.substr(q, std::min<size_t>(e == std::string::npos ? 900 : e - q, 900));
    } else if (err.find("runtime error: ") != std::string::npos) {
      sig.clear();   // already reported above as |ub|; the abort itself is not a second finding
    } else {
      std::string what = WIFSIGNALED(st) ? "signal-" + std::to_string(WTERMSIG(st)) : "exit-" + std::to_string(WEXITSTATUS(st));
      if (err.find("terminate called") != std::string::npos) what = "uncaught-exception";
      sig = g().pid + "|crash|" + what + "|" + nospace(u.name.substr(0, u.name.find('.', u.name.find('.') + 1)));
      detail = err.substr(0, 900);
    }
    // a case text that starts with '#' is a replayable extra (history) of the unit
    if (!sig.empty()) V(sig, u.name + "#" + std::to_string(zidx) + (zcase.size() && zcase[0] == '#' ? zcase : " :: " + zcase), "unit " + u.name + " idx " + std::to_string(zidx) + ": " + detail);
    C("child_crashes");
    if (zidx < 0 || crashes >= u.maxcrash) { ctx().complete = false; C("units_abandoned"); break; }
    start = zidx + 1;
  }
}

// register + run a unit, split into nchunks shardable ranges
inline void run_unit(const Unit& u, int nchunks = 1) {
  Ctx& c = ctx();
  if (!g().want_unit.empty()) {
    if (u.name != g().want_unit) return;
    g().found = true; c.verbose = true; g().unit = u.name; g().fmt = u.fmt;
    printf("# replay unit %s idx %lld extra '%s'\n", u.name.c_str(), g().want_idx, g().want_extra.c_str());
    if (!g().want_extra.empty() && u.replay_extra) u.replay_extra(g().want_extra);
    else if (g().want_idx >= 0 && g().want_idx < u.total) { printf("# case: %s\n", u.fmt(g().want_idx).c_str()); g().cur = g().want_idx; u.f(g().want_idx); }
    else printf("# index out of range (total %lld)\n", u.total);
    return;
  }
  if (!unit_selected(u.name)) return;
  if (nchunks < 1) nchunks = 1;
  if ((long long)nchunks > u.total) nchunks = (int)std::max<long long>(1, u.total);
  for (int k = 0; k < nchunks; k++) {
    g().unit_no++;
    if (!mine(g().unit_no)) continue;
    if (expired()) { return; }
    long long lo = u.total * k / nchunks, hi = u.total * (k + 1) / nchunks;
    if (c.opt.count("nofork")) { g().unit = u.name; g().fmt = u.fmt; for (long long i = lo; i < hi; i++) { g().cur = i; u.f(i); } }
    else run_range(u, lo, hi);
    C("units_run");
  }
}

inline void setup(int argc, char** argv, const char* pid) {
  parse_args(argc, argv);
  g().pid = pid;
  Ctx& c = ctx();
  if (c.opt.count("units")) for (auto& s : split(c.opt["units"], ',')) if (!s.empty()) g().only.insert(s);
  if (!c.replay.empty()) {
    // "<unit>#<idx>[#extra] :: text"
    std::string s = c.replay; size_t k = s.find(" ::"); if (k != std::string::npos) s = s.substr(0, k);
    auto f = split(s, '#');
    g().want_unit = f[0]; g().want_idx = f.size() > 1 && !f[1].empty() ? atoll(f[1].c_str()) : -1;
    if (f.size() > 2) g().want_extra = f[2];
  }
}
inline int done() {
  if (!g().want_unit.empty() && !g().found) printf("# unknown unit '%s'\n", g().want_unit.c_str());
  for (auto it = ctx().counters.begin(); it != ctx().counters.end();) { if (it->second == 0) it = ctx().counters.erase(it); else ++it; }
  return finish();
}

// ---------------------------------------------------------------- small dense reference (double, row major)
struct RM {
  int r = 0, c = 0; std::vector<double> a;
  RM() {}
  RM(int r_, int c_) : r(r_), c(c_), a((size_t)r_ * c_, 0.0) {}
  double& operator()(int i, int j) { return a[(size_t)i * c + j]; }
  double operator()(int i, int j) const { return a[(size_t)i * c + j]; }
};
inline RM rmul(const RM& A, const RM& B) { RM R(A.r, B.c); for (int i = 0; i < A.r; i++) for (int j = 0; j < B.c; j++) { double s = 0; for (int k = 0; k < A.c; k++) s += A(i, k) * B(k, j); R(i, j) = s; } return R; }
inline RM rtr(const RM& A) { RM R(A.c, A.r); for (int i = 0; i < A.r; i++) for (int j = 0; j < A.c; j++) R(j, i) = A(i, j); return R; }
inline std::string rstr(const RM& A) { std::string s = std::to_string(A.r) + "x" + std::to_string(A.c) + "["; for (int i = 0; i < A.r; i++) { if (i) s += ";"; for (int j = 0; j < A.c; j++) { if (j) s += ","; s += str(A(i, j)); } } return s + "]"; }

inline LMat toL(const RM& A) { LMat R(A.r, A.c); for (size_t i = 0; i < A.a.size(); i++) R.a[i] = A.a[i]; return R; }
inline IMat toI(const RM& A) { IMat R(A.r, A.c); for (size_t i = 0; i < A.a.size(); i++) R.a[i] = (I64)llround(A.a[i]); return R; }

// exact determinant of a small integer matrix (Laplace, n <= 5)
inline I64 idet(const IMat& M) {
  int n = M.r; if (n == 0) return 1; if (n == 1) return M(0, 0);
  if (n == 2) return M(0, 0) * M(1, 1) - M(0, 1) * M(1, 0);
  I64 d = 0;
  for (int j = 0; j < n; j++) {
    if (M(0, j) == 0) continue;
    IMat S(n - 1, n - 1);
    for (int i = 1; i < n; i++) { int cc = 0; for (int k = 0; k < n; k++) if (k != j) S(i - 1, cc++) = M(i, k); }
    d += ((j & 1) ? -1 : 1) * M(0, j) * idet(S);
  }
  return d;
}
inline IMat isub(const IMat& M, const std::vector<int>& idx) { IMat S((int)idx.size(), (int)idx.size()); for (size_t i = 0; i < idx.size(); i++) for (size_t j = 0; j < idx.size(); j++) S((int)i, (int)j) = M(idx[i], idx[j]); return S; }
// positive definite <=> all leading minors > 0
inline bool is_pd(const IMat& M) { for (int k = 1; k <= M.r; k++) { std::vector<int> ix; for (int i = 0; i < k; i++) ix.push_back(i); if (idet(isub(M, ix)) <= 0) return false; } return true; }
// positive semi-definite <=> all principal minors >= 0
inline bool is_psd(const IMat& M) { int n = M.r; for (int mask = 1; mask < (1 << n); mask++) { std::vector<int> ix; for (int i = 0; i < n; i++) if (mask >> i & 1) ix.push_back(i); if (idet(isub(M, ix)) < 0) return false; } return true; }

}  // namespace lm
#endif
