// g3mc replayer (check C19): reads `gama-g3 --project-equations` dumps
// (adj-input-data XML) back through the real GNU_gama::DataParser and solves
// them with the real GNU_gama::Adj for each of the four algorithms.
//
//   g3mc [--tier t] [--shard i/n] --files f1 f2 ...    replay every file (those of this shard)
//   g3mc --case file                                    replay one file, verbose
//
// Output (stdout, tab separated), per file:
//   F <file>
//   P <rows> <cols> <minx count> <blocks>              what the parser delivered
//   R <algorithm> ok <defect> <rtr> x <n> x1..xn r <m> r1..rm
//   R <algorithm> exc <text>
//   E <text>                                           file could not be read / parsed
// followed by the usual C / D lines of vh.h.
#include "vh.h"
#include <fstream>
#include <iostream>
#include <list>
#include <gnu_gama/xml/dataparser.h>
#include <gnu_gama/adj/adj.h>

using GNU_gama::Adj;
using GNU_gama::AdjInputData;

static const Adj::algorithm ALG[4] = {Adj::envelope, Adj::gso, Adj::svd, Adj::cholesky};
static const char* ALGN[4] = {"envelope", "gso", "svd", "cholesky"};

// parse one dump; returns the AdjInputData (ownership passes to the caller) or 0
static AdjInputData* read_dump(const std::string& file, std::string& err) {
  std::ifstream in(file.c_str());
  if (!in) { err = "cannot open"; return 0; }
  std::list<GNU_gama::DataObject::Base*> objects;
  AdjInputData* data = 0;
  try {
    GNU_gama::DataParser parser(objects);
    std::string line;
    while (std::getline(in, line)) {
      parser.xml_parse(line.c_str(), (int)line.length(), 0);
      parser.xml_parse("\n", 1, 0);
    }
    parser.xml_parse("", 0, 1);
  } catch (const GNU_gama::Exception::parser& p) {
    err = "parser error line " + std::to_string(p.line) + ": " + p.str;
  } catch (...) {
    err = "unknown exception while parsing";
  }
  for (GNU_gama::DataObject::Base* o : objects) {
    if (GNU_gama::DataObject::AdjInput* a = dynamic_cast<GNU_gama::DataObject::AdjInput*>(o)) {
      if (!data) { data = a->data; a->data = 0; }
    }
    delete o;
  }
  if (!data && err.empty()) err = "no <adj-input-data> object in file";
  if (data && !err.empty()) { delete data; data = 0; }
  return data;
}

static void replay(const std::string& file) {
  printf("F\t%s\n", file.c_str());
  for (int a = 0; a < 4; a++) {
    std::string err;
    AdjInputData* d = read_dump(file, err);
    if (!d) { printf("E\t%s\n", vh::clean(err).c_str()); return; }
    if (a == 0) {
      const GNU_gama::SparseMatrix<>* A = d->mat();
      printf("P\t%d\t%d\t%d\t%d\n", A ? (int)A->rows() : -1, A ? (int)A->columns() : -1,
             d->minx() ? (int)d->minx()->dim() : 0, d->cov() ? (int)d->cov()->blocks() : -1);
      if (!A || !d->cov() || d->rhs().dim() == 0) {
        printf("E\tincomplete adj-input-data (matrix, covariances or right-hand side missing)\n");
        delete d; return;
      }
    }
    vh::C("adj_replays");
    try {
      Adj adj;
      adj.set_algorithm(ALG[a]);
      adj.set(d);                      // Adj owns d from here on
      adj.set_algorithm(ALG[a]);
      const GNU_gama::Vec<>& x = adj.x();
      const GNU_gama::Vec<>& r = adj.r();
      int defect = adj.defect();
      double rtr = adj.rtr();
      std::string s = std::string("R\t") + ALGN[a] + "\tok\t" + std::to_string(defect) + "\t" + vh::str(rtr);
      s += "\tx\t" + std::to_string(x.dim());
      for (int i = 1; i <= (int)x.dim(); i++) s += "\t" + vh::str(x(i));
      s += "\tr\t" + std::to_string(r.dim());
      for (int i = 1; i <= (int)r.dim(); i++) s += "\t" + vh::str(r(i));
      printf("%s\n", s.c_str());
    } catch (const GNU_gama::Exception::matvec& e) {
      printf("R\t%s\texc\tmatvec: %s\n", ALGN[a], vh::clean(e.what()).c_str());
    } catch (const GNU_gama::Exception::string& e) {
      printf("R\t%s\texc\tstring: %s\n", ALGN[a], vh::clean(e.str).c_str());
    } catch (const std::exception& e) {
      printf("R\t%s\texc\tstd: %s\n", ALGN[a], vh::clean(e.what()).c_str());
    } catch (...) {
      printf("R\t%s\texc\tunknown\n", ALGN[a]);
    }
  }
}

int main(int argc, char** argv) {
  std::vector<std::string> files;
  std::vector<char*> rest;
  rest.push_back(argv[0]);
  bool infiles = false;
  for (int i = 1; i < argc; i++) {
    std::string a = argv[i];
    if (a == "--files") { infiles = true; continue; }
    if (infiles) files.push_back(a); else rest.push_back(argv[i]);
  }
  vh::parse_args((int)rest.size(), rest.data());
  if (!vh::ctx().replay.empty()) { files.clear(); files.push_back(vh::ctx().replay); }
  uint64_t k = 0;
  for (const std::string& f : files) {
    if (!vh::ctx().replay.empty() || vh::mine(k)) {
      if (vh::expired()) break;
      vh::L(f);
      replay(f);
    }
    k++;
  }
  return vh::finish();
}
