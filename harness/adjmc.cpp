// adjmc: exhaustive enumeration of small adjustment problems (space P of
// DESIGN.md section 3) on the real GNU_gama::Adj / solver classes.
// Oracles for C01 (optimality), C02 (algorithm agreement), C03 (cofactors),
// C08 (datum invariance, algebraic part), C20 (solver-level diagnosis).
//
// case string:  n;rows(a.b.c|...);blocks(dim:width,...);fam;bidx
#include "vh.h"
#include <gnu_gama/adj/adj.h>
#include <gnu_gama/adj/adj_input_data.h>
#include <matvec/matvec.h>
using namespace vh;
using GNU_gama::Adj;
using GNU_gama::AdjInputData;

static const char* ALGN[4] = {"envelope", "gso", "svd", "cholesky"};
static const Adj::algorithm ALG[4] = {Adj::envelope, Adj::gso, Adj::svd, Adj::cholesky};

struct Layout { std::vector<int> dim, width; int fam; };

struct Prob {
  int n, m;
  std::vector<std::vector<int>> rows;
  Layout lay;
  // derived
  IMat Ai;
  LMat A, Cm, P, N;
  int nullity;
  std::vector<std::vector<I64>> null;
  std::string key() const {
    std::string s = std::to_string(n) + ";";
    for (int i = 0; i < m; i++) { if (i) s += "|"; for (int j = 0; j < n; j++) { if (j) s += "."; s += std::to_string(rows[i][j]); } }
    s += ";";
    for (size_t k = 0; k < lay.dim.size(); k++) { if (k) s += ","; s += std::to_string(lay.dim[k]) + ":" + std::to_string(lay.width[k]); }
    s += ";" + std::to_string(lay.fam);
    return s;
  }
};

// covariance value families (position coded, positive definite, cond < 20)
static double covval(int fam, int gi, int gj) {   // gi<=gj global 0-based row indices
  int d = gj - gi;
  if (fam == 0) {
    if (d == 0) return 2.0 + 0.25 * (gi % 3);
    if (d == 1) return 0.5 + 0.05 * (gi % 2);
    return 0.2;
  } else if (fam == 1) {
    static const double s[5] = {1.0, 2.0, 0.5, 1.5, 0.8};
    double r = d == 0 ? 1.0 : (d == 1 ? -0.3 : 0.15);
    return r * s[gi % 5] * s[gj % 5];
  } else {
    // family 2, "stiff": diagonal only, variances 1e-4 / 1 / 1e5 by position (weights spread over 9 decades)
    static const double v[3] = {1e-4, 1.0, 1e5};
    return d == 0 ? v[(gi + fam - 2) % 3] : 0.0;
  }
}

static void derive(Prob& p) {
  p.m = (int)p.rows.size();
  p.Ai = IMat(p.m, p.n); p.A = LMat(p.m, p.n);
  for (int i = 0; i < p.m; i++) for (int j = 0; j < p.n; j++) { p.Ai(i, j) = p.rows[i][j]; p.A(i, j) = p.rows[i][j]; }
  p.null = nullspace(p.Ai);
  p.nullity = (int)p.null.size();
  p.Cm = LMat(p.m, p.m);
  int r0 = 0;
  for (size_t b = 0; b < p.lay.dim.size(); b++) {
    int d = p.lay.dim[b], w = p.lay.width[b];
    for (int i = 0; i < d; i++) for (int j = i; j < d && j <= i + w; j++) {
      double v = covval(p.lay.fam, r0 + i, r0 + j);
      p.Cm(r0 + i, r0 + j) = v; p.Cm(r0 + j, r0 + i) = v;
    }
    r0 += d;
  }
  inverse(p.Cm, p.P);
  p.N = mul(mul(tr(p.A), p.P), p.A);
}

static AdjInputData* make_input(const Prob& p, const std::vector<double>& b, const std::vector<int>* S) {
  AdjInputData* d = new AdjInputData;
  int nz = 0; for (auto& r : p.rows) for (int v : r) if (v) nz++;
  GNU_gama::SparseMatrix<>* A = new GNU_gama::SparseMatrix<>(nz, p.m, p.n);
  for (int i = 0; i < p.m; i++) { A->new_row(); for (int j = 0; j < p.n; j++) if (p.rows[i][j]) A->add_element(p.rows[i][j], j + 1); }
  d->set_mat(A);
  int fl = 0; for (size_t k = 0; k < p.lay.dim.size(); k++) { int D = p.lay.dim[k], W = p.lay.width[k]; fl += D * (W + 1) - W * (W + 1) / 2; }
  GNU_gama::BlockDiagonal<>* bd = new GNU_gama::BlockDiagonal<>((int)p.lay.dim.size(), fl);
  int r0 = 0;
  for (size_t k = 0; k < p.lay.dim.size(); k++) {
    int D = p.lay.dim[k], W = p.lay.width[k];
    std::vector<double> mem;
    for (int i = 0; i < D; i++) for (int j = i; j < D && j <= i + W; j++) mem.push_back(covval(p.lay.fam, r0 + i, r0 + j));
    bd->add_block(D, W, mem.data());
    r0 += D;
  }
  d->set_cov(bd);
  GNU_gama::Vec<> rhs(p.m);
  for (int i = 0; i < p.m; i++) rhs(i + 1) = b[i];
  d->set_rhs(rhs);
  if (S) {
    GNU_gama::IntegerList<>* l = new GNU_gama::IntegerList<>((int)S->size());
    for (size_t i = 0; i < S->size(); i++) (*l)((int)i) = (*S)[i];
    d->set_minx(l);
  }
  return d;
}

struct Res {
  bool ok = false; std::string exc;
  int defect = -1; double rtr = 0;
  std::vector<double> x, r;
  std::vector<double> Q, H, Hs;   // n*n, m*m (orig system), m*m (solver, homogenised)
  std::vector<double> Bx;         // m*n: q_bx of the solver object (homogenised system); empty where not implemented (envelope)
  std::vector<int> lindep;
  bool haveQ = false;
};

static bool resolving(const Prob& p, const std::vector<int>* S) {
  if (p.nullity == 0) return true;
  if (!S) return true;
  IMat R((int)S->size(), p.nullity);
  for (size_t i = 0; i < S->size(); i++) for (int k = 0; k < p.nullity; k++) R((int)i, k) = p.null[k][(*S)[i] - 1];
  if (S->empty()) return false;
  return rank(R) == p.nullity;
}

static Res run(const Prob& p, const std::vector<double>& b, const std::vector<int>* S, int alg, bool wantQ) {
  Res R;
  Adj adj;
  adj.set(make_input(p, b, S));
  adj.set_algorithm(ALG[alg]);
  try {
    const GNU_gama::Vec<>& x = adj.x();
    R.x.assign(x.begin(), x.end());
    const GNU_gama::Vec<>& r = adj.r();
    R.r.assign(r.begin(), r.end());
    R.rtr = adj.rtr();
    R.defect = adj.defect();
    R.ok = true;
    for (int i = 1; i <= p.n; i++) if (adj.least_squares->lindep(i)) R.lindep.push_back(i);
    if (wantQ) {
      R.Q.resize(p.n * p.n); R.H.resize(p.m * p.m); R.Hs.resize(p.m * p.m);
      for (int i = 1; i <= p.n; i++) for (int j = 1; j <= p.n; j++) R.Q[(i - 1) * p.n + j - 1] = adj.q_xx(i, j);
      for (int i = 1; i <= p.m; i++) for (int j = 1; j <= p.m; j++) R.H[(i - 1) * p.m + j - 1] = adj.q_bb(i, j);
      for (int i = 1; i <= p.m; i++) for (int j = 1; j <= p.m; j++) R.Hs[(i - 1) * p.m + j - 1] = adj.least_squares->q_bb(i, j);
      if (alg != 0) { R.Bx.resize(p.m * p.n); for (int i = 1; i <= p.m; i++) for (int j = 1; j <= p.n; j++) R.Bx[(i - 1) * p.n + j - 1] = adj.least_squares->q_bx(i, j); }
      R.haveQ = true;
    }
  } catch (const GNU_gama::Exception::matvec& e) {
    R.ok = false; R.exc = std::string("matvec:") + std::to_string(e.error()) + ":" + e.what();
  } catch (const GNU_gama::Exception::base& e) {
    R.ok = false; R.exc = std::string("gama:") + e.what();
  } catch (const std::exception& e) {
    R.ok = false; R.exc = std::string("std:") + e.what();
  }
  return R;
}

static std::string Sname(const std::vector<int>* S) { return S ? "{" + join(*S) + "}" : "all(null)"; }
static std::string structclass(const Prob& p, const std::vector<int>* S) {
  bool corr = false; for (int w : p.lay.width) if (w) corr = true;
  std::string s = p.nullity ? "defect>0" : "defect=0";
  s += corr ? "|corr" : "|diag";
  s += S ? "|subset" : "|allx";
  return s;
}

static double TOL = 1e-8;
static bool finite_all(const std::vector<double>& v) { for (double d : v) if (!std::isfinite(d)) return false; return true; }

// ---- per (problem, S) checks over all algorithms and all b
static void check_problem(Prob& p, const std::vector<std::vector<double>>& bs, const std::vector<std::vector<int>>& subsets) {
  derive(p);
  const int n = p.n, m = p.m;
  std::string pk = p.key();
  L(pk);
  C("states");                       // one enumerated (A, covariance layout) configuration
  O("nullity=" + std::to_string(p.nullity) + (p.nullity ? "" : ""));
  // S == nullptr encoded as index -1
  for (int si = -1; si < (int)subsets.size(); si++) {
    const std::vector<int>* S = si < 0 ? nullptr : &subsets[si];
    if (p.nullity == 0 && si >= 1) break;      // regular system: S irrelevant; exercise null and first subset only
    bool res = resolving(p, S);
    std::string sc = structclass(p, S);
    Res keep[4]; bool have[4] = {false, false, false, false};
    for (size_t bi = 0; bi < bs.size(); bi++) {
      const std::vector<double>& b = bs[bi];
      Res R4[4];
      for (int a = 0; a < 4; a++) {
        std::string cs = pk + ";" + std::to_string(bi) + ";S=" + Sname(S) + ";" + ALGN[a];
        bool wantQ = (bi == 0);
        Res R = run(p, b, S, a, wantQ);
        C("transitions"); C("evaluations");
        R4[a] = R;
        if (!res) {
          // C02/C20: a regularisation that cannot fix the datum must not yield an adjustment
          O(std::string("nonresolving:") + ALGN[a] + (R.ok ? ":returned" : ":refused"));
          if (R.ok) {
            V(std::string("C20|nonresolving-S-accepted|") + ALGN[a], cs, "Adj returned x for a regularisation subset that does not resolve the defect " + std::to_string(p.nullity));
            V(std::string("C02|nonresolving-S-accepted|") + ALGN[a], cs, "algorithm reports an adjustment for an input that cannot be adjusted");
          }
          continue;
        }
        if (!R.ok) {
          O(std::string("resolving-refused:") + ALGN[a]);
          V(std::string("C01|refused-wellposed|") + ALGN[a] + "|" + sc, cs, "exception " + R.exc);
          V(std::string("C02|refused-wellposed|") + ALGN[a] + "|" + sc, cs, "exception " + R.exc);
          continue;
        }
        O(std::string("solved:") + ALGN[a] + ":" + sc);
        // ---------------- C01
        if (!finite_all(R.x) || !finite_all(R.r) || !std::isfinite(R.rtr)) {
          V(std::string("C01|nonfinite|") + ALGN[a] + "|" + sc, cs, "non finite x/r/rtr");
          V(std::string("C20|nonfinite|") + ALGN[a] + "|" + sc, cs, "non finite x/r/rtr");
          continue;
        }
        LD xs = 1; for (double v : R.x) xs = std::max<LD>(xs, fabsl(v));
        for (double v : b) xs = std::max<LD>(xs, fabsl(v));
        LD tol = TOL * xs;
        // (1) r = A x - b
        LD e1 = 0; std::vector<LD> v(m);
        for (int i = 0; i < m; i++) { LD s = -b[i]; for (int j = 0; j < n; j++) s += p.A(i, j) * R.x[j]; e1 = std::max(e1, fabsl(s - R.r[i])); v[i] = R.r[i]; }
        if (e1 > tol) V(std::string("C01|r!=Ax-b|") + ALGN[a] + "|" + sc, cs, "max |r-(Ax-b)| = " + str((double)e1));
        // (2) A' P r = 0
        std::vector<LD> Pv(m, 0); for (int i = 0; i < m; i++) for (int k = 0; k < m; k++) Pv[i] += p.P(i, k) * v[k];
        LD e2 = 0; for (int j = 0; j < n; j++) { LD s = 0; for (int i = 0; i < m; i++) s += p.A(i, j) * Pv[i]; e2 = std::max(e2, fabsl(s)); }
        if (e2 > tol * 10) V(std::string("C01|normal-equations|") + ALGN[a] + "|" + sc, cs, "max |A'Pv| = " + str((double)e2));
        // (3) defect
        if (R.defect != p.nullity) {
          V(std::string("C01|defect|") + ALGN[a] + "|" + sc, cs, "defect " + std::to_string(R.defect) + " exact nullity " + std::to_string(p.nullity));
          V(std::string("C20|defect|") + ALGN[a] + "|" + sc, cs, "defect " + std::to_string(R.defect) + " exact nullity " + std::to_string(p.nullity));
        }
        // (4) minimal norm over S
        if (p.nullity) {
          LD e4 = 0;
          for (auto& nv : p.null) {
            LD s = 0, nn = 0;
            for (int i = 0; i < n; i++) { bool in = !S || std::find(S->begin(), S->end(), i + 1) != S->end(); if (in) { s += R.x[i] * (LD)nv[i]; } nn = std::max<LD>(nn, fabsl((LD)nv[i])); }
            e4 = std::max(e4, fabsl(s) / nn);
          }
          if (e4 > tol * 10) {
            V(std::string("C01|min-norm|") + ALGN[a] + "|" + sc, cs, "x not orthogonal to null space over S: " + str((double)e4));
            V(std::string("C08|min-norm|") + ALGN[a] + "|" + sc, cs, "x not orthogonal to null space over S: " + str((double)e4));
          }
        }
        // (5) rtr = v'Pv
        LD vpv = 0; for (int i = 0; i < m; i++) vpv += v[i] * Pv[i];
        if (fabsl(vpv - R.rtr) > tol * 10 * std::max<LD>(1, fabsl(vpv))) V(std::string("C01|rtr|") + ALGN[a] + "|" + sc, cs, "rtr " + str(R.rtr) + " v'Pv " + str((double)vpv));
        // ---------------- C20 solver level: lindep flags
        if (p.nullity || !R.lindep.empty()) {
          bool bad = (int)R.lindep.size() != p.nullity;
          if (!bad) {
            IMat Rm(m, n - p.nullity); int c = 0;
            for (int j = 0; j < n; j++) if (std::find(R.lindep.begin(), R.lindep.end(), j + 1) == R.lindep.end()) { for (int i = 0; i < m; i++) Rm(i, c) = p.Ai(i, j); c++; }
            if (rank(Rm) != n - p.nullity) bad = true;
          }
          if (bad && bi == 0) V(std::string("C20|lindep-flags|") + ALGN[a] + "|" + sc, cs, "lindep={" + join(R.lindep) + "} defect " + std::to_string(p.nullity));
        }
        // ---------------- C03
        if (R.haveQ) {
          LMat Q(n, n), H(m, m), Hs(m, m);
          for (int i = 0; i < n; i++) for (int j = 0; j < n; j++) Q(i, j) = R.Q[i * n + j];
          for (int i = 0; i < m; i++) for (int j = 0; j < m; j++) { H(i, j) = R.H[i * m + j]; Hs(i, j) = R.Hs[i * m + j]; }
          if (!finite_all(R.Q) || !finite_all(R.H) || !finite_all(R.Hs)) { V(std::string("C03|nonfinite|") + ALGN[a] + "|" + sc, cs, "non finite cofactor"); }
          else {
            LD qs = std::max<LD>(1, maxabs(Q)); LD ns = std::max<LD>(1, maxabs(p.N));
            LD t3 = TOL * qs * ns * ns * 10;
            LD asym = 0; for (int i = 0; i < n; i++) for (int j = 0; j < n; j++) asym = std::max(asym, fabsl(Q(i, j) - Q(j, i)));
            if (asym > t3) V(std::string("C03|Q-asymmetric|") + ALGN[a] + "|" + sc, cs, "max |Qij-Qji| = " + str((double)asym));
            LMat NQ = mul(p.N, Q); LMat NQN = mul(NQ, p.N); LMat QNQ = mul(Q, NQ);
            LD e = 0; for (int i = 0; i < n; i++) for (int j = 0; j < n; j++) e = std::max(e, fabsl(NQN(i, j) - p.N(i, j)));
            if (e > t3) V(std::string("C03|NQN!=N|") + ALGN[a] + "|" + sc, cs, "max = " + str((double)e));
            e = 0; for (int i = 0; i < n; i++) for (int j = 0; j < n; j++) e = std::max(e, fabsl(QNQ(i, j) - Q(i, j)));
            if (e > t3) V(std::string("C03|QNQ!=Q|") + ALGN[a] + "|" + sc, cs, "max = " + str((double)e));
            if (p.nullity == 0) {
              LMat QN = mul(Q, p.N); e = 0; for (int i = 0; i < n; i++) for (int j = 0; j < n; j++) e = std::max(e, fabsl(QN(i, j) - (i == j ? 1 : 0)));
              if (e > t3) V(std::string("C03|QN!=I|") + ALGN[a] + "|" + sc, cs, "max = " + str((double)e));
            } else {
              // Q belongs to the chosen regularisation: (n_S)' Q = 0
              e = 0;
              for (auto& nv : p.null) {
                LD nn = 0; for (I64 t : nv) nn = std::max<LD>(nn, fabsl((LD)t));
                for (int j = 0; j < n; j++) { LD s = 0; for (int i = 0; i < n; i++) { bool in = !S || std::find(S->begin(), S->end(), i + 1) != S->end(); if (in) s += (LD)nv[i] * Q(i, j); } e = std::max(e, fabsl(s) / nn); }
              }
              if (e > t3) V(std::string("C03|Q-wrong-regularisation|") + ALGN[a] + "|" + sc, cs, "max |(n_S)'Q| = " + str((double)e));
            }
            std::vector<LD> ev = eigsym(Q);
            if (ev[0] < -t3) V(std::string("C03|Q-not-psd|") + ALGN[a] + "|" + sc, cs, "min eigenvalue " + str((double)ev[0]));
            // q_bb in the original system: H = A Q A', H P H = H
            LMat AQA = mul(mul(p.A, Q), tr(p.A));
            e = 0; for (int i = 0; i < m; i++) for (int j = 0; j < m; j++) e = std::max(e, fabsl(AQA(i, j) - H(i, j)));
            if (e > t3) V(std::string("C03|qbb!=AQA'|") + ALGN[a] + "|" + sc, cs, "max = " + str((double)e));
            LMat HPH = mul(mul(H, p.P), H);
            e = 0; for (int i = 0; i < m; i++) for (int j = 0; j < m; j++) e = std::max(e, fabsl(HPH(i, j) - H(i, j)));
            if (e > t3) V(std::string("C03|HPH!=H|") + ALGN[a] + "|" + sc, cs, "max = " + str((double)e));
            // homogenised projector of the solver object
            LMat HH = mul(Hs, Hs); e = 0; LD trc = 0; LD dmin = 1, dmax = 0;
            for (int i = 0; i < m; i++) { for (int j = 0; j < m; j++) { e = std::max(e, fabsl(HH(i, j) - Hs(i, j))); e = std::max(e, fabsl(Hs(i, j) - Hs(j, i))); } trc += 1 - Hs(i, i); dmin = std::min(dmin, Hs(i, i)); dmax = std::max(dmax, Hs(i, i)); }
            if (e > t3) V(std::string("C03|projector-not-idempotent|") + ALGN[a] + "|" + sc, cs, "max = " + str((double)e));
            if (dmin < -t3 || dmax > 1 + t3) V(std::string("C03|projector-diagonal-range|") + ALGN[a] + "|" + sc, cs, "diag in [" + str((double)dmin) + "," + str((double)dmax) + "]");
            if (fabsl(trc - (m - n + p.nullity)) > t3 * m) V(std::string("C03|redundancy-sum|") + ALGN[a] + "|" + sc, cs, "sum(1-h_ii) = " + str((double)trc) + " dof " + std::to_string(m - n + p.nullity));
            // q_bx = Ah Q (Ah = homogenised design matrix, Ah'Ah = N): Bx'Bx = Q N Q and Hs Bx = Bx need no Ah
            if (!R4[a].Bx.empty()) {
              LMat Bx(m, n); for (int i = 0; i < m; i++) for (int j = 0; j < n; j++) Bx(i, j) = R4[a].Bx[i * n + j];
              LMat BB = mul(tr(Bx), Bx); LMat QNQ2 = mul(Q, mul(p.N, Q)); LMat HB = mul(Hs, Bx);
              e = 0; for (int i = 0; i < n; i++) for (int j = 0; j < n; j++) e = std::max(e, fabsl(BB(i, j) - QNQ2(i, j)));
              LD e2 = 0; for (int i = 0; i < m; i++) for (int j = 0; j < n; j++) e2 = std::max(e2, fabsl(HB(i, j) - Bx(i, j)));
              if (e > t3 * 10 || e2 > t3 * 10) V(std::string("C03|q_bx!=AQ|") + ALGN[a] + "|" + sc, cs, "max |Bx'Bx - QNQ| = " + str((double)e) + ", max |Hs Bx - Bx| = " + str((double)e2));
            }
            // trace(P H) == trace(Hs)
            LMat PH = mul(p.P, H); LD t1 = 0, t2 = 0; for (int i = 0; i < m; i++) { t1 += PH(i, i); t2 += Hs(i, i); }
            if (fabsl(t1 - t2) > t3 * m) V(std::string("C03|qbb-orig-vs-homogenised|") + ALGN[a] + "|" + sc, cs, "tr(PH) " + str((double)t1) + " tr(Hs) " + str((double)t2));
          }
        }
      }
      // ---------------- C02: pairwise agreement for this (S, b)
      if (res) {
        for (int a = 0; a < 4; a++) for (int c = a + 1; c < 4; c++) {
          if (!R4[a].ok || !R4[c].ok) continue;
          C("pairs_compared");
          std::string cs = pk + ";" + std::to_string(bi) + ";S=" + Sname(S) + ";" + ALGN[a] + "+" + ALGN[c];
          std::string pr = std::string(ALGN[a]) + "~" + ALGN[c];
          LD xs = 1; for (double v : R4[a].x) xs = std::max<LD>(xs, fabsl(v));
          LD tol = TOL * xs * 10;
          auto md = [](const std::vector<double>& u, const std::vector<double>& w) { LD e = 0; for (size_t i = 0; i < u.size() && i < w.size(); i++) e = std::max<LD>(e, fabsl((LD)u[i] - w[i])); return e; };
          if (R4[a].defect != R4[c].defect) V("C02|defect|" + pr + "|" + sc, cs, "defects differ");
          if (md(R4[a].x, R4[c].x) > tol) V("C02|x|" + pr + "|" + sc, cs, "max dx " + str((double)md(R4[a].x, R4[c].x)));
          if (md(R4[a].r, R4[c].r) > tol) V("C02|r|" + pr + "|" + sc, cs, "max dr " + str((double)md(R4[a].r, R4[c].r)));
          if (fabsl((LD)R4[a].rtr - R4[c].rtr) > tol * std::max<LD>(1, fabsl(R4[a].rtr))) V("C02|rtr|" + pr + "|" + sc, cs, "rtr differ");
          if (R4[a].haveQ && R4[c].haveQ) {
            if (md(R4[a].Q, R4[c].Q) > tol * 10) V("C02|q_xx|" + pr + "|" + sc, cs, "max dQ " + str((double)md(R4[a].Q, R4[c].Q)));
            if (md(R4[a].H, R4[c].H) > tol * 10) V("C02|q_bb|" + pr + "|" + sc, cs, "max dH " + str((double)md(R4[a].H, R4[c].H)));
            if (md(R4[a].Hs, R4[c].Hs) > tol * 10) V("C02|q_bb-solver|" + pr + "|" + sc, cs, "max dHs " + str((double)md(R4[a].Hs, R4[c].Hs)));
          }
        }
        // ---------------- C08 algebraic: invariants across resolving subsets (first b only)
        if (p.nullity && bi == 0) {
          for (int a = 0; a < 4; a++) {
            if (!R4[a].ok) continue;
            if (!have[a]) { keep[a] = R4[a]; have[a] = true; continue; }
            C("datum_pairs_compared");
            std::string cs = pk + ";0;S=" + Sname(S) + ";" + ALGN[a];
            auto md = [](const std::vector<double>& u, const std::vector<double>& w) { LD e = 0; for (size_t i = 0; i < u.size() && i < w.size(); i++) e = std::max<LD>(e, fabsl((LD)u[i] - w[i])); return e; };
            if (md(keep[a].r, R4[a].r) > TOL * 100) V(std::string("C08|residuals-depend-on-datum|") + ALGN[a], cs, "max dr " + str((double)md(keep[a].r, R4[a].r)));
            if (fabsl((LD)keep[a].rtr - R4[a].rtr) > TOL * 100 * std::max<LD>(1, fabsl(keep[a].rtr))) V(std::string("C08|rtr-depends-on-datum|") + ALGN[a], cs, "rtr differs");
            if (keep[a].haveQ && R4[a].haveQ && md(keep[a].H, R4[a].H) > TOL * 100) V(std::string("C08|q_bb-depends-on-datum|") + ALGN[a], cs, "max dH " + str((double)md(keep[a].H, R4[a].H)));
            if (keep[a].defect != R4[a].defect) V(std::string("C08|defect-depends-on-datum|") + ALGN[a], cs, "defect differs");
          }
        }
      }
    }
  }
}


// ---- badly scaled ("stiff") regular problems: weights spread over 9 decades, rank still unambiguous.
// Oracle: agreement with the harness's long double reference (Q_ref = N^-1, x_ref = Q_ref A'P b),
// tolerances scaled by the cofactors (expected accuracy of double: cond(N)*eps ~ 2e-7).
static long double g_meas[4][4];   // [alg][x, Q, H, idempotency]: max error / (sqrt(kappa) eps)   (measurement aid, ADJMC_MEASURE=1)
static void check_stiff(Prob& p, const std::vector<std::vector<double>>& bs) {
  derive(p);
  if (p.nullity) return;
  const int n = p.n, m = p.m;
  LMat Qr; if (!inverse(p.N, Qr)) return;
  std::string pk = p.key();
  L(pk);
  C("states"); C("stiff_states");
  std::vector<LD> sq(n); for (int i = 0; i < n; i++) sq[i] = sqrtl(fabsl(Qr(i, i)));
  LMat AQ = mul(p.A, Qr); LMat Hr = mul(AQ, tr(p.A));
  // the solvers that form normal equations lose cond(N)*eps: the tolerance follows the conditioning
  // (C02: "up to a tolerance proportional to the conditioning of the problem")
  LD nN = 0, nQ = 0;
  for (int i = 0; i < n; i++) { LD a1 = 0, a2 = 0; for (int j = 0; j < n; j++) { a1 += fabsl(p.N(i, j)); a2 += fabsl(Qr(i, j)); } nN = std::max(nN, a1); nQ = std::max(nQ, a2); }
  const LD kappa = nN * nQ;
  const LD TQ = std::max<LD>(1e-5L, 4 * kappa * 2.2e-16L);
  if (kappa > 1e13L) { O("stiff:skipped-cond>1e13"); return; }
  for (size_t bi = 0; bi < bs.size(); bi++) {
    const std::vector<double>& b = bs[bi];
    // reference solution
    std::vector<LD> Pb(m, 0), xr(n, 0);
    for (int i = 0; i < m; i++) for (int k = 0; k < m; k++) Pb[i] += p.P(i, k) * b[k];
    for (int j = 0; j < n; j++) { LD s = 0; for (int k = 0; k < n; k++) { LD t = 0; for (int i = 0; i < m; i++) t += p.A(i, k) * Pb[i]; s += Qr(j, k) * t; } xr[j] = s; }
    LD xs = 1; for (LD v : xr) xs = std::max(xs, fabsl(v));
    Res R4[4];
    for (int a = 0; a < 4; a++) {
      std::string cs = pk + ";" + std::to_string(bi) + ";S=all(null);" + ALGN[a];
      Res R = run(p, b, nullptr, a, bi == 0);
      C("transitions"); C("evaluations");
      R4[a] = R;
      // gso and svd work on the design matrix itself and lose only cond(A)*eps = sqrt(kappa)*eps.  Measured on the
      // whole thorough family (ADJMC_MEASURE=1): x <= 320, Q <= 26, idempotency of the projector <= 0.2 times
      // sqrt(kappa)*eps; the bounds below keep a factor >= 10 (classical Gram-Schmidt, kappa*eps, is far outside)
      const bool orth = (a == 1 || a == 2);
      const LD se = sqrtl(kappa) * 2.2e-16L;
      const LD Tx = orth ? std::max<LD>(1e-9L, 4000 * se) : TQ;
      const LD Tq = orth ? std::max<LD>(1e-9L, 300 * se) : TQ;
      const LD Tp = orth ? std::max<LD>(1e-9L, 50 * se) : std::max<LD>(1e-4L, TQ);
      if (!R.ok) { V(std::string("C01|refused-wellposed|") + ALGN[a] + "|stiff", cs, "exception " + R.exc); V(std::string("C02|refused-wellposed|") + ALGN[a] + "|stiff", cs, "exception " + R.exc); continue; }
      O(std::string("solved:") + ALGN[a] + ":stiff");
      if (!finite_all(R.x) || !finite_all(R.r) || !std::isfinite(R.rtr)) { V(std::string("C01|nonfinite|") + ALGN[a] + "|stiff", cs, "non finite x/r/rtr"); continue; }
      if (R.defect != 0) { V(std::string("C01|defect|") + ALGN[a] + "|stiff", cs, "defect " + std::to_string(R.defect) + " for a regular (badly scaled) system"); V(std::string("C20|defect|") + ALGN[a] + "|stiff", cs, "defect reported for a regular system"); }
      LD ex = 0; for (int j = 0; j < n; j++) ex = std::max(ex, fabsl(R.x[j] - xr[j]));
      g_meas[a][0] = std::max<long double>(g_meas[a][0], ex / xs / (sqrtl(kappa) * 2.2e-16L));
      if (ex > Tx * xs) V(std::string("C01|x!=reference|") + ALGN[a] + "|stiff", cs, "max |x - x_ref| = " + str((double)ex) + " scale " + str((double)xs));
      LD e1 = 0; std::vector<LD> v(m);
      for (int i = 0; i < m; i++) { LD s = -b[i]; for (int j = 0; j < n; j++) s += p.A(i, j) * R.x[j]; e1 = std::max(e1, fabsl(s - R.r[i])); v[i] = R.r[i]; }
      if (e1 > 1e-8L * xs) V(std::string("C01|r!=Ax-b|") + ALGN[a] + "|stiff", cs, "max |r-(Ax-b)| = " + str((double)e1));
      LD vpv = 0; for (int i = 0; i < m; i++) for (int k = 0; k < m; k++) vpv += v[i] * p.P(i, k) * v[k];
      if (fabsl(vpv - R.rtr) > 1e-6L * std::max<LD>(1e-12L, fabsl(vpv)) + 1e-9L) V(std::string("C01|rtr|") + ALGN[a] + "|stiff", cs, "rtr " + str(R.rtr) + " v'Pv " + str((double)vpv));
      if (R.haveQ) {
        if (!finite_all(R.Q) || !finite_all(R.H) || !finite_all(R.Hs)) { V(std::string("C03|nonfinite|") + ALGN[a] + "|stiff", cs, "non finite cofactor"); continue; }
        LD eq = 0, es = 0; int wi = 0, wj = 0;
        for (int i = 0; i < n; i++) for (int j = 0; j < n; j++) {
          LD d = fabsl(R.Q[i * n + j] - Qr(i, j)) / (sq[i] * sq[j]);
          if (d > eq) { eq = d; wi = i; wj = j; }
          es = std::max(es, fabsl((LD)R.Q[i * n + j] - R.Q[j * n + i]) / (sq[i] * sq[j]));
        }
        g_meas[a][1] = std::max<long double>(g_meas[a][1], eq / (sqrtl(kappa) * 2.2e-16L));
        if (eq > Tq) V(std::string("C03|Q!=N^-1|") + ALGN[a] + "|stiff", cs, "q_xx(" + std::to_string(wi + 1) + "," + std::to_string(wj + 1) + ") = " + str(R.Q[wi * n + wj]) + " reference " + str((double)Qr(wi, wj)));
        if (es > 1e-9L) V(std::string("C03|Q-asymmetric|") + ALGN[a] + "|stiff", cs, "scaled asymmetry " + str((double)es));
        LD eh = 0; for (int i = 0; i < m; i++) for (int j = 0; j < m; j++) { LD sc = sqrtl(fabsl(Hr(i, i) * Hr(j, j))) + 1e-30L; eh = std::max(eh, fabsl(R.H[i * m + j] - Hr(i, j)) / sc); }
        g_meas[a][2] = std::max<long double>(g_meas[a][2], eh / (sqrtl(kappa) * 2.2e-16L));
        if (eh > TQ) V(std::string("C03|qbb!=AQA'|") + ALGN[a] + "|stiff", cs, "scaled max = " + str((double)eh));
        LMat Hs(m, m); for (int i = 0; i < m; i++) for (int j = 0; j < m; j++) Hs(i, j) = R.Hs[i * m + j];
        LMat HH = mul(Hs, Hs); LD e = 0, trc = 0, dmin = 1, dmax = 0;
        for (int i = 0; i < m; i++) { for (int j = 0; j < m; j++) { e = std::max(e, fabsl(HH(i, j) - Hs(i, j))); e = std::max(e, fabsl(Hs(i, j) - Hs(j, i))); } trc += 1 - Hs(i, i); dmin = std::min(dmin, Hs(i, i)); dmax = std::max(dmax, Hs(i, i)); }
        g_meas[a][3] = std::max<long double>(g_meas[a][3], e / (sqrtl(kappa) * 2.2e-16L));
        if (e > Tp) V(std::string("C03|projector-not-idempotent|") + ALGN[a] + "|stiff", cs, "max = " + str((double)e));
        if (dmin < -Tp || dmax > 1 + Tp) V(std::string("C03|projector-diagonal-range|") + ALGN[a] + "|stiff", cs, "diag in [" + str((double)dmin) + "," + str((double)dmax) + "]");
        if (fabsl(trc - (m - n)) > Tp * m) V(std::string("C03|redundancy-sum|") + ALGN[a] + "|stiff", cs, "sum(1-h_ii) = " + str((double)trc) + " dof " + std::to_string(m - n));
      }
    }
    for (int a = 0; a < 4; a++) for (int c = a + 1; c < 4; c++) {
      if (!R4[a].ok || !R4[c].ok) continue;
      C("pairs_compared");
      std::string cs = pk + ";" + std::to_string(bi) + ";S=all(null);" + ALGN[a] + "+" + ALGN[c];
      std::string pr = std::string(ALGN[a]) + "~" + ALGN[c];
      LD ex = 0; for (int j = 0; j < n; j++) ex = std::max(ex, fabsl((LD)R4[a].x[j] - R4[c].x[j]));
      if (ex > 2 * TQ * xs) V("C02|x|" + pr + "|stiff", cs, "max dx " + str((double)ex));
      if (R4[a].defect != R4[c].defect) V("C02|defect|" + pr + "|stiff", cs, "defects differ");
      if (R4[a].haveQ && R4[c].haveQ) {
        LD eq = 0; for (int i = 0; i < n; i++) for (int j = 0; j < n; j++) eq = std::max(eq, fabsl((LD)R4[a].Q[i * n + j] - R4[c].Q[i * n + j]) / (sq[i] * sq[j]));
        if (eq > 2 * TQ) V("C02|q_xx|" + pr + "|stiff", cs, "scaled max dQ " + str((double)eq));
      }
    }
  }
}

// ---------------------------------------------------------------- enumeration
static std::vector<std::vector<int>> alphabet(int n) {
  std::vector<std::vector<int>> R;
  auto z = [&]() { return std::vector<int>(n, 0); };
  for (int i = 0; i < n; i++) { auto r = z(); r[i] = 1; R.push_back(r); }
  for (int i = 0; i < n; i++) for (int j = i + 1; j < n; j++) { auto r = z(); r[i] = -1; r[j] = 1; R.push_back(r); }
  for (int i = 0; i < n; i++) for (int j = 0; j < n; j++) if (i != j) { auto r = z(); r[i] = 2; r[j] = 1; R.push_back(r); }
  for (int i = 0; i < n; i++) for (int j = i + 1; j < n; j++) for (int k = j + 1; k < n; k++) { auto r = z(); r[i] = r[j] = r[k] = 1; R.push_back(r); }
  if (n >= 3) { auto r = z(); r[0] = 1; r[1] = -2; r[2] = 1; R.push_back(r); }
  return R;
}

static void layouts_rec(int m, int left, std::vector<int>& dims, int maxw, std::vector<Layout>& out) {
  if (left == 0) {
    // all width choices
    std::vector<int> w(dims.size(), 0);
    std::function<void(size_t)> rec = [&](size_t k) {
      if (k == dims.size()) {
        bool anyc = false; for (int x : w) if (x) anyc = true;
        for (int fam = 0; fam < 2; fam++) { Layout l; l.dim = dims; l.width = w; l.fam = fam; out.push_back(l); }
        (void)anyc; return;
      }
      int mw = std::min(dims[k] - 1, maxw);
      for (int x = 0; x <= mw; x++) { w[k] = x; rec(k + 1); }
    };
    rec(0); return;
  }
  for (int d = 1; d <= left; d++) { dims.push_back(d); layouts_rec(m, left - d, dims, maxw, out); dims.pop_back(); }
}

static std::vector<std::vector<double>> bvecs(int m, bool full) {
  std::vector<std::vector<double>> B;
  std::vector<double> mix(m); for (int i = 0; i < m; i++) mix[i] = (i % 2 ? -1.0 : 1.0) * (i + 1);
  B.push_back(mix);
  if (full) for (int i = 0; i < m; i++) { std::vector<double> e(m, 0.0); e[i] = 1; B.push_back(e); }
  else { std::vector<double> e(m, 0.0); e[m - 1] = 1; B.push_back(e); }
  return B;
}

static std::vector<std::vector<int>> all_subsets(int n) {
  std::vector<std::vector<int>> S;
  for (int mask = 1; mask < (1 << n); mask++) { std::vector<int> s; for (int i = 0; i < n; i++) if (mask >> i & 1) s.push_back(i + 1); S.push_back(s); }
  // a permuted (non-monotone) listing of the full set and the empty set
  { std::vector<int> s; for (int i = n; i >= 1; i--) s.push_back(i); S.push_back(s); }
  S.push_back(std::vector<int>());
  return S;
}

static Prob parse_case(const std::string& cs) {
  auto f = split(cs, ';');
  Prob p; p.n = atoi(f[0].c_str());
  for (auto& rs : split(f[1], '|')) p.rows.push_back(ints(rs, '.'));
  for (auto& b : split(f[2], ',')) { auto dw = ints(b, ':'); p.lay.dim.push_back(dw[0]); p.lay.width.push_back(dw[1]); }
  p.lay.fam = atoi(f[3].c_str());
  return p;
}

int main(int argc, char** argv) {
  parse_args(argc, argv);
  Ctx& c = ctx();
  if (!c.replay.empty()) {
    Prob p = parse_case(c.replay);
    p.m = (int)p.rows.size();
    if (p.lay.fam >= 2) check_stiff(p, bvecs(p.m, true));
    else check_problem(p, bvecs(p.m, true), all_subsets(p.n));
    return finish();
  }
  // bounds
  int nmax = c.opt.count("nmax") ? atoi(c.opt["nmax"].c_str()) : 4;
  int mmax = c.opt.count("mmax") ? atoi(c.opt["mmax"].c_str()) : (thorough() ? 5 : 4);
  int m4 = c.opt.count("m4") ? atoi(c.opt["m4"].c_str()) : (thorough() ? mmax : 3);   // row bound for n = 4
  int mfull = c.opt.count("mfull") ? atoi(c.opt["mfull"].c_str()) : 4;   // up to this many rows: all layouts; beyond: reduced layouts
  uint64_t unit = 0;
  for (int n = 1; n <= nmax && !expired(); n++) {
    auto R = alphabet(n);
    auto subsets = all_subsets(n);
    int K = (int)R.size();
    for (int m = 1; m <= (n >= 4 ? std::min(mmax, m4) : mmax) && m <= K && !expired(); m++) {
      std::vector<Layout> lays; std::vector<int> dims;
      layouts_rec(m, m, dims, 2, lays);
      bool reduced = (n == nmax && n >= 4 && m > mfull);
      if (reduced) {   // keep: diagonal, one full block of each band width, two 2-block splits
        std::vector<Layout> k;
        for (auto& l : lays) {
          bool diag = true; for (int w : l.width) if (w) diag = false;
          bool alldiag1 = diag && l.dim.size() == (size_t)m;
          bool single = l.dim.size() == 1;
          bool two = l.dim.size() == 2 && l.width[0] == std::min(l.dim[0] - 1, 2) && l.width[1] == std::min(l.dim[1] - 1, 1) && l.dim[0] >= 2 && l.dim[1] >= 2;
          if ((alldiag1 && l.fam == 0) || (single && l.fam == 1) || (two && l.fam == 0)) k.push_back(l);
        }
        lays.swap(k);
      }
      auto bs = bvecs(m, !reduced);
      // combinations of m rows out of K in lexicographic order
      std::vector<int> idx(m); for (int i = 0; i < m; i++) idx[i] = i;
      while (true) {
        for (size_t li = 0; li < lays.size(); li++) {
          unit++;
          if (!mine(unit)) continue;
          if (expired()) break;
          Prob p; p.n = n; for (int i : idx) p.rows.push_back(R[i]); p.lay = lays[li];
          check_problem(p, bs, subsets);
          if (c.samples < 2 && p.nullity > 0 && m >= 3) X(p.key());
        }
        // the same row set with badly scaled diagonal weights, in 3 cyclic shifts of the weight pattern
        if (m >= n) for (int sh = 0; sh < 3; sh++) {
          unit++;
          if (!mine(unit)) continue;
          if (expired()) break;
          Prob p; p.n = n; for (int i : idx) p.rows.push_back(R[i]);
          // shift the weight pattern by prepending sh empty positions: encode through the block list (dims 1, width 0)
          p.lay.dim.assign(m, 1); p.lay.width.assign(m, 0); p.lay.fam = 2 + sh;
          check_stiff(p, bs);
        }
        if (expired()) break;
        int i = m - 1; while (i >= 0 && idx[i] == K - m + i) i--;
        if (i < 0) break;
        idx[i]++; for (int j = i + 1; j < m; j++) idx[j] = idx[j - 1] + 1;
      }
    }
  }
  if (getenv("ADJMC_MEASURE")) for (int a = 0; a < 4; a++) fprintf(stderr, "MEASURE %s x %.3Lg Q %.3Lg H %.3Lg idem %.3Lg  (max error / (sqrt(kappa) eps))\n", ALGN[a], g_meas[a][0], g_meas[a][1], g_meas[a][2], g_meas[a][3]);
  return finish();
}
