// libmc16: C16 "sparse kernels equal their dense definitions"
// Bounded exhaustive exploration of lib/gnu_gama/sparse/*.h, adj/envelope.h, adj/homogenization.h (asan build).
// Units (mechanics: libmc.h):
//   sp.RxC     all 0/1 patterns of an R x C matrix: SparseMatrix build (two insertion orders) / transpose / replicate with
//              position coded values; SparseMatrixGraph vs reference column graph; connected() vs union-find;
//              ReverseCuthillMcKee perm/invp; Envelope set/cholDec/solves/inverse/copy vs dense LDL' of the permuted
//              normal matrix for three small-integer value families x four scales of the coefficients (1, 1e3, 1e-2, 1e-5) with
//              cholDec(tol) given the tolerance scaled with the normal matrix
//   sp.dim0    the same pipeline on matrices without rows or columns (each case may abort)
//   sp.svector SparseVector growth, IntegerList
//   env.assign Envelope::operator= between all ordered pairs of envelope profiles (all n! profiles of every dimension 0..5, thorough 0..6)
//              x 3 states of the target x 3 states of the source; self assignment
//   bd         all block layouts (compositions of n<=5) x all band widths x 2 value families x which blocks are not
//              positive definite: BlockDiagonal::cholDec, replicate, UpperBlockDiagonal, Envelope(BlockDiagonal); positive definite
//              layouts also at four scales of the matrix: Envelope cholDec(tol scaled) / solve / inverse vs the dense results
//   hom.M      Homogenization of all 0/1 patterns of an M x 2 design matrix x all layouts of dimension M
#include "libmc.h"
#include <gnu_gama/sparse/smatrix.h>
#include <gnu_gama/sparse/smatrix_graph.h>
#include <gnu_gama/sparse/smatrix_ordering.h>
#include <gnu_gama/sparse/sbdiagonal.h>
#include <gnu_gama/sparse/svector.h>
#include <gnu_gama/sparse/intlist.h>
#include <gnu_gama/adj/envelope.h>
#include <gnu_gama/adj/adj_input_data.h>
#include <gnu_gama/adj/homogenization.h>
#include <memory>
using namespace lm;
typedef GNU_gama::SparseMatrix<double, int> SM;
typedef GNU_gama::SparseMatrixGraph<double, int> SG;
typedef GNU_gama::ReverseCuthillMcKee<int> RCM;
typedef GNU_gama::Envelope<double, int> Env;
typedef GNU_gama::BlockDiagonal<double, int> BD;
typedef GNU_gama::UpperBlockDiagonal<double, int> UBD;

static std::string g_cls;
static std::string CS() { return g().unit + "#" + std::to_string(g().cur) + " :: " + (g().fmt ? g().fmt(g().cur) : std::string()); }
static void bad(const std::string& clause, const std::string& comp, const std::string& cls0, const std::string& detail) {
  const std::string& cls = cls0.empty() ? g_cls : cls0;
  V("C16|" + clause + "|" + nospace(comp) + (cls.empty() ? "" : "|" + nospace(cls)), CS(), detail);
  if (ctx().verbose) printf("# VIOLATION %s|%s|%s: %s\n", clause.c_str(), comp.c_str(), cls.c_str(), detail.c_str());
}
static bool bit(long long p, int r, int c, int i, int j) { (void)r; return (p >> (i * c + j)) & 1; }
static std::string patstr(int r, int c, long long p) { std::string s = std::to_string(r) + "x" + std::to_string(c) + "["; for (int i = 0; i < r; i++) { if (i) s += "/"; for (int j = 0; j < c; j++) s += bit(p, r, c, i, j) ? '1' : '.'; } return s + "]"; }
static double pcv(int i, int j) { return 10 * (i + 1) + (j + 1); }
static double famv(int fam, int i, int j) { return fam == 0 ? 1.0 : (fam == 1 ? (((i + j) & 1) ? -1.0 : 1.0) : 1.0 + (2 * i + j) % 3); }

typedef std::vector<std::pair<int, double>> Row;
static std::vector<Row> rows_of(const SM* s) { std::vector<Row> R; for (int k = 1; k <= s->rows(); k++) { Row r; double* b = s->begin(k); double* e = s->end(k); int* n = s->ibegin(k); for (; b != e; ++b, ++n) r.push_back({*n, *b}); R.push_back(r); } return R; }
static std::string rowstr(const std::vector<Row>& R) { std::string s; for (auto& r : R) { s += "{"; for (auto& p : r) s += std::to_string(p.first) + ":" + str(p.second) + " "; s += "}"; } return s; }

static SM* build(int r, int c, long long p, bool desc, std::function<double(int, int)> val) {
  int nz = 0; for (int t = 0; t < r * c; t++) if ((p >> t) & 1) nz++;
  SM* s = new SM(nz, r, c);
  for (int i = 0; i < r; i++) { s->new_row(); for (int jj = 0; jj < c; jj++) { int j = desc ? c - 1 - jj : jj; if (bit(p, r, c, i, j)) s->add_element(val(i, j), j + 1); } }
  return s;
}

// ------------------------------------------------------------------ sparse build / transpose / replicate
static void sparse_part(int r, int c, long long p) {
  int nz = 0; for (int t = 0; t < r * c; t++) if ((p >> t) & 1) nz++;
  for (int desc = 0; desc < 2; desc++) {
    std::unique_ptr<SM> s(build(r, c, p, desc, pcv));
    C("transitions");
    std::vector<Row> exp;
    for (int i = 0; i < r; i++) { Row rr; for (int jj = 0; jj < c; jj++) { int j = desc ? c - 1 - jj : jj; if (bit(p, r, c, i, j)) rr.push_back({j + 1, pcv(i, j)}); } exp.push_back(rr); }
    if (s->rows() != r || s->columns() != c || s->nonzeroes() != nz || !s->check()) bad("sparse", "SparseMatrix::build", "", "rows/columns/nonzeroes/check wrong");
    if (rows_of(s.get()) != exp) bad("sparse", "SparseMatrix::build", "", "entries " + rowstr(rows_of(s.get())) + " expected " + rowstr(exp));
    for (int i = 1; i <= r; i++) if (s->size(i) != (int)exp[i - 1].size()) bad("sparse", "SparseMatrix::size", "", "row size");
    // transpose: row j lists the original rows in ascending order
    std::unique_ptr<SM> t(s->transpose());
    C("transitions");
    std::vector<Row> expt; for (int j = 0; j < c; j++) { Row rr; for (int i = 0; i < r; i++) if (bit(p, r, c, i, j)) rr.push_back({i + 1, pcv(i, j)}); expt.push_back(rr); }
    if (t->rows() != c || t->columns() != r || t->nonzeroes() != nz || !t->check()) bad("sparse", "SparseMatrix::transpose", "", "shape of the transpose wrong");
    else if (rows_of(t.get()) != expt) bad("sparse", "SparseMatrix::transpose", "", "entries " + rowstr(rows_of(t.get())) + " expected " + rowstr(expt));
    std::unique_ptr<SM> tt(t->transpose());
    C("transitions");
    std::vector<Row> expa; for (int i = 0; i < r; i++) { Row rr; for (int j = 0; j < c; j++) if (bit(p, r, c, i, j)) rr.push_back({j + 1, pcv(i, j)}); expa.push_back(rr); }
    if (tt->rows() != r || tt->columns() != c || rows_of(tt.get()) != expa) bad("sparse", "SparseMatrix::transpose", "twice", "transpose of the transpose differs from the matrix");
    std::unique_ptr<SM> rp(s->replicate());
    C("transitions");
    if (rp->rows() != r || rp->columns() != c || rp->nonzeroes() != nz || rows_of(rp.get()) != exp) bad("sparse", "SparseMatrix::replicate", "", "replica differs");
    std::unique_ptr<SM> rp2(s->replicate(nz + 3, r, c));
    C("transitions");
    if (rp2->rows() != r || rp2->columns() != c || rp2->nonzeroes() != nz || rows_of(rp2.get()) != exp) bad("sparse", "SparseMatrix::replicate(n,r,c)", "", "replica with a larger buffer differs");
    // a replica can be extended: one more element in the last row
    if (r > 0 && c > 0) { rp2->add_element(99, 1); std::vector<Row> e2 = exp; e2[r - 1].push_back({1, 99}); C("transitions"); if (rp2->nonzeroes() != nz + 1 || rows_of(rp2.get()) != e2) bad("sparse", "SparseMatrix::add_element", "after-replicate", "appending to a replica"); }
  }
}

struct UF { std::vector<int> p; UF(int n) : p(n) { for (int i = 0; i < n; i++) p[i] = i; } int f(int x) { while (p[x] != x) x = p[x] = p[p[x]]; return x; } void u(int a, int b) { p[f(a)] = f(b); } };

// ------------------------------------------------------------------ graph, ordering, envelope
// scale dimension: the design matrix is famv * SCALES[si]; the caller of cholDec(tol) scales the tolerance with the normal matrix
// (tol = sqrt(eps) * scale^2; scale 1 uses the default argument).  The reference stays the exact integer problem: pivots, solutions
// and inverse elements of the library are brought back to unit scale (d / s^2, x * s^2, Z * s^2) before they are compared.
static const double SCALES[4] = {1.0, 1e3, 1e-2, 1e-5};
static const char* SCALE_NAME[4] = {"1", "1e3", "1e-2", "1e-5"};
static void envelope_part(int r, int c, long long p, int fam, int si, const SG& G, const RCM& ord) {
  const double sc = SCALES[si]; const LD s2 = (LD)sc * (LD)sc;
  const double ctol = 1.4901161193847656e-08 * sc * sc;     // sqrt(DBL_EPSILON) * scale^2
  auto factor = [&](Env& e) { if (si == 0) e.cholDec(); else e.cholDec(ctol); };
  std::unique_ptr<SM> s(build(r, c, p, false, [fam, sc](int i, int j) { return famv(fam, i, j) * sc; }));
  std::vector<int> perm(c + 1); for (int k = 1; k <= c; k++) perm[k] = ord.perm(k);
  // permuted design matrix and normal matrix (exact integers)
  IMat Ap(r, c); for (int i = 0; i < r; i++) for (int k = 0; k < c; k++) Ap(i, k) = bit(p, r, c, i, perm[k + 1] - 1) ? (I64)famv(fam, i, perm[k + 1] - 1) : 0;
  LMat N(c, c); for (int a = 0; a < c; a++) for (int b = 0; b < c; b++) { I64 t = 0; for (int i = 0; i < r; i++) t += Ap(i, a) * Ap(i, b); N(a, b) = (LD)t; }
  std::vector<char> dep(c, 0); int nul = 0;
  { int prev = 0; for (int k = 1; k <= c; k++) { IMat S(r, k); for (int i = 0; i < r; i++) for (int j = 0; j < k; j++) S(i, j) = Ap(i, j); int rk = r ? rank(S) : 0; if (rk == prev) { dep[k - 1] = 1; nul++; } prev = rk; } }
  g_cls = std::string(nul ? "singular" : "regular") + "|fam" + std::to_string(fam) + (si ? std::string("|scale") + SCALE_NAME[si] : std::string());
  O("envelope:nullity=" + std::to_string(nul) + (si ? std::string(":scale") + SCALE_NAME[si] : std::string()));
  // entry of the (scaled) normal matrix as the library must hold it: exact for the scales with exact products, else to a few ulp of the row sum
  const LD nmax = std::max<LD>(1, maxabs(N));
  auto isN = [&](double v, int a, int b) { return si <= 1 ? v == (double)(N(a - 1, b - 1) * s2) : fabsl((LD)v - N(a - 1, b - 1) * s2) <= 1e-14L * s2 * nmax; };
  C("transitions");
  Env env(s.get(), &G, &ord);
  if ((int)env.dim() != c) { bad("envelope", "Envelope::set", "", "dim"); return; }
  // set(): every entry of the permuted normal matrix is inside the envelope and stored at its place
  std::vector<int> first(c + 1);
  for (int a = 1; a <= c; a++) {
    first[a] = a - (int)(env.end(a) - env.begin(a));
    if (first[a] < 1) { bad("envelope", "Envelope::set", "", "row " + std::to_string(a) + " longer than its index"); return; }
    for (int b = 1; b <= a; b++) {
      const double* e1 = env.element(a, b); const double* e2 = env.element(b, a);
      if (e1 != e2) { bad("envelope", "Envelope::element", "", "element(i,j) != element(j,i)"); return; }
      bool inside = b >= first[a];
      if (inside != (e1 != nullptr)) { bad("envelope", "Envelope::element", "", "null/non-null does not match begin/end"); return; }
      double v = e1 ? *e1 : 0.0;
      if (!isN(v, a, b)) { bad("envelope", "Envelope::set", "", "entry (" + std::to_string(a) + "," + std::to_string(b) + ") = " + str(v) + " expected " + str((double)(N(a - 1, b - 1) * s2)) + (e1 ? "" : " (outside the envelope)")); return; }
    }
  }
  // copies
  { Env e2(env); Env e3; e3 = env; e3 = e3; C("transitions", 2);
    for (int a = 1; a <= c; a++) for (int b = 1; b <= a; b++) { const double* x = env.element(a, b); const double* y = e2.element(a, b); const double* z = e3.element(a, b);
      if ((x == nullptr) != (y == nullptr) || (x == nullptr) != (z == nullptr) || (x && (*x != *y || *x != *z)) || (x && (x == y || x == z))) { bad("envelope", "Envelope::copy", "", "copy differs from or shares storage with the original"); a = c + 1; break; } } }
  // set() from plain arrays (diagonal, envelope, row lengths)
  { std::vector<double> dg, ev; std::vector<int> bl; for (int a = 1; a <= c; a++) { dg.push_back(env.diagonal(a)); bl.push_back((int)(env.end(a) - env.begin(a))); for (double* x = env.begin(a); x != env.end(a); ++x) ev.push_back(*x); }
    C("transitions");
    Env e4(dg.data(), dg.data() + dg.size(), ev.data(), ev.data() + ev.size(), bl.data(), bl.data() + bl.size());
    bool ok4 = (int)e4.dim() == c;
    for (int a = 1; a <= c && ok4; a++) for (int b = 1; b <= a; b++) { const double* x = env.element(a, b); const double* y = e4.element(a, b); if ((x == nullptr) != (y == nullptr) || (x && *x != *y)) { ok4 = false; break; } }
    if (!ok4) bad("envelope", "Envelope::set(arrays)", "", "envelope built from its own arrays differs"); }
  // reference LDL' with exact knowledge of the dependent columns
  LMat Lr(c, c); std::vector<LD> dr(c, 0);
  for (int a = 0; a < c; a++) {
    Lr(a, a) = 1;
    for (int b = 0; b < a; b++) { LD t = N(a, b); for (int k = 0; k < b; k++) t -= Lr(a, k) * Lr(b, k) * dr[k]; Lr(a, b) = dr[b] != 0 ? t / dr[b] : 0; }
    LD t = N(a, a); for (int k = 0; k < a; k++) t -= Lr(a, k) * Lr(a, k) * dr[k];
    dr[a] = dep[a] ? 0 : t;
  }
  C("transitions");
  Env ch(env); factor(ch);
  if ((int)ch.defect() != nul) bad("envelope", "Envelope::defect", "", "defect " + std::to_string(ch.defect()) + " exact nullity " + std::to_string(nul) + " perm " + join(std::vector<int>(perm.begin() + 1, perm.end())));
  // copies stay independent when one of them is factored in place, and a copy of a factor is a factor
  { Env c2(env); factor(c2); Env c3; c3 = env; factor(c3); Env c4(ch); Env c5; c5 = ch; C("transitions", 4);
    bool same = true, untouched = true;
    for (int a = 1; a <= c; a++) for (int b = 1; b <= a; b++) {
      const double* e0 = env.element(a, b); const double* x = ch.element(a, b);
      if (!isN(e0 ? *e0 : 0.0, a, b)) untouched = false;
      for (const Env* o : {&c2, &c3, &c4, &c5}) { const double* y = o->element(a, b); if ((x == nullptr) != (y == nullptr) || (x && *x != *y)) same = false; }
    }
    if (!untouched) bad("envelope", "Envelope::copy", "source-changed-by-cholDec-of-copy", "factoring a copy changed the original");
    if (!same) bad("envelope", "Envelope::copy", "factor-of-copy-differs", "cholDec of a copy / copy of the factor differs from the factor");
    if (c2.defect() != ch.defect() || c3.defect() != ch.defect()) bad("envelope", "Envelope::copy", "defect-of-factored-copy", "defect differs");
    if (c4.defect() != ch.defect() || c5.defect() != ch.defect()) bad("envelope", "Envelope::copy", "defect-not-copied", "copy of a factor with defect " + std::to_string(ch.defect()) + " reports defect " + std::to_string(c4.defect()) + " / " + std::to_string(c5.defect())); }
  LD scale = std::max<LD>(1, maxabs(N));
  for (int a = 1; a <= c; a++) {
    double d = ch.diagonal(a);
    if ((d == 0) != (dep[a - 1] != 0)) { bad("envelope", "Envelope::cholDec", "zero-pivot-position", "pivot " + std::to_string(a) + " = " + str(d) + " but the column is " + (dep[a - 1] ? "dependent on" : "independent of") + " its predecessors"); return; }
    if (fabsl((LD)d / s2 - dr[a - 1]) > 1e-11 * scale) { bad("envelope", "Envelope::cholDec", "D", "pivot " + std::to_string(a) + " = " + str(d) + " reference " + str((double)(dr[a - 1] * s2))); return; }
    for (int b = 1; b < a; b++) { const double* e = ch.element(a, b); double l = e ? *e : 0.0; if (fabsl(l - Lr(a - 1, b - 1)) > 1e-11 * scale) { bad("envelope", "Envelope::cholDec", "L", "L(" + std::to_string(a) + "," + std::to_string(b) + ") = " + str(l) + " reference " + str((double)Lr(a - 1, b - 1))); return; } }
  }
  // partial solves
  for (int start = 1; start <= c; start++) for (int stop = start; stop <= c; stop++) {
    int n = stop - start + 1;
    std::vector<double> b0(n); for (int k = 0; k < n; k++) b0[k] = ((k + start) % 2 ? -1.0 : 1.0) * (k + start + 1);
    { std::unique_ptr<double[]> rhs(new double[n]); for (int k = 0; k < n; k++) rhs[k] = b0[k];
      C("transitions"); ch.lowerSolve(start, stop, rhs.get());
      std::vector<LD> ref(b0.begin(), b0.end());
      for (int row = start + 1; row <= stop; row++) { LD t = 0; for (int q = std::max(start, first[row]); q < row; q++) t += Lr(row - 1, q - 1) * ref[q - start]; ref[row - start] -= t; }
      for (int k = 0; k < n; k++) if (fabsl(ref[k] - rhs[k]) > 1e-10 * std::max<LD>(1, fabsl(ref[k]))) { bad("envelope", "Envelope::lowerSolve", "", "range " + std::to_string(start) + ".." + std::to_string(stop) + " component " + std::to_string(k + 1) + " = " + str(rhs[k]) + " reference " + str((double)ref[k])); break; } }
    { std::unique_ptr<double[]> rhs(new double[n]); for (int k = 0; k < n; k++) rhs[k] = b0[k];
      C("transitions"); ch.diagonalSolve(start, stop, rhs.get());
      for (int k = 0; k < n; k++) { LD ref = dr[start - 1 + k] != 0 ? b0[k] / dr[start - 1 + k] : 0; if (fabsl(ref - rhs[k] * s2) > 1e-10 * std::max<LD>(1, fabsl(ref))) { bad("envelope", "Envelope::diagonalSolve", "", "range " + std::to_string(start) + ".." + std::to_string(stop)); break; } } }
    if (start == 1) { std::unique_ptr<double[]> rhs(new double[n]); for (int k = 0; k < n; k++) rhs[k] = b0[k];
      C("transitions"); ch.upperSolve(1, stop, rhs.get());
      std::vector<LD> ref(b0.begin(), b0.end());
      for (int row = stop; row >= 1; row--) { LD x = ref[row - 1]; for (int q = first[row]; q < row; q++) ref[q - 1] -= x * Lr(row - 1, q - 1); }
      for (int k = 0; k < n; k++) if (fabsl(ref[k] - rhs[k]) > 1e-10 * std::max<LD>(1, fabsl(ref[k]))) { bad("envelope", "Envelope::upperSolve", "", "range 1.." + std::to_string(stop)); break; } }
  }
  // full solve and inverse against the dense g-inverse (inverse of the independent principal submatrix, zero elsewhere)
  std::vector<int> I; for (int a = 0; a < c; a++) if (!dep[a]) I.push_back(a);
  LMat NI((int)I.size(), (int)I.size()), GI; for (size_t a = 0; a < I.size(); a++) for (size_t b = 0; b < I.size(); b++) NI((int)a, (int)b) = N(I[a], I[b]);
  if (!inverse(NI, GI)) { bad("envelope", "harness", "reference-inverse-failed", "independent principal submatrix not invertible"); return; }
  LMat Gm(c, c); for (size_t a = 0; a < I.size(); a++) for (size_t b = 0; b < I.size(); b++) Gm(I[a], I[b]) = GI((int)a, (int)b);
  LD kappa = std::max<LD>(1, maxabs(NI) * maxabs(GI) * c); LD tol = std::max<LD>(1e-11L, 1e-13L * kappa) * std::max<LD>(1, maxabs(Gm));
  for (int bi = 0; bi <= c; bi++) {
    std::vector<double> b(c, 0.0); if (bi < c) b[bi] = 1; else for (int k = 0; k < c; k++) b[k] = (k % 2 ? -1.0 : 1.0) * (k + 2);
    std::unique_ptr<double[]> rhs(new double[c]); for (int k = 0; k < c; k++) rhs[k] = b[k];
    C("transitions"); ch.solve(rhs.get(), c);
    for (int a = 0; a < c; a++) { LD ref = 0; for (int k = 0; k < c; k++) ref += Gm(a, k) * b[k]; if (!(fabsl(ref - rhs[a] * s2) <= tol * (c + 2))) { bad("envelope", "Envelope::solve", "", "x(" + std::to_string(a + 1) + ") = " + str(rhs[a]) + " reference " + str((double)(ref / s2)) + " perm " + join(std::vector<int>(perm.begin() + 1, perm.end()))); bi = c + 1; break; } }
  }
  for (int self = 0; self < 2; self++) {
    C("transitions");
    Env Z; if (self) { Z = ch; Z.inverse(Z); } else Z.inverse(ch);
    if ((int)Z.dim() != c) { bad("envelope", "Envelope::inverse", "", "dim"); break; }
    bool okz = true;
    for (int a = 1; a <= c && okz; a++) for (int b = 1; b <= a; b++) {
      const double* z = Z.element(a, b); const double* l = ch.element(a, b);
      if ((z == nullptr) != (l == nullptr)) { bad("envelope", "Envelope::inverse", "", "envelope of the inverse differs from the envelope of the factor"); okz = false; break; }
      if (z && !(fabsl(*z * s2 - Gm(a - 1, b - 1)) <= tol)) { bad("envelope", std::string("Envelope::inverse") + (self ? "(self)" : ""), "", "Z(" + std::to_string(a) + "," + std::to_string(b) + ") = " + str(*z) + " reference " + str((double)(Gm(a - 1, b - 1) / s2)) + " (cholDec tolerance " + (si ? str(ctol) : std::string("default")) + ")" + " perm " + join(std::vector<int>(perm.begin() + 1, perm.end()))); okz = false; break; }
    }
  }
}

static void pattern_case(int r, int c, long long p) {
  C("states"); C("evaluations"); g_cls = "";
  sparse_part(r, c, p);
  std::unique_ptr<SM> s(build(r, c, p, true, pcv));      // the graph must not depend on the order inside a row
  C("transitions");
  SG G(s.get());
  // reference column graph
  std::vector<std::set<int>> adj(c); UF uf(c);
  for (int i = 0; i < r; i++) for (int a = 0; a < c; a++) for (int b = 0; b < c; b++) if (a != b && bit(p, r, c, i, a) && bit(p, r, c, i, b)) { adj[a].insert(b); uf.u(a, b); }
  int comps = 0; for (int a = 0; a < c; a++) if (uf.f(a) == a) comps++;
  if (G.nodes() != c) bad("graph", "SparseMatrixGraph", "", "nodes");
  else for (int a = 1; a <= c; a++) {
    std::vector<int> got(G.begin(a), G.end(a)), exp; for (int b : adj[a - 1]) exp.push_back(b + 1);
    if (got != exp || G.degree(a) != (int)exp.size()) { bad("graph", "SparseMatrixGraph", "adjacency", "node " + std::to_string(a) + " neighbours {" + join(got) + "} expected {" + join(exp) + "}"); break; }
  }
  C("transitions");
  bool con = G.connected();
  O(std::string("connected:") + (con ? "yes" : "no") + ":components=" + std::to_string(std::min(comps, 3)));
  if (con != (comps == 1)) bad("graph", "SparseMatrixGraph::connected", comps == 1 ? "connected-reported-split" : "split-reported-connected", "connected() = " + std::to_string(con) + " but union-find finds " + std::to_string(comps) + " component(s)");
  C("transitions");
  RCM ord(&G);
  bool okp = ord.nodes() == c && ord.perm.dim() >= c + 1 && ord.invp.dim() >= c + 1;
  std::vector<int> seen(c + 1, 0);
  if (okp) for (int k = 1; k <= c; k++) { int q = ord.perm(k); if (q < 1 || q > c || seen[q]++) { okp = false; break; } if (ord.invp(q) != k) { okp = false; break; } }
  if (!okp) { std::vector<int> pp, ip; for (int k = 1; k <= c && k < ord.perm.dim(); k++) { pp.push_back(ord.perm(k)); ip.push_back(ord.invp(k)); } bad("ordering", "ReverseCuthillMcKee", "", "perm {" + join(pp) + "} invp {" + join(ip) + "} is not a permutation with its inverse"); return; }
  for (int si = 0; si < 4; si++) for (int fam = 0; fam < 3; fam++) envelope_part(r, c, p, fam, si, G, ord);
  if (ctx().samples < 3 && r == 4 && c == 4 && comps == 2 && p % 4099 == 7) X("pattern " + patstr(r, c, p) + " components 2 perm " + [&] { std::vector<int> pp; for (int k = 1; k <= c; k++) pp.push_back(ord.perm(k)); return join(pp); }());
}

// one ordering object given a second graph by reset(): every ordered pair of 2-row patterns with 1..3 columns
// (the second graph smaller, equal or bigger): the object must answer as a fresh one built on the second graph
static std::vector<std::pair<int, long long>>& reuse_pats() { static std::vector<std::pair<int, long long>> P; if (P.empty()) for (int c = 1; c <= 3; c++) for (long long p = 0; p < (1LL << (2 * c)); p++) P.push_back({c, p}); return P; }
static std::string reuse_fmt(long long idx) { auto& P = reuse_pats(); long long n = (long long)P.size(); return "ordering object: first " + patstr(2, P[idx / n].first, P[idx / n].second) + " then reset to " + patstr(2, P[idx % n].first, P[idx % n].second); }
static void reuse_case(long long idx) {
  auto& P = reuse_pats(); long long n = (long long)P.size();
  int c1 = P[idx / n].first, c2 = P[idx % n].first; long long p1 = P[idx / n].second, p2 = P[idx % n].second;
  C("states"); C("evaluations"); C("transitions"); g_cls = c2 < c1 ? "second-smaller" : (c2 == c1 ? "second-equal" : "second-bigger");
  std::unique_ptr<SM> s1(build(2, c1, p1, false, pcv)), s2(build(2, c2, p2, false, pcv));
  SG G1(s1.get()), G2(s2.get());
  RCM ord(&G1); ord.reset(&G2);
  RCM ref(&G2);
  O("ordering-reuse:" + g_cls);
  bool ok = ord.nodes() == c2 && ord.perm.dim() >= c2 + 1 && ord.invp.dim() >= c2 + 1;
  if (ok) for (int k = 1; k <= c2; k++) if (ord.perm(k) != ref.perm(k) || ord.invp(k) != ref.invp(k) || ord.perm(k) < 1 || ord.perm(k) > c2 || ord.invp(ord.perm(k)) != k) { ok = false; break; }
  if (!ok) { std::vector<int> pp, ip, rp, ri; for (int k = 1; k <= c2 && k < ord.perm.dim(); k++) { pp.push_back(ord.perm(k)); ip.push_back(ord.invp(k)); } for (int k = 1; k <= c2; k++) { rp.push_back(ref.perm(k)); ri.push_back(ref.invp(k)); }
    bad("ordering", "ReverseCuthillMcKee::reset", g_cls, "perm {" + join(pp) + "} invp {" + join(ip) + "}; a fresh object gives perm {" + join(rp) + "} invp {" + join(ri) + "}"); }
}

// degenerate shapes: no rows and/or no columns
static void dim0_case(long long idx) {
  int r = (int)(idx / 3) % 3, c = (int)(idx % 3), step = (int)(idx / 9);
  if (r > 0 && c > 0) return;
  C("states"); C("evaluations"); C("transitions"); g_cls = "dim0";
  long long p = (1LL << (r * c)) - 1;
  std::unique_ptr<SM> s(build(r, c, p, false, pcv));
  if (step == 0) { std::unique_ptr<SM> t(s->transpose()); std::unique_ptr<SM> rp(s->replicate()); if (t->rows() != c || t->columns() != r || rp->rows() != r) bad("sparse", "SparseMatrix", "dim0", "shape"); O("dim0:transpose/replicate:returned"); return; }
  SG G(s.get());
  if (step == 1) { bool con = G.connected(); O(std::string("dim0:connected:") + (con ? "yes" : "no")); return; }
  RCM ord(&G);
  if (step == 2) { O("dim0:ordering:returned"); return; }
  Env env(s.get(), &G, &ord); env.cholDec(); Env Z; Z.inverse(env); O("dim0:envelope:returned");
  if ((int)env.dim() != c || (int)env.defect() != c) bad("envelope", "Envelope", "dim0", "dim " + std::to_string(env.dim()) + " defect " + std::to_string(env.defect()) + " for a matrix with " + std::to_string(c) + " empty columns");
}
static std::string dim0_fmt(long long idx) { static const char* st[4] = {"transpose/replicate", "graph+connected", "ordering", "envelope"}; return std::string(st[idx / 9]) + " of a " + std::to_string((idx / 3) % 3) + "x" + std::to_string(idx % 3) + " matrix"; }

static void svector_case(long long n) {
  C("states"); C("evaluations"); C("transitions", 2);
  GNU_gama::SparseVector<double, int> v; GNU_gama::SparseVector<double, int> w((int)n, 7);
  for (int k = 0; k < n; k++) { v.add(k + 1, 10.0 * k + 1); w.add(2 * k + 1, -1.0 * k); }
  bool ok = v.nonzeroes() == n && w.nonzeroes() == n && w.dim() == 7 && (v.end() - v.begin()) == n && (v.iend() - v.ibegin()) == n;
  for (int k = 0; k < n && ok; k++) ok = v.begin()[k] == 10.0 * k + 1 && v.ibegin()[k] == k + 1 && w.begin()[k] == -1.0 * k && w.ibegin()[k] == 2 * k + 1;
  v.reset(); if (v.nonzeroes() != 0) ok = false;
  if (!ok) bad("sparse", "SparseVector", "", "contents after " + std::to_string(n) + " insertions");
  GNU_gama::IntegerList<int> l((int)n); int t = 0; for (auto it = l.begin(); it != l.end(); ++it) *it = t++;
  for (int k = 0; k < n; k++) if (l(k) != k) ok = false;
  l.reset((int)n + 2); l.set_zero(); if (l.dim() != n + 2) ok = false; for (int k = 0; k < n + 2; k++) if (l(k) != 0) ok = false;
  l.reset(); if (l.dim() != 0) ok = false;
  if (!ok) bad("sparse", "IntegerList", "", "contents / dim");
}

// ------------------------------------------------------------------ block diagonal matrices
struct Layout { std::vector<int> dim, width; int fam; std::vector<int> badblock; int badtype; };
static double cval(int fam, int gi, int gj) {   // diagonally dominant => positive definite for every band width
  int d = abs(gj - gi); if (d == 0) return 4.0 + 0.25 * (gi % 3);
  double v = 0.8 / d; if (fam == 1 && ((gi + gj) & 1)) v = -v; return v;
}
static std::string laystr(const Layout& l) {
  std::string s = "blocks "; for (size_t k = 0; k < l.dim.size(); k++) { if (k) s += ","; s += std::to_string(l.dim[k]) + ":" + std::to_string(l.width[k]); }
  s += " fam " + std::to_string(l.fam); if (!l.badblock.empty()) s += " bad {" + join(l.badblock) + "} type " + std::to_string(l.badtype);
  return s;
}
static void gen_layouts(int nmax, bool with_bad, std::vector<Layout>& out) {
  for (int n = 1; n <= nmax; n++) {
    std::vector<int> dims;
    std::function<void(int)> comp = [&](int left) {
      if (left == 0) {
        std::vector<int> w(dims.size(), 0);
        std::function<void(size_t)> wid = [&](size_t k) {
          if (k == dims.size()) {
            for (int fam = 0; fam < 2; fam++) {
              Layout l; l.dim = dims; l.width = w; l.fam = fam; l.badtype = 0; out.push_back(l);
              if (!with_bad) continue;
              int B = (int)dims.size();
              for (int t = 0; t < 3; t++) {
                for (int b = 1; b <= B; b++) { Layout x = l; x.badblock = {b}; x.badtype = t; out.push_back(x); }
                if (B >= 2) { Layout x = l; x.badblock = {B, (B + 1) / 2}; x.badtype = t; out.push_back(x); }
              }
            }
            return;
          }
          for (int x = 0; x <= dims[k] - 1; x++) { w[k] = x; wid(k + 1); }
        };
        wid(0); return;
      }
      for (int d = 1; d <= left; d++) { dims.push_back(d); comp(left - d); dims.pop_back(); }
    };
    comp(n);
  }
}
// dense blocks of a layout (with the non positive definite modifications)
static std::vector<LMat> dense_blocks(const Layout& l) {
  std::vector<LMat> Bk; int r0 = 0;
  for (size_t k = 0; k < l.dim.size(); k++) {
    int D = l.dim[k], W = l.width[k]; LMat M(D, D);
    for (int i = 0; i < D; i++) for (int j = i; j < D && j <= i + W; j++) { double v = cval(l.fam, r0 + i, r0 + j); M(i, j) = v; M(j, i) = v; }
    if (std::find(l.badblock.begin(), l.badblock.end(), (int)k + 1) != l.badblock.end()) {
      if (l.badtype == 0) M(0, 0) = 0;                                      // zero first pivot
      else if (l.badtype == 1) M(D - 1, D - 1) = -1;                          // negative last pivot
      else { if (W > 0 && D > 1) { M(0, 1) = 10; M(1, 0) = 10; } else M(D / 2, D / 2) = 0; }   // indefinite through an off-diagonal element
    }
    Bk.push_back(M); r0 += D;
  }
  return Bk;
}
static BD* make_bd(const Layout& l, const std::vector<LMat>& Bk) {
  int fl = 0; for (size_t k = 0; k < l.dim.size(); k++) { int D = l.dim[k], W = l.width[k]; fl += D * (W + 1) - W * (W + 1) / 2; }
  BD* bd = new BD((int)l.dim.size(), fl);
  for (size_t k = 0; k < l.dim.size(); k++) { int D = l.dim[k], W = l.width[k]; std::vector<double> mem; for (int i = 0; i < D; i++) for (int j = i; j < D && j <= i + W; j++) mem.push_back((double)Bk[k](i, j)); bd->add_block(D, W, mem.data()); }
  return bd;
}
// upper Cholesky factor A = U'U in long double; false if not positive definite
static bool ref_chol(const LMat& A, LMat& U) {
  int n = A.r; U = LMat(n, n);
  for (int i = 0; i < n; i++) { LD t = A(i, i); for (int k = 0; k < i; k++) t -= U(k, i) * U(k, i); if (!(t > 1e-12L)) return false; U(i, i) = sqrtl(t); for (int j = i + 1; j < n; j++) { LD s = A(i, j); for (int k = 0; k < i; k++) s -= U(k, i) * U(k, j); U(i, j) = s / U(i, i); } }
  return true;
}
static std::vector<Layout>& bd_layouts() { static std::vector<Layout> L; if (L.empty()) gen_layouts(5, true, L); return L; }
static void bd_case(long long idx) {
  const Layout& l = bd_layouts()[idx];
  C("states"); C("evaluations");
  bool corr = false; for (int w : l.width) if (w) corr = true;
  g_cls = std::string(l.badblock.empty() ? "pd" : "non-pd") + (corr ? "|banded" : "|diagonal");
  std::vector<LMat> Bk = dense_blocks(l);
  std::unique_ptr<BD> bd(make_bd(l, Bk));
  int B = (int)l.dim.size(), n = 0, nz = 0; for (int k = 0; k < B; k++) { n += l.dim[k]; nz += l.dim[k] * (l.width[k] + 1) - l.width[k] * (l.width[k] + 1) / 2; }
  C("transitions");
  bool ok = bd->blocks() == B && bd->dim() == n && bd->nonzeroes() == nz;
  for (int k = 1; k <= B && ok; k++) ok = bd->dim(k) == l.dim[k - 1] && bd->width(k) == l.width[k - 1] && (bd->end(k) - bd->begin(k)) == l.dim[k - 1] * (l.width[k - 1] + 1) - l.width[k - 1] * (l.width[k - 1] + 1) / 2;
  if (!ok) { bad("blockdiagonal", "BlockDiagonal::add_block", "", "blocks/dim/nonzeroes/begin/end wrong"); return; }
  std::unique_ptr<BD> rep(bd->replicate());
  C("transitions");
  bool same = rep->blocks() == B && rep->dim() == n && rep->nonzeroes() == nz;
  for (int k = 1; k <= B && same; k++) { same = rep->dim(k) == bd->dim(k) && rep->width(k) == bd->width(k) && (rep->end(k) - rep->begin(k)) == (bd->end(k) - bd->begin(k)) && rep->begin(k) != bd->begin(k); if (same) for (const double *x = bd->begin(k), *y = rep->begin(k); x != bd->end(k); ++x, ++y) if (*x != *y) same = false; }
  if (!same) bad("blockdiagonal", "BlockDiagonal::replicate", "", "replica differs");
  // UpperBlockDiagonal rows
  {
    UBD up(bd.get()); C("transitions");
    if (up.dim() != n || up.nonzeroes() != nz) bad("blockdiagonal", "UpperBlockDiagonal", "", "dim/nonzeroes");
    int gr = 0; bool oku = true;
    for (int k = 0; k < B && oku; k++) for (int i = 0; i < l.dim[k] && oku; i++) { gr++; int len = std::min(l.width[k], l.dim[k] - 1 - i) + 1; const double* b = up.begin(gr); const double* e = up.end(gr); if (e - b != len) { oku = false; break; } for (int j = 0; j < len; j++) if (b[j] != (double)Bk[k](i, i + j)) oku = false; }
    if (!oku) bad("blockdiagonal", "UpperBlockDiagonal", "rows", "row " + std::to_string(gr) + " of the upper triangle differs");
  }
  // Envelope(BlockDiagonal): dense equality, LDL' of a positive definite matrix
  {
    Env env(*bd); C("transitions");
    LMat Cd(n, n); int r0 = 0; for (int k = 0; k < B; k++) { for (int i = 0; i < l.dim[k]; i++) for (int j = 0; j < l.dim[k]; j++) Cd(r0 + i, r0 + j) = Bk[k](i, j); r0 += l.dim[k]; }
    bool oke = (int)env.dim() == n;
    for (int a = 1; a <= n && oke; a++) for (int b = 1; b <= a; b++) { const double* e = env.element(a, b); double v = e ? *e : 0.0; if (v != (double)Cd(a - 1, b - 1)) { oke = false; break; } }
    int maxw = 0; for (int w : l.width) maxw = std::max(maxw, w);
    if (!oke) bad("envelope", "Envelope::set(BlockDiagonal)", maxw >= 2 ? "band>=2" : "band<=1", "dense form differs for " + laystr(l));
    else {
      GNU_gama::SymMat<double> S = GNU_gama::toSymMat(env); for (int a = 1; a <= n; a++) for (int b = 1; b <= a; b++) if (S(a, b) != (double)Cd(a - 1, b - 1)) { bad("envelope", "toSymMat", "", "differs"); a = n + 1; break; }
      if (l.badblock.empty()) {
        Env ch(env); ch.cholDec(); C("transitions");
        LMat Lm(n, n), Dm(n, n); for (int a = 1; a <= n; a++) { Lm(a - 1, a - 1) = 1; Dm(a - 1, a - 1) = ch.diagonal(a); for (int b = 1; b < a; b++) { const double* e = ch.element(a, b); Lm(a - 1, b - 1) = e ? *e : 0; } }
        LMat P = mul(mul(Lm, Dm), tr(Lm)); LD e = 0; for (size_t t = 0; t < P.a.size(); t++) e = std::max(e, fabsl(P.a[t] - Cd.a[t]));
        if (ch.defect() != 0 || !(e <= 1e-12)) bad("envelope", "Envelope::cholDec", "covariance", "defect " + std::to_string(ch.defect()) + " max |LDL'-C| " + str((double)e));
      }
    }
  }
  // Envelope(BlockDiagonal) of the positive definite layouts at four scales of the matrix (scale^2 of SCALES: 1, 1e6, 1e-4, 1e-10),
  // cholDec with the tolerance scaled by the caller: factor, defect, solve and inverse against the dense long double results
  if (l.badblock.empty()) for (int si = 0; si < 4; si++) {
    const double t = SCALES[si] * SCALES[si]; const double ctol = 1.4901161193847656e-08 * t;
    std::vector<LMat> Bs = Bk; for (auto& M : Bs) for (auto& v : M.a) v = (LD)((double)v * t);
    std::unique_ptr<BD> bs(make_bd(l, Bs));
    LMat Cs(n, n); { int r0 = 0; for (int k = 0; k < B; k++) { for (int i = 0; i < l.dim[k]; i++) for (int j = 0; j < l.dim[k]; j++) Cs(r0 + i, r0 + j) = Bs[k](i, j); r0 += l.dim[k]; } }
    LMat Ci; if (!inverse(Cs, Ci)) { bad("envelope", "harness", "reference-inverse-failed", "layout not invertible: " + laystr(l)); break; }
    const std::string cls = g_cls + (si ? std::string("|scale") + SCALE_NAME[si] + "^2" : std::string());
    Env ch(*bs); C("transitions", 2);
    if (si == 0) ch.cholDec(); else ch.cholDec(ctol);
    O("envelope(BlockDiagonal):defect=" + std::to_string(ch.defect()) + (si ? std::string(":scale") + SCALE_NAME[si] + "^2" : std::string()));
    if ((int)ch.dim() != n || ch.defect() != 0) { bad("envelope", "Envelope::cholDec", "covariance|" + cls, "dim " + std::to_string(ch.dim()) + " defect " + std::to_string(ch.defect()) + " for " + laystr(l)); continue; }
    LMat Lm(n, n), Dm(n, n); for (int a = 1; a <= n; a++) { Lm(a - 1, a - 1) = 1; Dm(a - 1, a - 1) = ch.diagonal(a); for (int b = 1; b < a; b++) { const double* e = ch.element(a, b); Lm(a - 1, b - 1) = e ? *e : 0; } }
    LMat P = mul(mul(Lm, Dm), tr(Lm)); LD e = 0; for (size_t q = 0; q < P.a.size(); q++) e = std::max(e, fabsl(P.a[q] - Cs.a[q]));
    if (!(e <= 1e-12L * maxabs(Cs))) bad("envelope", "Envelope::cholDec", "covariance|" + cls, "max |LDL'-C| " + str((double)e) + " for " + laystr(l));
    const LD itol = 1e-11L * maxabs(Ci);
    for (int bi = 0; bi <= n; bi++) {
      std::vector<double> b(n, 0.0); if (bi < n) b[bi] = 1; else for (int k = 0; k < n; k++) b[k] = (k % 2 ? -1.0 : 1.0) * (k + 2);
      std::unique_ptr<double[]> rhs(new double[n]); for (int k = 0; k < n; k++) rhs[k] = b[k];
      C("transitions"); ch.solve(rhs.get(), n);
      for (int a = 0; a < n; a++) { LD ref = 0; for (int k = 0; k < n; k++) ref += Ci(a, k) * b[k]; if (!(fabsl(ref - rhs[a]) <= itol * (n + 2))) { bad("envelope", "Envelope::solve", "covariance|" + cls, "x(" + std::to_string(a + 1) + ") = " + str(rhs[a]) + " reference " + str((double)ref) + " for " + laystr(l)); bi = n + 1; break; } }
    }
    for (int self = 0; self < 2; self++) {
      C("transitions");
      Env Z; if (self) { Z = ch; Z.inverse(Z); } else Z.inverse(ch);
      bool okz = (int)Z.dim() == n; if (!okz) bad("envelope", "Envelope::inverse", "covariance|" + cls, "dim");
      for (int a = 1; a <= n && okz; a++) for (int b = 1; b <= a; b++) {
        const double* z = Z.element(a, b); const double* f = ch.element(a, b);
        if ((z == nullptr) != (f == nullptr)) { bad("envelope", "Envelope::inverse", "covariance|" + cls, "envelope of the inverse differs from the envelope of the factor"); okz = false; break; }
        if (z && !(fabsl(*z - Ci(a - 1, b - 1)) <= itol)) { bad("envelope", std::string("Envelope::inverse") + (self ? "(self)" : ""), "covariance|" + cls, "Z(" + std::to_string(a) + "," + std::to_string(b) + ") = " + str(*z) + " reference " + str((double)Ci(a - 1, b - 1)) + " (cholDec tolerance " + (si ? str(ctol) : std::string("default")) + ") for " + laystr(l)); okz = false; break; }
      }
    }
  }
  // cholDec: number of the first block that is not positive definite, else the dense factor block by block
  int expect = 0; for (int k = 0; k < B; k++) { LMat U; if (!ref_chol(Bk[k], U)) { expect = k + 1; break; } }
  { int lo = n; for (int b : l.badblock) lo = std::min(lo, b); if ((l.badblock.empty() ? 0 : lo) != expect) { bad("blockdiagonal", "harness", "family", "value family: reference Cholesky says first bad block " + std::to_string(expect) + " for " + laystr(l)); return; } }
  C("transitions");
  int ret = bd->cholDec();
  O("cholDec:returns=" + std::string(ret == 0 ? "0" : (ret == 1 ? "1" : ">1")) + ":" + g_cls);
  if (ret != expect) { bad("blockdiagonal", "BlockDiagonal::cholDec", "return-value", "returned " + std::to_string(ret) + " expected " + std::to_string(expect) + " for " + laystr(l)); return; }
  if (ret == 0) for (int k = 0; k < B; k++) {
    LMat U; ref_chol(Bk[k], U); const double* m = bd->begin(k + 1); int D = l.dim[k], W = l.width[k];
    for (int i = 0; i < D; i++) for (int j = i; j < D && j <= i + W; j++, m++) if (!(fabsl(*m - U(i, j)) <= 1e-12)) { bad("blockdiagonal", "BlockDiagonal::cholDec", "factor", "block " + std::to_string(k + 1) + " U(" + std::to_string(i + 1) + "," + std::to_string(j + 1) + ") = " + str(*m) + " reference " + str((double)U(i, j)) + " for " + laystr(l)); return; }
    if (m != bd->end(k + 1)) bad("blockdiagonal", "BlockDiagonal", "block-extent", "block storage longer than its band");
  }
}

// ------------------------------------------------------------------ Envelope assignment between all pairs of profiles
// A profile of dimension n gives every row a = 1..n a width 0..a-1: n! profiles, all of them for n = 0..ENVA_NMAX (n = 0: the empty object).
// Case = ordered pair (target profile, source profile) x state of the target x state of the source (0 position coded values,
// 1 factored positive definite matrix, 2 factored matrix with a zero first pivot: defect > 0): after `target = source` the target equals
// the source element by element (dim, row widths, diagonal, envelope, defect), shares no storage with it and keeps its values when the
// source is overwritten; a pair of identical profiles additionally runs the self assignment `target = target`.
static int ENVA_NMAX = 5;     // unit env.assign: 5 (both tiers), unit env.assign6: 6 (thorough); separate units so that a case index means the same in both tiers
static const std::vector<std::vector<int>>& enva_profiles() {
  static std::vector<std::vector<int>> PP[2];
  std::vector<std::vector<int>>& P = PP[ENVA_NMAX == 6];
  if (P.empty()) for (int n = 0; n <= ENVA_NMAX; n++) { long long tot = 1; for (int a = 1; a <= n; a++) tot *= a; for (long long k = 0; k < tot; k++) { std::vector<int> w(n); long long q = k; for (int a = 1; a <= n; a++) { w[a - 1] = (int)(q % a); q /= a; } P.push_back(w); } }
  return P;
}
struct EnvSnap { int dim = 0, defect = 0; std::vector<int> len; std::vector<double> diag, env;
  bool operator==(const EnvSnap& o) const { return dim == o.dim && defect == o.defect && len == o.len && diag == o.diag && env == o.env; } };
static EnvSnap enva_snap(const Env& e) { EnvSnap s; s.dim = (int)e.dim(); s.defect = (int)e.defect(); const Env& c = e; for (int a = 1; a <= s.dim; a++) { s.diag.push_back(c.diagonal(a)); double* b = const_cast<Env&>(e).begin(a); double* en = const_cast<Env&>(e).end(a); s.len.push_back((int)(en - b)); for (; b != en; ++b) s.env.push_back(*b); } return s; }
static std::string enva_str(const EnvSnap& s) { std::string t = "dim " + std::to_string(s.dim) + " defect " + std::to_string(s.defect) + " widths [" + join(s.len) + "] diag ["; for (double d : s.diag) t += str(d) + " "; t += "] env ["; for (double d : s.env) t += str(d) + " "; return t + "]"; }
static void enva_make(Env& e, const std::vector<int>& w, int state, double base) {
  int n = (int)w.size(); std::vector<double> dg, ev;
  for (int a = 1; a <= n; a++) {
    dg.push_back(state == 0 ? base + 11 * a : (state == 2 && a == 1 ? 0.0 : base / 100 + 20 + a));
    for (int b = a - w[a - 1]; b < a; b++) ev.push_back(state == 0 ? base + 10 * a + b : (((a + b) & 1) ? -1.0 : 1.0) / (1 + a - b) + base / 1000);
  }
  e.set(dg.data(), dg.data() + dg.size(), ev.data(), ev.data() + ev.size(), w.data(), w.data() + w.size());
  if (state) e.cholDec();
}
static std::string enva_fmt(long long idx) { const auto& P = enva_profiles(); long long np = (long long)P.size(); return "target widths [" + join(P[idx / np]) + "] <- source widths [" + join(P[idx % np]) + "]"; }
static void enva_case(long long idx) {
  const auto& P = enva_profiles(); const long long np = (long long)P.size();
  const std::vector<int>& wt = P[idx / np]; const std::vector<int>& ws = P[idx % np];
  C("states"); C("evaluations");
  int st = 0, ss = 0; for (int x : wt) st += x; for (int x : ws) ss += x;
  const std::string rel = wt == ws ? (wt.empty() ? "empty<-empty" : "equal-profile") : (wt.empty() ? "to-empty" : (ws.empty() ? "from-empty" : (wt.size() != ws.size() ? "different-dim" : (st == ss ? "same-size-different-profile" : "different-size"))));
  g_cls = rel;
  for (int ts = 0; ts < 3; ts++) for (int sst = 0; sst < 3; sst++) {
    Env t; enva_make(t, wt, ts, 500);
    std::unique_ptr<Env> s(new Env); enva_make(*s, ws, sst, 0);
    const EnvSnap want = enva_snap(*s);
    C("transitions"); O("Envelope::operator=:" + rel + (want.defect ? ":defect>0" : ":defect=0"));
    Env& r = (t = *s);
    if (&r != &t) bad("envelope", "Envelope::operator=", "", "does not return *this");
    EnvSnap got = enva_snap(t);
    if (!(got == want)) { bad("envelope", "Envelope::operator=", "", "target after assignment: " + enva_str(got) + "; source: " + enva_str(want)); continue; }
    if (!(enva_snap(*s) == want)) bad("envelope", "Envelope::operator=", rel + "|source-changed", "the source was changed by the assignment");
    bool shared = false; for (int a = 1; a <= want.dim; a++) { if (&t.diagonal(a) == &s->diagonal(a)) shared = true; if (want.len[a - 1] && t.begin(a) == s->begin(a)) shared = true; }
    if (shared) bad("envelope", "Envelope::operator=", rel + "|shares-storage", "target and source share storage");
    // the target is independent of the source: overwrite the source, then destroy it
    for (int a = 1; a <= want.dim; a++) { s->diagonal(a) = -777; for (double* b = s->begin(a); b != s->end(a); ++b) *b = -777; }
    if (!(enva_snap(t) == want)) bad("envelope", "Envelope::operator=", rel + "|follows-source", "writing to the source after the assignment changed the target");
    s.reset();
    if (!(enva_snap(t) == want)) bad("envelope", "Envelope::operator=", rel + "|follows-source", "destroying the source changed the target");
    // element(): null exactly outside the profile
    { const Env& tc = t; bool oke = true; for (int a = 1; a <= want.dim && oke; a++) for (int b = 1; b <= a; b++) { const double* e = tc.element(a, b); bool inside = b >= a - want.len[a - 1]; if ((e != nullptr) != inside) { oke = false; break; } }
      if (!oke) bad("envelope", "Envelope::operator=", rel + "|element", "element() of the assigned object does not follow the source profile"); }
    if (wt == ws) {   // self assignment keeps everything
      Env u; enva_make(u, wt, ts, 500); const EnvSnap before = enva_snap(u); Env& self = u;
      C("transitions"); O("Envelope::operator=:self");
      u = self;
      if (!(enva_snap(u) == before)) bad("envelope", "Envelope::operator=", "self-assignment", "object changed by u = u: " + enva_str(enva_snap(u)) + " before " + enva_str(before));
    }
  }
}

// ------------------------------------------------------------------ homogenization
static std::vector<Layout>& hom_layouts(int m) { static std::map<int, std::vector<Layout>> L; if (!L.count(m)) { std::vector<Layout> all; gen_layouts(m, false, all); for (auto& l : all) { int n = 0; for (int d : l.dim) n += d; if (n == m) L[m].push_back(l); } } return L[m]; }
static const int HOMC = 2;
static long long pow3(int k) { long long r = 1; while (k-- > 0) r *= 3; return r; }
// tern: every cell of the matrix is absent / stored non-zero / stored with the value exactly 0 (an element that is
// structurally present and vanishes: the column must still be registered for the blocks that follow)
static void hom_case(int m, long long idx, bool tern = false) {
  std::vector<Layout>& LL = hom_layouts(m);
  long long np = tern ? pow3(m * HOMC) : 1LL << (m * HOMC); const Layout& l = LL[idx / np]; long long p = idx % np, z = 0;
  if (tern) { long long t = p; p = 0; for (int k = 0; k < m * HOMC; k++, t /= 3) { int d = (int)(t % 3); if (d) p |= 1LL << k; if (d == 2) z |= 1LL << k; } if (!z) return; }
  C("states"); C("evaluations");
  bool corr = false; for (int w : l.width) if (w) corr = true; g_cls = corr ? "banded" : "diagonal"; if (tern) g_cls += "|explicit-zeros";
  std::vector<LMat> Bk = dense_blocks(l);
  auto val = [z](int i, int j) { return ((z >> (i * HOMC + j)) & 1) ? 0.0 : ((i & 1) ? -1.0 : 1.0) * (1 + (2 * i + j) % 3); };
  GNU_gama::AdjInputData data;
  data.set_mat(build(m, HOMC, p, false, val));
  data.set_cov(make_bd(l, Bk));
  GNU_gama::Vec<> rhs(m); for (int i = 0; i < m; i++) rhs(i + 1) = ((i % 2) ? -1.0 : 1.0) * (i + 1);
  data.set_rhs(rhs);
  C("transitions");
  GNU_gama::Homogenization<double, int> hom(&data);
  const SM* h = hom.mat(); const GNU_gama::Vec<>& hb = hom.rhs();
  if (h->rows() != m || h->columns() != HOMC || hb.dim() != m) { bad("homogenization", "Homogenization", "shape", "rows/columns/rhs dim"); return; }
  LMat H(m, HOMC); for (int k = 1; k <= m; k++) { double* b = h->begin(k); double* e = h->end(k); int* n = h->ibegin(k); for (; b != e; ++b, ++n) { if (*n < 1 || *n > HOMC) { bad("homogenization", "Homogenization", "column-index", "index " + std::to_string(*n)); return; } H(k - 1, *n - 1) += *b; } }
  // reference: solve U' X = A block by block
  LMat R(m, HOMC); std::vector<LD> rb(m); int r0 = 0;
  for (size_t k = 0; k < l.dim.size(); k++) {
    LMat U; if (!ref_chol(Bk[k], U)) { bad("homogenization", "harness", "family", "block not positive definite"); return; }
    int D = l.dim[k];
    for (int col = 0; col <= HOMC; col++) for (int i = 0; i < D; i++) {
      LD t = col < HOMC ? (bit(p, m, HOMC, r0 + i, col) ? (LD)val(r0 + i, col) : 0) : (LD)rhs(r0 + i + 1);
      for (int q = 0; q < i; q++) t -= U(q, i) * (col < HOMC ? R(r0 + q, col) : rb[r0 + q]);
      t /= U(i, i); if (col < HOMC) R(r0 + i, col) = t; else rb[r0 + i] = t;
    }
    r0 += D;
  }
  LD e = 0, eb = 0; for (size_t t = 0; t < R.a.size(); t++) e = std::max(e, fabsl(R.a[t] - H.a[t])); for (int i = 0; i < m; i++) eb = std::max(eb, fabsl(rb[i] - hb(i + 1)));
  if (!(e <= 1e-12)) bad("homogenization", "Homogenization::mat", "", "max diff to inv(U')A " + str((double)e) + " for " + laystr(l) + " pattern " + patstr(m, HOMC, p));
  if (!(eb <= 1e-12)) bad("homogenization", "Homogenization::rhs", "", "max diff to inv(U')b " + str((double)eb) + " for " + laystr(l));
}

int main(int argc, char** argv) {
  setup(argc, argv, "C16");
  const bool th = thorough();
  const int RMAX = th ? 5 : 4, CMAX = 4;
  for (int r = RMAX; r >= 1; r--) for (int c = CMAX; c >= 1; c--) {
    Unit u; u.name = "sp." + std::to_string(r) + "x" + std::to_string(c); u.total = 1LL << (r * c);
    u.fmt = [=](long long p) { return "pattern " + patstr(r, c, p); }; u.f = [=](long long p) { pattern_case(r, c, p); };
    run_unit(u, u.total > 100000 ? 512 : (u.total > 4096 ? 128 : (u.total > 256 ? 16 : 1)));
  }
  { Unit u; u.name = "sp.dim0"; u.total = 36; u.maxcrash = 64; u.fmt = dim0_fmt; u.f = dim0_case; run_unit(u, 2); }
  { Unit u; u.name = "sp.reuse"; long long n = (long long)reuse_pats().size(); u.total = n * n; u.fmt = reuse_fmt; u.f = reuse_case; run_unit(u, 16); }
  { Unit u; u.name = "sp.svector"; u.total = 45; u.fmt = [](long long n) { return std::to_string(n) + " insertions"; }; u.f = svector_case; run_unit(u); }
  for (int nm = 5; nm <= 6; nm++) {
    if (nm == 6 && !th && g().want_unit.empty()) continue;     // the larger family runs in the thorough tier only (replayable in both)
    ENVA_NMAX = nm; long long np = (long long)enva_profiles().size(); Unit u; u.name = nm == 6 ? "env.assign6" : "env.assign"; u.total = np * np;
    u.fmt = [=](long long i) { ENVA_NMAX = nm; return enva_fmt(i); }; u.f = [=](long long i) { ENVA_NMAX = nm; enva_case(i); }; run_unit(u, nm == 6 ? 256 : 64);
  }
  { Unit u; u.name = "bd"; u.total = (long long)bd_layouts().size(); u.fmt = [](long long i) { return laystr(bd_layouts()[i]); }; u.f = bd_case; run_unit(u, 32); }
  for (int m = 1; m <= (th ? 5 : 4); m++) {
    Unit u; u.name = "hom." + std::to_string(m); u.total = (long long)hom_layouts(m).size() << (m * HOMC);
    u.fmt = [=](long long i) { long long np = 1LL << (m * HOMC); return laystr(hom_layouts(m)[i / np]) + " pattern " + patstr(m, HOMC, i % np); };
    u.f = [=](long long i) { hom_case(m, i); }; run_unit(u, u.total > 20000 ? 64 : (u.total > 1000 ? 8 : 1));
  }
  for (int m = 2; m <= (th ? 5 : 4); m++) {
    Unit u; u.name = "homz." + std::to_string(m); u.total = (long long)hom_layouts(m).size() * pow3(m * HOMC);
    u.fmt = [=](long long i) { long long np = pow3(m * HOMC); long long t = i % np, p = 0, z = 0; for (int k = 0; k < m * HOMC; k++, t /= 3) { int d = (int)(t % 3); if (d) p |= 1LL << k; if (d == 2) z |= 1LL << k; }
                               return laystr(hom_layouts(m)[i / np]) + " pattern " + patstr(m, HOMC, p) + " stored zeros " + patstr(m, HOMC, z); };
    u.f = [=](long long i) { hom_case(m, i, true); }; run_unit(u, u.total > 20000 ? 64 : (u.total > 1000 ? 8 : 1));
  }
  return done();
}
