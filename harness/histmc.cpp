// histmc: explicit-state BFS (to a fixpoint) over query histories of the real
// solver objects and of GNU_gama::Adj  (property C04).
//
// A state is an operation history; it is rebuilt by replaying the history on a
// fresh object (the objects are not copyable).  States are merged by a
// canonical key read from the private fields of the object.  Invariant on
// every transition: the answer equals the answer of a fresh object that was
// given the same configuration (regularisation subset, algorithm), solved
// once, and asked only this question.
//
// case string:  kind;problem;op,op,op,...      (problem as in adjmc)
#include "vh.h"
#include <gnu_gama/adj/adj.h>
#include <gnu_gama/adj/adj_input_data.h>
#include <matvec/matvec.h>
#include <gnu_gama/local/network.h>
#include <gnu_gama/xml/gkfparser.h>
#include <gnu_gama/local/acord/acord2.h>
#include <gnu_gama/local/test_linearization_visitor.h>
#include <gnu_gama/local/language.h>
#include <fstream>
#include <cstring>
#include <sys/mman.h>
#include <sys/wait.h>
#include <unistd.h>
#include <fcntl.h>
#include <deque>
#include <unordered_map>
#include <unordered_set>
#include <memory>
using namespace vh;
using GNU_gama::Adj;
using GNU_gama::AdjInputData;
typedef GNU_gama::Exception::matvec Exc;
typedef GNU_gama::AdjEnvelope<double, int, Exc> TEnv;
typedef GNU_gama::AdjCholDec<double, int, Exc> TChol;
typedef GNU_gama::AdjGSO<double, int, Exc> TGso;
typedef GNU_gama::AdjSVD<double, int, Exc> TSvd;
typedef GNU_gama::AdjBase<double, int, Exc> TBase;
typedef GNU_gama::AdjBaseFull<double, int, Exc> TFull;

struct Problem {
  int n = 0, m = 0;
  std::vector<std::vector<int>> rows;
  std::vector<double> b;
  std::vector<std::vector<int>> subsets;   // resolving subsets S1, S2 (+ optional non-resolving)
  std::string name;
  int nullity = 0;
  std::string gkf;        // LocalNetwork problems: input text
  std::string gkf_dh0; int dh_index = -1; double dh_from = 0, dh_to = 0;    // the same document with the heights of the first observation that has any removed (independent reference for N_DH)
  bool corr = false;      // Adj problems: one banded covariance block instead of unit weights
};

static AdjInputData* make_input(const Problem& p, const std::vector<int>* S) {
  AdjInputData* d = new AdjInputData;
  int nz = 0; for (auto& r : p.rows) for (int v : r) if (v) nz++;
  GNU_gama::SparseMatrix<>* A = new GNU_gama::SparseMatrix<>(nz, p.m, p.n);
  for (int i = 0; i < p.m; i++) { A->new_row(); for (int j = 0; j < p.n; j++) if (p.rows[i][j]) A->add_element(p.rows[i][j], j + 1); }
  d->set_mat(A);
  GNU_gama::BlockDiagonal<>* bd;
  if (p.corr) {
    // one block of band width 2 (positive definite, diagonally dominant, position coded): the
    // homogenisation of the dense algorithms then fills structural zeros of A
    const int W = std::min(2, p.m - 1);
    std::vector<double> mem;
    for (int i = 0; i < p.m; i++) for (int j = i; j < p.m && j <= i + W; j++)
      mem.push_back(j == i ? 2.0 + 0.25 * (i % 3) : (j == i + 1 ? 0.5 + 0.05 * (i % 2) : 0.2));
    bd = new GNU_gama::BlockDiagonal<>(1, (int)mem.size());
    bd->add_block(p.m, W, mem.data());
  } else {
    bd = new GNU_gama::BlockDiagonal<>(p.m, p.m);
    for (int i = 0; i < p.m; i++) { double one = 1.0; bd->add_block(1, 0, &one); }
  }
  d->set_cov(bd);
  GNU_gama::Vec<> rhs(p.m);
  for (int i = 0; i < p.m; i++) rhs(i + 1) = p.b[i];
  d->set_rhs(rhs);
  if (S) {
    GNU_gama::IntegerList<>* l = new GNU_gama::IntegerList<>((int)S->size());
    for (size_t i = 0; i < S->size(); i++) (*l)((int)i) = (*S)[i];
    d->set_minx(l);
  }
  return d;
}

struct Answer {
  std::string exc; std::vector<double> v; bool isvoid = false;
  std::string show() const { if (isvoid) return "void"; if (!exc.empty()) return "EXC(" + exc + ")"; std::string s = "["; for (size_t i = 0; i < v.size() && i < 8; i++) { if (i) s += ","; s += str(v[i]); } return s + "]"; }
};
static bool same(const Answer& a, const Answer& b) {
  if (a.isvoid || b.isvoid) return a.isvoid == b.isvoid;
  if (a.exc != b.exc) return false;
  if (a.v.size() != b.v.size()) return false;
  for (size_t i = 0; i < a.v.size(); i++) {
    double x = a.v[i], y = b.v[i];
    if (std::isnan(x) || std::isnan(y)) { if (std::isnan(x) != std::isnan(y)) return false; continue; }
    if (std::fabs(x - y) > 1e-8 * std::max(1.0, std::max(std::fabs(x), std::fabs(y)))) return false;
  }
  return true;
}

struct Op { std::string name; int kind; int a = 0, b = 0; bool config = false; int cslot = -1, cval = 0; };
enum { K_UNK, K_RES, K_SSQ, K_DEF, K_QXX, K_QBB, K_Q0XX, K_LINDEP, K_MINX_ALL, K_MINX_S, K_RESET, K_SETALG, K_QBX, K_ADJ_X, K_ADJ_R, K_ADJ_RTR, K_ADJ_SETDATA,
       N_SOLVE, N_RES, N_VWV, N_DOF, N_NULL, N_M0, N_NUNK, N_NOBS, N_QXX, N_QBB, N_STDOBS, N_WCOEF, N_STDRES, N_STUD, N_OBSCTL, N_UNKSTD, N_ELL, N_LINDEP, N_COND, N_CONF, N_HUGE, N_CONN, N_M0POST,
       N_SETALG, N_UPD, N_M0TYPE, N_CONFPR, N_STATUS, N_UNKTAB, N_OBSACT, N_DH, N_CONFBAD };

static uint64_t hvec(const double* p, int n, uint64_t h) { for (int i = 0; i < n; i++) h = hround(p[i], h); return h; }
template <class V> static uint64_t hv(const V& v, uint64_t h = 1469598103934665603ULL) { int n = v.dim(); h = fnv(&n, sizeof n, h); return n ? hvec(v.begin(), n, h) : h; }
template <class M> static uint64_t hm(const M& m, uint64_t h = 1469598103934665603ULL) { int r = m.rows(), c = m.cols(); h = fnv(&r, sizeof r, h); h = fnv(&c, sizeof c, h); return (r && c) ? hvec(m.begin(), r * c, h) : h; }

static std::string key_env(TEnv* e) {
  std::ostringstream o;
  o << "E st" << e->stage << " f" << e->init_q_bb << e->init_residuals << e->init_q0 << e->init_x;
  if (e->stage >= 2) o << " nul" << e->nullity;
  o << " mx";
  if (e->min_x_list) { o << e->min_x_size << ":"; for (int i = 0; i < e->min_x_size; i++) o << e->min_x_list[i] << "."; } else o << "-";
  o << " c[";
  for (size_t i = 0; i < e->indbuf.active; i++) {
    int slot = e->indbuf.buf_[i];
    o << e->indbuf.key_[i] << "@";
    if ((size_t)slot < e->qxxbuf.size()) o << std::hex << (hv(e->qxxbuf[slot]) & 0xffffff) << std::dec;
    o << ",";
  }
  o << "]";
  if (e->stage >= 2 && !e->init_x) o << " x" << std::hex << (hv(e->x) & 0xffffff) << std::dec;
  if (e->stage >= 2 && !e->init_residuals) o << " r" << std::hex << (hv(e->resid) & 0xffffff) << std::dec;
  return o.str();
}
static std::string key_full(TFull* f) {
  std::ostringstream o;
  o << "s" << f->is_solved;
  if (f->is_solved) o << " x" << std::hex << (hv(f->x) & 0xffffff) << " r" << (hv(f->r) & 0xffffff) << std::dec;
  return o.str();
}
static std::string key_chol(TChol* c) {
  std::ostringstream o; o << "C " << key_full(c) << " t" << (int)c->minx_t << " n" << c->minx_n << " i";
  if (c->minx_t == TChol::SUBSET && c->minx_i) for (int i = 0; i < c->minx_n; i++) o << c->minx_i[i] << ".";
  if (c->is_solved) o << " nul" << c->nullity << " q" << std::hex << (hm(c->G) & 0xffffff) << std::dec;
  return o.str();
}
static std::string key_gso(TGso* g) {
  std::ostringstream o; o << "G " << key_full(g) << " all" << g->icgs.min_x_use_all << " mx";
  if (!g->icgs.min_x_use_all) for (int i : g->icgs.minx) o << i << ".";
  o << " ld"; for (int i : g->icgs.lindep) o << i << ".";
  o << " e" << g->icgs.error_icgs2_defect << " rdy" << g->icgs.icgs1_is_ready;
  return o.str();
}
static std::string key_svd(TSvd* s) {
  std::ostringstream o; o << "S " << key_full(s) << " d" << s->svd.decomposed << " mx" << (int)s->svd.minx;
  if (s->svd.minx == 1 && s->svd.list_min) { o << ":"; for (int i = 0; i < s->svd.n_min; i++) o << s->svd.list_min[i] << "."; }
  if (s->svd.decomposed) o << " nul" << s->svd.defect << " V" << std::hex << (hm(s->svd.V_) & 0xffffff) << std::dec;
  return o.str();
}
static std::string key_base(TBase* b) {
  if (!b) return "null";
  if (TEnv* e = dynamic_cast<TEnv*>(b)) return key_env(e);
  if (TChol* c = dynamic_cast<TChol*>(b)) return key_chol(c);
  if (TGso* g = dynamic_cast<TGso*>(b)) return key_gso(g);
  if (TSvd* s = dynamic_cast<TSvd*>(b)) return key_svd(s);
  return "?";
}

// ------------------------------------------------------------------ targets
struct Target {
  const Problem& p;
  int cfg_minx = -2;   // -2 never set, -1 all, k>=0 subset k
  int cfg_alg = 0;
  Target(const Problem& pp) : p(pp) {}
  virtual ~Target() {}
  virtual Answer apply(const Op& op) = 0;
  virtual std::string key() = 0;
  virtual bool would_crash(const Op&) { return false; }
  virtual bool risky(const Op&) { return false; }      // execute in a nested fork (may crash in this state)
  std::string cfg() const { return std::to_string(cfg_minx) + "/" + std::to_string(cfg_alg); }
  virtual std::vector<int> cfgv() const = 0;
};

template <class F> static Answer guarded(F f) {
  Answer a;
  try { f(a); }
  catch (const GNU_gama::Exception::matvec& e) { a.v.clear(); a.exc = "matvec:" + std::to_string(e.error()); }
  catch (const GNU_gama::Exception::base& e) { a.v.clear(); a.exc = std::string("gama:") + e.what(); }
  catch (const std::exception& e) { a.v.clear(); a.exc = std::string("std:") + e.what(); }
  return a;
}

struct SolverTarget : Target {
  int kind;   // 0 env 1 gso 2 svd 3 chol
  std::unique_ptr<TBase> obj;
  AdjInputData* data = nullptr; AdjInputData* data2 = nullptr;
  GNU_gama::Mat<> A, A2; GNU_gama::Vec<> b, b2;
  int cfg_sys = 0;     // 0 = the system of the problem, 1 = a bigger one given to the same object by reset(): one more unknown tied to the last one by one more row
  Problem p2;
  SolverTarget(const Problem& pp, int k) : Target(pp), kind(k) {
    A.reset(p.m, p.n); b.reset(p.m);
    for (int i = 0; i < p.m; i++) { b(i + 1) = p.b[i]; for (int j = 0; j < p.n; j++) A(i + 1, j + 1) = p.rows[i][j]; }
    p2 = p; p2.n = p.n + 1; p2.m = p.m + 1;
    for (auto& r : p2.rows) r.push_back(0);
    { std::vector<int> r(p2.n, 0); r[p.n - 1] = 1; r[p.n] = -1; p2.rows.push_back(r); p2.b.push_back(0.5); }
    A2.reset(p2.m, p2.n); b2.reset(p2.m);
    for (int i = 0; i < p2.m; i++) { b2(i + 1) = p2.b[i]; for (int j = 0; j < p2.n; j++) A2(i + 1, j + 1) = p2.rows[i][j]; }
    if (k == 0) data2 = make_input(p2, nullptr);
    if (kind == 0) { data = make_input(p, nullptr); TEnv* e = new TEnv; obj.reset(e); e->reset(data); }
    else if (kind == 1) { TGso* g = new TGso; obj.reset(g); g->reset(A, b); }
    else if (kind == 2) { TSvd* s = new TSvd; obj.reset(s); s->reset(A, b); }
    else { TChol* c = new TChol; obj.reset(c); c->reset(A, b); }
    cfg_alg = kind;
  }
  ~SolverTarget() { obj.reset(); delete data; delete data2; }
  std::vector<int> cfgv() const override { return {cfg_minx, cfg_sys}; }
  std::string key() override { return cfg() + "/y" + std::to_string(cfg_sys) + " " + key_base(obj.get()); }
  Answer apply(const Op& op) override {
    TBase* o = obj.get();
    return guarded([&](Answer& a) {
      switch (op.kind) {
        case K_UNK: { const auto& x = o->unknowns(); a.v.assign(x.begin(), x.end()); break; }
        case K_RES: { const auto& r = o->residuals(); a.v.assign(r.begin(), r.end()); break; }
        case K_SSQ: a.v.push_back(o->sum_of_squares()); break;
        case K_DEF: a.v.push_back(o->defect()); break;
        case K_QXX: a.v.push_back(o->q_xx(op.a, op.b)); break;
        case K_QBB: a.v.push_back(o->q_bb(op.a, op.b)); break;
        case K_QBX: a.v.push_back(o->q_bx(op.a, op.b)); break;
        case K_Q0XX: a.v.push_back(o->q0_xx(op.a, op.b)); break;
        case K_LINDEP: a.v.push_back(o->lindep(op.a) ? 1 : 0); break;
        case K_MINX_ALL: o->min_x(); cfg_minx = -1; a.isvoid = true; break;
        case K_MINX_S: { std::vector<int> s = p.subsets[op.a]; cfg_minx = op.a; a.isvoid = true; o->min_x((int)s.size(), s.data()); break; }   // the list is recorded even if an immediate re-regularisation throws
        case K_RESET:
          cfg_sys = op.a;
          if (kind == 0) static_cast<TEnv*>(o)->reset(op.a ? data2 : data); else { if (op.a) static_cast<TFull*>(o)->reset(A2, b2); else static_cast<TFull*>(o)->reset(A, b); }
          a.isvoid = true; break;
        default: a.exc = "badop";
      }
    });
  }
};

struct AdjTarget : Target {
  Adj adj;
  int subset0; int cfg_data = 0;
  // input-data variants given to the SAME Adj object by set(): 0 = the data of the unit; 1 = the same system with
  // the regularisation list shifted cyclically by one unknown (same length, other indexes); 2 = list shorter by one
  // (or longer by one if it had a single entry)
  std::vector<int> variant_list(int d, bool& has) const {
    std::vector<int> L; has = true;
    if (subset0 >= 0) L = p.subsets[subset0]; else { for (int i = 1; i <= p.n; i++) L.push_back(i); if (d == 0) has = false; }
    if (d == 1) for (int& i : L) i = i % p.n + 1;
    if (d == 2) { if (L.size() > 1) L.pop_back(); else L.push_back(L[0] % p.n + 1); }
    return L;
  }
  AdjTarget(const Problem& pp, int subset) : Target(pp), subset0(subset) {
    adj.set(make_input(p, subset >= 0 ? &p.subsets[subset] : nullptr));
    cfg_minx = subset;
    cfg_alg = 0;
  }
  std::vector<int> cfgv() const override { return {cfg_alg, cfg_data}; }
  std::string key() override {
    std::ostringstream o; o << cfg() << "/d" << cfg_data << " A s" << adj.solved << " a" << (int)adj.algorithm_ << " ";
    if (adj.solved) o << "x" << std::hex << (hv(adj.x_) & 0xffffff) << " r" << (hv(adj.r_) & 0xffffff) << " t" << (hround(adj.rtr_, 7) & 0xffffff) << std::dec << " ";
    o << key_base(adj.least_squares);
    return o.str();
  }
  Answer apply(const Op& op) override {
    static const Adj::algorithm ALG[4] = {Adj::envelope, Adj::gso, Adj::svd, Adj::cholesky};
    return guarded([&](Answer& a) {
      switch (op.kind) {
        case K_ADJ_X: { const auto& x = adj.x(); a.v.assign(x.begin(), x.end()); break; }
        case K_ADJ_R: { const auto& r = adj.r(); a.v.assign(r.begin(), r.end()); break; }
        case K_ADJ_RTR: a.v.push_back(adj.rtr()); break;
        case K_DEF: a.v.push_back(adj.defect()); break;
        case K_QXX: a.v.push_back(adj.q_xx(op.a, op.b)); break;
        case K_QBB: a.v.push_back(adj.q_bb(op.a, op.b)); break;
        case K_SETALG: adj.set_algorithm(ALG[op.a]); cfg_alg = op.a; a.isvoid = true; break;
        case K_ADJ_SETDATA: { bool has; std::vector<int> L = variant_list(op.a, has); adj.set(make_input(p, has ? &L : nullptr)); cfg_data = op.a; a.isvoid = true; break; }
        default: a.exc = "badop";
      }
    });
  }
};


using GNU_gama::local::LocalNetwork;
struct NetTarget : Target {
  std::unique_ptr<LocalNetwork> net;
  std::string pt_id, pt_last;
  int cfg_m0 = 1;      // 1 aposteriori (default) 0 apriori
  int cfg_cp = 0;      // index into conf-pr menu
  int cfg_st = 0;      // 0 = status as in the input, 1 = first / 2 = last free xy point fixed (PD status changed + update_points)
  int cfg_ob = 0;      // 0 = observations as in the input, 1 = first observation passive, 2 = whole first cluster passive (+ update_observations)
  int cfg_dh = 0;      // 0 = instrument / target heights as in the input, 1 = those of the first observation that has any set to zero
  GNU_gama::local::Observation* dh_obs = nullptr; double dh_from = 0, dh_to = 0;
  bool orig_constrained = false, last_constrained = false;
  NetTarget(const Problem& pp, int dh_variant = 0) : Target(pp) {
    net.reset(new LocalNetwork);
    const std::string& doc = (dh_variant && !p.gkf_dh0.empty()) ? p.gkf_dh0 : p.gkf;
    {
      GNU_gama::local::GKFparser gkf(*net);
      gkf.xml_parse(doc.c_str(), (int)doc.size(), 1);
    }
    net->set_algorithm("envelope");
    net->remove_inconsistency();
    GNU_gama::local::Acord2 acord2(net->PD, net->OD);
    acord2.execute();
    GNU_gama::local::refine_obsdh_reductions(net.get());
    cfg_alg = 0; cfg_minx = 0;
    cfg_m0 = net->m_0_aposteriori() ? 1 : 0;
    if (dh_variant && !p.gkf_dh0.empty()) {
      // built from the document without these heights: the object is in configuration dh=1 without any setter call
      int k = 0; for (auto* c : net->OD.clusters) for (auto* ob : c->observation_list) { if (k == p.dh_index) dh_obs = ob; k++; }
      dh_from = p.dh_from; dh_to = p.dh_to; cfg_dh = 1;
    } else
    for (auto* c : net->OD.clusters) { for (auto* ob : c->observation_list) if (!dh_obs && (ob->from_dh() != 0 || ob->to_dh() != 0)) { dh_obs = ob; dh_from = ob->from_dh(); dh_to = ob->to_dh(); } }
    for (auto i = net->PD.begin(); i != net->PD.end(); ++i) if (i->second.free_xy()) {
      if (pt_id.empty()) { pt_id = i->first.str(); orig_constrained = i->second.constrained_xy(); }
      pt_last = i->first.str(); last_constrained = i->second.constrained_xy();
    }
  }
  std::string key() override {
    LocalNetwork& n = *net;
    std::ostringstream o;
    o << cfg_alg << "/" << cfg_m0 << "/" << cfg_cp << "/" << cfg_st << "/" << cfg_ob << "/" << cfg_dh << " N f" << n.tst_redbod_ << n.tst_redmer_ << n.tst_rov_opr_ << n.tst_vyrovnani_ << " a" << n.algorithm_ << " t" << (int)n.typ_m_0_ << " c" << n.konf_pr_;
    if (n.tst_rov_opr_) o << " A" << std::hex << (hm(n.A) & 0xffffff) << " b" << (hv(n.b) & 0xffffff) << std::dec;
    if (n.tst_vyrovnani_) o << " r" << std::hex << (hv(n.r) & 0xffffff) << " s" << (hv(n.sigma_L) & 0xffffff) << " w" << (hv(n.vahkopr) & 0xffffff) << " p" << (hround(n.suma_pvv_, 7) & 0xffffff) << std::dec;
    o << " rm" << n.removed_points.size() << " | " << key_base(n.least_squares);
    return o.str();
  }
  bool risky(const Op& op) override { return !op.config && !net->tst_vyrovnani_; }
  std::vector<int> cfgv() const override { return {cfg_alg, cfg_m0, cfg_cp, cfg_st, cfg_ob, cfg_dh}; }
  Answer apply(const Op& op) override {
    static const char* AN[4] = {"envelope", "gso", "svd", "cholesky"};
    static const double CP[2] = {0.95, 0.80};
    LocalNetwork& n = *net;
    return guarded([&](Answer& a) {
      // indexed queries are only meaningful inside the current dimensions (a status change shrinks them)
      // (asked only after a status change: unknowns_count() is itself a query that prepares the network)
      if (cfg_st != 0 || cfg_ob != 0 || cfg_dh != 0) switch (op.kind) {
        case N_QXX: case N_UNKSTD: case N_LINDEP:
          if (op.a > n.unknowns_count() || op.b > n.unknowns_count()) { a.exc = "index-beyond-unknowns"; return; }
          break;
        case N_QBB: case N_STDOBS: case N_WCOEF: case N_STDRES: case N_STUD: case N_OBSCTL:
          if (op.a > n.observations_count() || op.b > n.observations_count()) { a.exc = "index-beyond-observations"; return; }
          break;
        default: break;
      }
      switch (op.kind) {
        case N_SOLVE: { const auto& x = n.solve(); a.v.assign(x.begin(), x.end()); break; }
        case N_RES: { const auto& r = n.residuals(); a.v.assign(r.begin(), r.end()); break; }
        case N_VWV: a.v.push_back(n.trans_VWV()); break;
        case N_DOF: a.v.push_back(n.degrees_of_freedom()); break;
        case N_NULL: a.v.push_back(n.null_space()); break;
        case N_M0: a.v.push_back(n.m_0()); break;
        case N_M0POST: a.v.push_back(n.m_0_aposteriori_value()); break;
        case N_NUNK: a.v.push_back(n.unknowns_count()); break;
        case N_NOBS: a.v.push_back(n.observations_count()); break;
        case N_QXX: a.v.push_back(n.qxx(op.a, op.b)); break;
        case N_QBB: a.v.push_back(n.qbb(op.a, op.b)); break;
        case N_STDOBS: a.v.push_back(n.stdev_obs(op.a)); break;
        case N_WCOEF: a.v.push_back(n.wcoef_res(op.a)); break;
        case N_STDRES: a.v.push_back(n.stdev_res(op.a)); break;
        case N_STUD: a.v.push_back(n.studentized_residual(op.a)); break;
        case N_OBSCTL: a.v.push_back(n.obs_control(op.a)); break;
        case N_UNKSTD: a.v.push_back(n.unknown_stdev(op.a)); break;
        case N_ELL: if (pt_id.empty()) { a.exc = "network-has-no-xy-point"; break; } { double A = 0, B = 0, al = 0; if (!n.PD[GNU_gama::local::PointID(pt_id)].free_xy()) { a.exc = "point-not-free"; break; } n.std_error_ellipse(GNU_gama::local::PointID(pt_id), A, B, al); a.v = {A, B, al}; break; }
        case N_LINDEP: a.v.push_back(n.lindep(op.a) ? 1 : 0); break;
        case N_COND: a.v.push_back(n.cond()); break;
        case N_CONF: a.v.push_back(n.conf_int_coef()); break;
        case N_HUGE: a.v.push_back(n.huge_abs_terms() ? 1 : 0); break;
        case N_CONN: a.v.push_back(n.connected_network() ? 1 : 0); break;
        case N_SETALG: n.set_algorithm(AN[op.a]); cfg_alg = op.a; a.isvoid = true; break;
        case N_UPD: if (op.a == 0) n.update_points(); else if (op.a == 1) n.update_observations(); else if (op.a == 2) n.update_residuals(); else n.update_adjustment(); a.isvoid = true; break;
        case N_M0TYPE: if (op.a) n.set_m_0_aposteriori(); else n.set_m_0_apriori(); cfg_m0 = op.a; a.isvoid = true; break;
        case N_CONFPR: n.conf_pr(CP[op.a]); cfg_cp = op.a; a.isvoid = true; break;
        case N_STATUS:
          if (pt_id.empty()) { a.isvoid = true; break; }
          {
            // exactly one of the two points is fixed in status 1 / 2; the other one is as in the input
            GNU_gama::local::LocalPoint& P = n.PD[GNU_gama::local::PointID(pt_id)];
            GNU_gama::local::LocalPoint& L = n.PD[GNU_gama::local::PointID(pt_last)];
            if (orig_constrained) P.set_constrained_xy(); else P.set_free_xy();
            if (last_constrained) L.set_constrained_xy(); else L.set_free_xy();
            if (op.a == 1) P.set_fixed_xy(); else if (op.a == 2) L.set_fixed_xy();
            n.update_points(); cfg_st = op.a; a.isvoid = true;
          }
          break;
        case N_OBSACT: {
          // the set of active observations changes on the live object (what remove_huge_abs_terms / an editor does)
          bool first = true;
          // a network whose only cluster is switched off loses all its points in the revision; bringing them back
          // is update_points()'s job, not update_observations()'s: the whole-cluster case needs a second cluster
          if (op.a == 2 && n.OD.clusters.size() < 2) { a.isvoid = true; return; }
          if (!n.OD.clusters.empty()) {
            auto* c = n.OD.clusters.front();
            for (auto* ob : c->observation_list) {
              bool passive = (op.a == 2) || (op.a == 1 && first);
              if (passive) ob->set_passive(); else ob->set_active();
              first = false;
            }
          }
          n.update_observations(); cfg_ob = op.a; a.isvoid = true;
          break; }
        case N_DH: {
          // an editor changes the instrument / target height of an observation of the live network
          if (!dh_obs) { a.isvoid = true; return; }
          dh_obs->set_from_dh(op.a ? 0.0 : dh_from); dh_obs->set_to_dh(op.a ? 0.0 : dh_to);
          GNU_gama::local::refine_obsdh_reductions(&n);      // what gama-local does before every linearisation
          n.update_observations(); cfg_dh = op.a; a.isvoid = true;
          break; }
        case N_CONFBAD: n.conf_pr(op.a ? 1.5 : 0.0); a.isvoid = true; break;      // must throw and leave the object as it was
        case N_UNKTAB: {
          int nu = n.unknowns_count(); a.v.push_back(nu);
          for (int i = 1; i <= nu; i++) { a.v.push_back((double)n.unknown_type(i)); std::string id = n.unknown_pointid(i).str(); a.v.push_back((double)(fnv(id.data(), id.size()) % 1000003)); }
          break; }
        default: a.exc = "badop";
      }
    });
  }
};

static const char* KIND[6] = {"AdjEnvelope", "AdjGSO", "AdjSVD", "AdjCholDec", "Adj", "LocalNetwork"};

static std::vector<Op> make_ops(const Problem& p, int kind) {
  std::vector<Op> ops;
  auto add = [&](std::string n, int k, int a = 0, int b = 0, bool cfg = false) {
    Op o; o.name = n; o.kind = k; o.a = a; o.b = b; o.config = cfg;
    switch (k) {
      case K_MINX_ALL: o.cslot = 0; o.cval = -1; break;
      case K_MINX_S: case K_SETALG: case N_SETALG: o.cslot = 0; o.cval = a; break;
      case N_M0TYPE: case K_ADJ_SETDATA: case K_RESET: o.cslot = 1; o.cval = a; break;
      case N_CONFPR: o.cslot = 2; o.cval = a; break;
      case N_STATUS: o.cslot = 3; o.cval = a; break;
      case N_OBSACT: o.cslot = 4; o.cval = a; break;
      case N_DH: o.cslot = 5; o.cval = a; break;
      default: break;
    }
    ops.push_back(o);
  };
  int qb = std::min(p.m, 3);
  if (kind == 5) {
    int nu = p.n, no = p.m;     // unknowns / observations of the network (filled by the problem table)
    add("solve", N_SOLVE); add("residuals", N_RES); add("trans_VWV", N_VWV); add("degrees_of_freedom", N_DOF); add("null_space", N_NULL);
    add("m_0", N_M0); add("m_0_aposteriori_value", N_M0POST); add("unknowns_count", N_NUNK); add("observations_count", N_NOBS);
    add("qxx(1,1)", N_QXX, 1, 1); add("qxx(1," + std::to_string(nu) + ")", N_QXX, 1, nu); add("qxx(2,1)", N_QXX, 2, 1);
    add("qbb(1,1)", N_QBB, 1, 1); add("qbb(1," + std::to_string(no) + ")", N_QBB, 1, no);
    add("stdev_obs(1)", N_STDOBS, 1); add("stdev_obs(" + std::to_string(no) + ")", N_STDOBS, no);
    add("wcoef_res(1)", N_WCOEF, 1); add("stdev_res(1)", N_STDRES, 1); add("studentized_residual(2)", N_STUD, 2); add("obs_control(1)", N_OBSCTL, 1);
    add("unknown_stdev(1)", N_UNKSTD, 1); add("std_error_ellipse", N_ELL); add("lindep(1)", N_LINDEP, 1); add("cond", N_COND); add("conf_int_coef", N_CONF);
    add("huge_abs_terms", N_HUGE); add("connected_network", N_CONN);
    static const char* AN[4] = {"envelope", "gso", "svd", "cholesky"};
    for (int a = 0; a < 4; a++) add(std::string("set_algorithm(") + AN[a] + ")", N_SETALG, a, 0, true);
    static const char* UN[4] = {"update_points", "update_observations", "update_residuals", "update_adjustment"};
    for (int a = 0; a < 4; a++) add(UN[a], N_UPD, a, 0, true);
    add("set_m_0_apriori", N_M0TYPE, 0, 0, true); add("set_m_0_aposteriori", N_M0TYPE, 1, 0, true);
    add("conf_pr(0.95)", N_CONFPR, 0, 0, true); add("conf_pr(0.80)", N_CONFPR, 1, 0, true);
    add("unknown_table", N_UNKTAB);
    add("first observation := passive + update_observations", N_OBSACT, 1, 0, true); add("first cluster := passive + update_observations", N_OBSACT, 2, 0, true);
    add("all observations of the first cluster := active + update_observations", N_OBSACT, 0, 0, true);
    add("dh(first observation with heights := 0)+update_observations", N_DH, 1, 0, true); add("dh(as in input)+update_observations", N_DH, 0, 0, true);
    add("conf_pr(1.5) [refused]", N_CONFBAD, 1); add("conf_pr(0) [refused]", N_CONFBAD, 0);
    add("status(first free xy point := fixed)+update_points", N_STATUS, 1, 0, true); add("status(last free xy point := fixed)+update_points", N_STATUS, 2, 0, true); add("status(as in input)+update_points", N_STATUS, 0, 0, true);
    return ops;
  }
  if (kind == 4) {
    add("x", K_ADJ_X); add("r", K_ADJ_R); add("rtr", K_ADJ_RTR); add("defect", K_DEF);
    for (int i = 1; i <= p.n; i++) for (int j = i; j <= p.n; j++) add("q_xx(" + std::to_string(i) + "," + std::to_string(j) + ")", K_QXX, i, j);
    for (int i = 1; i <= qb; i++) for (int j = i; j <= qb; j++) add("q_bb(" + std::to_string(i) + "," + std::to_string(j) + ")", K_QBB, i, j);
    static const char* AN[4] = {"envelope", "gso", "svd", "cholesky"};
    for (int a = 0; a < 4; a++) add(std::string("set_algorithm(") + AN[a] + ")", K_SETALG, a, 0, true);
    add("set(data of the unit)", K_ADJ_SETDATA, 0, 0, true); add("set(same system, regularisation list shifted by one unknown)", K_ADJ_SETDATA, 1, 0, true);
    add("set(same system, regularisation list of another length)", K_ADJ_SETDATA, 2, 0, true);
    return ops;
  }
  add("unknowns", K_UNK); add("residuals", K_RES); add("sum_of_squares", K_SSQ); add("defect", K_DEF);
  for (int i = 1; i <= p.n; i++) for (int j = i; j <= p.n; j++) add("q_xx(" + std::to_string(i) + "," + std::to_string(j) + ")", K_QXX, i, j);
  if (p.n >= 3) add("q_xx(3,1)", K_QXX, 3, 1);
  for (int i = 1; i <= qb; i++) for (int j = i; j <= qb; j++) add("q_bb(" + std::to_string(i) + "," + std::to_string(j) + ")", K_QBB, i, j);
  if (kind == 0) for (int i = 1; i <= p.n; i++) for (int j = i; j <= p.n; j++) add("q0_xx(" + std::to_string(i) + "," + std::to_string(j) + ")", K_Q0XX, i, j);
  if (kind != 0) add("q_bx(1,1)", K_QBX, 1, 1), add("q_bx(2," + std::to_string(p.n) + ")", K_QBX, 2 <= p.m ? 2 : 1, p.n);
  for (int i = 1; i <= p.n; i++) add("lindep(" + std::to_string(i) + ")", K_LINDEP, i);
  add("min_x()", K_MINX_ALL, 0, 0, true);
  for (size_t s = 0; s < p.subsets.size(); s++) add("min_x(S" + std::to_string(s) + "={" + join(p.subsets[s]) + "})", K_MINX_S, (int)s, 0, true);
  add("reset", K_RESET, 0, 0, true); add("reset(bigger system: one more unknown and row)", K_RESET, 1, 0, true);
  return ops;
}

// shared memory breadcrumb so that the parent can attribute a crash
static char* crumb = nullptr;

static std::unique_ptr<Target> fresh(const Problem& p, int kind, int adj_subset, int dh_variant = 0) {
  if (kind == 5) return std::unique_ptr<Target>(new NetTarget(p, dh_variant));
  if (kind == 4) return std::unique_ptr<Target>(new AdjTarget(p, adj_subset));
  return std::unique_ptr<Target>(new SolverTarget(p, kind));
}

struct Explorer {
  const Problem& p; int kind; int adj_subset; std::vector<Op> ops; std::string pname;
  std::unordered_map<std::string, Answer> ref, first;    // cfg|op -> answer (solved reference, first-query answer)
  long long transitions = 0, states = 0, maxdepth = 0;
  Explorer(const Problem& pp, int k, int as) : p(pp), kind(k), adj_subset(as), ops(make_ops(pp, k)) {}

  // LocalNetwork: the configuration space alg x m0 x conf-pr x point status x observation activity (144) is explored
  // as four sub-alphabets, each a complete BFS run in parallel (adj_subset carries the family); the thorough tier adds
  // the full product.  The op list (and so the replay indices) is the same in every family.
  bool enabled(const Op& o) const {
    if (kind != 5) return true;
    switch (adj_subset) {
      case 0: return o.kind != N_STATUS && o.kind != N_OBSACT && o.kind != N_DH;        // alg x m0 x conf-pr
      case 1: return o.kind != N_M0TYPE && o.kind != N_CONFPR && o.kind != N_OBSACT && o.kind != N_DH;    // alg x status
      case 2: return o.kind != N_M0TYPE && o.kind != N_CONFPR && o.kind != N_STATUS;    // alg x observation activity
      case 3: return o.kind != N_M0TYPE && o.kind != N_CONFPR && o.kind != N_SETALG && o.kind != N_DH;    // status x observation activity
      default: return true;                                                             // full product
    }
  }
  std::string histstr(const std::vector<int>& h) { std::string s; for (size_t i = 0; i < h.size(); i++) { if (i) s += ","; s += ops[h[i]].name; } return s; }
  std::string casestr(const std::vector<int>& h, int op) {
    std::string s = std::string(KIND[kind]) + (kind == 4 ? "/S" + std::to_string(adj_subset) : "") + ";" + pname + ";";
    for (size_t i = 0; i < h.size(); i++) { s += std::to_string(h[i]) + ","; }
    if (op >= 0) s += std::to_string(op);
    return s;
  }
  static std::string cfgstr(const std::vector<int>& c) { std::string s; for (int v : c) s += std::to_string(v) + "/"; return s; }
  void config_ops(Target& t, const std::vector<int>& want) {   // bring a fresh target to the given configuration
    std::vector<int> have = t.cfgv();
    for (size_t slot = 0; slot < want.size(); slot++) {
      if (have[slot] == want[slot]) continue;
      for (auto& o : ops) if (o.config && o.cslot == (int)slot && o.cval == want[slot]) { t.apply(o); break; }
    }
  }
  // execute op in a nested fork; returns false if the child died
  bool probe(Target& t, const Op& op, Answer& a) {
    int fd[2]; if (pipe(fd) != 0) return true;
    fflush(stdout);
    pid_t c = fork();
    if (c == 0) {
      close(fd[0]);
      int devnull = open("/dev/null", O_WRONLY); if (devnull >= 0) dup2(devnull, 2);
      Answer r = t.apply(op);
      int n = (int)r.v.size(), e = (int)r.exc.size(), iv = r.isvoid;
      if (write(fd[1], &iv, sizeof iv) < 0 || write(fd[1], &e, sizeof e) < 0 || write(fd[1], r.exc.data(), e) < 0 || write(fd[1], &n, sizeof n) < 0 || write(fd[1], r.v.data(), n * sizeof(double)) < 0) _exit(3);
      _exit(0);
    }
    close(fd[1]);
    int iv = 0, e = 0, n = 0; bool ok = true;
    ok = ok && read(fd[0], &iv, sizeof iv) == (ssize_t)sizeof iv;
    ok = ok && read(fd[0], &e, sizeof e) == (ssize_t)sizeof e;
    if (ok && e > 0) { a.exc.resize(e); ok = read(fd[0], &a.exc[0], e) == e; }
    ok = ok && read(fd[0], &n, sizeof n) == (ssize_t)sizeof n;
    if (ok && n > 0) { a.v.resize(n); ok = read(fd[0], a.v.data(), n * sizeof(double)) == (ssize_t)(n * sizeof(double)); }
    close(fd[0]);
    int st = 0; waitpid(c, &st, 0);
    a.isvoid = iv;
    return ok && WIFEXITED(st) && WEXITSTATUS(st) == 0;
  }
  const Answer& reference(const std::vector<int>& cfg, int opi, bool solved_first) {
    std::string k = cfgstr(cfg) + "|" + std::to_string(opi);
    auto& mp = solved_first ? ref : first;
    auto it = mp.find(k);
    if (it != mp.end()) return it->second;
    auto t = fresh(p, kind, adj_subset, (kind == 5 && cfg.size() > 5 && cfg[5] == 1) ? 1 : 0);
    config_ops(*t, cfg);
    if (solved_first) { for (auto& o : ops) if (o.kind == K_UNK || o.kind == K_ADJ_X || o.kind == N_SOLVE) { t->apply(o); break; } }
    Answer a;
    if (t->risky(ops[opi])) { if (!probe(*t, ops[opi], a)) { a = Answer(); a.exc = "CRASH"; } }
    else a = t->apply(ops[opi]);
    return mp[k] = a;
  }

  // configurations whose adjustment is refused (e.g. a regularisation subset that cannot fix the datum) form a class of their own
  std::string cls_of(const std::vector<int>& cfg) {
    std::string cls = p.nullity ? "defect>0" : "defect=0";
    for (size_t i = 0; i < ops.size(); i++) if (ops[i].kind == K_UNK || ops[i].kind == K_ADJ_X || ops[i].kind == N_SOLVE) { if (!reference(cfg, (int)i, true).exc.empty()) cls += "|refused-config"; break; }
    return cls;
  }
  // one transition: history h, then op oi; oracle as in run().  Returns false when the op was not executed (crash probe).
  void judge(const std::vector<int>& h, int oi, Target& t) {
    std::vector<int> cfg = t.cfgv();
    Answer a;
    if (t.risky(ops[oi]) && reference(cfg, oi, false).exc == "CRASH") return;
    a = t.apply(ops[oi]);
    transitions++;
    const Answer& r = reference(cfg, oi, true);
    if (same(a, r)) { O(std::string("agree-unmerged:") + KIND[kind]); return; }
    const Answer& f = reference(cfg, oi, false);
    std::string opn = ops[oi].name.substr(0, ops[oi].name.find('('));
    std::string cls = cls_of(cfg);
    if (same(a, f)) return;     // first-query class: reported by the merged search
    V(std::string("C04|history|") + KIND[kind] + "|" + opn + "|" + cls, casestr(h, oi),
      "history [" + histstr(h) + "] then " + ops[oi].name + " = " + a.show() + " ; fresh object = " + r.show() + " (cfg " + cfgstr(cfg) + ")");
    O(std::string("history:") + KIND[kind] + ":" + opn);
  }
  // The merged search trusts the canonical key: state that the key does not read (a cache member added later, say)
  // makes two different states look equal and their futures are explored once.  This pass does not merge: every
  // history of length 2 over the enabled alphabet (and so every one of length 1) is followed by every query.
  long long unmerged = 0;
  void unmerged_pass() {
    int n = (int)ops.size();
    for (int o1 = 0; o1 < n; o1++) {
      if (!enabled(ops[o1])) continue;
      for (int o2 = 0; o2 < n; o2++) {
        if (!enabled(ops[o2])) continue;
        if (expired()) { ctx().complete = false; C("unmerged_cut_by_deadline"); return; }
        std::vector<int> h = {o1, o2};
        // the crash probe decides on the fresh-object answer of the configuration: skip histories whose steps
        // are themselves accessors that kill an unprepared object
        {
          auto t0 = fresh(p, kind, adj_subset);
          if (t0->risky(ops[o1]) && reference(t0->cfgv(), o1, false).exc == "CRASH") continue;
          t0->apply(ops[o1]);
          if (t0->risky(ops[o2]) && reference(t0->cfgv(), o2, false).exc == "CRASH") continue;
        }
        for (int oi = 0; oi < n; oi++) {
          if (!enabled(ops[oi]) || ops[oi].config) continue;
          snprintf(crumb, 4000, "%s", casestr(h, oi).c_str());
          auto t = fresh(p, kind, adj_subset);
          t->apply(ops[o1]); t->apply(ops[o2]);
          judge(h, oi, *t);
          unmerged++;
        }
      }
    }
    C(std::string("unmerged_histories_") + KIND[kind], unmerged);
  }

  void run() {
    std::deque<std::vector<int>> q; std::unordered_map<std::string, int> seen;
    {
      auto t = fresh(p, kind, adj_subset); seen[t->key()] = 0; q.push_back({}); states = 1;
    }
    while (!q.empty()) {
      if (expired()) break;
      std::vector<int> h = q.front(); q.pop_front();
      maxdepth = std::max<long long>(maxdepth, (long long)h.size());
      // canon-on-replay: the same history must reach the same key twice
      std::string k0;
      for (int rep = 0; rep < 2; rep++) {
        auto t = fresh(p, kind, adj_subset);
        for (int oi : h) t->apply(ops[oi]);
        std::string k = t->key();
        if (rep == 0) k0 = k; else if (k != k0) V(std::string("C04|nondeterministic-replay|") + KIND[kind], casestr(h, -1), "key " + k0 + " vs " + k);
      }
      for (int oi = 0; oi < (int)ops.size(); oi++) {
        if (!enabled(ops[oi])) continue;
        snprintf(crumb, 4000, "%s", casestr(h, oi).c_str());
        auto t = fresh(p, kind, adj_subset);
        for (int x : h) t->apply(ops[x]);
        std::vector<int> cfg = t->cfgv();
        Answer a;
        bool crash = false;
        if (t->risky(ops[oi]) && reference(cfg, oi, false).exc == "CRASH") {
          // this accessor kills the process when asked before the adjustment exists (probed once per
          // configuration in a nested fork on a fresh object); not executed again in unsolved states
          crash = true; a.exc = "CRASH";
        } else a = t->apply(ops[oi]);
        transitions++;
        if (!ops[oi].config) {
          const Answer& r = reference(cfg, oi, true);
          if (!same(a, r)) {
            const Answer& f = reference(cfg, oi, false);
            std::string opn = ops[oi].name.substr(0, ops[oi].name.find('('));
            std::string cls = cls_of(cfg);
            if (same(a, f)) {
              // the accessor does not trigger the computation it needs: the very first query answers differently
              V(std::string("C04|first-query|") + KIND[kind] + "|" + opn + "|" + cls, casestr(h, oi),
                "history [" + histstr(h) + "] then " + ops[oi].name + " = " + a.show() + " ; after solving once = " + r.show());
              O(std::string("first-query:") + KIND[kind] + ":" + opn);
            } else {
              V(std::string("C04|history|") + KIND[kind] + "|" + opn + "|" + cls, casestr(h, oi),
                "history [" + histstr(h) + "] then " + ops[oi].name + " = " + a.show() + " ; fresh object = " + r.show() + " (cfg " + cfgstr(cfg) + ")");
              O(std::string("history:") + KIND[kind] + ":" + opn);
            }
          } else O(std::string("agree:") + KIND[kind]);
        }
        if (crash) continue;
        std::string k = t->key();
        if (!seen.count(k)) { seen[k] = 1; states++; std::vector<int> h2 = h; h2.push_back(oi); q.push_back(h2); }
      }
    }
    if (q.empty()) unmerged_pass();
    C("states", states); C("transitions", transitions); C("evaluations", transitions);
    C(std::string("states_") + KIND[kind], states);
    std::string md = std::string("maxdepth_") + KIND[kind];
    if (ctx().counters[md] < maxdepth) ctx().counters[md] = maxdepth;
    if (!q.empty()) { ctx().complete = false; C("bfs_cut_by_deadline"); }
  }
};

// ------------------------------------------------------------------ problems
static std::vector<int> row(int n, std::initializer_list<std::pair<int, int>> e) { std::vector<int> r(n, 0); for (auto& x : e) r[x.first - 1] = x.second; return r; }
static Problem mk(std::string name, int n, std::vector<std::vector<int>> rows, std::vector<std::vector<int>> subsets) {
  Problem p; p.name = name; p.n = n; p.rows = rows; p.m = (int)rows.size(); p.subsets = subsets;
  for (int i = 0; i < p.m; i++) p.b.push_back((i % 2 ? -1.0 : 1.0) * (i + 1) + 0.5 * (i % 3));
  IMat A(p.m, n); for (int i = 0; i < p.m; i++) for (int j = 0; j < n; j++) A(i, j) = rows[i][j];
  p.nullity = n - rank(A);
  return p;
}
static std::vector<Problem> problems() {
  std::vector<Problem> P;
  // free levelling loop, 5 heights, closed chain + 1 chord (defect 1)   [D1 was first seen here]
  P.push_back(mk("loop5", 5, {row(5, {{1, -1}, {2, 1}}), row(5, {{2, -1}, {3, 1}}), row(5, {{3, -1}, {4, 1}}), row(5, {{4, -1}, {5, 1}}), row(5, {{5, -1}, {1, 1}}), row(5, {{1, -1}, {3, 1}})}, {{1}, {2, 4, 5}}));
  // same loop with a datum row (regular)
  P.push_back(mk("loop5+datum", 5, {row(5, {{1, 1}}), row(5, {{1, -1}, {2, 1}}), row(5, {{2, -1}, {3, 1}}), row(5, {{3, -1}, {4, 1}}), row(5, {{4, -1}, {5, 1}}), row(5, {{5, -1}, {1, 1}})}, {{1}, {2, 3}}));
  // chain of 4 (defect 1), profile leaves (1,3),(1,4),(2,4) outside the envelope
  P.push_back(mk("chain4", 4, {row(4, {{1, -1}, {2, 1}}), row(4, {{2, -1}, {3, 1}}), row(4, {{3, -1}, {4, 1}}), row(4, {{1, -1}, {2, 1}})}, {{4}, {1, 2}}));
  // two disconnected pairs (defect 2)
  P.push_back(mk("split4", 4, {row(4, {{1, -1}, {2, 1}}), row(4, {{3, -1}, {4, 1}}), row(4, {{1, -1}, {2, 1}}), row(4, {{3, -1}, {4, 1}})}, {{1, 3}, {2, 3, 4}, {1, 2}}));   // {1,2} cannot fix the second pair: BadRegularization, again and again
  // regular, non unimodular rows
  P.push_back(mk("reg4", 4, {row(4, {{1, 2}, {2, 1}}), row(4, {{2, 1}, {3, 1}, {4, 1}}), row(4, {{1, 1}, {2, -2}, {3, 1}}), row(4, {{4, 1}}), row(4, {{1, 1}}), row(4, {{3, -1}, {4, 1}})}, {{1}, {2, 3}}));
  // empty column (defect 1) + chain
  P.push_back(mk("empty-col", 4, {row(4, {{1, 1}}), row(4, {{1, -1}, {2, 1}}), row(4, {{2, -1}, {4, 1}}), row(4, {{1, -1}, {4, 1}})}, {{3}, {1, 3}}));
  // star with 2 dependent directions (defect 2, 3-nonzero rows)
  P.push_back(mk("tri3", 3, {row(3, {{1, 1}, {2, 1}, {3, 1}}), row(3, {{1, 1}, {2, 1}, {3, 1}})}, {{1, 2}, {2, 3}, {1}}));   // {1}: one unknown against nullity 2
  // the same systems with a banded covariance block (explored through GNU_gama::Adj only, which homogenises)
  { size_t n0 = P.size(); for (size_t i = 0; i < n0; i++) if (P[i].name == "loop5" || P[i].name == "reg4" || P[i].name == "split4") { Problem q = P[i]; q.name += "+corr"; q.corr = true; P.push_back(q); } }
  // LocalNetwork problems (input files generated by data/c04/make.py)
  std::string dir = ctx().opt.count("data") ? ctx().opt["data"] : "/verif/data/c04";
  for (const char* nm : {"net2d", "levfree", "net2dfree", "bridge2d", "net3dh"}) {
    std::ifstream in(dir + "/" + nm + ".gkf");
    if (!in) continue;
    std::stringstream ss; ss << in.rdbuf();
    Problem p; p.name = nm; p.gkf = ss.str();
    {
      // variant document: the first element with from_dh / to_dh loses both attributes
      size_t a = p.gkf.find(" from_dh=\""), b2 = p.gkf.find(" to_dh=\"");
      size_t first = std::min(a, b2);
      if (first != std::string::npos) {
        size_t e0 = p.gkf.rfind('<', first), e1 = p.gkf.find('>', first);
        std::string el = p.gkf.substr(e0, e1 - e0 + 1), el2 = el;
        for (const char* at : {" from_dh=\"", " to_dh=\""}) { size_t q = el2.find(at); if (q != std::string::npos) { size_t r = el2.find('"', q + strlen(at)); el2.erase(q, r - q + 1); } }
        p.gkf_dh0 = p.gkf.substr(0, e0) + el2 + p.gkf.substr(e1 + 1);
      }
    }
    NetTarget t(p);
    if (t.dh_obs) { int k = 0; for (auto* c : t.net->OD.clusters) for (auto* ob : c->observation_list) { if (ob == t.dh_obs) p.dh_index = k; k++; } p.dh_from = t.dh_from; p.dh_to = t.dh_to; } else p.gkf_dh0.clear();
    p.n = t.net->unknowns_count(); p.m = t.net->observations_count();
    t.net->solve(); p.nullity = t.net->null_space();
    P.push_back(p);
  }
  return P;
}

static Problem parse_problem(const std::string& name) { for (auto& p : problems()) if (p.name == name) return p; fprintf(stderr, "unknown problem %s\n", name.c_str()); exit(2); }

static void emit_child_counters() {
  for (auto& kv : ctx().counters) printf("C\t%s\t%lld\n", kv.first.c_str(), kv.second);
  for (auto& kv : ctx().outcomes) printf("O\t%s\t%lld\n", clean(kv.first).c_str(), kv.second);
  printf("d\t%d\n", ctx().complete ? 1 : 0);
  fflush(stdout);
}

int main(int argc, char** argv) {
  parse_args(argc, argv);
  GNU_gama::local::set_gama_language(GNU_gama::local::en);   // exception texts of LocalNetwork need a language
  crumb = (char*)mmap(nullptr, 4096, PROT_READ | PROT_WRITE, MAP_SHARED | MAP_ANONYMOUS, -1, 0);
  crumb[0] = 0;
  if (!ctx().replay.empty()) {
    auto f = split(ctx().replay, ';');
    std::string kd = f[0]; int adj_subset = -1; size_t sl = kd.find("/S"); if (sl != std::string::npos) { adj_subset = atoi(kd.c_str() + sl + 2); kd = kd.substr(0, sl); }
    int kind = 0; for (int k = 0; k < 6; k++) if (kd == KIND[k]) kind = k;
    Problem p = parse_problem(f[1]);
    Explorer ex(p, kind, adj_subset); ex.pname = p.name;
    std::vector<int> h = f.size() > 2 ? ints(f[2]) : std::vector<int>();
    int op = h.back(); h.pop_back();
    auto t = fresh(p, kind, adj_subset);
    for (int x : h) { Answer a = t->apply(ex.ops[x]); printf("  %-28s -> %s   key=%s\n", ex.ops[x].name.c_str(), a.show().c_str(), t->key().c_str()); }
    std::vector<int> cfg = t->cfgv();
    Answer a;
    if (t->risky(ex.ops[op])) { if (!ex.probe(*t, ex.ops[op], a)) { a = Answer(); a.exc = "CRASH"; } } else a = t->apply(ex.ops[op]);
    printf("  %-28s -> %s\n", ex.ops[op].name.c_str(), a.show().c_str());
    const Answer& r = ex.reference(cfg, op, true);
    printf("  fresh object (cfg %s), solved once, same question -> %s\n", Explorer::cfgstr(cfg).c_str(), r.show().c_str());
    bool ok = same(a, r);
    printf(ok ? "AGREE\n" : "V\tC04|replay\t%s\tdiffers\n", ctx().replay.c_str());
    return ok ? 0 : 1;
  }
  std::vector<Problem> P = problems();
  int nprob = thorough() ? (int)P.size() : (int)P.size();
  uint64_t unit = 0;
  for (int pi = 0; pi < nprob; pi++) {
    for (int kind = 0; kind < 6; kind++) {
      if ((kind == 5) != !P[pi].gkf.empty()) continue;
      if (P[pi].corr && kind != 4) continue;
      int nsub = (kind == 4) ? (1 + (int)P[pi].subsets.size()) : 1;   // Adj: regularisation comes with the input data
      if (kind == 5) nsub = thorough() ? 5 : 4;                        // LocalNetwork: sub-alphabets, see Explorer::enabled
      for (int s = 0; s < nsub; s++) {
        unit++;
        if (!mine(unit)) continue;
        if (expired()) break;
        fflush(stdout);
        pid_t c = fork();
        if (c == 0) {
          ctx().counters.clear(); ctx().outcomes.clear();
          Explorer ex(P[pi], kind, kind == 5 ? s : s - 1); ex.pname = P[pi].name;
          ex.run();
          if (ctx().samples < 1) X(std::string(KIND[kind]) + " on " + P[pi].name + ": " + std::to_string(ex.states) + " states, " + std::to_string(ex.transitions) + " transitions, ops=" + std::to_string(ex.ops.size()));
          emit_child_counters();
          _exit(0);
        }
        int st = 0; waitpid(c, &st, 0);
        if (!(WIFEXITED(st) && WEXITSTATUS(st) == 0)) {
          std::string why = WIFSIGNALED(st) ? "signal " + std::to_string(WTERMSIG(st)) : "exit " + std::to_string(WEXITSTATUS(st));
          // attribute to the op being executed
          std::string cs = crumb; auto f = split(cs, ';');
          std::string opn = "?";
          if (f.size() >= 3) { Explorer ex(P[pi], kind, s - 1); auto h = ints(f[2]); if (!h.empty() && h.back() < (int)ex.ops.size()) { opn = ex.ops[h.back()].name; opn = opn.substr(0, opn.find('(')); } }
          V(std::string("C04|crash|") + KIND[kind] + "|" + opn + "|" + (P[pi].nullity ? "defect>0" : "defect=0"), cs, "child process died (" + why + ") while executing this transition (sanitizer abort or fatal signal)");
        }
      }
    }
  }
  return finish();
}
