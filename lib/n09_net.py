"""n09_net: templates, observation lattice, reference model and oracle of C09.

Units (gama-local internal and in the adjustment XML): corrections of
coordinates in mm, of orientations in cc; residuals of linear observations in
mm, of angular ones in cc; standard deviations of observations in mm / cc.

Reference model (independent of gama's code, built on gnet.ref_value):
  A     numeric Jacobian (central differences) of the reference observation
        functions at the linearisation point the XML reports
        (<fixed> + <approximate>), rows scaled to mm|cc per mm|cc (observed
        coordinates: exactly 1 / 0);
  P     m0a^2 * C^-1 with C = diag(stdev^2) or the full cluster cov-mat;
  Q     (A'PA)^-1 (Gauss elimination, partial pivoting);
  q_h   p_i * a_i' Q a_i  (homogenised cofactor of the adjusted observation).
Everything the XML reports is recomputed from these and from the other
fields of the same XML; see oracle() for the clause list.
"""
import math, re
import gnet
from gnet import Pt, Obs, Cluster, Net
import n09_stat as S

SIGMA_ACT = ["aposteriori", "apriori"]
CONF_PR = [0.5, 0.8, 0.9, 0.95, 0.99, 0.999]
SIGMA_APR = [1e-3, 0.5, 1.0, 10.0, 25.0, 1e3]     # the property says: all sigma-apr > 0
ALGS = gnet.ALGS

LINEAR = ("distance", "s-distance", "dh", "vec", "coord")
TAG = {"distance": "distance", "direction": "direction", "angle": "angle", "dh": "height-diff",
       "s-distance": "slope-distance", "z-angle": "zenith-angle", "azimuth": "azimuth"}


# ---------------------------------------------------------------- templates
class Template:
    """points, list of candidate observations (each: dict name, cluster, obs,
    sigma-noise unit, noisy?) in input order"""
    def __init__(self, name, points, cand):
        self.name = name; self.points = points; self.cand = cand
        self.noisy = [i for i, c in enumerate(cand) if c["noisy"]]


def _c(name, cl, obs, noisy=True, fixed_err=0.0):
    return {"name": name, "cl": cl, "obs": obs, "noisy": noisy, "fixed_err": fixed_err}


def _coord(pid, sx, sy, cxy=0.0):
    """observed coordinates x, y of point pid; csig = (sigma_x [mm], sigma_y [mm], cov_xy [mm^2])"""
    o = Obs("coord", to=pid, comps="xy")
    o.csig = (sx, sy, cxy)
    return o


def template(name):
    if name in ("T2", "T2H"):
        # 3 fixed + 2 new points on {0,100,200}^2, directions, distances, an angle; all stdevs of a
        # cluster differ.  T2H: the same network with 0.004 .. 0.016 mm / 0.07 .. 0.15 cc precision
        k = 1e-3 if name == "T2H" else 1.0
        pts = [Pt("A", 0, 0, xy="fix"), Pt("B", 0, 200, xy="fix"), Pt("C", 200, 100, xy="fix"),
               Pt("P", 100, 100, xy="adj"), Pt("Q", 100, 200, xy="adj")]
        cand = [
            _c("dPA", "sP", Obs("direction", "P", "A", stdev=10.0 * k)),
            _c("dPB", "sP", Obs("direction", "P", "B", stdev=7.0 * k)),
            _c("dPC", "sP", Obs("direction", "P", "C", stdev=13.0 * k)),
            _c("sAP", "o", Obs("distance", "A", "P", stdev=5.0 * k)),
            _c("sBQ", "o", Obs("distance", "B", "Q", stdev=4.0 * k)),
            _c("sCQ", "o", Obs("distance", "C", "Q", stdev=8.0 * k)),
            _c("aQ", "o", Obs("angle", "Q", bs="B", fs="P", stdev=15.0 * k), noisy=False),
        ]
        return Template(name, pts, cand)
    if name == "T2F":
        # free 2-D network: no fixed point, A, B, C constrained (inner constraints over their
        # coordinates), defect 3 (2 translations + rotation; scale fixed by the distances)
        pts = [Pt("A", 0, 0, xy="con"), Pt("B", 0, 200, xy="con"), Pt("C", 200, 100, xy="con"),
               Pt("P", 100, 100, xy="adj"), Pt("Q", 100, 200, xy="adj")]
        cand = [
            _c("dPA", "sP", Obs("direction", "P", "A", stdev=10.0)),
            _c("dPB", "sP", Obs("direction", "P", "B", stdev=7.0), noisy=False, fixed_err=-0.5),
            _c("dPC", "sP", Obs("direction", "P", "C", stdev=13.0), noisy=False, fixed_err=0.5),
            _c("sAP", "o", Obs("distance", "A", "P", stdev=5.0)),
            _c("sBQ", "o", Obs("distance", "B", "Q", stdev=4.0), noisy=False, fixed_err=0.7),
            _c("sCQ", "o", Obs("distance", "C", "Q", stdev=8.0)),
            _c("aQ", "o", Obs("angle", "Q", bs="B", fs="P", stdev=15.0), noisy=False),
            _c("sAB", "o", Obs("distance", "A", "B", stdev=6.0), noisy=False, fixed_err=-0.4),
            _c("sBC", "o", Obs("distance", "B", "C", stdev=6.5), noisy=False, fixed_err=0.6),
            _c("sAC", "o", Obs("distance", "A", "C", stdev=7.0), noisy=False, fixed_err=0.3),
        ]
        return Template(name, pts, cand)
    if name == "T2X":
        # one new point seen along the coordinate axes only: the normal matrix is diagonal up to rounding
        # (sin(pi), cos(pi/2) are 1e-16: the xy covariance of P is ~1e-15, see T2C for exact zeros) and q_yy > q_xx (heavier distances along x): major semi-axis along y,
        # bearing 100 gon; subsets reach q_xx > q_yy as well
        pts = [Pt("A", 0, 100, xy="fix"), Pt("B", 100, 0, xy="fix"), Pt("C", 200, 100, xy="fix"),
               Pt("D", 100, 300, xy="fix"), Pt("P", 100, 100, xy="adj")]
        cand = [
            _c("sAP", "o", Obs("distance", "A", "P", stdev=5.0)),
            _c("sBP", "o", Obs("distance", "B", "P", stdev=8.0)),
            _c("sCP", "o", Obs("distance", "C", "P", stdev=4.0), noisy=False, fixed_err=0.5),
            _c("sDP", "o", Obs("distance", "D", "P", stdev=9.0), noisy=False, fixed_err=-0.4),
            _c("sPB", "o", Obs("distance", "P", "B", stdev=2.0), noisy=False, fixed_err=0.3),
        ]
        return Template(name, pts, cand)
    if name in ("T2C", "T2Ci"):
        # T2Ci: the same document declared in an inconsistent frame (axes-xy="en", angles="left-handed"): gama mirrors y
        # internally and mirrors it back on output; with coordinates and distances only every printed number is the same
        # observed coordinates (GNSS-like <coordinates> clusters): G1 and G2 are tied to the network only by
        # observed coordinates with DIAGONAL covariance matrices (and by one distance with bearing exactly 0,
        # coefficients exactly (1,0)): their xy covariance is exactly 0; G1 has sigma_x < sigma_y in both
        # sessions (major axis along y, bearing 100 gon), G2 sigma_x > sigma_y (bearing 0).  G3 has one
        # observation with a full 2x2 block (cluster with a non-diagonal cov-mat) and one with a diagonal
        # block, and a distance from the fixed point A.  csig = (sigma_x, sigma_y, cov_xy) in mm, mm, mm^2.
        # gama takes the observed coordinates as the linearisation point: the y errors of G1 and G2 are
        # +-4 mm in both sessions (G1: noisy, G2: fixed errors), so that for sign '+' of G1 the bearing
        # G1 -> G2 is exactly 0 there (xy covariances exactly 0 with the distance present), for '-' 4e-5 rad.
        pts = [Pt("A", 0, 0, xy="fix"), Pt("G1", 100, 100, xy="adj"), Pt("G2", 300, 100, xy="adj"),
               Pt("G3", 200, 200, xy="adj")]
        cand = [
            _c("c1G1", "g1", _coord("G1", 3.0, 8.0), fixed_err=(1.0, -0.5)),
            _c("c1G2", "g1", _coord("G2", 7.0, 4.0), noisy=False, fixed_err=(0.9, -1.0)),
            _c("c2G1", "g2", _coord("G1", 4.0, 10.0), fixed_err=(-1.0, 0.4)),
            _c("c2G2", "g2", _coord("G2", 6.0, 5.0), noisy=False, fixed_err=(-0.6, 0.8)),
            _c("c2G3", "g2", _coord("G3", 9.0, 6.5), noisy=False, fixed_err=(0.4, -0.3)),
            _c("c3G3", "g3", _coord("G3", 5.0, 6.0, 12.0), noisy=False, fixed_err=(-0.5, 0.7)),
            _c("sAG3", "o", Obs("distance", "A", "G3", stdev=5.0), noisy=False, fixed_err=0.6),
            _c("sG12", "o", Obs("distance", "G1", "G2", stdev=6.0), noisy=False, fixed_err=-0.4),
        ]
        return Template(name, pts, cand)
    if name == "T1":
        # levelling: 2 fixed + 3 new heights, 6 height differences (dof 3 .. 0)
        pts = [Pt("H1", z=10.0, zs="fix"), Pt("H2", z=30.0, zs="fix"),
               Pt("N1", z=12.5, zs="adj"), Pt("N2", z=20.0, zs="adj"), Pt("N3", z=27.0, zs="adj")]
        cand = [
            _c("h1", "h", Obs("dh", "H1", "N1", stdev=2.0)),
            _c("h2", "h", Obs("dh", "N1", "N2", stdev=3.0)),
            _c("h3", "h", Obs("dh", "N2", "N3", stdev=2.5)),
            _c("h4", "h", Obs("dh", "N3", "H2", stdev=1.5), noisy=False, fixed_err=0.5),
            _c("h5", "h", Obs("dh", "H1", "N2", stdev=4.0), noisy=False, fixed_err=-0.3),
            _c("h6", "h", Obs("dh", "N1", "N3", stdev=3.5), noisy=False),
        ]
        return Template(name, pts, cand)
    if name == "T3":
        # 3-D: 3 fixed + 2 new points, no instrument heights; one vector with a
        # full 3x3 covariance matrix (correlated cluster)
        pts = [Pt("A", 0, 0, 0.0, xy="fix", zs="fix"), Pt("B", 200, 0, 10.0, xy="fix", zs="fix"),
               Pt("C", 0, 200, 30.0, xy="fix", zs="fix"),
               Pt("P", 100, 100, 10.0, xy="adj", zs="adj"), Pt("Q", 200, 200, 0.0, xy="adj", zs="adj")]
        cand = [
            _c("sAP", "o", Obs("s-distance", "A", "P", stdev=5.0)),
            _c("sBP", "o", Obs("s-distance", "B", "P", stdev=4.0)),
            _c("sCP", "o", Obs("s-distance", "C", "P", stdev=6.0)),
            _c("zAP", "o", Obs("z-angle", "A", "P", stdev=10.0)),
            _c("zBP", "o", Obs("z-angle", "B", "P", stdev=12.0), noisy=False, fixed_err=0.5),
            _c("sPQ", "o", Obs("s-distance", "P", "Q", stdev=7.0), noisy=False, fixed_err=-0.5),
            _c("hCQ", "h", Obs("dh", "C", "Q", stdev=3.0), noisy=False),
            _c("vBQ", "v", Obs("vec", "B", "Q"), noisy=False, fixed_err=(0.6, -0.4, 0.8)),
        ]
        return Template(name, pts, cand)
    raise KeyError(name)


VEC_COV = [[16.0, 4.0, -3.0], [4.0, 25.0, 5.0], [-3.0, 5.0, 36.0]]   # mm^2, positive definite
VEC_SIG = [4.0, 5.0, 6.0]


def noise_unit(o):
    """+1 sigma in the units of the input value (m / gon)"""
    if o.kind in ("direction", "angle", "z-angle", "azimuth"):
        return o.stdev * 1e-4
    return o.stdev * 1e-3


def passive_obs(T, key, k):
    """a passive observation for cluster `key` and the point it aims at: the target has no
    coordinates and cannot be computed (one distance / direction only: 'nc'), or - for height
    differences and vectors, which would determine it - is listed without fix/adj ('ns')"""
    pid = "X%d" % k
    threeD = any(p.zs is not None and p.xy is not None for p in T.points)
    st = T.cand[[c["cl"] for c in T.cand].index(key)]["obs"]
    scale = st.stdev / 10.0 if (key == "sP" and st.stdev) else 1.0
    if key == "sP":
        o = Obs("direction", "P", pid, stdev=3.0 * (1e-3 if T.name == "T2H" else 1.0), val=123.4567 + k)
        pt = Pt(pid, None, None, None, xy="adj")
    elif key == "o":
        if threeD:
            o = Obs("s-distance", "A", pid, stdev=2.0, val=77.0 + k)
            pt = Pt(pid, None, None, None, xy="adj", zs="adj")
        else:
            o = Obs("distance", "A", pid, stdev=2.0 * (1e-3 if T.name == "T2H" else 1.0), val=55.0 + k)
            pt = Pt(pid, None, None, None, xy="adj")
    elif key == "h":
        frm = [c["obs"].frm for c in T.cand if c["cl"] == "h"][0]
        o = Obs("dh", frm, pid, stdev=7.0, val=1.234 + k)
        pt = Pt(pid)
    elif key == "v":
        o = Obs("vec", "B", pid, val=(10.0 + k, 20.0, 3.0))
        pt = Pt(pid)
    elif key.startswith("g"):
        # observed coordinates of a point that is listed without fix/adj; in the cluster with the full
        # block the passive member is correlated as well
        o = _coord(pid, 5.5 + k, 3.5 + k, 7.0 if key == "g3" else 0.0)
        o.val = (150.0 + k, 250.0 - k)
        pt = Pt(pid)
    else:
        raise KeyError(key)
    o.passive = True
    return o, pt


def coord_cov(obs):
    """covariance matrix of a <coordinates> cluster from the csig of its members (all of them, passive
    ones included): band 0 when every block is diagonal, else band 1 (x_i, y_i correlated, no
    correlation between different points)"""
    d = []
    for o in obs:
        sx, sy, cxy = o.csig
        d += [(sx * sx, cxy), (sy * sy, 0.0)]
    n = len(d)
    band = 1 if any(o.csig[2] != 0.0 for o in obs) else 0
    return gnet.band_cov(n, band, lambda i, j: d[i][0] if i == j else d[i][1])


def vec_cov(nvec):
    """band-2 covariance matrix of nvec vectors: VEC_COV blocks plus weak correlations between
    neighbouring vectors inside the band (the active sub-matrix is what counts)"""
    n = 3 * nvec
    def f(i, j):
        if i // 3 == j // 3: return VEC_COV[i % 3][j % 3]
        return 1.5 if j - i <= 2 else 0.0
    return gnet.band_cov(n, 2, f)


def build_net(T, subset, signs, params, passive=()):
    """subset: sorted tuple of candidate indices; signs: dict cand index -> +1/-1;
    passive: tuple of (cluster key, position): a passive observation is inserted before the
    active member `position` of that cluster (position = cluster size: after the last one)"""
    pts = [p.copy() for p in T.points]
    clusters = {}
    order = []
    for i in subset:
        c = T.cand[i]
        o = c["obs"].copy()
        if o.kind == "vec":
            o.err = tuple(f * s * 1e-3 for f, s in zip(c["fixed_err"], VEC_SIG))
        elif o.kind == "coord":
            sg = signs[i] if c["noisy"] else 1
            o.err = tuple(sg * f * s * 1e-3 for f, s in zip(c["fixed_err"], o.csig[:2]))
        elif c["noisy"]:
            o.err = signs[i] * noise_unit(o)
        else:
            o.err = c["fixed_err"] * noise_unit(o)
        key = c["cl"]
        if key not in clusters:
            if key.startswith("s"):
                clusters[key] = Cluster("obs", [], frm=o.frm)
            elif key == "o":
                clusters[key] = Cluster("obs", [])
            elif key == "h":
                clusters[key] = Cluster("height-differences", [])
            elif key == "v":
                clusters[key] = Cluster("vectors", [])
            elif key.startswith("g"):
                clusters[key] = Cluster("coordinates", [])
            order.append(key)
        clusters[key].obs.append(o)
    cl = [clusters[k] for k in order]
    net = Net(pts, cl, **params)
    if T.name == "T2Ci": net.attrs["axes-xy"] = "en"; net.attrs["angles"] = "left-handed"
    gnet.fill_values(net)
    for k, (key, pos) in enumerate(sorted(passive, key=lambda kp: (kp[0], kp[1]))):
        o, pt = passive_obs(T, key, k + 1)
        c = clusters[key]
        act = [x for x in c.obs if not getattr(x, "passive", False)]
        tgt = act[pos] if pos < len(act) else None
        at = c.obs.index(tgt) if tgt is not None else len(c.obs)
        c.obs.insert(at, o)
        net.points.append(pt)
    for c in cl:
        if c.kind == "vectors":
            c.cov = vec_cov(len(c.obs))
        elif c.kind == "coordinates":
            c.cov = coord_cov(c.obs)
    return net


# ---------------------------------------------------------------- reference model
def scalar_rows(net):
    """rows of the ACTIVE observations: dict(key, o, comp, cluster index, position among all
    scalar components of the cluster, sigma or None, angular)"""
    rows = []
    occ = {}
    for ci, c in enumerate(net.clusters):
        pos = 0
        first = len(rows)
        for o in c.obs:
            if getattr(o, "passive", False):
                pos += o.dim(); continue
            if o.kind == "coord":
                # the adjustment XML has one <coordinate-x|y> row per component, identified by the point id
                # only: the key carries the occurrence number (input order) of the point among the active rows
                for j, ch in enumerate(o.comps):
                    t = "coordinate-" + ch
                    n = occ.get((t, o.to), 0); occ[(t, o.to)] = n + 1
                    rows.append({"key": (t, o.to, n), "o": o, "comp": j, "ci": ci, "pos": pos + j, "sigma": None, "ang": False})
            elif o.kind == "vec":
                for j, t in enumerate(("dx", "dy", "dz")):
                    rows.append({"key": (t, o.frm, o.to), "o": o, "comp": j, "ci": ci, "pos": pos + j, "sigma": None, "ang": False})
            elif o.kind == "angle":
                rows.append({"key": ("angle", o.frm, o.bs, o.fs), "o": o, "comp": None, "ci": ci, "pos": pos,
                             "sigma": o.stdev if c.cov is None else None, "ang": True})
            else:
                rows.append({"key": (TAG[o.kind], o.frm, o.to), "o": o, "comp": None, "ci": ci, "pos": pos,
                             "sigma": o.stdev if c.cov is None else None,
                             "ang": o.kind in ("direction", "z-angle", "azimuth")})
            pos += o.dim()
        if c.kind == "coordinates" and c.cov is not None:
            # a member of a <coordinates> cluster is an uncorrelated observation (sigma = sqrt of its
            # variance) iff its covariance with every other ACTIVE member is exactly zero
            Cf = _full_cov(c.cov)
            act = rows[first:]
            for r in act:
                if all(Cf[r["pos"]][q["pos"]] == 0.0 for q in act if q is not r):
                    r["sigma"] = math.sqrt(Cf[r["pos"]][r["pos"]])
    return rows


def _full_cov(cov):
    band, rws = cov
    nf = len(rws)
    Cf = [[0.0] * nf for _ in range(nf)]
    for i, rw in enumerate(rws):
        for j, v in enumerate(rw):
            Cf[i][i + j] = Cf[i + j][i] = v
    return Cf


def xml_key(d):
    if d["tag"] == "angle":
        return ("angle", d["from"], d["left"], d["right"])
    if d["tag"].startswith("coordinate-"):
        return (d["tag"], d.get("id"))
    return (d["tag"], d.get("from"), d.get("to"))


def xml_keys(obs):
    """keys of all <observations> rows in document order; <coordinate-*> rows (identified by the point
    id only) get the occurrence number of (tag, id) appended, as in scalar_rows()"""
    out = []; occ = {}
    for d in obs:
        k = xml_key(d)
        if d["tag"].startswith("coordinate-"):
            n = occ.get(k, 0); occ[k] = n + 1
            k = k + (n,)
        out.append(k)
    return out


def _val(row, C, orient):
    o = row["o"]
    v = gnet.ref_value(o, C, 0.0)
    if row["comp"] is not None:
        v = v[row["comp"]]
    if o.kind == "direction":
        v -= orient.get(o.frm, 0.0)
    return v


def _wrap(d):
    while d > 200.0: d -= 400.0
    while d <= -200.0: d += 400.0
    return d


def jacobian(rows, labels, C0):
    """rows x labels, units mm|cc per mm|cc; labels: (id,'x'|'y'|'z'|'o')"""
    H = 1e-3
    A = []
    for r in rows:
        o = r["o"]
        ids = {o.frm, o.to, o.bs, o.fs}
        sc_row = 1e4 if r["ang"] else 1e3
        a = []
        for (pid, c) in labels:
            if c == "o":
                a.append(-1.0 if (o.kind == "direction" and o.frm == pid) else 0.0)
                continue
            if pid not in ids:
                a.append(0.0); continue
            if o.kind == "coord":
                # an observed coordinate is the unknown itself: the derivative is exactly 1 / 0
                a.append(1.0 if o.comps[r["comp"]] == c else 0.0); continue
            k = "xyz".index(c)
            p = list(C0[pid])
            if p[k] is None:
                a.append(0.0); continue
            Cp = dict(C0); Cm = dict(C0)
            q = list(p); q[k] = p[k] + H; Cp[pid] = tuple(q)
            q = list(p); q[k] = p[k] - H; Cm[pid] = tuple(q)
            d = _val(r, Cp, {}) - _val(r, Cm, {})
            if r["ang"]: d = _wrap(d)
            a.append(d / (2 * H) * sc_row / 1e3)
        A.append(a)
    return A


def inv_spd(M):
    """inverse by Gauss-Jordan with partial pivoting; returns (inverse, min |pivot| / max |diag|)"""
    n = len(M)
    A = [list(M[i]) + [1.0 if i == j else 0.0 for j in range(n)] for i in range(n)]
    scale = max(abs(M[i][i]) for i in range(n)) or 1.0
    minp = float("inf")
    for c in range(n):
        p = max(range(c, n), key=lambda r: abs(A[r][c]))
        if abs(A[p][c]) < 1e-300:
            return None, 0.0
        minp = min(minp, abs(A[p][c]))
        A[c], A[p] = A[p], A[c]
        d = A[c][c]
        A[c] = [x / d for x in A[c]]
        for r in range(n):
            if r != c and A[r][c] != 0.0:
                f = A[r][c]
                A[r] = [x - f * y for x, y in zip(A[r], A[c])]
    return [row[n:] for row in A], minp / scale


def cluster_weights(net, rows):
    """block diagonal weight matrix for m0a = 1: list of (row indices, Cinv)"""
    blocks = []
    by = {}
    for k, r in enumerate(rows):
        by.setdefault(r["ci"], []).append(k)
    for ci, idx in sorted(by.items()):
        c = net.clusters[ci]
        if c.cov is None:
            for k in idx:
                blocks.append(([k], [[1.0 / rows[k]["sigma"] ** 2]]))
        else:
            Cf = _full_cov(c.cov)
            sel = [rows[k]["pos"] for k in idx]                   # covariance of the active members
            Cm = [[Cf[a][b] for b in sel] for a in sel]
            Ci, _ = inv_spd(Cm)
            blocks.append((idx, Ci))
    return blocks


def normal_matrix(A, blocks, n):
    N = [[0.0] * n for _ in range(n)]
    for idx, W in blocks:
        for a, i in enumerate(idx):
            for b, j in enumerate(idx):
                w = W[a][b]
                if w == 0.0: continue
                ai, aj = A[i], A[j]
                for u in range(n):
                    if ai[u] == 0.0: continue
                    t = w * ai[u]
                    Nu = N[u]
                    for v in range(n):
                        Nu[v] += t * aj[v]
    return N


def datum_null(net, labels, C0):
    """basis of the datum defect of a free horizontal network in the units of the
    unknowns (mm, cc): translations, rotation and - without any distance - scale.
    Empty when a point is fixed.  Frame: x north, y east, bearings clockwise."""
    if any(p.xy == "fix" for p in net.points) or not any(p.xy in ("adj", "con") for p in net.points):
        return []
    if any(p.zs in ("adj", "con") and p.z is not None for p in net.points):
        raise NotImplementedError("free 3-D networks are not part of C09")
    G = [[1.0 if c == "x" else 0.0 for (_, c) in labels],
         [1.0 if c == "y" else 0.0 for (_, c) in labels]]
    rot = []
    for (pid, c) in labels:
        if c == "x": rot.append(-C0[pid][1] * 1e3)
        elif c == "y": rot.append(C0[pid][0] * 1e3)
        else: rot.append(gnet.R2G * 1e4)
    G.append(rot)
    has_scale = any(o.kind in ("distance", "s-distance", "vec", "coord") and not getattr(o, "passive", False) for c in net.clusters for o in c.obs)
    if not has_scale:
        G.append([C0[pid][0] * 1e3 if c == "x" else (C0[pid][1] * 1e3 if c == "y" else 0.0) for (pid, c) in labels])
    return G


def constrained_mask(net, labels):
    con = {p.id for p in net.points if p.xy == "con"}
    return [1.0 if (pid in con and c in "xy") else 0.0 for (pid, c) in labels]


def cofactors(N, G, mask):
    """cofactor matrix of the unknowns: N^-1 for a fixed datum; for a free network
    the S-transformed g-inverse S (N + GG')^-1 S', S = I - G (E'G)^-1 E', E = G masked
    to the constrained coordinates (minimum of sum x_i^2 over those coordinates).
    returns (Q, pivot ratio)"""
    n = len(N)
    if not G:
        return inv_spd(N)
    tr = sum(N[i][i] for i in range(n)) / n
    Gn = []
    for g in G:
        nr = math.sqrt(sum(x * x for x in g))
        Gn.append([x / nr * math.sqrt(tr) for x in g])
    Na = [[N[i][j] + sum(g[i] * g[j] for g in Gn) for j in range(n)] for i in range(n)]
    Qa, piv = inv_spd(Na)
    if Qa is None: return None, 0.0
    d = len(Gn)
    E = [[g[i] * mask[i] for i in range(n)] for g in Gn]
    EG = [[sum(E[a][i] * Gn[b][i] for i in range(n)) for b in range(d)] for a in range(d)]
    EGi, piv2 = inv_spd(EG)
    if EGi is None or piv2 < 1e-9: return None, 0.0
    # S = I - G (E'G)^-1 E'
    S = [[(1.0 if i == j else 0.0) - sum(Gn[b][i] * EGi[b][a] * E[a][j] for a in range(d) for b in range(d)) for j in range(n)] for i in range(n)]
    SQ = [[sum(S[i][k] * Qa[k][j] for k in range(n)) for j in range(n)] for i in range(n)]
    Q = [[sum(SQ[i][k] * S[j][k] for k in range(n)) for j in range(n)] for i in range(n)]
    return Q, piv


def determined(net):
    """reference decision used by the lattice walk: full column rank (after removing the
    datum defect of a free network) and well conditioned (see the bound below)"""
    rows = scalar_rows(net)
    labels = ref_labels(net)
    C0 = {p.id: (p.x, p.y, p.z) for p in net.points}
    A = jacobian(rows, labels, C0)
    G = datum_null(net, labels, C0)
    if len(rows) < len(labels) - len(G): return False
    N = normal_matrix(A, cluster_weights(net, rows), len(labels))
    d = [math.sqrt(N[i][i]) if N[i][i] > 0 else 0.0 for i in range(len(labels))]
    if min(d) == 0.0: return False
    n = len(labels)
    Ns = [[N[i][j] / (d[i] * d[j]) for j in range(n)] for i in range(n)]
    Gs = [[g[i] * d[i] for i in range(n)] for g in G]
    Q, piv = cofactors(Ns, Gs, [1.0] * n)
    if Q is None or piv <= 1e-6: return False
    # conditioning bound of the alphabet: variance inflation (largest diagonal element of the
    # inverse of the correlation-scaled normal matrix) <= 1000.  All nodes of the four templates
    # have <= 117 except T3 {sBP, sCP, zAP [, hCQ], vBQ} (10632: P lies between B and C in plan,
    # its height hangs on the difference of two nearly antiparallel slope distances), where the
    # four algorithms of gama-local themselves end in three different ways.
    return max(Q[i][i] for i in range(n)) <= 1000.0


def ref_labels(net):
    """unknowns of the reference model (order irrelevant for counting)"""
    L = []
    for p in net.points:
        if p.xy in ("adj", "con") and p.x is not None: L += [(p.id, "x"), (p.id, "y")]
        if p.zs in ("adj", "con") and p.z is not None: L += [(p.id, "z")]
    for c in net.clusters:
        if c.kind == "obs" and c.frm is not None and any(o.kind == "direction" and not getattr(o, "passive", False) for o in c.obs):
            L.append((c.frm, "o"))
    return L


def single_direction_set(net):
    for c in net.clusters:
        if c.kind == "obs":
            n = len({o.to for o in c.obs if o.kind == "direction" and not getattr(o, "passive", False)})
            if n == 1: return True
    return False


# ---------------------------------------------------------------- lattice
def lattice(T):
    """walk DOWN from the full template removing one observation at a time
    while the network stays determined (reference decision) and dof >= 0.
    returns (nodes, edges, status): nodes = subsets that are executed,
    edges = (parent subset, child subset, removed candidate index) between
    executed nodes.  Nodes in which a direction set is left with exactly one
    direction are passed through but not executed (gama drops such a
    direction in LocalNetwork::revision_observations: the node is the same
    adjustment as its child without that direction)."""
    top = tuple(range(len(T.cand)))
    signs0 = {i: 1 for i in T.noisy}
    par0 = {"sigma-apr": 10.0, "conf-pr": 0.95, "tol-abs": 1000.0, "sigma-act": "aposteriori"}

    def classify(s):
        net = build_net(T, s, signs0, par0)
        if not determined(net): return None
        return "pass" if single_direction_set(net) else "exec"

    status = {top: classify(top)}
    if status[top] is None: raise ValueError("template %s is not determined" % T.name)
    frontier = [top]; edges = []
    while frontier:
        nxt = []
        for s in frontier:
            for i in s:
                ch = tuple(j for j in s if j != i)
                if not ch: continue
                if ch not in status:
                    status[ch] = classify(ch)
                    if status[ch]: nxt.append(ch)
                if status[ch] == "exec" and status[s] == "exec":
                    edges.append((s, ch, i))
        frontier = nxt
    nodes = sorted((s for s in status if status[s] == "exec"), key=lambda s: (-len(s), s))
    return nodes, edges, status


def variants(T):
    """passive-observation variants of the full template: for every cluster one passive
    observation at every position (before member 0 .. after the last member) and every
    pair of positions for two passive observations (equal positions = adjacent)"""
    keys = []
    for c in T.cand:
        if c["cl"] not in keys: keys.append(c["cl"])
    out = []
    for key in keys:
        n = sum(1 for c in T.cand if c["cl"] == key)
        for p1 in range(n + 1):
            out.append(((key, p1),))
        for p1 in range(n + 1):
            for p2 in range(p1, n + 1):
                out.append(((key, p1), (key, p2)))
    return out


def patterns(T, subset):
    """all sign patterns on the noisy observations present in subset"""
    ns = [i for i in subset if i in T.noisy]
    for m in range(1 << len(ns)):
        yield {i: (1 if (m >> k) & 1 else -1) for k, i in enumerate(ns)}


def pattern_str(T, subset, signs):
    return "".join(("+" if signs[i] > 0 else "-") if i in signs else "0" for i in subset)


# ---------------------------------------------------------------- text output
def parse_text(txt):
    """English text output -> dict of tables"""
    out = {"unk": {}, "obs": {}, "res": {}, "ell": {}, "gen": {}}
    lines = txt.splitlines()
    sec = None
    heads = {"Adjusted coordinates": "unk", "Adjusted heights": "unk", "Adjusted orientation unknowns": "unk",
             "Mean errors and parameters of error ellipses": "ell", "Adjusted observations": "obs",
             "Residuals and analysis of observations": "res", "Outlying observations": "res2",
             "General parameters of the adjustment": "gen", "Fixed points": None}
    num = r"[-+]?(?:\d+\.\d*|\.\d+|\d+)(?:[eE][-+]?\d+)?"
    for k, ln in enumerate(lines):
        t = ln.strip()
        if k + 1 < len(lines) and t and set(lines[k + 1].strip()) == {"*"}:
            sec = heads.get(t, None)
            continue
        if not t or set(t) <= set("*=-") or "===" in t: continue
        tok = t.split()
        if sec == "gen":
            m = re.match(r"m0\s+apriori\s*:\s*(%s)" % num, t)
            if m: out["gen"]["m0a"] = float(m.group(1))
            m = re.match(r"m0' aposteriori\s*:\s*(%s)\s+\[pvv\] : (%s)" % (num, num), t)
            if m: out["gen"]["m0e"] = float(m.group(1)); out["gen"]["pvv"] = float(m.group(2))
            m = re.match(r"- with (aposteriori|apriori) standard deviation\s*(%s)" % num, t)
            if m: out["gen"]["used"] = m.group(1); out["gen"]["m0"] = float(m.group(2))
            m = re.match(r"- with confidence level\s*(%s) %%" % num, t)
            if m: out["gen"]["conf"] = float(m.group(1))
            m = re.match(r"Ratio m0' aposteriori / m0 apriori: (%s)" % num, t)
            if m: out["gen"]["ratio"] = float(m.group(1))
            m = re.match(r"(%s) %% interval \((%s), (%s)\) (contains|does not contain) value" % (num, num, num), t)
            if m:
                out["gen"]["lower"] = float(m.group(2)); out["gen"]["upper"] = float(m.group(3))
                out["gen"]["contains"] = (m.group(4) == "contains")
            m = re.match(r"Degrees of freedom\s*:\s*(\d+)", t)
            if m: out["gen"]["dof"] = int(m.group(1))
            m = re.match(r"Maximal decrease of m0''/m0 on elimination of one observation: (%s)" % num, t)
            if m: out["gen"]["maxdec"] = float(m.group(1))
        elif sec == "unk":
            # index, name, [*], approx, corr, adj, stdev, conf
            if len(tok) >= 7 and tok[0].isdigit():
                try:
                    out["unk"][int(tok[0])] = (float(tok[-2]), float(tok[-1]))
                except ValueError:
                    pass
        elif sec == "ell":
            if len(tok) >= 6 and tok[0] != "point":
                try:
                    out["ell"][tok[0]] = [float(x) for x in tok[1:]]
                except ValueError:
                    pass
        elif sec == "obs":
            if tok[0].isdigit() and len(tok) >= 3:
                cur = int(tok[0])
                try:
                    out["obs"][cur] = (float(tok[-2]), float(tok[-1]))
                except ValueError:
                    out["obs"][cur] = None      # angle: values on the next line
            elif len(tok) >= 5 and out["obs"] and list(out["obs"].values())[-1] is None:
                out["obs"][list(out["obs"].keys())[-1]] = (float(tok[-2]), float(tok[-1]))
        elif sec == "res":
            if tok[0].isdigit():
                cur = int(tok[0]); rest = tok[1:]
                if len(rest) <= 2 and not any(re.fullmatch(num, x) for x in rest[1:]):
                    out["res"][cur] = None; continue
                out["res"][cur] = _res_fields(rest)
            elif out["res"] and list(out["res"].values())[-1] is None:
                out["res"][list(out["res"].keys())[-1]] = _res_fields(tok)
    return out


def _res_fields(tok):
    """after the names: f [u|w] v [|v'| [m|c|mc] [e-obs e-adj]]"""
    k = 0
    while k < len(tok) and not re.fullmatch(r"[a-z\-]+\.?", tok[k]):
        k += 1
    # tok[k] is the observation type word (dir., dist., angle, ...)
    vals = tok[k + 1:]
    nums = []; marks = []
    for x in vals:
        try: nums.append(float(x))
        except ValueError: marks.append(x)
    d = {"f": nums[0], "v": nums[1], "marks": marks}
    if len(nums) >= 3: d["vs"] = nums[2]
    if len(nums) >= 5: d["eobs"] = nums[3]; d["eadj"] = nums[4]
    return d


# ---------------------------------------------------------------- oracle
class Viol(list):
    def add(self, clause, cls, detail):
        self.append((clause, cls, detail))


def close(a, b, rel, ab):
    return abs(a - b) <= ab + rel * max(abs(a), abs(b))


def residual_units(row, d):
    """v = adj - obs in mm | cc from the XML values"""
    dv = d["adj"] - d["obs"]
    if row["ang"]:
        return _wrap(dv) * 1e4
    return dv * 1e3


def oracle(net, R, text, info=None):
    """evaluate every clause on one result; returns (Viol, summary dict)."""
    V = Viol()
    par = net.params
    m0a = float(par["sigma-apr"]); conf = float(par["conf-pr"]); act = par["sigma-act"]
    rows = scalar_rows(net)
    sm = {}
    # ---- participation / counts ------------------------------------------------
    xobs = {}
    for d, key in zip(R.obs, xml_keys(R.obs)):
        xobs[key] = d
    keys_in = [r["key"] for r in rows]
    if sorted(map(str, keys_in)) != sorted(map(str, xobs.keys())) or len(R.obs) != len(rows):
        miss = [k for k in keys_in if k not in xobs]
        V.add("participation", "obs-set", "input observations %s, xml has %d entries; missing %s" % (len(rows), len(R.obs), miss))
        return V, sm
    labels = []
    for pid in R.adj_order:
        d = R.adjusted[pid]
        if "x" in d or "X" in d: labels += [(pid, "x"), (pid, "y")]
        if "z" in d or "Z" in d: labels += [(pid, "z")]
    for (pid, _, _) in R.orientations:
        labels.append((pid, "o"))
    nref = len(ref_labels(net))
    if R.equations != len(rows): V.add("counts", "equations", "equations %d, active scalar observations %d" % (R.equations, len(rows)))
    if R.unknowns != nref or len(labels) != nref or R.cov_dim != nref:
        V.add("counts", "unknowns", "unknowns %d labels %d cov-dim %d reference %d" % (R.unknowns, len(labels), R.cov_dim, nref))
        return V, sm
    C0 = {}
    for pid, d in R.fixed.items():
        C0[pid] = (d.get("x"), d.get("y"), d.get("z"))
    for pid, d in R.approx.items():
        o = C0.get(pid, (None, None, None))
        C0[pid] = (d.get("x", d.get("X", o[0])), d.get("y", d.get("Y", o[1])), d.get("z", d.get("Z", o[2])))
    G = datum_null(net, labels, C0)
    sm["defect"] = len(G)
    if R.defect != len(G):
        # everything else in this result is a consequence of the misjudged defect
        V.add("counts", "defect", "defect %d (dof %d), datum defect of the network %d: %d equations, %d unknowns" % (R.defect, R.dof, len(G), R.equations, R.unknowns))
        sm["defect-mismatch"] = True
        return V, sm
    # ---- dof -------------------------------------------------------------------
    if R.dof != R.equations - R.unknowns + R.defect:
        V.add("dof", "formula", "dof %d != %d - %d + %d" % (R.dof, R.equations, R.unknowns, R.defect))
    dof = R.equations - R.unknowns + len(G)          # reference value used below
    sm["dof"] = dof
    # ---- [pvv] from obs/adj and the input weights --------------------------------
    v = []
    for r in rows:
        v.append(residual_units(r, xobs[r["key"]]))
    blocks = cluster_weights(net, rows)
    pvv1 = 0.0
    for idx, W in blocks:
        for a, i in enumerate(idx):
            for b, j in enumerate(idx):
                pvv1 += v[i] * W[a][b] * v[j]
    pvv_ref = pvv1 * m0a * m0a
    sm["pvv1"] = pvv1
    if not close(R.pvv, pvv_ref, 2e-7, 1e-9 * m0a * m0a):
        V.add("pvv", "sum", "[pvv] %r, recomputed v'Pv %r" % (R.pvv, pvv_ref))
    # ---- reference deviations ----------------------------------------------------
    sd = R.sd
    if not close(sd.get("apriori", -1), m0a, 1e-7, 0): V.add("m0", "apriori", "apriori %r input %r" % (sd.get("apriori"), m0a))
    if sd.get("used") != act: V.add("m0", "used", "used %r input sigma-act %r" % (sd.get("used"), act))
    m0e_ref = math.sqrt(pvv_ref / dof) if dof > 0 else 0.0
    m0e_f = math.sqrt(R.pvv / dof) if dof > 0 else 0.0
    if not close(sd.get("aposteriori", -1), m0e_f, 1.2e-7, 1e-12) or not close(sd.get("aposteriori", -1), m0e_ref, 3e-7, 1e-6 * m0a):
        V.add("m0", "aposteriori", "aposteriori %r, sqrt([pvv]/dof) %r (from fields) %r (recomputed), dof %d" % (sd.get("aposteriori"), m0e_f, m0e_ref, dof))
    m0 = m0a if act == "apriori" else m0e_ref          # actual reference deviation (precise)
    sm["m0"] = m0
    if abs(sd.get("probability", -1) - conf) > 0.5e-3 + 1e-12:
        V.add("conf", "probability", "probability %r input %r" % (sd.get("probability"), conf))
    # ---- confidence coefficient --------------------------------------------------
    alpha2 = (1.0 - conf) / 2.0
    kp = sd.get("confidence-scale")
    if act == "apriori":
        kref = S.normal_crit(alpha2); ktol = 1e-6 + 1e-7; kcls = "normal"
    elif dof > 0:
        kref = S.student_crit(alpha2, dof); ktol = 5e-4 + 1e-7; kcls = "student"
    else:
        kref = 0.0; ktol = 0.0; kcls = "student-dof0"
    if kp is None or not close(kp, kref, ktol, 1e-12):
        V.add("kp", kcls, "confidence-scale %r reference %r (used %s, dof %d, conf-pr %r)" % (kp, kref, act, dof, conf))
        kp = kref
    # ---- test of the reference deviation -------------------------------------------
    verdict = [t for t in ("passed", "failed", "not-applicable") if t in sd]
    if dof > 0:
        ratio_ref = m0e_ref / m0a
        lo_ref = math.sqrt(S.chi2_crit(1.0 - alpha2, dof) / dof)
        up_ref = math.sqrt(S.chi2_crit(alpha2, dof) / dof)
        if not close(sd.get("ratio", -1), ratio_ref, 1e-6, 0.5e-3 + 1e-9): V.add("m0test", "ratio", "ratio %r reference %r" % (sd.get("ratio"), ratio_ref))
        if not close(sd.get("lower", -1), lo_ref, 2.5e-3, 0.5e-3 + 1e-9): V.add("m0test", "lower", "lower %r reference %r dof %d conf %r" % (sd.get("lower"), lo_ref, dof, conf))
        if not close(sd.get("upper", -1), up_ref, 2.5e-3, 0.5e-3 + 1e-9): V.add("m0test", "upper", "upper %r reference %r dof %d conf %r" % (sd.get("upper"), up_ref, dof, conf))
        inside = lo_ref < ratio_ref < up_ref
        border = min(abs(ratio_ref - lo_ref) / lo_ref if lo_ref > 0 else 1.0, abs(ratio_ref - up_ref) / up_ref) < 3e-3
        sm["m0test"] = "border" if border else ("passed" if inside else "failed")
        if len(verdict) != 1 or verdict[0] == "not-applicable":
            V.add("m0test", "verdict", "verdict tags %r with dof %d" % (verdict, dof))
        elif not border and verdict[0] != ("passed" if inside else "failed"):
            V.add("m0test", "verdict", "%s but ratio %r interval (%r, %r)" % (verdict[0], ratio_ref, lo_ref, up_ref))
    else:
        sm["m0test"] = "n/a"
        if verdict != ["not-applicable"] or sd.get("ratio") != 0 or sd.get("lower") != 0 or sd.get("upper") != 0:
            V.add("m0test", "dof0", "dof 0 but verdict %r ratio %r lower %r upper %r" % (verdict, sd.get("ratio"), sd.get("lower"), sd.get("upper")))
    # ---- reference cofactors -------------------------------------------------------
    A = jacobian(rows, labels, C0)
    n = len(labels)
    for g in G:
        gn = math.sqrt(sum(x * x for x in g))
        for k, a in enumerate(A):
            if abs(sum(x * y for x, y in zip(a, g))) > 1e-6 * gn * math.sqrt(sum(x * x for x in a)):
                V.add("reference", "null-space", "reference datum vector is not in the null space of row %d" % k); return V, sm
    N1 = normal_matrix(A, blocks, n)
    Q1, piv = cofactors(N1, G, constrained_mask(net, labels))
    if Q1 is None:
        V.add("reference", "singular", "reference normal matrix singular"); return V, sm
    # cov-mat of the XML
    M = gnet.cov_full(R)
    covref = [[m0 * m0 * Q1[i][j] / (m0a * m0a) for j in range(n)] for i in range(n)]
    bad = None
    for i in range(n):
        for j in range(i, n):
            if M[i][j] is None: continue
            sc = math.sqrt(abs(covref[i][i] * covref[j][j]))
            if abs(M[i][j] - covref[i][j]) > 2e-6 * sc + 1e-12:
                bad = (i, j, M[i][j], covref[i][j]); break
        if bad: break
    if bad:
        V.add("cov", "matrix", "cov-mat(%s,%s) %r, m0^2*Q reference %r (m0 %r)" % (labels[bad[0]], labels[bad[1]], bad[2], bad[3], m0))
        sm["cov-mismatch"] = True
    # ---- error ellipses = eigen-decomposition of the 2x2 block ----------------------
    for pid, (ea, eb, ealpha) in R.ellipses.items():
        try:
            ix = labels.index((pid, "x")); iy = labels.index((pid, "y"))
        except ValueError:
            V.add("ellipse", "point", "ellipse for %s which has no adjusted xy" % pid); continue
        for src, Cm, rel in (("xml-cov", M, 3e-7), ("ref-cov", covref, 2e-6), ("ref-cofactors", Q1, 2e-6)):
            cxx, cyy, cxy = Cm[ix][ix], Cm[iy][iy], Cm[ix][iy]
            if cxx is None or cxy is None: continue
            if net.attrs.get("axes-xy") == "en" and net.attrs.get("angles") == "left-handed":
                cxy = -cxy       # inconsistent frame (T2Ci): the bearing is counted in gama's working frame, y mirrored
            if src != "xml-cov" and sm.get("cov-mismatch"): continue      # already reported; only the internal consistency is checked
            tr = cxx + cyy
            c = math.hypot(cxx - cyy, 2 * cxy)
            a2 = (tr + c) / 2; b2 = max(0.0, (tr - c) / 2)
            if src != "ref-cofactors":
                tol2 = rel * tr * 4 + 1e-14
                if abs(ea * ea - a2) > tol2 or abs(eb * eb - b2) > tol2 or ea < eb * (1 - 1e-9):
                    V.add("ellipse", "axes|" + src, "%s major %r minor %r; eigenvalues of the 2x2 block give %r %r" % (pid, ea, eb, math.sqrt(max(a2, 0.0)), math.sqrt(b2)))
                if tr == 0.0:
                    sm["ellipse-zero"] = True; continue          # m0 = 0: bearing is checked against the cofactors below
            elif m0 > 0:
                continue                                          # bearing already checked against both covariance matrices
            if tr > 0 and c > 1e-3 * tr:
                # (cos a, sin a) must be the eigenvector of the larger eigenvalue; bearing in [0, pi)
                ux, uy = math.cos(ealpha), math.sin(ealpha)
                rx = cxx * ux + cxy * uy - a2 * ux
                ry = cxy * ux + cyy * uy - a2 * uy
                if math.hypot(rx, ry) > (rel * 8 * tr + 1e-14) or not (-1e-12 <= ealpha < math.pi + 1e-12):
                    V.add("ellipse", "bearing|" + src, "%s alpha %r rad is not the bearing of the major axis of [[%r,%r],[%r,%r]]" % (pid, ealpha, cxx, cxy, cxy, cyy))
                aref = 0.5 * math.atan2(2 * cxy, cxx - cyy)
                if aref < 0: aref += math.pi
                da = abs(ealpha - aref); da = min(da, math.pi - da)
                if da > rel * 8 * tr / c + 1e-12:
                    V.add("ellipse", "alpha-formula|" + src, "%s alpha %r, atan2(2cxy,cxx-cyy)/2 = %r" % (pid, ealpha, aref))
            else:
                sm["ellipse-circular"] = True
    npts = sum(1 for pid in R.adj_order if ("x" in R.adjusted[pid] or "X" in R.adjusted[pid]))
    if len(R.ellipses) != npts:
        V.add("ellipse", "count", "%d ellipses for %d adjusted xy points" % (len(R.ellipses), npts))
    # ---- per observation ---------------------------------------------------------------
    red = 0.0
    sm["obs"] = {}
    for k, r in enumerate(rows):
        d = xobs[r["key"]]
        a = A[k]
        qL = 0.0
        for i in range(n):
            if a[i] == 0.0: continue
            for j in range(n):
                if a[j] != 0.0: qL += a[i] * Q1[i][j] * a[j]
        if r["sigma"] is None:
            # correlated cluster: the residual-cofactor relations are not claimed for it, but the
            # standard deviation of the adjusted observation still is m0 * sqrt(a Q a')
            st_ref = (m0 / m0a) * math.sqrt(max(qL, 0.0))
            if not close(d["stdev"], st_ref, 2e-6, 1e-9):
                V.add("obs", "stdev-correlated", "%s %s-%s (cluster with cov-mat) stdev %r, m0*sqrt(a Q a') = %r" % (
                    r["key"][0], r["key"][1], r["key"][2], d["stdev"], st_ref))
            continue
        sg = r["sigma"]
        p1 = 1.0 / (sg * sg)                  # weight for m0a = 1
        qh = qL * p1                          # homogenised cofactor of the adjusted observation
        red += 1.0 - qh
        p = p1 * m0a * m0a
        nm = "%s %s-%s" % (r["key"][0], r["key"][1], "/".join(map(str, r["key"][2:])))
        # stdev = actual m0 * sqrt(q_L) = (m0/m0a) sqrt(q_h) sigma
        st_ref = (m0 / m0a) * math.sqrt(max(qh, 0.0)) * sg
        if not close(d["stdev"], st_ref, 2e-6, 1e-9):
            V.add("obs", "stdev", "%s stdev %r reference m0*sqrt(q_L) %r (m0 %r q_h %r)" % (nm, d["stdev"], st_ref, m0, qh))
        qrr_ref = max(0.0, (1.0 - qh) / p)
        # q_h is known to 2e-6 relative (reference Jacobian at the printed linearisation point);
        # that uncertainty enters qrr = (1 - q_h)/p scaled by 1/p, which is huge for small sigma-apr
        if not close(d["qrr"], qrr_ref, 2e-6, 0.5e-3 + 1e-9 + 2e-6 * qh / p):
            V.add("obs", "qrr", "%s qrr %r reference 1/p - q_L = %r (p %r q_h %r)" % (nm, d["qrr"], qrr_ref, p, qh))
        f_ref = 100.0 * abs(1.0 - math.sqrt(max(qh, 0.0)))
        if not close(d["f"], f_ref, 2e-6, 0.5e-3 + 2e-4):
            V.add("obs", "f", "%s f %r reference 100(1-sqrt(q_h)) = %r" % (nm, d["f"], f_ref))
        # mutual consistency of the printed fields (no reference Q): q_h from stdev
        if m0 > 0 and dof > 0:
            qh_f = (d["stdev"] * m0a / (m0 * sg)) ** 2
            if abs(d["qrr"] - max(0.0, (1 - qh_f) / p)) > 0.5e-3 + 1e-6 * (1 / p) + 1e-9:
                V.add("obs", "qrr-vs-stdev", "%s qrr %r but stdev gives q_h %r -> (1-q_h)/p = %r" % (nm, d["qrr"], qh_f, (1 - qh_f) / p))
            if abs(d["f"] - 100 * abs(1 - math.sqrt(qh_f))) > 0.5e-3 + 1e-4:
                V.add("obs", "f-vs-stdev", "%s f %r but stdev gives %r" % (nm, d["f"], 100 * abs(1 - math.sqrt(qh_f))))
        has_sr = "std-residual" in d
        fb = abs(f_ref - 0.1) < 2e-3
        sr_ref = None
        if not fb and has_sr != (f_ref >= 0.1):
            V.add("obs", "std-residual-presence", "%s f %r but std-residual %s" % (nm, d["f"], "present" if has_sr else "absent"))
        if has_sr:
            sres = m0 * math.sqrt(qrr_ref)
            sr_ref = abs(v[k]) / sres if sres > 0 else 0.0
            # |v|/(m0 sqrt(qrr)) is ill-conditioned when qrr -> 0: propagate the 2e-6 relative uncertainty of q_h
            tol = 0.5e-3 + 1e-9 + sr_ref * (2e-6 + (2e-6 * qh / max(1 - qh, 1e-300)))
            if abs(d["std-residual"] - sr_ref) > tol:
                V.add("obs", "std-residual", "%s std-residual %r reference |v|/(m0 sqrt(qrr)) = %r (v %r m0 %r qrr %r)" % (nm, d["std-residual"], sr_ref, v[k], m0, qrr_ref))
            want_err = (f_ref >= 5 or (f_ref >= 0.1 and sr_ref > kp))
            eb_ = abs(f_ref - 5) < 2e-3 or fb or (f_ref < 5 and abs(sr_ref - kp) < 1e-3 * max(1.0, kp))
            if not eb_ and ("err-obs" in d) != want_err:
                V.add("obs", "err-presence", "%s f %r std-residual %r kp %r: err-obs %s" % (nm, d["f"], sr_ref, kp, "present" if "err-obs" in d else "absent"))
            if "err-obs" in d and qh < 1:
                eo = v[k] / (1.0 - qh)
                tol = 0.5e-3 + 1e-9 + abs(eo) * (2e-6 + 2e-6 * qh / (1 - qh))
                if abs(d["err-obs"] - eo) > tol or abs(d.get("err-adj", 1e99) - (eo - v[k])) > tol:
                    V.add("obs", "err-obs", "%s err-obs %r err-adj %r reference v/(p qrr) = %r, minus v = %r" % (nm, d["err-obs"], d.get("err-adj"), eo, eo - v[k]))
        sm["obs"][r["key"]] = {"v": v[k], "qh": qh, "f": d["f"], "sr": d.get("std-residual"), "eo": d.get("err-obs"), "ea": d.get("err-adj"),
                               "stdev": d["stdev"], "qrr": d["qrr"], "sigma": sg}
    if all(r["sigma"] is not None for r in rows) and abs(red - dof) > 1e-6:
        V.add("reference", "redundancy", "sum of (1-q_h) = %r, dof %d" % (red, dof))
    sm["kp"] = kp
    # ---- text output (English) ------------------------------------------------------------
    if text is not None:
        T = parse_text(text)
        g = T["gen"]
        sm["text-res-table"] = bool(T["res"])
        def t1(name, got, want, dec, rel=0.0, sci=False):
            tol = 0.5 * 10 ** (-dec) * (1 + 1e-9) + 1e-9 + rel * abs(want)
            if sci and abs(want) >= 999.0:
                # error_ellipses.h switches to scientific notation with `dec` digits for values >= 1000
                tol = 0.5 * 10 ** (math.floor(math.log10(abs(want) * 1.001)) - dec) * (1 + 1e-9) + rel * abs(want) + (1.0 if abs(want) < 1001 else 0.0)
            if got is None or abs(got - want) > tol:
                V.add("text", name, "text prints %r, xml gives %r" % (got, want))
        t1("gen-m0a", g.get("m0a"), m0a, 2)
        t1("gen-m0e", g.get("m0e"), sd.get("aposteriori", 0.0), 2, 1e-7)
        if g.get("pvv") is None or not close(g["pvv"], R.pvv, 0.6e-5, 1e-30): V.add("text", "gen-pvv", "text [pvv] %r xml %r" % (g.get("pvv"), R.pvv))
        if g.get("used") != act: V.add("text", "gen-used", "text says %r" % g.get("used"))
        t1("gen-m0", g.get("m0"), m0, 2, 1e-7)
        if g.get("dof") != R.dof: V.add("text", "gen-dof", "text dof %r xml %r" % (g.get("dof"), R.dof))
        if dof > 0:
            t1("gen-ratio", g.get("ratio"), m0e_ref / m0a, 3, 1e-6)
            t1("gen-lower", g.get("lower"), sd.get("lower", -1), 3, 0); t1("gen-upper", g.get("upper"), sd.get("upper", -1), 3, 0)
            if sm["m0test"] != "border" and g.get("contains") != (verdict == ["passed"]):
                V.add("text", "gen-verdict", "text contains=%r xml %r" % (g.get("contains"), verdict))
        # manual eq. (6): m0'' after eliminating the observation with the largest v^2/q_v
        # (general_parameters.h: aposteriori mode, dof > 1, candidates with q_v > 1e-4)
        if act == "aposteriori" and dof > 1 and all(r["sigma"] is not None for r in rows):
            cands = []; border = False
            for kk, dd in sm["obs"].items():
                qv = (1.0 - dd["qh"]) * dd["sigma"] ** 2 / (m0a * m0a)
                if 0.5e-4 < qv < 2e-4: border = True
                if qv > 1e-4: cands.append(dd["v"] ** 2 / dd["sigma"] ** 2 / (1.0 - dd["qh"]))
            if cands and not border:
                x = pvv1 - max(cands); eps = 1e-5 * pvv1
                ref = math.sqrt(abs(x) / (dof - 1))
                tol = 0.5e-3 + 1e-9 + abs(math.sqrt((abs(x) + eps) / (dof - 1)) - math.sqrt(max(abs(x) - eps, 0.0) / (dof - 1)))
                if g.get("maxdec") is None or abs(g["maxdec"] - ref) > tol:
                    V.add("text", "gen-maxdec", "text 'maximal decrease of m0''/m0' %r, sqrt(([pvv] - max v^2/q_v)/(dof-1))/m0a = %r" % (g.get("maxdec"), ref))
                sm["maxdec"] = True
        # unknowns
        for i in range(n):
            oi = R.orig_index[i] if i < len(R.orig_index) else None
            got = T["unk"].get(oi)
            if M[i][i] is None: continue
            s = math.sqrt(max(M[i][i], 0.0))
            if got is None:
                V.add("text", "unk-missing", "no text row for unknown %s index %r" % (labels[i], oi)); continue
            t1("unk-stdev", got[0], s, 1, 1e-7)
            t1("unk-conf", got[1], s * kp, 1, 2e-7)
        # adjusted observations / residual table (rows in input order = xml order)
        for k, d in enumerate(R.obs):
            got = T["obs"].get(k + 1)
            if not got:
                V.add("text", "obs-missing", "no text row for observation %d" % (k + 1)); continue
            t1("obs-stdev", got[0], d["stdev"], 1)
            t1("obs-conf", got[1], d["stdev"] * kp, 1, 1e-7)
        if dof > 1:
            for k, d in enumerate(R.obs):
                got = T["res"].get(k + 1)
                if not got:
                    V.add("text", "res-missing", "no residual row for observation %d" % (k + 1)); continue
                t1("res-f", got["f"], d["f"], 1, 0)
                t1("res-v", got["v"], v[k], 3, 0)
                if ("vs" in got) != ("std-residual" in d): V.add("text", "res-vs-presence", "obs %d |v'| %r xml %r" % (k + 1, got.get("vs"), d.get("std-residual")))
                elif "vs" in got: t1("res-vs", got["vs"], d["std-residual"], 1, 0)
                if "eobs" in got and "err-obs" in d:
                    t1("res-eobs", got["eobs"], d["err-obs"], 1, 0); t1("res-eadj", got["eadj"], d["err-adj"], 1, 0)
        elif T["res"]:
            V.add("text", "res-table", "residual table printed with dof %d" % dof)
        # ellipses: mp mxy a b alpha[g] a' b' g
        if act == "apriori":
            kell = math.sqrt(-2.0 * math.log(1.0 - conf))
        else:
            kell = math.sqrt(dof * ((1.0 - conf) ** (-2.0 / dof) - 1.0)) if dof > 0 else 0.0
        sm["kell"] = kell
        for pid, (ea, eb, ealpha) in R.ellipses.items():
            got = T["ell"].get(pid)
            if not got or len(got) < 5:
                V.add("text", "ell-missing", "no ellipse row for %s" % pid); continue
            ix = labels.index((pid, "x")); iy = labels.index((pid, "y"))
            mp = math.sqrt(max(M[ix][ix] + M[iy][iy], 0.0))
            t1("ell-mp", got[0], mp, 1, 1e-7, True); t1("ell-mxy", got[1], mp / math.sqrt(2), 1, 1e-7, True)
            t1("ell-a", got[2], ea, 1, 0, True); t1("ell-b", got[3], eb, 1, 0, True); t1("ell-alpha", got[4], ealpha * gnet.R2G, 1)
            if 1e-3 < mp < 1000 and len(got) >= 7:
                # a' = k a with P(point inside) = conf-pr; gama's Chi_square(alpha,2) is exact, the F form too
                t1("ell-conf-a", got[5], ea * kell, 1, 1e-6, True); t1("ell-conf-b", got[6], eb * kell, 1, 1e-6, True)
    return V, sm


# ---------------------------------------------------------------- relations between runs
def sigma_apr_relation(runs):
    """runs: list of (m0a, R, sm) that differ only in sigma-apr.  Returns Viol.
    Prescribed scaling (weights p = (m0a/sigma)^2):
      [pvv] ~ m0a^2, aposteriori ~ m0a, qrr ~ m0a^-2;
      adjusted values, residuals, ratio, lower/upper, confidence-scale, verdict,
      cov-mat, ellipses, stdev, f, std-residual, err-obs, err-adj: unchanged
      in BOTH sigma-act modes (apriori: cov = m0a^2 * (A'PA)^-1 and P ~ m0a^2)."""
    V = Viol()
    (a0, R0, s0) = runs[0]
    for (a1, R1, s1) in runs[1:]:
        tag = "%g->%g" % (a0, a1)
        k0 = [xml_key(d) for d in R0.obs]; k1 = [xml_key(d) for d in R1.obs]
        if k0 != k1 or R0.adj_order != R1.adj_order:
            V.add("sigma-apr", "participation", "%s observations taking part change: %d vs %d (%s)" % (
                tag, len(k0), len(k1), sorted(set(map(str, k0)) ^ set(map(str, k1)))))
            continue
        for nm in ("equations", "unknowns", "dof", "defect"):
            if getattr(R0, nm) != getattr(R1, nm): V.add("sigma-apr", nm, "%s %s %r vs %r" % (tag, nm, getattr(R0, nm), getattr(R1, nm)))
        for pid in R0.adj_order:
            for c, x in R0.adjusted[pid].items():
                if c != "id" and abs(x - R1.adjusted[pid].get(c, 1e99)) > 1e-9:
                    V.add("sigma-apr", "adjusted", "%s %s.%s %r vs %r" % (tag, pid, c, x, R1.adjusted[pid].get(c)))
        for (o0, o1) in zip(R0.orientations, R1.orientations):
            if abs(o0[2] - o1[2]) > 1e-6 + 1e-12: V.add("sigma-apr", "orientation", "%s %r vs %r" % (tag, o0, o1))
        sc = (a1 / a0) ** 2
        if not close(R0.pvv * sc, R1.pvv, 3e-7, 1e-9 * a1 * a1):
            V.add("sigma-apr", "pvv-scaling", "%s [pvv] %r -> %r, prescribed factor %r" % (tag, R0.pvv, R1.pvv, sc))
        if not close(R0.sd["aposteriori"] * a1 / a0, R1.sd["aposteriori"], 3e-7, 1e-6 * a1):
            V.add("sigma-apr", "aposteriori-scaling", "%s aposteriori %r -> %r" % (tag, R0.sd["aposteriori"], R1.sd["aposteriori"]))
        for nm, ab in (("ratio", 1e-3 + 1e-9), ("lower", 1e-9), ("upper", 1e-9)):
            if abs(R0.sd.get(nm, 0) - R1.sd.get(nm, 0)) > ab: V.add("sigma-apr", nm, "%s %s %r vs %r" % (tag, nm, R0.sd.get(nm), R1.sd.get(nm)))
        if not close(R0.sd["confidence-scale"], R1.sd["confidence-scale"], 1e-12, 0): V.add("sigma-apr", "confidence-scale", "%s %r vs %r" % (tag, R0.sd["confidence-scale"], R1.sd["confidence-scale"]))
        v0 = [t for t in ("passed", "failed", "not-applicable") if t in R0.sd]; v1 = [t for t in ("passed", "failed", "not-applicable") if t in R1.sd]
        if v0 != v1 and s0.get("m0test") != "border": V.add("sigma-apr", "verdict", "%s %r vs %r" % (tag, v0, v1))
        n = R0.cov_dim
        M0 = gnet.cov_full(R0); M1 = gnet.cov_full(R1)
        done = False
        for i in range(n):
            for j in range(i, n):
                if M0[i][j] is None: continue
                scl = math.sqrt(abs(M0[i][i] * M0[j][j]))
                if abs(M0[i][j] - M1[i][j]) > 3e-7 * scl + 1e-12 and not done:
                    V.add("sigma-apr", "cov-mat", "%s cov(%d,%d) %r vs %r" % (tag, i, j, M0[i][j], M1[i][j])); done = True
        for pid, e0 in R0.ellipses.items():
            e1 = R1.ellipses.get(pid)
            if e1 is None or not close(e0[0], e1[0], 1e-6, 1e-9) or not close(e0[1], e1[1], 1e-6, 1e-9):
                V.add("sigma-apr", "ellipse", "%s %s %r vs %r" % (tag, pid, e0, e1))
            elif e0[0] - e0[1] > 1e-2 * e0[0]:
                da = abs(e0[2] - e1[2]); da = min(da, math.pi - da)
                if da > 1e-5: V.add("sigma-apr", "ellipse-alpha", "%s %s %r vs %r" % (tag, pid, e0, e1))
        for d0, d1 in zip(R0.obs, R1.obs):
            nm = str(xml_key(d0))
            if abs(d0["adj"] - d1["adj"]) > 1e-9: V.add("sigma-apr", "adj-obs", "%s %s adj %r vs %r" % (tag, nm, d0["adj"], d1["adj"]))
            if not close(d0["stdev"], d1["stdev"], 1e-6, 1e-9): V.add("sigma-apr", "stdev", "%s %s stdev %r vs %r" % (tag, nm, d0["stdev"], d1["stdev"]))
            if abs(d0["f"] - d1["f"]) > 1e-3 + 1e-9: V.add("sigma-apr", "f", "%s %s f %r vs %r" % (tag, nm, d0["f"], d1["f"]))
            if abs(d0["qrr"] * a0 * a0 - d1["qrr"] * a1 * a1) > 0.5e-3 * (a0 * a0 + a1 * a1) + 1e-9:
                V.add("sigma-apr", "qrr-scaling", "%s %s qrr %r -> %r (qrr*m0a^2 must be invariant)" % (tag, nm, d0["qrr"], d1["qrr"]))
            for fld in ("std-residual", "err-obs", "err-adj"):
                if (fld in d0) != (fld in d1):
                    near = abs(d0["f"] - 0.1) < 3e-3 or abs(d0["f"] - 5) < 3e-3 or (
                        fld != "std-residual" and "std-residual" in d0 and abs(d0["std-residual"] - R0.sd["confidence-scale"]) < 2e-3)
                    if not near: V.add("sigma-apr", fld + "-presence", "%s %s %s present %r vs %r" % (tag, nm, fld, fld in d0, fld in d1))
                elif fld in d0 and abs(d0[fld] - d1[fld]) > 1e-3 + 1e-9:
                    V.add("sigma-apr", fld, "%s %s %s %r vs %r" % (tag, nm, fld, d0[fld], d1[fld]))
    return V
